#!/bin/bash
# usage: seedcheck.sh <PROP> <n> <demo destination relative to repo root> <go test package> <check id> [more check ids...]
# Confirms a seeded property-breaking change (produced by an independent sub-agent under /tmp/mut-<PROP>/_mutation/<n>)
# in a fresh scratch worktree of /repo's HEAD, runs the named checks against the changed tree, and files it under /verif/seeded.
set -u
PROP=$1; N=$2; DEST=$3; PKG=$4; shift 4
SRC=${SEEDSRC:-/tmp/mut-$PROP/_mutation/$N}
NAME=${SEEDNAME:-$PROP-$N}
WT=/tmp/sv-$NAME
OUT=/verif/seeded/$NAME
export GOFLAGS=-mod=mod GOPROXY=off CGO_LDFLAGS=-L/verif/build/stublib
git -C /repo worktree remove --force $WT 2>/dev/null
git -C /repo worktree add -q --detach $WT HEAD || exit 2
cd $WT
DEMO=$(ls $SRC/*_test.go $SRC/*.go 2>/dev/null | head -1)
mkdir -p "$(dirname "$WT/$DEST")"; cp "$DEMO" "$WT/$DEST"
TESTNAME=$(grep -o "^func Test[A-Za-z0-9_]*" "$DEMO" | sed 's/func //' | paste -sd'|')
clean=$(go test -count=1 -run "^($TESTNAME)\$" $PKG 2>&1 | tail -n 3 | tr '\n' ' ')
if ! git apply $SRC/patch.diff; then echo "PATCH DOES NOT APPLY on HEAD"; exit 2; fi
go build ./... >/dev/null 2>&1
mutated=$(go test -count=1 -run "^($TESTNAME)\$" $PKG 2>&1 | tail -n 3 | tr '\n' ' ')
rm -f "$WT/$DEST"
existing=$(go test -count=1 $PKG 2>&1 | tail -n 2 | tr '\n' ' ')
echo "demo on clean tree : $clean"
echo "demo with change   : $mutated"
echo "existing tests $PKG with change: $existing"
mkdir -p $OUT
cp $SRC/patch.diff $OUT/patch.diff; cp "$DEMO" $OUT/; cp $SRC/NOTES.md $OUT/NOTES.md 2>/dev/null
RES=""
for C in "$@"; do
  cd /verif
  JSIM_REPO=$WT ./check $C quick > /tmp/sv-$NAME-$C.log 2>&1; rc=$?
  keys=$(grep -o "^violation detail \[[^]]*\]" /tmp/sv-$NAME-$C.log | sed 's/violation detail //' | sort -u | head -5 | paste -sd' ')
  echo "check $C against the changed tree: exit=$rc $keys"
  RES="$RES{\"check\":\"$C\",\"exit\":$rc,\"violation_keys\":\"$keys\"},"
done
cat > $OUT/meta.json <<JSON
{"property":"$PROP","n":$N,"demo_destination":"$DEST","demo_package":"$PKG",
 "demo_on_clean_tree":"$(echo $clean | sed 's/"/\\"/g')","demo_with_change":"$(echo $mutated | sed 's/"/\\"/g')",
 "existing_tests_with_change":"$(echo $existing | sed 's/"/\\"/g')",
 "checks_run":[${RES%,}]}
JSON
git -C /repo worktree remove --force $WT
