#!/usr/bin/env python3
"""Regenerates /verif/MANIFEST.json from jsim/props.json (the per-property configuration used by ./check)."""
import json, os
V = os.path.dirname(os.path.abspath(__file__))
props = {f[:-5]: json.load(open(os.path.join(V, "jsim", "props", f))) for f in sorted(os.listdir(os.path.join(V, "jsim", "props"))) if f.endswith(".json")}
allids = [json.loads(l)["id"] for l in open(os.path.join(V, "properties.jsonl"))]
na_reasons = json.load(open(os.path.join(V, "jsim", "not_applicable.json"))) if os.path.exists(os.path.join(V, "jsim", "not_applicable.json")) else {}
baseline = json.load(open("/root/.vp/BASELINE.json"))["cmd"] if os.path.exists("/root/.vp/BASELINE.json") else ""
hooks = json.load(open(os.path.join(V, "jsim", "hooks.json"))) if os.path.exists(os.path.join(V, "jsim", "hooks.json")) else {"source_commits": [], "add_only": True}
claimed = [l.strip() for l in open(os.path.join(V, "jsim", "claimed.txt")) if l.strip() and not l.startswith("#")]
checks = []
for pid in allids:
    if pid not in props or pid not in claimed:
        continue
    c = props[pid]
    checks.append({
        "property_id": pid,
        "quick_cmd": "./check %s quick" % pid,
        "thorough_cmd": "./check %s thorough" % pid,
        "evidence_file": "/verif/evidence/%s.json" % pid,
        "replay_cmd_template": "./check %s --replay {path}" % pid,
        "engine": "jsim/" + c["pkg"],
        "level_claimed": {"category": c["level"], "text": c["level_text"], "design_ref": c.get("design_ref", "DESIGN.md §3 " + pid)},
        "level_note": c["level_note"],
        "technique": c.get("technique", "deterministic simulation with fault injection: seeded search over schedules and fault sequences (choice tape), oracle = reference model / invariants, minimised replay file"),
    })
engines = {}
for pid, c in props.items():
    if pid in claimed:
        engines.setdefault(c["pkg"], []).append(pid)
m = {
    "version": 1,
    "setup_cmd": "./check --setup",
    "hooks": {
        "guard": "verif",
        "enable": "checks build /repo through `replace github.com/NethermindEth/juno => /repo` in /verif/jsim/go.mod (go test -c, plus -tags verif / -overlay where a harness needs it); see DESIGN.md §2.1",
        "baseline_off_cmd": baseline,
        "source_commits": hooks["source_commits"],
        "add_only": hooks["add_only"],
    },
    "engines": [{"name": "jsim/" + k, "path": "/verif/jsim/harness/" + k, "serves_properties": sorted(v),
                 "kind_free_text": "deterministic simulation harness (seeded choice tape, fault injection, reference-model oracles)"} for k, v in sorted(engines.items())],
    "checks": checks,
    "not_applicable": [{"property_id": p, "reason": na_reasons.get(p, "check not built yet in this session (work in progress; design in DESIGN.md §3)")} for p in allids if p not in props or p not in claimed],
    "notes": "All checks are ./check <ID> <tier>; exit 0 clean, exit 1 + VIOLATION line, exit 2 machinery trouble. VERIF_SEED and VERIF_TIER are honoured. Known findings: /verif/known-findings.jsonl.",
}
json.dump(m, open(os.path.join(V, "MANIFEST.json"), "w"), indent=1)
print("MANIFEST.json: %d checks, %d not_applicable" % (len(checks), len(m["not_applicable"])))
