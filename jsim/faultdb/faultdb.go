// Package faultdb wraps any db.KeyValueStore of the repository. It adds nothing to semantics; it
// numbers write events (each Put/Delete/DeleteRange buffered on a batch, or applied directly) and
// commit events (Batch.Write, direct writes), injects an error at a chosen event, calls a hook
// after every successful commit (crash images), and turns the store "dead" after a crash point.
package faultdb

import (
	"bytes"
	"errors"
	"sort"
	"strings"

	"github.com/NethermindEth/juno/db"
)

var (
	ErrInjected = errors.New("faultdb: injected I/O error")
	ErrDead     = errors.New("faultdb: process is dead (crashed)")
)

type Plan struct {
	FailWriteAt  int // index (1-based) of the write event that fails; 0 = none
	FailCommitAt int // index (1-based) of the commit event that fails; 0 = none
	FailReadAt   int // index (1-based) of the read (Get/Has) that fails; 0 = none
	// FailReadMatch, when set, makes the first read (Get/Has) of a key it accepts fail, once; the
	// harness clears it (structure-aware read faults: "the first read of bucket X in this operation").
	FailReadMatch func(key []byte) bool
	// AfterCommit is called after commit k has been applied to the inner store.
	AfterCommit func(k int)
	// BeforeCommit is called before commit k is applied (it may park a scheduler).
	BeforeCommit func(k int)
	// BeforeUpdate is called when a writer opens its batch through the Update/Write helpers, before the
	// writer's callback has done anything (a preemption point at the very start of an operation).
	BeforeUpdate func()
	// BeforeRead is called before every read-side operation (Get, Has, NewIterator, NewSnapshot):
	// a preemption point at which a harness may let another party of the simulation run.
	BeforeRead func(kind string)
	// AfterRead is called after a Get/Has has returned its data to the caller's callback and before
	// the caller goes on: the point at which a racing writer makes what was just read stale.
	AfterRead func(kind string)
}

type DB struct {
	Inner   db.KeyValueStore
	Plan    Plan
	Writes  int
	Commits int
	Reads   int
	Dead    bool
	Paused  bool     // while paused nothing is counted or injected (oracle reads/writes)
	Fired   []string // which injected faults actually fired
}

var _ db.KeyValueStore = (*DB)(nil)

func Wrap(inner db.KeyValueStore) *DB { return &DB{Inner: inner} }

// ResetCounters starts a new numbering (keeps the inner store).
func (d *DB) ResetCounters() { d.Writes, d.Commits, d.Reads, d.Fired = 0, 0, 0, nil }

func (d *DB) writeEvent() error {
	if d.Dead {
		return ErrDead
	}
	if d.Paused {
		return nil
	}
	d.Writes++
	if d.Plan.FailWriteAt != 0 && d.Writes == d.Plan.FailWriteAt {
		d.Fired = append(d.Fired, "write_error")
		return ErrInjected
	}
	return nil
}

func (d *DB) readEvent() error { return d.readEventKey(nil) }

func (d *DB) readEventKey(key []byte) error {
	if d.Dead {
		return ErrDead
	}
	if d.Paused {
		return nil
	}
	d.Reads++
	if key != nil && d.Plan.FailReadMatch != nil && d.Plan.FailReadMatch(key) {
		d.Plan.FailReadMatch = nil
		d.Fired = append(d.Fired, "read_error")
		return ErrInjected
	}
	if d.Plan.BeforeRead != nil {
		d.Plan.BeforeRead("get")
	}
	if d.Plan.FailReadAt != 0 && d.Reads == d.Plan.FailReadAt {
		d.Fired = append(d.Fired, "read_error")
		return ErrInjected
	}
	return nil
}

// commit runs apply as commit event number Commits+1.
func (d *DB) commit(apply func() error) error {
	if d.Dead {
		return ErrDead
	}
	if d.Paused {
		return apply()
	}
	d.Commits++
	k := d.Commits
	if d.Plan.BeforeCommit != nil {
		d.Plan.BeforeCommit(k) // may arm FailCommitAt for this very commit, or park a scheduler
		if d.Dead {
			return ErrDead
		}
	}
	if d.Plan.FailCommitAt != 0 && k == d.Plan.FailCommitAt {
		d.Fired = append(d.Fired, "commit_error")
		return ErrInjected
	}
	if err := apply(); err != nil {
		return err
	}
	if d.Plan.AfterCommit != nil {
		d.Plan.AfterCommit(k)
	}
	return nil
}

func (d *DB) Has(key []byte) (bool, error) {
	if err := d.readEventKey(key); err != nil {
		return false, err
	}
	return d.Inner.Has(key)
}

func (d *DB) Get(key []byte, cb func([]byte) error) error {
	if err := d.readEventKey(key); err != nil {
		return err
	}
	err := d.Inner.Get(key, cb)
	if d.Plan.AfterRead != nil && !d.Paused && !d.Dead {
		d.Plan.AfterRead("get")
	}
	return err
}

func (d *DB) NewIterator(prefix []byte, withUpperBound bool) (db.Iterator, error) {
	if d.Dead {
		return nil, ErrDead
	}
	if d.Plan.BeforeRead != nil && !d.Paused {
		d.Plan.BeforeRead("iterator")
	}
	return d.Inner.NewIterator(prefix, withUpperBound)
}

func (d *DB) Put(key, value []byte) error {
	if err := d.writeEvent(); err != nil {
		return err
	}
	return d.commit(func() error { return d.Inner.Put(key, value) })
}

func (d *DB) Delete(key []byte) error {
	if err := d.writeEvent(); err != nil {
		return err
	}
	return d.commit(func() error { return d.Inner.Delete(key) })
}

func (d *DB) DeleteRange(start, end []byte) error {
	if err := d.writeEvent(); err != nil {
		return err
	}
	return d.commit(func() error { return d.Inner.DeleteRange(start, end) })
}

func (d *DB) NewBatch() db.Batch                     { return &batch{d: d, b: d.Inner.NewBatch()} }
func (d *DB) NewBatchWithSize(n int) db.Batch        { return &batch{d: d, b: d.Inner.NewBatchWithSize(n)} }
func (d *DB) NewIndexedBatch() db.IndexedBatch       { return &ibatch{batch{d: d, b: nil}, d.Inner.NewIndexedBatch()} }
func (d *DB) NewIndexedBatchWithSize(n int) db.IndexedBatch {
	return &ibatch{batch{d: d, b: nil}, d.Inner.NewIndexedBatchWithSize(n)}
}

func (d *DB) NewSnapshot() db.Snapshot {
	if d.Plan.BeforeRead != nil && !d.Paused && !d.Dead {
		d.Plan.BeforeRead("snapshot")
	}
	return d.Inner.NewSnapshot()
}

// Update / Write follow the helpers of the real backends: run fn on a fresh batch, commit only
// when fn returned nil.
func (d *DB) Update(fn func(db.IndexedBatch) error) error {
	if d.Dead {
		return ErrDead
	}
	if d.Plan.BeforeUpdate != nil && !d.Paused {
		d.Plan.BeforeUpdate()
	}
	b := d.NewIndexedBatch()
	if err := fn(b); err != nil {
		_ = b.Close()
		return err
	}
	return b.Write()
}

func (d *DB) Write(fn func(db.Batch) error) error {
	if d.Dead {
		return ErrDead
	}
	if d.Plan.BeforeUpdate != nil && !d.Paused {
		d.Plan.BeforeUpdate()
	}
	b := d.NewBatch()
	if err := fn(b); err != nil {
		_ = b.Close()
		return err
	}
	return b.Write()
}

func (d *DB) Impl() any    { return d.Inner.Impl() }
func (d *DB) Path() string { return d.Inner.Path() }
func (d *DB) Close() error { return d.Inner.Close() }
func (d *DB) WithListener(l db.EventListener) db.KeyValueStore {
	d.Inner = d.Inner.WithListener(l)
	return d
}

type batch struct {
	d *DB
	b db.Batch
}

func (b *batch) Put(k, v []byte) error {
	if err := b.d.writeEvent(); err != nil {
		return err
	}
	return b.b.Put(k, v)
}

func (b *batch) Delete(k []byte) error {
	if err := b.d.writeEvent(); err != nil {
		return err
	}
	return b.b.Delete(k)
}

func (b *batch) DeleteRange(s, e []byte) error {
	if err := b.d.writeEvent(); err != nil {
		return err
	}
	return b.b.DeleteRange(s, e)
}
func (b *batch) Size() int    { return b.b.Size() }
func (b *batch) Close() error { return b.b.Close() }
func (b *batch) Write() error { return b.d.commit(b.b.Write) }

type ibatch struct {
	batch
	ib db.IndexedBatch
}

func (b *ibatch) Put(k, v []byte) error {
	if err := b.d.writeEvent(); err != nil {
		return err
	}
	return b.ib.Put(k, v)
}

func (b *ibatch) Delete(k []byte) error {
	if err := b.d.writeEvent(); err != nil {
		return err
	}
	return b.ib.Delete(k)
}

func (b *ibatch) DeleteRange(s, e []byte) error {
	if err := b.d.writeEvent(); err != nil {
		return err
	}
	return b.ib.DeleteRange(s, e)
}
func (b *ibatch) Size() int    { return b.ib.Size() }
func (b *ibatch) Close() error { return b.ib.Close() }
func (b *ibatch) Write() error { return b.d.commit(b.ib.Write) }
func (b *ibatch) Has(k []byte) (bool, error) {
	if err := b.d.readEventKey(k); err != nil {
		return false, err
	}
	return b.ib.Has(k)
}

func (b *ibatch) Get(k []byte, cb func([]byte) error) error {
	if err := b.d.readEventKey(k); err != nil {
		return err
	}
	err := b.ib.Get(k, cb)
	if b.d.Plan.AfterRead != nil && !b.d.Paused && !b.d.Dead {
		b.d.Plan.AfterRead("batch.get")
	}
	return err
}

func (b *ibatch) NewIterator(p []byte, ub bool) (db.Iterator, error) {
	if b.d.Dead {
		return nil, ErrDead
	}
	return b.ib.NewIterator(p, ub)
}

// ---------------------------------------------------------------------------------------------

type KV struct{ K, V []byte }

// IsInjected recognises the injected error even when the code under test re-wrapped it with %v.
func IsInjected(err error) bool {
	return err != nil && (errors.Is(err, ErrInjected) || strings.Contains(err.Error(), ErrInjected.Error()))
}

// Image dumps the whole store in key order.
func Image(r db.KeyValueReader) ([]KV, error) {
	it, err := r.NewIterator(nil, false)
	if err != nil {
		return nil, err
	}
	defer it.Close()
	var out []KV
	for ok := it.First(); ok; ok = it.Next() {
		v, err := it.Value()
		if err != nil {
			return nil, err
		}
		out = append(out, KV{append([]byte(nil), it.Key()...), append([]byte(nil), v...)})
	}
	sort.Slice(out, func(i, j int) bool { return bytes.Compare(out[i].K, out[j].K) < 0 })
	return out, nil
}

// Diff returns the keys that differ between two images (bounded).
func Diff(a, b []KV, max int) (onlyA, onlyB, changed [][]byte) {
	i, j := 0, 0
	for (i < len(a) || j < len(b)) && len(onlyA)+len(onlyB)+len(changed) < max {
		switch {
		case j >= len(b) || (i < len(a) && bytes.Compare(a[i].K, b[j].K) < 0):
			onlyA = append(onlyA, a[i].K)
			i++
		case i >= len(a) || bytes.Compare(a[i].K, b[j].K) > 0:
			onlyB = append(onlyB, b[j].K)
			j++
		default:
			if !bytes.Equal(a[i].V, b[j].V) {
				changed = append(changed, a[i].K)
			}
			i++
			j++
		}
	}
	return
}
