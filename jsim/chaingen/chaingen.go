// Package chaingen generates valid Starknet chains from the tape: state diffs relative to the
// abstract state (refstate), transactions of every kind/version, receipts with events and
// messages, and headers whose state root is computed by the REFERENCE model (not by the node) and
// whose block hash is computed with the repository's hash formula (trusted, pinned by fixtures).
package chaingen

import (
	"fmt"
	"math/big"

	"github.com/NethermindEth/juno/blockchain/networks"
	"github.com/NethermindEth/juno/core"
	"github.com/NethermindEth/juno/core/felt"
	"github.com/NethermindEth/juno/l1/eth"

	"jsim/refmpt"
	"jsim/refstate"
	"jsim/tape"
)

var Versions = []string{"0.13.2", "0.13.4", "0.14.0", "0.14.1"}

// LegacyVersions use the block hash family of before 0.13.2 (Pedersen hash over number, state
// root, sequencer address, timestamp, transaction count and commitment, event count and
// commitment, parent hash): gas prices, DA mode, the version string, receipt fields other than
// events and the state diff itself are NOT committed by that hash. Only harnesses that know this
// (C02's tampering catalogue) opt in through AllVersions.
var LegacyVersions = []string{"0.12.3", "0.13.1"}

// AllVersions is LegacyVersions followed by Versions (versions never decrease along a chain).
var AllVersions = append(append([]string(nil), LegacyVersions...), Versions...)

// IsLegacy reports whether v hashes blocks with the pre-0.13.2 family.
func IsLegacy(v string) bool { return v < "0.13.2" }

type Block struct {
	B       *core.Block
	SU      *core.StateUpdate
	Classes map[felt.Felt]core.ClassDefinition
	Pre     *refstate.State // abstract state before the block
	Post    *refstate.State // abstract state after the block
	Version string
	Salt    uint64
}

type Opts struct {
	Version    string
	MaxTxs     int
	MaxDiff    int // upper bound on the number of diff "actions"
	MaxEvents  int
	Salt       uint64 // makes forks differ
	Empty      bool   // an empty filler block
	NoClasses  bool
	MinTime    uint64
	EventHeavy bool
	// HugeProgram > 0: the block declares one extra Sierra class whose program has that many felts
	// (with zeros in it).
	HugeProgram int
}

type Gen struct {
	Net   *networks.Network
	Addrs []felt.Felt
	Slots []felt.Felt
	EKeys []felt.Felt
	nonce uint64
}

func f(u uint64) felt.Felt { return felt.FromUint64[felt.Felt](u) }

func fp(u uint64) *felt.Felt { v := f(u); return &v }

func fromBig(b *big.Int) felt.Felt {
	var x felt.Felt
	x.SetBigInt(b)
	return x
}

var starkPrime, _ = new(big.Int).SetString("800000000000011000000000000000000000000000000000000000000000001", 16)

func pow2(n uint) *big.Int { return new(big.Int).Lsh(big.NewInt(1), n) }

func New() *Gen {
	g := &Gen{Net: &networks.Sepolia}
	// contract addresses: long shared prefixes, last-bit differences, extremes
	g.Addrs = []felt.Felt{
		f(0x100), f(0x101), f(0x180), f(0x7),
		fromBig(new(big.Int).Add(pow2(250), big.NewInt(1))),
		fromBig(new(big.Int).Add(pow2(250), big.NewInt(2))),
		fromBig(new(big.Int).Sub(pow2(251), big.NewInt(1))),
		fromBig(pow2(128)),
	}
	g.Slots = []felt.Felt{
		f(0), f(1), f(2), f(3), f(0x100), f(0x101),
		fromBig(new(big.Int).Sub(pow2(251), big.NewInt(1))),
		fromBig(new(big.Int).Sub(pow2(251), big.NewInt(2))),
		fromBig(pow2(250)),
		fromBig(new(big.Int).Add(pow2(250), big.NewInt(1))),
	}
	g.EKeys = []felt.Felt{f(0xa), f(0xb), f(0xc), f(0xd)}
	return g
}

func (g *Gen) pick(t *tape.Tape, l string, xs []felt.Felt) felt.Felt { return xs[t.Draw(l, len(xs))] }

func (g *Gen) smallFelt(t *tape.Tape, l string) felt.Felt {
	switch t.Draw(l+".k", 4) {
	case 0:
		return f(uint64(t.Draw(l, 4)))
	case 1:
		return f(t.U64(l))
	case 2:
		return fromBig(new(big.Int).Sub(pow2(251), big.NewInt(int64(1+t.Draw(l, 3)))))
	default:
		return f(uint64(1 + t.Draw(l, 250)))
	}
}

// synthetic classes ------------------------------------------------------------------------------

func (g *Gen) sierraClass(id uint64) (*core.SierraClass, felt.Felt) {
	c := &core.SierraClass{
		Abi:             fmt.Sprintf(`[{"id":%d}]`, id),
		AbiHash:         fp(0xab1000 + id),
		ProgramHash:     fp(0x9e0000 + id),
		Program:         []felt.Felt{f(1), f(6), f(0), f(id)},
		SemanticVersion: "0.1.0",
		EntryPoints: core.SierraEntryPointsByType{
			Constructor: []core.SierraEntryPoint{},
			External:    []core.SierraEntryPoint{{Index: 0, Selector: fp(0x5e1 + id)}},
			L1Handler:   []core.SierraEntryPoint{},
		},
		Compiled: &core.CasmClass{
			Bytecode:        []felt.Felt{f(0x480680017fff8000), f(id), f(0x208b7fff7fff7ffe)},
			PythonicHints:   []byte(`[]`),
			Hints:           []byte(`[]`),
			CompilerVersion: "2.1.0",
			Prime:           starkPrime,
			External:        []core.CasmEntryPoint{{Offset: 0, Builtins: []string{"range_check"}, Selector: fp(0x5e1 + id)}},
			L1Handler:       []core.CasmEntryPoint{},
			Constructor:     []core.CasmEntryPoint{},
		},
	}
	h, err := c.Hash()
	if err != nil {
		panic(err)
	}
	return c, h
}

func (g *Gen) cairo0Class(id uint64) (*core.DeprecatedCairoClass, felt.Felt) {
	c := &core.DeprecatedCairoClass{
		Abi:          []byte(fmt.Sprintf(`[{"name":"f%d","type":"function"}]`, id)),
		Externals:    []core.DeprecatedEntryPoint{{Selector: fp(0xe0 + id), Offset: fp(id)}},
		L1Handlers:   []core.DeprecatedEntryPoint{},
		Constructors: []core.DeprecatedEntryPoint{},
		Program:      fmt.Sprintf("H4sIAAAAAAAA-cairo0-%d", id),
	}
	// Cairo-0 class hashes are not verified by the node (VM-dependent); any unique felt will do.
	return c, f(0xc0000000 + id)
}

// Next generates the successor of parent (nil: genesis).
func (g *Gen) Next(t *tape.Tape, parent *Block, o Opts) *Block {
	var pre *refstate.State
	num := uint64(0)
	parentHash := felt.Zero
	oldRoot := felt.Zero
	ts := uint64(1_700_000_000)
	if parent != nil {
		pre = parent.Post
		num = parent.B.Number + 1
		parentHash = *parent.B.Hash
		oldRoot = *parent.B.GlobalStateRoot
		ts = parent.B.Timestamp
	} else {
		pre = refstate.New()
	}
	if parent == nil && o.MinTime > 0 {
		ts = o.MinTime
	}
	if ts < o.MinTime {
		ts = o.MinTime
	}
	post := pre
	if !o.Empty {
		post = pre.Clone()
	}
	diff := &core.StateDiff{
		StorageDiffs:      map[felt.Felt]map[felt.Felt]*felt.Felt{},
		Nonces:            map[felt.Felt]*felt.Felt{},
		DeployedContracts: map[felt.Felt]*felt.Felt{},
		DeclaredV0Classes: []*felt.Felt{},
		DeclaredV1Classes: map[felt.Felt]*felt.Felt{},
		ReplacedClasses:   map[felt.Felt]*felt.Felt{},
		MigratedClasses:   map[felt.SierraClassHash]felt.CasmClassHash{},
	}
	classes := map[felt.Felt]core.ClassDefinition{}
	ver, _ := core.ParseBlockVersion(o.Version)
	isV2 := !ver.LessThan(core.Ver0_14_1)

	if !o.Empty {
		g.genDiff(t, pre, diff, classes, o, num, isV2)
	}
	if o.HugeProgram > 0 {
		c, h := g.sierraClass(o.Salt*1000 + num*16 + 15)
		if _, ok := pre.Classes[h]; !ok && classes[h] == nil {
			prog := make([]felt.Felt, o.HugeProgram)
			prog[0], prog[1] = f(1), f(6) // version 1.6.0: the patch component is the felt zero
			for i := 3; i < len(prog); i++ {
				if i%7 != 0 {
					prog[i] = f(uint64(i))
				}
			}
			c.Program = prog
			var casm felt.Felt
			if isV2 {
				casm = c.Compiled.Hash(core.HashVersionV2)
			} else {
				casm = c.Compiled.Hash(core.HashVersionV1)
			}
			diff.DeclaredV1Classes[h] = &casm
			classes[h] = c
		}
	}
	if !o.Empty {
		post.Apply(num, o.Version, diff, classes)
	}

	var txs []core.Transaction
	var rcpts []*core.TransactionReceipt
	if !o.Empty {
		txs, rcpts = g.genTxs(t, o, ver.LessThan(core.Ver0_13_4))
	} else {
		txs, rcpts = []core.Transaction{}, []*core.TransactionReceipt{}
	}
	evCount := uint64(0)
	for _, r := range rcpts {
		evCount += uint64(len(r.Events))
	}
	var root felt.Felt
	if o.Empty && parent != nil && parent.Version == o.Version {
		root = *parent.B.GlobalStateRoot
	} else {
		root = post.Commitment(o.Version)
	}
	h := &core.Header{
		ParentHash:       &parentHash,
		Number:           num,
		GlobalStateRoot:  &root,
		SequencerAddress: g.sequencerAddress(t, o),
		TransactionCount: uint64(len(txs)),
		EventCount:       evCount,
		Timestamp:        ts + 1 + uint64(t.Draw("ts", 40)),
		ProtocolVersion:  o.Version,
		EventsBloom:      core.EventsBloom(rcpts),
		L1GasPriceETH:    fp(1000 + o.Salt),
		L1GasPriceSTRK:   fp(2000 + uint64(t.Draw("gp", 5))),
		L1DAMode:         core.L1DAMode(t.Draw("damode", 2)),
		L1DataGasPrice:   &core.GasPrice{PriceInWei: fp(30 + uint64(t.Draw("gp", 3))), PriceInFri: fp(40)},
		L2GasPrice:       &core.GasPrice{PriceInWei: fp(50), PriceInFri: fp(60 + uint64(t.Draw("gp", 3)))},
		Signatures:       [][]*felt.Felt{},
	}
	b := &core.Block{Header: h, Transactions: txs, Receipts: rcpts}
	hash, _, err := core.BlockHash(b, diff, g.Net, nil, core.DeprecatedTrieBackend)
	if err != nil {
		panic(fmt.Sprintf("chaingen: block hash: %v", err))
	}
	h.Hash = &hash
	su := &core.StateUpdate{BlockHash: &hash, NewRoot: &root, OldRoot: &oldRoot, StateDiff: diff}
	return &Block{B: b, SU: su, Classes: classes, Pre: pre, Post: post, Version: o.Version, Salt: o.Salt}
}

// sequencerAddress: blocks of the legacy hash family are sometimes sequenced by the zero address or
// by the network's fallback address (as long stretches of the real networks were): these are the
// values a verifier falls back to when a block carries no address at all.
func (g *Gen) sequencerAddress(t *tape.Tape, o Opts) *felt.Felt {
	if IsLegacy(o.Version) {
		switch t.Draw("seq.addr", 4) {
		case 1:
			return new(felt.Felt)
		case 2:
			if fb := g.Net.BlockHashMetaInfo.FallBackSequencerAddress; fb != nil {
				return new(*fb)
			}
		}
	}
	return fp(0x5e9 + o.Salt%3)
}

func (g *Gen) genDiff(t *tape.Tape, pre *refstate.State, d *core.StateDiff, classes map[felt.Felt]core.ClassDefinition, o Opts, num uint64, isV2 bool) {
	nAct := t.Range("diff.n", 0, o.MaxDiff)
	existing := func() []felt.Felt {
		var out []felt.Felt
		for _, a := range refstate.SortedFelts(pre.Contracts) {
			if !pre.Contracts[a].System {
				out = append(out, a)
			}
		}
		return out
	}()
	// touchable = existing + deployed in this very block
	var touchable []felt.Felt
	touchable = append(touchable, existing...)
	var classPool []felt.Felt // declared classes usable for deploy/replace
	for _, h := range refstate.SortedFelts(pre.Classes) {
		classPool = append(classPool, h)
	}
	for i := 0; i < nAct; i++ {
		switch t.Draw("diff.act", 10) {
		case 0: // declare a class
			if o.NoClasses {
				continue
			}
			g.nonce++
			id := o.Salt*1000 + num*16 + uint64(i)
			if t.Draw("class.kind", 3) == 0 {
				c, h := g.cairo0Class(id)
				if _, ok := pre.Classes[h]; ok || classes[h] != nil {
					continue
				}
				d.DeclaredV0Classes = append(d.DeclaredV0Classes, &h)
				classes[h] = c
				classPool = append(classPool, h)
			} else {
				c, h := g.sierraClass(id)
				if _, ok := pre.Classes[h]; ok || classes[h] != nil {
					continue
				}
				var casm felt.Felt
				if isV2 {
					casm = c.Compiled.Hash(core.HashVersionV2)
				} else {
					casm = c.Compiled.Hash(core.HashVersionV1)
				}
				d.DeclaredV1Classes[h] = &casm
				classes[h] = c
				classPool = append(classPool, h)
			}
		case 1: // deploy
			a := g.pick(t, "deploy.addr", g.Addrs)
			if _, ok := pre.Contracts[a]; ok {
				continue
			}
			if _, ok := d.DeployedContracts[a]; ok {
				continue
			}
			var ch felt.Felt
			if len(classPool) > 0 && t.Draw("deploy.cls", 4) != 0 {
				ch = classPool[t.Draw("deploy.clsi", len(classPool))]
			} else {
				ch = f(0xdead0000 + uint64(t.Draw("deploy.rawcls", 4)))
			}
			d.DeployedContracts[a] = &ch
			touchable = append(touchable, a)
		case 2: // replace class
			if len(existing) == 0 {
				continue
			}
			a := existing[t.Draw("replace.addr", len(existing))]
			var ch felt.Felt
			if len(classPool) > 0 {
				ch = classPool[t.Draw("replace.cls", len(classPool))]
			} else {
				ch = f(0xbeef0000 + uint64(t.Draw("replace.rawcls", 4)))
			}
			d.ReplacedClasses[a] = &ch
		case 3: // nonce
			if len(touchable) == 0 {
				continue
			}
			a := touchable[t.Draw("nonce.addr", len(touchable))]
			var cur felt.Felt
			if c := pre.Contracts[a]; c != nil {
				cur = c.Nonce
			}
			var n felt.Felt
			n.Add(&cur, fp(uint64(1+t.Draw("nonce.inc", 3))))
			d.Nonces[a] = &n
		case 4: // migrate a class (0.14.1+)
			if !isV2 {
				continue
			}
			for _, h := range refstate.SortedFelts(pre.Classes) {
				c := pre.Classes[h]
				if c.Sierra && c.CasmV1 != nil && c.MigratedAt == 0 {
					if _, done := d.MigratedClasses[felt.SierraClassHash(h)]; !done {
						d.MigratedClasses[felt.SierraClassHash(h)] = felt.CasmClassHash(c.CasmV2)
						break
					}
				}
			}
		case 6: // twin storage: one existing contract's storage is made equal to another's, slot for slot
			// (two storage tries with the same root and the same nodes: whatever shares, caches or
			// deduplicates trie nodes by hash meets the same node under two owners)
			if len(existing) < 2 {
				continue
			}
			src := existing[t.Draw("twin.src", len(existing))]
			dst := existing[t.Draw("twin.dst", len(existing))]
			if src.Equal(&dst) {
				continue
			}
			m := d.StorageDiffs[dst]
			if m == nil {
				m = map[felt.Felt]*felt.Felt{}
				d.StorageDiffs[dst] = m
			}
			sc, dc := pre.Contracts[src], pre.Contracts[dst]
			for _, k := range refstate.SortedFelts(dc.Storage) {
				var z felt.Felt
				if v, ok := sc.Storage[k]; ok {
					z = v
				}
				m[k] = &z
			}
			for _, k := range refstate.SortedFelts(sc.Storage) {
				v := sc.Storage[k]
				m[k] = &v
			}
			// slots the source is written to in this very block are copied too
			for _, k := range refstate.SortedFelts(d.StorageDiffs[src]) {
				v := *d.StorageDiffs[src][k]
				m[k] = &v
			}
			if len(m) == 0 {
				delete(d.StorageDiffs, dst) // neither has any storage: no entry without slots
			}
		case 5: // system contract storage
			a := f(uint64(1 + t.Draw("sys.addr", 2)))
			g.slotWrite(t, pre, d, a, true)
		default: // storage write
			if len(touchable) == 0 {
				continue
			}
			a := touchable[t.Draw("store.addr", len(touchable))]
			g.slotWrite(t, pre, d, a, false)
		}
	}
}

func (g *Gen) slotWrite(t *tape.Tape, pre *refstate.State, d *core.StateDiff, a felt.Felt, system bool) {
	k := g.pick(t, "slot", g.Slots)
	var cur felt.Felt
	if c := pre.Contracts[a]; c != nil {
		cur = c.Storage[k]
	}
	var v felt.Felt
	switch t.Draw("slot.val", 7) {
	case 6: // a value at the edge of the field / of the hash operand decomposition
		bv := refmpt.BoundaryValues()
		v = bv[t.Draw("slot.boundary", len(bv))]
	case 0: // zero: write-back-to-zero, or zero write to a never-written slot
		if system {
			v = f(uint64(1 + t.Draw("slot.v", 9)))
		}
	case 1: // rewrite of the same value
		v = cur
		if system && v.IsZero() {
			v = f(5)
		}
	default:
		v = f(uint64(1 + t.Draw("slot.v", 9)))
	}
	m := d.StorageDiffs[a]
	if m == nil {
		m = map[felt.Felt]*felt.Felt{}
		d.StorageDiffs[a] = m
	}
	m[k] = &v
}

func (g *Gen) feltSlice(t *tape.Tape, l string, max int) []felt.Felt {
	n := t.Draw(l+".n", max+1)
	out := make([]felt.Felt, n)
	for i := range out {
		out[i] = g.smallFelt(t, l)
	}
	return out
}

func txv(v uint64) *core.TransactionVersion { return new(core.TransactionVersion).SetUint64(v) }

func (g *Gen) bounds(t *tape.Tape, with0134 bool) map[core.Resource]core.ResourceBounds {
	m := map[core.Resource]core.ResourceBounds{
		core.ResourceL1Gas: {MaxAmount: uint64(t.Draw("rb", 1000)), MaxPricePerUnit: fp(uint64(1 + t.Draw("rb", 99)))},
		core.ResourceL2Gas: {MaxAmount: uint64(t.Draw("rb", 1000)), MaxPricePerUnit: fp(uint64(t.Draw("rb", 99)))},
	}
	if with0134 && t.Draw("rb.l1data", 2) == 1 {
		m[core.ResourceL1DataGas] = core.ResourceBounds{MaxAmount: uint64(t.Draw("rb", 1000)), MaxPricePerUnit: fp(uint64(1 + t.Draw("rb", 99)))}
	}
	return m
}

// GenTx generates one transaction of kind k (0..9) with a correct hash.
func (g *Gen) GenTx(t *tape.Tape, kind int, pre0134 bool) core.Transaction {
	g.nonce++
	var tx core.Transaction
	switch kind {
	case 0:
		tx = &core.InvokeTransaction{Version: txv(0), ContractAddress: new(g.pick(t, "tx.addr", g.Addrs)), EntryPointSelector: fp(0xe1),
			CallData: g.feltSlice(t, "tx.cd", 3), TransactionSignature: g.feltSlice(t, "tx.sig", 2), MaxFee: fp(g.nonce)}
	case 1:
		tx = &core.InvokeTransaction{Version: txv(1), SenderAddress: new(g.pick(t, "tx.addr", g.Addrs)), Nonce: fp(g.nonce),
			CallData: g.feltSlice(t, "tx.cd", 3), TransactionSignature: g.feltSlice(t, "tx.sig", 2), MaxFee: fp(77)}
	case 2:
		i := &core.InvokeTransaction{Version: txv(3), SenderAddress: new(g.pick(t, "tx.addr", g.Addrs)), Nonce: fp(g.nonce),
			CallData: g.feltSlice(t, "tx.cd", 3), TransactionSignature: g.feltSlice(t, "tx.sig", 2),
			ResourceBounds: g.bounds(t, !pre0134), Tip: uint64(t.Draw("tx.tip", 5)),
			PaymasterData: g.feltSlice(t, "tx.pm", 2), AccountDeploymentData: g.feltSlice(t, "tx.add", 2),
			NonceDAMode: core.DataAvailabilityMode(t.Draw("tx.nda", 2)), FeeDAMode: core.DataAvailabilityMode(t.Draw("tx.fda", 2))}
		if t.Draw("tx.proof", 4) == 0 {
			i.ProofFacts = []felt.Felt{f(9), f(8)}
		}
		tx = i
	case 3:
		tx = &core.DeclareTransaction{Version: txv(1), ClassHash: fp(0xc1a55 + g.nonce), SenderAddress: new(g.pick(t, "tx.addr", g.Addrs)),
			MaxFee: fp(5), Nonce: fp(g.nonce), TransactionSignature: g.feltSlice(t, "tx.sig", 2)}
	case 4:
		tx = &core.DeclareTransaction{Version: txv(2), ClassHash: fp(0xc1a55 + g.nonce), SenderAddress: new(g.pick(t, "tx.addr", g.Addrs)),
			MaxFee: fp(5), Nonce: fp(g.nonce), CompiledClassHash: fp(0xca5e + g.nonce), TransactionSignature: g.feltSlice(t, "tx.sig", 2)}
	case 5:
		tx = &core.DeclareTransaction{Version: txv(3), ClassHash: fp(0xc1a55 + g.nonce), SenderAddress: new(g.pick(t, "tx.addr", g.Addrs)),
			Nonce: fp(g.nonce), CompiledClassHash: fp(0xca5e + g.nonce), TransactionSignature: g.feltSlice(t, "tx.sig", 2),
			ResourceBounds: g.bounds(t, !pre0134), Tip: uint64(t.Draw("tx.tip", 5)), PaymasterData: g.feltSlice(t, "tx.pm", 2),
			AccountDeploymentData: g.feltSlice(t, "tx.add", 2),
			NonceDAMode:           core.DataAvailabilityMode(t.Draw("tx.nda", 2)), FeeDAMode: core.DataAvailabilityMode(t.Draw("tx.fda", 2))}
	case 6:
		tx = &core.DeployAccountTransaction{DeployTransaction: core.DeployTransaction{Version: txv(1), ContractAddressSalt: fp(g.nonce),
			ContractAddress: fp(0xacc0000 + g.nonce), ClassHash: fp(0xc1), ConstructorCallData: g.feltSlice(t, "tx.cd", 3)},
			MaxFee: fp(9), Nonce: fp(0), TransactionSignature: g.feltSlice(t, "tx.sig", 2)}
	case 7:
		tx = &core.DeployAccountTransaction{DeployTransaction: core.DeployTransaction{Version: txv(3), ContractAddressSalt: fp(g.nonce),
			ContractAddress: fp(0xacc0000 + g.nonce), ClassHash: fp(0xc1), ConstructorCallData: g.feltSlice(t, "tx.cd", 3)},
			Nonce: fp(0), TransactionSignature: g.feltSlice(t, "tx.sig", 2), ResourceBounds: g.bounds(t, !pre0134),
			Tip: uint64(t.Draw("tx.tip", 5)), PaymasterData: g.feltSlice(t, "tx.pm", 2),
			NonceDAMode: core.DataAvailabilityMode(t.Draw("tx.nda", 2)), FeeDAMode: core.DataAvailabilityMode(t.Draw("tx.fda", 2))}
	case 8:
		cd := append([]felt.Felt{f(0xe7410000 + g.nonce)}, g.feltSlice(t, "tx.cd", 3)...)
		tx = &core.L1HandlerTransaction{Version: txv(0), ContractAddress: new(g.pick(t, "tx.addr", g.Addrs)), EntryPointSelector: fp(0x11),
			Nonce: fp(g.nonce), CallData: cd}
	default:
		// legacy deploy: its hash is not recomputed by the node
		tx = &core.DeployTransaction{Version: txv(0), ContractAddressSalt: fp(g.nonce), ContractAddress: fp(0xde90 + g.nonce),
			ClassHash: fp(0xc1), ConstructorCallData: g.feltSlice(t, "tx.cd", 2), TransactionHash: fp(0xdeb10000 + g.nonce)}
	}
	SetTxHash(tx, g.Net)
	return tx
}

// SetTxHash recomputes and stores the transaction's hash (legacy deploy keeps its own).
func SetTxHash(tx core.Transaction, net *networks.Network) {
	if _, ok := tx.(*core.DeployTransaction); ok {
		return
	}
	h, err := core.TransactionHash(tx, net)
	if err != nil {
		panic(err)
	}
	switch x := tx.(type) {
	case *core.InvokeTransaction:
		x.TransactionHash = &h
	case *core.DeclareTransaction:
		x.TransactionHash = &h
	case *core.DeployAccountTransaction:
		x.TransactionHash = &h
	case *core.L1HandlerTransaction:
		x.TransactionHash = &h
	}
}

func (g *Gen) genTxs(t *tape.Tape, o Opts, pre0134 bool) ([]core.Transaction, []*core.TransactionReceipt) {
	n := t.Range("txs.n", 0, o.MaxTxs)
	txs := make([]core.Transaction, 0, n)
	rcpts := make([]*core.TransactionReceipt, 0, n)
	for i := 0; i < n; i++ {
		tx := g.GenTx(t, t.Draw("tx.kind", 10), pre0134)
		txs = append(txs, tx)
		rcpts = append(rcpts, g.genReceipt(t, tx, o))
	}
	return txs, rcpts
}

func (g *Gen) genReceipt(t *tape.Tape, tx core.Transaction, o Opts) *core.TransactionReceipt {
	r := &core.TransactionReceipt{
		Fee:             fp(uint64(t.Draw("rc.fee", 1000))),
		FeeUnit:         core.FeeUnit(t.Draw("rc.unit", 2)),
		TransactionHash: tx.Hash(),
		Events:          []*core.Event{},
		L2ToL1Message:   []*core.L2ToL1Message{},
		ExecutionResources: &core.ExecutionResources{
			BuiltinInstanceCounter: core.BuiltinInstanceCounter{Pedersen: uint64(t.Draw("rc.b", 9)), RangeCheck: uint64(t.Draw("rc.b", 9)), Poseidon: uint64(t.Draw("rc.b", 3))},
			MemoryHoles:            uint64(t.Draw("rc.mh", 5)),
			Steps:                  uint64(t.Draw("rc.st", 5000)),
			DataAvailability:       &core.DataAvailability{L1Gas: uint64(t.Draw("rc.da", 7)), L1DataGas: uint64(t.Draw("rc.da", 7))},
			TotalGasConsumed:       &core.GasConsumed{L1Gas: uint64(t.Draw("rc.g", 50)), L1DataGas: uint64(t.Draw("rc.g", 50)), L2Gas: uint64(t.Draw("rc.g", 50))},
		},
	}
	maxEv := o.MaxEvents
	nEv := t.Draw("rc.ev.n", maxEv+1)
	for i := 0; i < nEv; i++ {
		from := g.pick(t, "ev.from", g.Addrs[:4])
		nk := t.Draw("ev.nk", 4)
		keys := make([]felt.Felt, nk)
		for j := range keys {
			keys[j] = g.pick(t, "ev.key", g.EKeys)
		}
		r.Events = append(r.Events, &core.Event{From: &from, Keys: keys, Data: g.feltSlice(t, "ev.data", 2)})
	}
	nMsg := t.Draw("rc.msg.n", 6)
	if nMsg > 2 {
		nMsg = 0
	}
	for i := 0; i < nMsg; i++ {
		from := g.pick(t, "msg.from", g.Addrs)
		r.L2ToL1Message = append(r.L2ToL1Message, &core.L2ToL1Message{From: &from, Payload: g.feltSlice(t, "msg.pl", 2),
			To: (eth.AddressFromBytes([]byte{byte(1 + t.Draw("msg.to", 200)), 2, 3}))})
	}
	if l1, ok := tx.(*core.L1HandlerTransaction); ok {
		r.L1ToL2Message = &core.L1ToL2Message{From: (eth.AddressFromBytes([]byte{7, 7})), Nonce: l1.Nonce, Payload: l1.CallData[1:], Selector: l1.EntryPointSelector, To: l1.ContractAddress}
	}
	if t.Draw("rc.rev", 5) == 0 {
		r.Reverted = true
		r.RevertReason = []string{"", "out of gas", "assert failed: 0x1"}[t.Draw("rc.reason", 3)]
	}
	return r
}
