// Package feedergen renders core objects (blocks, state updates, classes) the way a Starknet feeder
// gateway serves them: first into the structs of package starknet (the types juno's feeder client
// decodes into), then into the JSON wire format. The inverse direction is juno's own code
// (clients/feeder decoding + adapters/sn2core), so
//
//	sn2core.Adapt*(decode(Encode(render(x)))) == x
//
// is a statement about the repository's adapters; RoundTrip* perform exactly that circle.
//
// Wire format: package starknet only knows how to DECODE several of its types (L1DAMode and
// ExecutionStatus have no marshaller, ClassDefinition is a union without MarshalJSON). Therefore
// every object is turned into a generic JSON tree (map[string]any / []any / string / json.Number)
// first, the fields json.Marshal would get wrong are patched from the struct, and the tree is
// what gets encoded - and what JSON-level tampering works on.
package feedergen

import (
	"bytes"
	"encoding/json"
	"fmt"
	"sort"

	"github.com/NethermindEth/juno/adapters/core2sn"
	"github.com/NethermindEth/juno/core"
	"github.com/NethermindEth/juno/core/felt"
	"github.com/NethermindEth/juno/starknet"
)

func sortedFelts[V any](m map[felt.Felt]V) []felt.Felt {
	ks := make([]felt.Felt, 0, len(m))
	for k := range m {
		ks = append(ks, k)
	}
	sort.Slice(ks, func(i, j int) bool { return ks[i].Cmp(&ks[j]) < 0 })
	return ks
}

func cp(f *felt.Felt) *felt.Felt {
	if f == nil {
		return nil
	}
	x := *f
	return &x
}

func feltSlicePtr(s []felt.Felt) *[]felt.Felt {
	out := append([]felt.Felt{}, s...)
	return &out
}

func optFeltSlicePtr(s []felt.Felt) *[]felt.Felt {
	if s == nil {
		return nil
	}
	return feltSlicePtr(s)
}

// ---- block ---------------------------------------------------------------------------------------

// Block renders b as the object of the get_block endpoint. comm (may be nil) supplies the commitment
// fields a gateway serves next to the header; juno's adapter ignores them.
func Block(b *core.Block, comm *core.BlockCommitments) (*starknet.Block, error) {
	h := b.Header
	out := &starknet.Block{
		Hash:             cp(h.Hash),
		ParentHash:       cp(h.ParentHash),
		Number:           h.Number,
		StateRoot:        cp(h.GlobalStateRoot),
		Status:           "ACCEPTED_ON_L2",
		Timestamp:        h.Timestamp,
		Version:          h.ProtocolVersion,
		SequencerAddress: cp(h.SequencerAddress),
		L1DAMode:         starknet.L1DAMode(h.L1DAMode),
		L1GasPrice:       &starknet.GasPrice{PriceInWei: cp(h.L1GasPriceETH), PriceInFri: cp(h.L1GasPriceSTRK)},
	}
	if h.L1DataGasPrice != nil {
		out.L1DataGasPrice = &starknet.GasPrice{PriceInWei: cp(h.L1DataGasPrice.PriceInWei), PriceInFri: cp(h.L1DataGasPrice.PriceInFri)}
	}
	if h.L2GasPrice != nil {
		out.L2GasPrice = &starknet.GasPrice{PriceInWei: cp(h.L2GasPrice.PriceInWei), PriceInFri: cp(h.L2GasPrice.PriceInFri)}
	}
	if comm != nil {
		out.TransactionCommitment = cp(comm.TransactionCommitment)
		out.EventCommitment = cp(comm.EventCommitment)
		out.ReceiptCommitment = cp(comm.ReceiptCommitment)
		out.StateDiffCommitment = cp(comm.StateDiffCommitment)
		out.StateDiffLength = comm.StateDiffLength
	}
	out.Transactions = make([]*starknet.Transaction, len(b.Transactions))
	for i, tx := range b.Transactions {
		t, err := Transaction(tx)
		if err != nil {
			return nil, err
		}
		out.Transactions[i] = t
	}
	out.Receipts = make([]*starknet.TransactionReceipt, len(b.Receipts))
	for i, r := range b.Receipts {
		out.Receipts[i] = Receipt(r, uint64(i))
	}
	return out, nil
}

// Signature returns the block signature a gateway serves for b: the first of the header's
// signatures, nil when the header carries none (juno turns a nil signature into an empty list).
func Signature(b *core.Block) []*felt.Felt {
	if len(b.Signatures) == 0 {
		return nil
	}
	out := make([]*felt.Felt, len(b.Signatures[0]))
	for i, f := range b.Signatures[0] {
		out[i] = cp(f)
	}
	return out
}

func v3fields(t *starknet.Transaction, rb map[core.Resource]core.ResourceBounds, tip uint64, pm []felt.Felt, nda, fda core.DataAvailabilityMode) {
	m := make(map[starknet.Resource]starknet.ResourceBounds, len(rb))
	for k, v := range rb {
		m[starknet.Resource(k)] = starknet.ResourceBounds{MaxAmount: felt.NewFromUint64[felt.Felt](v.MaxAmount), MaxPricePerUnit: cp(v.MaxPricePerUnit)}
	}
	t.ResourceBounds = &m
	t.Tip = felt.NewFromUint64[felt.Felt](tip)
	t.PaymasterData = feltSlicePtr(pm)
	n, f := starknet.DataAvailabilityMode(nda), starknet.DataAvailabilityMode(fda)
	t.NonceDAMode, t.FeeDAMode = &n, &f
}

func isV3(v *core.TransactionVersion) bool {
	return v != nil && v.Is(3)
}

// Transaction renders one transaction as the gateway serves it inside a block.
func Transaction(tx core.Transaction) (*starknet.Transaction, error) {
	switch x := tx.(type) {
	case *core.InvokeTransaction:
		t := &starknet.Transaction{
			Hash: cp(x.TransactionHash), Version: cp(x.Version.AsFelt()), Type: starknet.TxnInvoke,
			ContractAddress: cp(x.ContractAddress), SenderAddress: cp(x.SenderAddress),
			EntryPointSelector: cp(x.EntryPointSelector), Nonce: cp(x.Nonce), MaxFee: cp(x.MaxFee),
			CallData: feltSlicePtr(x.CallData), Signature: feltSlicePtr(x.TransactionSignature),
		}
		if isV3(x.Version) {
			v3fields(t, x.ResourceBounds, x.Tip, x.PaymasterData, x.NonceDAMode, x.FeeDAMode)
			t.AccountDeploymentData = feltSlicePtr(x.AccountDeploymentData)
			t.ProofFacts = optFeltSlicePtr(x.ProofFacts)
		}
		return t, nil
	case *core.DeclareTransaction:
		t := &starknet.Transaction{
			Hash: cp(x.TransactionHash), Version: cp(x.Version.AsFelt()), Type: starknet.TxnDeclare,
			SenderAddress: cp(x.SenderAddress), Nonce: cp(x.Nonce), MaxFee: cp(x.MaxFee),
			ClassHash: cp(x.ClassHash), CompiledClassHash: cp(x.CompiledClassHash),
			Signature: feltSlicePtr(x.TransactionSignature),
		}
		if isV3(x.Version) {
			v3fields(t, x.ResourceBounds, x.Tip, x.PaymasterData, x.NonceDAMode, x.FeeDAMode)
			t.AccountDeploymentData = feltSlicePtr(x.AccountDeploymentData)
		}
		return t, nil
	case *core.DeployAccountTransaction:
		t := &starknet.Transaction{
			Hash: cp(x.TransactionHash), Version: cp(x.Version.AsFelt()), Type: starknet.TxnDeployAccount,
			ContractAddress: cp(x.ContractAddress), ContractAddressSalt: cp(x.ContractAddressSalt), ClassHash: cp(x.ClassHash),
			ConstructorCallData: feltSlicePtr(x.ConstructorCallData),
			Nonce:               cp(x.Nonce), MaxFee: cp(x.MaxFee), Signature: feltSlicePtr(x.TransactionSignature),
		}
		if isV3(x.Version) {
			v3fields(t, x.ResourceBounds, x.Tip, x.PaymasterData, x.NonceDAMode, x.FeeDAMode)
		}
		return t, nil
	case *core.DeployTransaction:
		return &starknet.Transaction{
			Hash: cp(x.TransactionHash), Version: cp(x.Version.AsFelt()), Type: starknet.TxnDeploy,
			ContractAddress: cp(x.ContractAddress), ContractAddressSalt: cp(x.ContractAddressSalt), ClassHash: cp(x.ClassHash),
			ConstructorCallData: feltSlicePtr(x.ConstructorCallData),
		}, nil
	case *core.L1HandlerTransaction:
		return &starknet.Transaction{
			Hash: cp(x.TransactionHash), Version: cp(x.Version.AsFelt()), Type: starknet.TxnL1Handler,
			ContractAddress: cp(x.ContractAddress), EntryPointSelector: cp(x.EntryPointSelector), Nonce: cp(x.Nonce),
			CallData: feltSlicePtr(x.CallData),
		}, nil
	default:
		return nil, fmt.Errorf("feedergen: unknown transaction type %T", tx)
	}
}

func ethHex(b []byte) string { return fmt.Sprintf("0x%x", b) }

// Receipt renders one receipt (index = its position in the block).
func Receipt(r *core.TransactionReceipt, index uint64) *starknet.TransactionReceipt {
	if r == nil {
		return nil
	}
	out := &starknet.TransactionReceipt{
		ActualFee:        cp(r.Fee),
		TransactionHash:  cp(r.TransactionHash),
		TransactionIndex: index,
		ExecutionStatus:  starknet.Succeeded,
		RevertError:      r.RevertReason,
		Events:           make([]*starknet.Event, len(r.Events)),
		L2ToL1Message:    make([]*starknet.L2ToL1Message, len(r.L2ToL1Message)),
	}
	if r.Reverted {
		out.ExecutionStatus = starknet.Reverted
	}
	for i, e := range r.Events {
		out.Events[i] = &starknet.Event{From: cp(e.From), Data: append([]felt.Felt{}, e.Data...), Keys: append([]felt.Felt{}, e.Keys...)}
	}
	for i, m := range r.L2ToL1Message {
		out.L2ToL1Message[i] = &starknet.L2ToL1Message{From: cp(m.From), Payload: append([]felt.Felt{}, m.Payload...), To: ethHex(m.To.Bytes())}
	}
	if m := r.L1ToL2Message; m != nil {
		out.L1ToL2Message = &starknet.L1ToL2Message{From: ethHex(m.From.Bytes()), Payload: append([]felt.Felt{}, m.Payload...),
			Selector: cp(m.Selector), To: cp(m.To), Nonce: cp(m.Nonce)}
	}
	if er := r.ExecutionResources; er != nil {
		b := er.BuiltinInstanceCounter
		x := &starknet.ExecutionResources{
			Steps: er.Steps, MemoryHoles: er.MemoryHoles,
			BuiltinInstanceCounter: starknet.BuiltinInstanceCounter{
				Pedersen: b.Pedersen, RangeCheck: b.RangeCheck, Bitwise: b.Bitwise, Output: b.Output, Ecdsa: b.Ecsda, EcOp: b.EcOp,
				Keccak: b.Keccak, Poseidon: b.Poseidon, SegmentArena: b.SegmentArena, AddMod: b.AddMod, MulMod: b.MulMod, RangeCheck96: b.RangeCheck96,
			},
		}
		if er.DataAvailability != nil {
			x.DataAvailability = &starknet.DataAvailability{L1Gas: er.DataAvailability.L1Gas, L1DataGas: er.DataAvailability.L1DataGas}
		}
		if g := er.TotalGasConsumed; g != nil {
			x.TotalGasConsumed = &starknet.GasConsumed{L1Gas: g.L1Gas, L1DataGas: g.L1DataGas, L2Gas: g.L2Gas}
		}
		out.ExecutionResources = x
	}
	return out
}

// ---- state update --------------------------------------------------------------------------------

// StateUpdate renders su as the object of the get_state_update endpoint. Lists are emitted in
// ascending key order (the adapter builds maps from them, so the order carries no meaning).
func StateUpdate(su *core.StateUpdate) *starknet.StateUpdate {
	out := &starknet.StateUpdate{BlockHash: cp(su.BlockHash), NewRoot: cp(su.NewRoot), OldRoot: cp(su.OldRoot)}
	if su.StateDiff != nil {
		out.StateDiff = StateDiff(su.StateDiff)
	}
	return out
}

func StateDiff(d *core.StateDiff) starknet.StateDiff {
	var sd starknet.StateDiff
	sd.StorageDiffs = make(map[string][]struct {
		Key   *felt.Felt `json:"key"`
		Value *felt.Felt `json:"value"`
	}, len(d.StorageDiffs))
	for _, a := range sortedFelts(d.StorageDiffs) {
		slots := d.StorageDiffs[a]
		var es []struct {
			Key   *felt.Felt `json:"key"`
			Value *felt.Felt `json:"value"`
		}
		for _, k := range sortedFelts(slots) {
			es = append(es, struct {
				Key   *felt.Felt `json:"key"`
				Value *felt.Felt `json:"value"`
			}{cp(&k), cp(slots[k])})
		}
		sd.StorageDiffs[a.String()] = es
	}
	sd.Nonces = make(map[string]*felt.Felt, len(d.Nonces))
	for _, a := range sortedFelts(d.Nonces) {
		sd.Nonces[a.String()] = cp(d.Nonces[a])
	}
	for _, a := range sortedFelts(d.DeployedContracts) {
		sd.DeployedContracts = append(sd.DeployedContracts, struct {
			Address   *felt.Felt `json:"address"`
			ClassHash *felt.Felt `json:"class_hash"`
		}{cp(&a), cp(d.DeployedContracts[a])})
	}
	sd.OldDeclaredContracts = make([]*felt.Felt, len(d.DeclaredV0Classes))
	for i, h := range d.DeclaredV0Classes {
		sd.OldDeclaredContracts[i] = cp(h)
	}
	for _, h := range sortedFelts(d.DeclaredV1Classes) {
		sd.DeclaredClasses = append(sd.DeclaredClasses, struct {
			ClassHash         *felt.Felt `json:"class_hash"`
			CompiledClassHash *felt.Felt `json:"compiled_class_hash"`
		}{cp(&h), cp(d.DeclaredV1Classes[h])})
	}
	for _, a := range sortedFelts(d.ReplacedClasses) {
		sd.ReplacedClasses = append(sd.ReplacedClasses, struct {
			Address   *felt.Felt `json:"address"`
			ClassHash *felt.Felt `json:"class_hash"`
		}{cp(&a), cp(d.ReplacedClasses[a])})
	}
	mig := make(map[felt.Felt]felt.CasmClassHash, len(d.MigratedClasses))
	for k, v := range d.MigratedClasses {
		mig[felt.Felt(k)] = v
	}
	for _, h := range sortedFelts(mig) {
		sd.MigratedClasses = append(sd.MigratedClasses, struct {
			ClassHash         felt.SierraClassHash `json:"class_hash"`
			CompiledClassHash felt.CasmClassHash   `json:"compiled_class_hash"`
		}{felt.SierraClassHash(h), mig[h]})
	}
	return sd
}

// ---- classes -------------------------------------------------------------------------------------

// Class renders a class definition as the get_class_by_hash object and, for a Sierra class with a
// compiled counterpart, the get_compiled_class_by_class_hash object (nil otherwise).
func Class(def core.ClassDefinition) (*starknet.ClassDefinition, *starknet.CasmClass, error) {
	switch c := def.(type) {
	case *core.SierraClass:
		s := core2sn.AdaptSierraClass(c)
		var casm *starknet.CasmClass
		if c.Compiled != nil {
			x := core2sn.AdaptCasmClass(c.Compiled)
			casm = &x
		}
		return &starknet.ClassDefinition{Sierra: &s}, casm, nil
	case *core.DeprecatedCairoClass:
		d, err := core2sn.AdaptDeprecatedCairoClass(c)
		if err != nil {
			return nil, nil, fmt.Errorf("feedergen: Cairo 0 class program is not gzip+base64: %w", err)
		}
		return &starknet.ClassDefinition{DeprecatedCairo: &d}, nil, nil
	default:
		return nil, nil, fmt.Errorf("feedergen: unknown class type %T", def)
	}
}

// ---- JSON trees ----------------------------------------------------------------------------------

// Tree turns any JSON-marshallable value into a generic tree (numbers stay json.Number).
func Tree(v any) (any, error) {
	raw, err := json.Marshal(v)
	if err != nil {
		return nil, err
	}
	return ParseTree(raw)
}

// ParseTree decodes JSON text into a generic tree (numbers stay json.Number).
func ParseTree(raw []byte) (any, error) {
	dec := json.NewDecoder(bytes.NewReader(raw))
	dec.UseNumber()
	var t any
	if err := dec.Decode(&t); err != nil {
		return nil, err
	}
	return t, nil
}

// Encode is the wire text of a tree (object keys in ascending order: deterministic).
func Encode(t any) []byte {
	raw, err := json.Marshal(t)
	if err != nil {
		panic("feedergen: encode tree: " + err.Error())
	}
	return raw
}

func daModeString(m starknet.L1DAMode) string {
	if m == starknet.Blob {
		return "BLOB"
	}
	return "CALLDATA"
}

func execStatusString(s starknet.ExecutionStatus) string {
	switch s {
	case starknet.Reverted:
		return "REVERTED"
	case starknet.Rejected:
		return "REJECTED"
	default:
		return "SUCCEEDED"
	}
}

// BlockTree is the wire tree of a block object.
func BlockTree(b *starknet.Block) (map[string]any, error) {
	t, err := Tree(b)
	if err != nil {
		return nil, err
	}
	m := t.(map[string]any)
	m["l1_da_mode"] = daModeString(b.L1DAMode)
	rs, _ := m["transaction_receipts"].([]any)
	for i, r := range rs {
		if rm, ok := r.(map[string]any); ok && b.Receipts[i] != nil {
			rm["execution_status"] = execStatusString(b.Receipts[i].ExecutionStatus)
			if rm["l1_to_l2_consumed_message"] == nil {
				delete(rm, "l1_to_l2_consumed_message") // a gateway omits it
			}
		}
	}
	// the pre-0.13.1 price fields are absent from the blocks of the versions rendered here
	for _, k := range []string{"gas_price", "eth_l1_gas_price", "strk_l1_gas_price"} {
		if m[k] == nil {
			delete(m, k)
		}
	}
	return m, nil
}

// StateUpdateTree is the wire tree of a state update object.
func StateUpdateTree(su *starknet.StateUpdate) (map[string]any, error) {
	t, err := Tree(su)
	if err != nil {
		return nil, err
	}
	m := t.(map[string]any)
	if sd, ok := m["state_diff"].(map[string]any); ok {
		// a gateway serves empty lists, never null
		for _, k := range []string{"deployed_contracts", "old_declared_contracts", "declared_classes", "replaced_classes", "migrated_compiled_classes"} {
			if sd[k] == nil {
				sd[k] = []any{}
			}
		}
	}
	return m, nil
}

// StateUpdateWithBlockTree is the wire tree of get_state_update?includeBlock=true&includeSignature=true.
func StateUpdateWithBlockTree(su *starknet.StateUpdate, b *starknet.Block, sig []*felt.Felt) (map[string]any, error) {
	bt, err := BlockTree(b)
	if err != nil {
		return nil, err
	}
	st, err := StateUpdateTree(su)
	if err != nil {
		return nil, err
	}
	out := map[string]any{"block": bt, "state_update": st}
	if sig != nil {
		s, err := Tree(sig)
		if err != nil {
			return nil, err
		}
		out["signature"] = s
	}
	return out, nil
}

// HeaderTree is the wire tree of get_block?headerOnly=true.
func HeaderTree(hash *felt.Felt, number uint64) map[string]any {
	return map[string]any{"block_hash": hash.String(), "block_number": json.Number(fmt.Sprint(number))}
}

// ClassTree is the wire tree of a class definition object.
func ClassTree(c *starknet.ClassDefinition) (map[string]any, error) {
	var t any
	var err error
	switch {
	case c.Sierra != nil:
		t, err = Tree(c.Sierra)
	case c.DeprecatedCairo != nil:
		t, err = Tree(c.DeprecatedCairo)
	default:
		return nil, fmt.Errorf("feedergen: empty class definition")
	}
	if err != nil {
		return nil, err
	}
	return t.(map[string]any), nil
}

// CasmTree is the wire tree of a compiled class object.
func CasmTree(c *starknet.CasmClass) (map[string]any, error) {
	t, err := Tree(c)
	if err != nil {
		return nil, err
	}
	return t.(map[string]any), nil
}

// ErrorTree is the body a gateway sends with HTTP 400 (code e.g. "StarknetErrorCode.BLOCK_NOT_FOUND").
func ErrorTree(code, message string) map[string]any {
	return map[string]any{"code": code, "message": message}
}
