package feedergen

import (
	"fmt"

	"github.com/NethermindEth/juno/blockchain/networks"
	"github.com/NethermindEth/juno/core"
	"github.com/NethermindEth/juno/core/crypto"
	"github.com/NethermindEth/juno/core/felt"
	"github.com/NethermindEth/juno/utils/compression"

	"jsim/chaingen"
	"jsim/refstate"
	"jsim/tape"
)

// Realise rewrites a freshly generated block (before any successor is generated from it) so that it
// is a block a feeder gateway can transport, i.e. one that survives core -> JSON -> core unchanged
// and that a node fed through the real feeder client can assemble and verify:
//
//   - Sierra classes: the generator fills ProgramHash and AbiHash with synthetic felts; the adapter
//     recomputes them from the program and the ABI (they are not on the wire). They are set to the
//     real values, the class hash is recomputed and every reference to the old hash in the state
//     diff is re-keyed.
//   - Cairo 0 classes: the program becomes a real gzip+base64 encoding of a JSON program (the wire
//     carries the JSON, core carries the compressed form).
//   - every class hash a contract is deployed with or replaced by is declared on the chain: a hash
//     that neither the parent state nor this block declares gets a Cairo 0 declaration in this block
//     (definition derived from the hash alone, so the same class is the same on every fork). A node
//     has to fetch the definition of every class it does not know (sync/data_source.go).
//   - with SharedDecl (tape), the block additionally declares one of a small pool of fork-independent
//     Cairo 0 classes that its chain does not hold yet: the same class declared at different heights
//     of different forks.
//   - receipts: FeeUnit is not on the wire (adapters/sn2core sets 0, no hash commits to it): 0.
//   - the header carries one signature (r, s) derived from the block hash; nothing verifies it.
//
// Post state, state root, block hash and the state update are recomputed. Empty filler blocks
// (Post == Pre) keep their state.
func Realise(t *tape.Tape, b *chaingen.Block, net *networks.Network, sharedDecl bool) {
	d := b.SU.StateDiff
	rename := map[felt.Felt]felt.Felt{}
	classes := make(map[felt.Felt]core.ClassDefinition, len(b.Classes))
	for _, h := range sortedFelts(b.Classes) {
		switch c := b.Classes[h].(type) {
		case *core.SierraClass:
			ph := crypto.PoseidonArray(c.Program)
			ah := crypto.StarknetKeccak([]byte(c.Abi))
			c.ProgramHash, c.AbiHash = &ph, &ah
			nh, err := c.Hash()
			if err != nil {
				panic(err)
			}
			rename[h] = nh
			classes[nh] = c
		case *core.DeprecatedCairoClass:
			c.Program = cairo0Program(&h)
			classes[h] = c
		default:
			classes[h] = c
		}
	}
	if len(rename) > 0 {
		v1 := make(map[felt.Felt]*felt.Felt, len(d.DeclaredV1Classes))
		for h, casm := range d.DeclaredV1Classes {
			if nh, ok := rename[h]; ok {
				h = nh
			}
			v1[h] = casm
		}
		d.DeclaredV1Classes = v1
		for _, m := range []map[felt.Felt]*felt.Felt{d.DeployedContracts, d.ReplacedClasses} {
			for a, ch := range m {
				if nh, ok := rename[*ch]; ok {
					x := nh
					m[a] = &x
				}
			}
		}
	}
	empty := b.Post == b.Pre
	var addedV0 []felt.Felt
	if !empty {
		declared := func(h *felt.Felt) bool {
			if _, ok := b.Pre.Classes[*h]; ok {
				return true
			}
			_, ok := classes[*h]
			return ok
		}
		declareV0 := func(h felt.Felt) {
			d.DeclaredV0Classes = append(d.DeclaredV0Classes, &h)
			classes[h] = Cairo0ForHash(&h)
			addedV0 = append(addedV0, h)
		}
		for _, m := range []map[felt.Felt]*felt.Felt{d.DeployedContracts, d.ReplacedClasses} {
			for _, a := range sortedFelts(m) {
				if ch := m[a]; !declared(ch) {
					declareV0(*ch)
				}
			}
		}
		if sharedDecl && t != nil && t.Chance("feeder.shared.decl", 1, 3) {
			h := SharedClassHash(t.Draw("feeder.shared.idx", SharedPool))
			if !declared(&h) {
				declareV0(h)
			}
		}
	}
	for _, r := range b.B.Receipts {
		r.FeeUnit = 0
	}
	b.Classes = classes

	hd := b.B.Header
	switch {
	case empty:
	case len(rename) == 0:
		// No class hash changed: contract leaves and the class trie are what the generator computed (Cairo 0
		// declarations enter neither trie). Only the abstract state's class registry has to learn the added ones.
		for _, h := range addedV0 {
			b.Post.Classes[h] = &refstate.Class{DeclaredAt: hd.Number, Def: classes[h]}
		}
	default:
		post := b.Pre.Clone()
		post.Apply(hd.Number, b.Version, d, classes)
		b.Post = post
		root := post.Commitment(b.Version)
		hd.GlobalStateRoot = &root
	}
	hash, _, err := core.BlockHash(b.B, d, net, nil, core.DeprecatedTrieBackend)
	if err != nil {
		panic(fmt.Sprintf("feedergen: block hash: %v", err))
	}
	hd.Hash = &hash
	var r, s felt.Felt
	r.Add(&hash, felt.NewFromUint64[felt.Felt](1))
	s.Add(&hash, felt.NewFromUint64[felt.Felt](2))
	hd.Signatures = [][]*felt.Felt{{&r, &s}}
	b.SU.BlockHash = &hash
	nr := *hd.GlobalStateRoot
	b.SU.NewRoot = &nr
}

// SharedPool is the number of fork-independent Cairo 0 classes Realise may declare.
const SharedPool = 3

func SharedClassHash(i int) felt.Felt { return felt.FromUint64[felt.Felt](0x5a4ed000 + uint64(i)) }

func cairo0Program(h *felt.Felt) string {
	js := fmt.Sprintf(`{"builtins":["range_check"],"data":["0x480680017fff8000","%s","0x208b7fff7fff7ffe"],"prime":"0x800000000000011000000000000000000000000000000000000000000000001"}`, h.String())
	p, err := compression.Gzip64Encode([]byte(js))
	if err != nil {
		panic(err)
	}
	return p
}

// Cairo0ForHash is the (only) Cairo 0 definition served for class hash h when no generated class has
// that hash. Cairo 0 class hashes are not recomputed by the node (core.VerifyClassHashes skips
// them), so any definition is "the" class of that hash as long as the source always serves this one.
func Cairo0ForHash(h *felt.Felt) *core.DeprecatedCairoClass {
	sel := *h
	off := felt.FromUint64[felt.Felt](7)
	return &core.DeprecatedCairoClass{
		Abi:          []byte(fmt.Sprintf(`[{"name":"c%s","type":"function"}]`, h.String())),
		Externals:    []core.DeprecatedEntryPoint{{Selector: &sel, Offset: &off}},
		L1Handlers:   []core.DeprecatedEntryPoint{},
		Constructors: []core.DeprecatedEntryPoint{},
		Program:      cairo0Program(h),
	}
}
