package feedergen

import (
	"encoding/json"
	"errors"
	"fmt"

	"github.com/NethermindEth/juno/adapters/sn2core"
	"github.com/NethermindEth/juno/core"
	"github.com/NethermindEth/juno/starknet"
)

// BlockWire renders block + state update into the wire text of
// get_state_update?includeBlock=true&includeSignature=true.
func BlockWire(b *core.Block, su *core.StateUpdate, comm *core.BlockCommitments) (map[string]any, error) {
	sb, err := Block(b, comm)
	if err != nil {
		return nil, err
	}
	return StateUpdateWithBlockTree(StateUpdate(su), sb, Signature(b))
}

// DecodeBlock is what juno does with the body of get_state_update?includeBlock=true&includeSignature=true:
// clients/feeder decoding (encoding/json into starknet.StateUpdateWithBlockAndSignature, then its Validate)
// followed by starknetdata/feeder.stateUpdateWithBlock (sn2core.AdaptStateUpdate + sn2core.AdaptBlock).
// The adapters dereference members without nil checks: call it on bodies of unknown shape only under recover.
func DecodeBlock(raw []byte) (*core.Block, *core.StateUpdate, error) {
	var resp starknet.StateUpdateWithBlockAndSignature
	if err := json.Unmarshal(raw, &resp); err != nil {
		return nil, nil, err
	}
	if err := resp.Validate(); err != nil { // clients/feeder.doRequest validates what it decoded
		return nil, nil, err
	}
	if resp.StateUpdate == nil {
		return nil, nil, errors.New("no state_update in the response")
	}
	su, err := sn2core.AdaptStateUpdate(resp.StateUpdate)
	if err != nil {
		return nil, nil, err
	}
	b, err := sn2core.AdaptBlock(resp.Block, resp.Signature)
	if err != nil {
		return nil, nil, err
	}
	return b, su, nil
}

// RoundTripBlock: core -> starknet structs -> wire JSON -> juno's decoder -> juno's adapter -> core.
func RoundTripBlock(b *core.Block, su *core.StateUpdate) (*core.Block, *core.StateUpdate, error) {
	t, err := BlockWire(b, su, nil)
	if err != nil {
		return nil, nil, fmt.Errorf("render: %w", err)
	}
	return DecodeBlock(Encode(t))
}

// ClassWire renders a class definition into the wire texts of get_class_by_hash and (Sierra with a
// compiled class only, else nil) get_compiled_class_by_class_hash.
func ClassWire(def core.ClassDefinition) (class, casm map[string]any, err error) {
	c, cc, err := Class(def)
	if err != nil {
		return nil, nil, err
	}
	class, err = ClassTree(c)
	if err != nil {
		return nil, nil, err
	}
	if cc != nil {
		casm, err = CasmTree(cc)
		if err != nil {
			return nil, nil, err
		}
	}
	return class, casm, nil
}

// DecodeClass is what juno does with the bodies of the two class endpoints (starknetdata/feeder.Class).
func DecodeClass(classRaw, casmRaw []byte) (core.ClassDefinition, error) {
	var def starknet.ClassDefinition
	if err := json.Unmarshal(classRaw, &def); err != nil {
		return nil, err
	}
	switch {
	case def.Sierra != nil:
		var casm *starknet.CasmClass
		if casmRaw != nil {
			casm = new(starknet.CasmClass)
			if err := json.Unmarshal(casmRaw, casm); err != nil {
				return nil, err
			}
		}
		return sn2core.AdaptSierraClass(def.Sierra, casm)
	case def.DeprecatedCairo != nil:
		return sn2core.AdaptDeprecatedCairoClass(def.DeprecatedCairo)
	default:
		return nil, errors.New("empty class")
	}
}

// RoundTripClass: core class -> wire JSON -> juno's decoder and adapter -> core class.
func RoundTripClass(def core.ClassDefinition) (core.ClassDefinition, error) {
	class, casm, err := ClassWire(def)
	if err != nil {
		return nil, fmt.Errorf("render: %w", err)
	}
	var casmRaw []byte
	if casm != nil {
		casmRaw = Encode(casm)
	}
	return DecodeClass(Encode(class), casmRaw)
}
