package feedergen

import (
	"bytes"
	"encoding/json"
	"fmt"

	"github.com/NethermindEth/juno/starknet"
)

// Wire format of get_preconfirmed_block (see clients/feeder/testdata/*/preconfirmed and
// starknet.DecodePreConfirmedUpdate): one flat object discriminated by its members,
//
//	{"changed": false}                                                         no change
//	{"changed": true, "block_identifier", "transactions", "transaction_receipts",
//	 "transaction_state_diffs"}                                                appended transactions (delta)
//	the same plus "status", "timestamp", "starknet_version", "sequencer_address", the three gas
//	prices and "l1_da_mode"                                                    full block (new round)
//
// and, on blockNumber=latest only, a top-level "block_number" (a no-change answer may omit it).
// The structs of package starknet do not marshal symmetrically (L1DAMode and ExecutionStatus only
// decode), so the tree is patched the way BlockTree does it.

func patchPreConfirmedLists(m map[string]any, receipts []*starknet.TransactionReceipt) {
	rs, _ := m["transaction_receipts"].([]any)
	for i, r := range rs {
		if rm, ok := r.(map[string]any); ok && i < len(receipts) && receipts[i] != nil {
			rm["execution_status"] = execStatusString(receipts[i].ExecutionStatus)
			if rm["l1_to_l2_consumed_message"] == nil {
				delete(rm, "l1_to_l2_consumed_message")
			}
		}
	}
	sds, _ := m["transaction_state_diffs"].([]any)
	for _, s := range sds {
		sd, ok := s.(map[string]any)
		if !ok {
			continue
		}
		for _, k := range []string{"deployed_contracts", "old_declared_contracts", "declared_classes", "replaced_classes", "migrated_compiled_classes"} {
			if sd[k] == nil {
				sd[k] = []any{}
			}
		}
		for _, k := range []string{"storage_diffs", "nonces"} {
			if sd[k] == nil {
				sd[k] = map[string]any{}
			}
		}
	}
	for _, k := range []string{"transactions", "transaction_receipts", "transaction_state_diffs"} {
		if m[k] == nil {
			m[k] = []any{}
		}
	}
}

// PreConfirmedTree is the wire tree of a get_preconfirmed_block answer. blockNumber 0 = the member
// "block_number" is not sent (answers to an explicit block number; a no-change answer to "latest").
func PreConfirmedTree(upd starknet.PreConfirmedUpdate, blockNumber uint64) (map[string]any, error) {
	var m map[string]any
	switch u := upd.(type) {
	case starknet.PreConfirmedNoChange:
		m = map[string]any{"changed": false}
	case starknet.PreConfirmedDeltaUpdate:
		t, err := Tree(u)
		if err != nil {
			return nil, err
		}
		m = t.(map[string]any)
		patchPreConfirmedLists(m, u.Receipts)
		m["changed"] = true
	case starknet.PreConfirmedBlock:
		t, err := Tree(u)
		if err != nil {
			return nil, err
		}
		m = t.(map[string]any)
		patchPreConfirmedLists(m, u.Receipts)
		m["l1_da_mode"] = daModeString(u.L1DAMode)
		m["changed"] = true
	default:
		return nil, fmt.Errorf("feedergen: unknown pre-confirmed update %T", upd)
	}
	if blockNumber != 0 {
		m["block_number"] = json.Number(fmt.Sprint(blockNumber))
	}
	return m, nil
}

// DecodePreConfirmed is what clients/feeder.fetchPreConfirmedUpdate does with a body: the single-scan
// decoder of package starknet followed by the envelope's Validate.
func DecodePreConfirmed(raw []byte) (starknet.PreConfirmedUpdate, uint64, error) {
	env, err := starknet.DecodePreConfirmedUpdate(bytes.NewReader(raw))
	if err != nil {
		return nil, 0, err
	}
	if err := env.Validate(); err != nil {
		return nil, 0, err
	}
	return env.Update, env.BlockNumber, nil
}

// RoundTripPreConfirmed: update -> wire JSON -> juno's decoder and validation -> update.
func RoundTripPreConfirmed(upd starknet.PreConfirmedUpdate, blockNumber uint64) (starknet.PreConfirmedUpdate, uint64, error) {
	t, err := PreConfirmedTree(upd, blockNumber)
	if err != nil {
		return nil, 0, fmt.Errorf("render: %w", err)
	}
	return DecodePreConfirmed(Encode(t))
}
