// Package refstate is the abstract Starknet state used as oracle: contracts (class hash, nonce,
// storage map), declared classes (with CASM hash versions), applied diff by diff, with the
// protocol-defined commitment computed by refmpt. It shares no code with juno's state packages.
package refstate

import (
	"sort"

	"github.com/Masterminds/semver/v3"
	"github.com/NethermindEth/juno/core"
	"github.com/NethermindEth/juno/core/crypto"
	"github.com/NethermindEth/juno/core/felt"

	"jsim/refmpt"
)

const Height = 251

var (
	stateV0 = new(felt.Felt).SetBytes([]byte("STARKNET_STATE_V0"))
	leafV0  = new(felt.Felt).SetBytes([]byte("CONTRACT_CLASS_LEAF_V0"))
	v0140   = semver.MustParse("0.14.0")
	v0141   = semver.MustParse("0.14.1")
)

type Contract struct {
	ClassHash  felt.Felt
	Nonce      felt.Felt
	Storage    map[felt.Felt]felt.Felt // non-zero slots only
	DeployedAt uint64
	System     bool // 0x1 / 0x2: exists only while it has storage
}

type Class struct {
	DeclaredAt uint64
	Sierra     bool
	CasmV1     *felt.Felt // nil when declared with the V2 (blake) hash
	CasmV2     felt.Felt
	MigratedAt uint64 // 0: not migrated
	Def        core.ClassDefinition
}

// CasmAt returns the compiled class hash in force at block n (ok=false: not declared yet / not Sierra).
func (c *Class) CasmAt(n uint64) (felt.Felt, bool) {
	if !c.Sierra || c.DeclaredAt > n {
		return felt.Zero, false
	}
	if c.CasmV1 == nil || (c.MigratedAt != 0 && c.MigratedAt <= n) {
		return c.CasmV2, true
	}
	return *c.CasmV1, true
}

type State struct {
	Contracts map[felt.Felt]*Contract
	Classes   map[felt.Felt]*Class
}

func New() *State {
	return &State{Contracts: map[felt.Felt]*Contract{}, Classes: map[felt.Felt]*Class{}}
}

func (s *State) Clone() *State {
	n := New()
	for a, c := range s.Contracts {
		cc := *c
		cc.Storage = make(map[felt.Felt]felt.Felt, len(c.Storage))
		for k, v := range c.Storage {
			cc.Storage[k] = v
		}
		n.Contracts[a] = &cc
	}
	for h, c := range s.Classes {
		cc := *c
		if c.CasmV1 != nil {
			v := *c.CasmV1
			cc.CasmV1 = &v
		}
		n.Classes[h] = &cc
	}
	return n
}

func IsSystem(a *felt.Felt) bool {
	return a.Equal(&felt.One) || a.Equal(felt.NewFromUint64[felt.Felt](2))
}

func parse(version string) *semver.Version {
	v, err := core.ParseBlockVersion(version)
	if err != nil {
		panic(err)
	}
	return v
}

// Apply applies the state diff of block `num` (protocol version `version`).
func (s *State) Apply(num uint64, version string, d *core.StateDiff, defs map[felt.Felt]core.ClassDefinition) {
	ver := parse(version)
	for _, h := range d.DeclaredV0Classes {
		if _, ok := s.Classes[*h]; !ok {
			s.Classes[*h] = &Class{DeclaredAt: num, Def: defs[*h]}
		}
	}
	for h, casm := range d.DeclaredV1Classes {
		if _, ok := s.Classes[h]; ok {
			continue
		}
		c := &Class{DeclaredAt: num, Sierra: true, Def: defs[h]}
		if ver.LessThan(v0141) {
			v1 := *casm
			c.CasmV1 = &v1
			if sc, ok := defs[h].(*core.SierraClass); ok && sc.Compiled != nil {
				c.CasmV2 = sc.Compiled.Hash(core.HashVersionV2)
			}
		} else {
			c.CasmV2 = *casm
		}
		s.Classes[h] = c
	}
	for h, casm := range d.MigratedClasses {
		c := s.Classes[felt.Felt(h)]
		c.MigratedAt = num
		c.CasmV2 = felt.Felt(casm)
	}
	for a, ch := range d.DeployedContracts {
		s.Contracts[a] = &Contract{ClassHash: *ch, Storage: map[felt.Felt]felt.Felt{}, DeployedAt: num}
	}
	for a, ch := range d.ReplacedClasses {
		s.Contracts[a].ClassHash = *ch
	}
	for a, n := range d.Nonces {
		s.Contracts[a].Nonce = *n
	}
	for a, slots := range d.StorageDiffs {
		c := s.Contracts[a]
		if c == nil {
			c = &Contract{Storage: map[felt.Felt]felt.Felt{}, DeployedAt: num, System: true}
			s.Contracts[a] = c
		}
		for k, v := range slots {
			if v.IsZero() {
				delete(c.Storage, k)
			} else {
				c.Storage[k] = *v
			}
		}
	}
	for a, c := range s.Contracts {
		if c.System && len(c.Storage) == 0 {
			delete(s.Contracts, a)
		}
	}
}

func StorageRoot(c *Contract) felt.Felt {
	return refmpt.Root(c.Storage, Height, refmpt.Pedersen)
}

func ContractLeaf(c *Contract) felt.Felt {
	sr := StorageRoot(c)
	h1 := refmpt.Pedersen(&c.ClassHash, &sr)
	h2 := refmpt.Pedersen(&h1, &c.Nonce)
	return refmpt.Pedersen(&h2, &felt.Zero)
}

func (s *State) ContractRoot() felt.Felt {
	leaves := make(map[felt.Felt]felt.Felt, len(s.Contracts))
	for a, c := range s.Contracts {
		leaves[a] = ContractLeaf(c)
	}
	return refmpt.Root(leaves, Height, refmpt.Pedersen)
}

func (s *State) ClassLeaves() map[felt.Felt]felt.Felt {
	leaves := map[felt.Felt]felt.Felt{}
	for h, c := range s.Classes {
		if !c.Sierra {
			continue
		}
		casm := c.CasmV2
		if c.CasmV1 != nil && c.MigratedAt == 0 {
			casm = *c.CasmV1
		}
		leaves[h] = crypto.Poseidon(leafV0, &casm)
	}
	return leaves
}

func (s *State) ClassRoot() felt.Felt {
	return refmpt.Root(s.ClassLeaves(), Height, refmpt.Poseidon)
}

// Commitment is the global state root under the rules of the given protocol version.
func (s *State) Commitment(version string) felt.Felt {
	cr, clr := s.ContractRoot(), s.ClassRoot()
	if cr.IsZero() && clr.IsZero() {
		return felt.Zero
	}
	if clr.IsZero() && parse(version).LessThan(v0140) {
		return cr
	}
	return crypto.PoseidonElems(stateV0, &cr, &clr)
}

func SortedFelts[V any](m map[felt.Felt]V) []felt.Felt {
	ks := make([]felt.Felt, 0, len(m))
	for k := range m {
		ks = append(ks, k)
	}
	sort.Slice(ks, func(i, j int) bool { return ks[i].Cmp(&ks[j]) < 0 })
	return ks
}
