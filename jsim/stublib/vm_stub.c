/* Stub of libjuno_starknet_rs.a (the Rust Cairo VM is not available offline).
 * No claimed property executes Cairo; every entry point aborts if reached. */
#include <stdlib.h>
void cairoVMCall(void) { abort(); }
void cairoVMExecute(void) { abort(); }
char *setVersionedConstants(char *json) { (void)json; return 0; }
void freeString(char *p) { (void)p; }
