/* Stub of libjuno_starknet_compiler_rs.a (Sierra->CASM compiler not available offline). */
#include <stdlib.h>
char compileSierraToCasm(char *sierra_json, char **result) { (void)sierra_json; (void)result; abort(); return 0; }
void freeCstr(char *p) { (void)p; }
