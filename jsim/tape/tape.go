// Package tape is the single source of nondeterminism of a simulated run.
//
// Every decision of a run (generated operation, argument, which parked task is
// released, whether a fault fires, which crash image is taken ...) is one
// Draw(label, n). In generation mode the value comes from a splitmix64 stream
// seeded with the run seed and is recorded; in replay mode it comes from the
// recorded list. An exhausted replay tape yields 0, which by convention is the
// "simplest" alternative of every choice (no fault, first task, smallest size),
// so truncating or zeroing a tape is always a legal, simpler run.
package tape

type Tape struct {
	state   uint64
	replay  bool
	in      []uint64
	pos     int
	rec     []uint64
	Labels  []string // label of every draw, kept only when KeepLabels is set
	KeepLbl bool
}

func New(seed uint64) *Tape { return &Tape{state: seed} }

func Replay(words []uint64) *Tape {
	return &Tape{replay: true, in: append([]uint64(nil), words...)}
}

func (t *Tape) next() uint64 {
	t.state += 0x9e3779b97f4a7c15
	z := t.state
	z = (z ^ (z >> 30)) * 0xbf58476d1ce4e5b9
	z = (z ^ (z >> 27)) * 0x94d049bb133111eb
	return z ^ (z >> 31)
}

// Draw returns a value in [0,n). n<=1 returns 0 and still consumes a word so
// that tapes stay aligned when a bound shrinks to 1.
func (t *Tape) Draw(label string, n int) int {
	var v uint64
	if t.replay {
		if t.pos < len(t.in) {
			v = t.in[t.pos]
		}
		t.pos++
	} else {
		v = t.next()
	}
	if n <= 1 {
		v = 0
	} else {
		v %= uint64(n)
	}
	t.rec = append(t.rec, v)
	if t.KeepLbl {
		t.Labels = append(t.Labels, label)
	}
	return int(v)
}

// Chance is true with probability num/den; a zero word means false ("no fault").
func (t *Tape) Chance(label string, num, den int) bool {
	return t.Draw(label, den) >= den-num
}

// Range draws from [lo,hi] inclusive.
func (t *Tape) Range(label string, lo, hi int) int {
	if hi < lo {
		hi = lo
	}
	return lo + t.Draw(label, hi-lo+1)
}

// U64 draws a full 64-bit word (used for value generation, not choices).
func (t *Tape) U64(label string) uint64 {
	var v uint64
	if t.replay {
		if t.pos < len(t.in) {
			v = t.in[t.pos]
		}
		t.pos++
	} else {
		v = t.next()
	}
	t.rec = append(t.rec, v)
	if t.KeepLbl {
		t.Labels = append(t.Labels, label)
	}
	return v
}

// Words is the list of values actually consumed so far (normalised to their
// bound), i.e. the replay tape of this run.
func (t *Tape) Words() []uint64 { return append([]uint64(nil), t.rec...) }

func (t *Tape) Len() int { return len(t.rec) }

// Fork derives an independent generation-mode stream for bulk value generation
// that should not bloat the tape (e.g. filler block contents). The fork's seed
// is itself one recorded draw, so replay is exact.
func (t *Tape) Fork(label string) *Tape {
	return New(t.U64(label) | 1)
}

// Mix hashes run coordinates into a seed.
func Mix(parts ...uint64) uint64 {
	h := uint64(0xcbf29ce484222325)
	for _, p := range parts {
		h ^= p
		h *= 0x100000001b3
		h ^= h >> 29
		h *= 0xbf58476d1ce4e5b9
		h ^= h >> 32
	}
	return h
}

func HashString(s string) uint64 {
	h := uint64(0xcbf29ce484222325)
	for i := 0; i < len(s); i++ {
		h ^= uint64(s[i])
		h *= 0x100000001b3
	}
	return h
}
