// Package refmpt is a reference implementation of Starknet's binary Merkle-Patricia commitment,
// written from the protocol description and deliberately naive: the root is a pure recursive
// function of the key/value set, with no caching, no persistence and no incremental update.
//
//	empty set                       -> 0
//	leaf at full depth              -> value
//	binary node                     -> H(left, right)
//	edge node (path p of length l)  -> H(child, p) + l
//
// Zero values are absent keys. The Pedersen hash is gnark-crypto's port of the reference
// implementation, not the repository's own hand-optimised one (whose bit masks are part of what
// C01 checks); Poseidon is the repository's (trusted primitive, pinned by the baseline's test
// vectors - no second implementation is available offline).
package refmpt

import (
	"math/big"
	"sort"

	"github.com/NethermindEth/juno/core/crypto"
	"github.com/NethermindEth/juno/core/felt"
	pedersenhash "github.com/consensys/gnark-crypto/ecc/stark-curve/pedersen-hash"
)

type HashFn func(a, b *felt.Felt) felt.Felt

func Pedersen(a, b *felt.Felt) felt.Felt { return felt.Felt(pedersenhash.Pedersen(a.Impl(), b.Impl())) }

// BoundaryValues are field elements at the edges of the hash functions' operand decomposition
// (248-bit low part + 4-bit high part) and of the field itself.
func BoundaryValues() []felt.Felt {
	pow := func(n uint) *big.Int { return new(big.Int).Lsh(big.NewInt(1), n) }
	p, _ := new(big.Int).SetString("800000000000011000000000000000000000000000000000000000000000001", 16)
	var out []felt.Felt
	for _, b := range []*big.Int{
		new(big.Int).Sub(p, big.NewInt(1)), new(big.Int).Sub(p, big.NewInt(2)),
		pow(251), new(big.Int).Add(pow(251), big.NewInt(1)), new(big.Int).Sub(pow(251), big.NewInt(1)),
		pow(250), pow(248), new(big.Int).Sub(pow(248), big.NewInt(1)), new(big.Int).Add(pow(251), pow(248)),
		pow(128), pow(64),
	} {
		var f felt.Felt
		f.SetBigInt(b)
		out = append(out, f)
	}
	return out
}
func Poseidon(a, b *felt.Felt) felt.Felt { return crypto.Poseidon(a, b) }

type kv struct {
	k *big.Int
	v felt.Felt
}

// Root computes the commitment of the map (keys as felts, interpreted as `height`-bit integers).
func Root(m map[felt.Felt]felt.Felt, height int, h HashFn) felt.Felt {
	var items []kv
	for k, v := range m {
		if v.IsZero() {
			continue
		}
		kb := k.Bytes()
		items = append(items, kv{new(big.Int).SetBytes(kb[:]), v})
	}
	sort.Slice(items, func(i, j int) bool { return items[i].k.Cmp(items[j].k) < 0 })
	if len(items) == 0 {
		return felt.Zero
	}
	return node(items, height, h)
}

// node hashes the subtree that contains items, all of which agree on every bit above `remaining`.
func node(items []kv, remaining int, h HashFn) felt.Felt {
	if remaining == 0 {
		return items[0].v
	}
	// length of the common prefix of all items within the remaining bits
	first, last := items[0].k, items[len(items)-1].k
	cp := 0
	for cp < remaining && first.Bit(remaining-1-cp) == last.Bit(remaining-1-cp) {
		cp++
	}
	if cp > 0 {
		child := node(items, remaining-cp, h)
		// path = the cp common bits, as an integer
		path := new(big.Int).Rsh(first, uint(remaining-cp))
		path.And(path, new(big.Int).Sub(new(big.Int).Lsh(big.NewInt(1), uint(cp)), big.NewInt(1)))
		var pf felt.Felt
		pf.SetBigInt(path)
		hh := h(&child, &pf)
		var l felt.Felt
		l.SetUint64(uint64(cp))
		var out felt.Felt
		out.Add(&hh, &l)
		return out
	}
	// split on the next bit (items are sorted, so all 0-bit items come first)
	split := sort.Search(len(items), func(i int) bool { return items[i].k.Bit(remaining-1) == 1 })
	left := node(items[:split], remaining-1, h)
	right := node(items[split:], remaining-1, h)
	return h(&left, &right)
}
