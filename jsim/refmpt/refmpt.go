// Package refmpt is a reference implementation of Starknet's binary Merkle-Patricia commitment,
// written from the protocol description and deliberately naive: the root is a pure recursive
// function of the key/value set, with no caching, no persistence and no incremental update.
//
//	empty set                       -> 0
//	leaf at full depth              -> value
//	binary node                     -> H(left, right)
//	edge node (path p of length l)  -> H(child, p) + l
//
// Zero values are absent keys. Only crypto.Pedersen / crypto.Poseidon of the repository are used
// (trusted primitives, pinned by the baseline's test vectors).
package refmpt

import (
	"math/big"
	"sort"

	"github.com/NethermindEth/juno/core/crypto"
	"github.com/NethermindEth/juno/core/felt"
)

type HashFn func(a, b *felt.Felt) felt.Felt

func Pedersen(a, b *felt.Felt) felt.Felt { return crypto.Pedersen(a, b) }
func Poseidon(a, b *felt.Felt) felt.Felt { return crypto.Poseidon(a, b) }

type kv struct {
	k *big.Int
	v felt.Felt
}

// Root computes the commitment of the map (keys as felts, interpreted as `height`-bit integers).
func Root(m map[felt.Felt]felt.Felt, height int, h HashFn) felt.Felt {
	var items []kv
	for k, v := range m {
		if v.IsZero() {
			continue
		}
		kb := k.Bytes()
		items = append(items, kv{new(big.Int).SetBytes(kb[:]), v})
	}
	sort.Slice(items, func(i, j int) bool { return items[i].k.Cmp(items[j].k) < 0 })
	if len(items) == 0 {
		return felt.Zero
	}
	return node(items, height, h)
}

// node hashes the subtree that contains items, all of which agree on every bit above `remaining`.
func node(items []kv, remaining int, h HashFn) felt.Felt {
	if remaining == 0 {
		return items[0].v
	}
	// length of the common prefix of all items within the remaining bits
	first, last := items[0].k, items[len(items)-1].k
	cp := 0
	for cp < remaining && first.Bit(remaining-1-cp) == last.Bit(remaining-1-cp) {
		cp++
	}
	if cp > 0 {
		child := node(items, remaining-cp, h)
		// path = the cp common bits, as an integer
		path := new(big.Int).Rsh(first, uint(remaining-cp))
		path.And(path, new(big.Int).Sub(new(big.Int).Lsh(big.NewInt(1), uint(cp)), big.NewInt(1)))
		var pf felt.Felt
		pf.SetBigInt(path)
		hh := h(&child, &pf)
		var l felt.Felt
		l.SetUint64(uint64(cp))
		var out felt.Felt
		out.Add(&hh, &l)
		return out
	}
	// split on the next bit (items are sorted, so all 0-bit items come first)
	split := sort.Search(len(items), func(i int) bool { return items[i].k.Bit(remaining-1) == 1 })
	left := node(items[:split], remaining-1, h)
	right := node(items[split:], remaining-1, h)
	return h(&left, &right)
}
