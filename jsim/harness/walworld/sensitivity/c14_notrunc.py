import os
p=os.environ['WT']+'/consensus/walstore/wal_store.go'; s=open(p).read()
old='''	if err := recoverLatestWALTail(logs); err != nil {
		return nil, fmt.Errorf("NewTendermintWALStore: recover latest WAL tail: %w", err)
	}
'''
assert old in s
s=s.replace(old,'''	_ = recoverLatestWALTail
''')
open(p,'w').write(s)
