# Flush splits a pending batch of more than 512 records into several separately appended+synced WAL records
# (partial batch after a crash / a fault inside the flush). Caught as partial_batch:<call>/after-write/all.
import os, subprocess
here = os.path.dirname(os.path.abspath(__file__))
subprocess.check_call(["git", "-C", os.environ["WT"], "apply", os.path.join(here, "c14_chunked_flush.diff")])
