import os
p=os.environ['WT']+'/consensus/walstore/wal_store.go'; s=open(p).read()
old='''		if !appendResult.committed {
			return err
		}'''
assert old in s
s=s.replace(old,'''		if !appendResult.committed {
			clear(s.pendingRecords)
			s.pendingRecords = s.pendingRecords[:0]
			return nil
		}''')
open(p,'w').write(s)
