import os
p=os.environ['WT']+'/consensus/walstore/wal_store.go'; s=open(p).read()
old='''	if err := writePruneWatermark(s.wal.dir, s.prunedUpToHeight); err != nil {
		return err
	}

	// Future optimisation: run cleanup in a background worker, piggyback prune
	// durability on the next WAL flush instead of the driver's per-height Flush.
	rotateErr := s.wal.rotateAfterSynced()
	cleanupErr := s.cleanupObsoleteWALs()
'''
assert old in s
s=s.replace(old,'''	rotateErr := s.wal.rotateAfterSynced()
	cleanupErr := s.cleanupObsoleteWALs()
	if err := writePruneWatermark(s.wal.dir, s.prunedUpToHeight); err != nil {
		return err
	}
''')
open(p,'w').write(s)
