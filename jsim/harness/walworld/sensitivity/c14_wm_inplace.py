import os
p=os.environ['WT']+'/consensus/walstore/prune_watermark.go'; s=open(p).read()
old='''	tmpPath := path + ".tmp"'''
assert old in s
s=s.replace(old,'''	tmpPath := path''')
old2='''	if err := os.Rename(tmpPath, path); err != nil {
		_ = os.Remove(tmpPath)
		return fmt.Errorf("writePruneWatermark: replace watermark: %w", err)
	}
'''
assert old2 in s
s=s.replace(old2,'')
open(p,'w').write(s)
