import os
p=os.environ['WT']+'/consensus/walstore/wal_index.go'; s=open(p).read()
old='''		if liveHeight <= height {
			s.deleteLiveHeight(liveHeight)'''
assert old in s
s=s.replace(old,'''		if liveHeight < height {
			s.deleteLiveHeight(liveHeight)''')
open(p,'w').write(s)
