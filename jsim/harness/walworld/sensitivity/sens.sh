#!/bin/bash
# usage: sens.sh <ID> <name> <python-edit-script-file>   (edits files under $WT)
ID=$1; NAME=$2; ED=$3
WT=/tmp/jr-$ID-$NAME
git -C /repo worktree remove --force $WT 2>/dev/null
git -C /repo worktree add --detach $WT HEAD >/dev/null 2>&1 || { echo "worktree failed"; exit 3; }
WT=$WT python3 $ED || { echo "edit failed"; git -C /repo worktree remove --force $WT; exit 3; }
git -C $WT diff --stat | tail -3
cd /verif && t0=$(date +%s); JSIM_REPO=$WT ./check $ID ${TIER:-quick} > /dev/shm/sens-$ID-$NAME.log 2>&1; rc=$?; t1=$(date +%s)
echo "== $ID $NAME exit=$rc wall=$((t1-t0))s"; grep -E "VIOLATION|violation detail|MACHINERY|check C" /dev/shm/sens-$ID-$NAME.log | cut -c1-400 | head -12
git -C /repo worktree remove --force $WT
git -C /repo worktree prune
