import os
p=os.environ['WT']+'/consensus/walstore/prune_watermark.go'; s=open(p).read()
old='''	if writeErr == nil {
		writeErr = file.Sync()
	}'''
assert old in s
s=s.replace(old,'')
open(p,'w').write(s)
