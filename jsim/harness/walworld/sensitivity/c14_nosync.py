import os
p=os.environ['WT']+'/consensus/walstore/wal_writer.go'; s=open(p).read()
old='''	logicalOffset, err := writer.WriteRecord(encodedBatch, pebblewal.SyncOptions{
		Done: &waitGroup,
		Err:  &syncErr,
	}, nil)'''
assert old in s
s=s.replace(old,'''	waitGroup.Done()
	logicalOffset, err := writer.WriteRecord(encodedBatch, pebblewal.SyncOptions{}, nil)''')
open(p,'w').write(s)
