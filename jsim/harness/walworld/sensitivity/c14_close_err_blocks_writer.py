# closeAndRepairCurrent sets repairRequired when the writer's Close reported an error although the tail repair
# succeeded: every later Flush of the process is refused. Caught as unusable:flush(after-failed-flush)/after-<kind>-error.
import os, subprocess
here = os.path.dirname(os.path.abspath(__file__))
subprocess.check_call(["git", "-C", os.environ["WT"], "apply", os.path.join(here, "c14_close_err_blocks_writer.diff")])
