// Package walworld holds the simulated disk for the real consensus/walstore (C14) and is reused by
// the driver world (C13).
//
// Disk is an op-counting, fault-injecting vfs.FS on top of Pebble's crashable in-memory file system
// (vfs.NewCrashableMem). Every mutation of the disk (create, write, sync, dir-sync, rename, remove,
// truncate) is one numbered operation; after each one a callback can take crash images.
package walworld

import (
	"errors"
	"fmt"
	"io"
	"os"
	"sort"
	"strings"
	"sync"

	"github.com/NethermindEth/juno/jsimos"
	"github.com/cockroachdb/pebble/v2/vfs"
)

type OpKind int

const (
	OpCreate OpKind = iota
	OpWrite
	OpSync
	OpDirSync
	OpRename
	OpRemove
	OpTruncate
	nOpKinds
)

func (k OpKind) String() string {
	return [...]string{"create", "write", "sync", "dirsync", "rename", "remove", "truncate"}[k]
}

// ErrInjected is returned by an operation that the fault plan makes fail.
var ErrInjected = errors.New("jsim: injected I/O error")

// Disk is the simulated disk.
type Disk struct {
	vfs.FS // the MemFS: all read-only and path methods pass through
	Mem    *vfs.MemFS

	mu     sync.Mutex
	nOps   int
	synced map[string]int64 // path -> length known durable for the file CURRENTLY at that path

	// AfterOp is called after every applied (or failed) operation, never concurrently.
	AfterOp func(kind OpKind, path string, failed bool)
	// Quiet suppresses AfterOp and fault injection (used for housekeeping that is not part of the run).
	Quiet bool

	// Fault plan: while Armed, the FailNth-th (1-based) operation of kind FailKind fails.
	Armed     bool
	FailKind  OpKind
	FailNth   int
	FailShort bool // a failing write first writes a strict prefix of its data
	FailFull  bool // a failing write first writes ALL of its data and then reports the error (the device took the bytes, the call failed)
	seenKind  int
	Fired     int

	// CoalesceWrites (opt-in, off by default): consecutive Write calls on the same file count as ONE
	// numbered operation whose AfterOp callback is deferred until the next operation of another kind or
	// on another file arrives (it is delivered just before that operation is applied) or until Settle
	// is called. Zero-length writes are no operation at all. Reason: a record larger than one 32 KiB
	// block reaches the file as one Write per block issued by Pebble's flusher goroutine while the
	// caller is still filling blocks; how the bytes are cut into Write calls (an extra empty write, a
	// few padding bytes on their own) depends on goroutine timing, the byte stream does not. The states
	// between the writes of a group are prefixes of the group and are covered by byte-level cuts.
	CoalesceWrites bool
	pend           bool // a write group is open: its callback has not been delivered yet
	pendPath       string
	GroupWrites    int // number of Write calls in the group delivered last (or still open)

	// FailAtByte >= 0 (with Armed and FailKind == OpWrite, CoalesceWrites only) selects the failing
	// write by position in the byte stream instead of by call count: the write that would carry the
	// FailAtByte-th byte (0-based, counted over all writes since ArmWriteFaultAtByte) first writes the
	// bytes before it and then fails. Independent of how the stream is cut into Write calls.
	FailAtByte int64
	seenBytes  int64
}

// NewDisk creates an empty crashable disk on which the directories in dirs (and their parents) exist
// durably.
func NewDisk(dirs ...string) *Disk {
	mem := vfs.NewCrashableMem()
	d := &Disk{FS: mem, Mem: mem, synced: map[string]int64{}, FailAtByte: -1}
	for _, dir := range dirs {
		MkdirDurable(mem, dir)
	}
	return d
}

// MkdirDurable creates dir and directory-syncs it and every parent up to the root.
func MkdirDurable(mem *vfs.MemFS, dir string) {
	if err := mem.MkdirAll(dir, 0o755); err != nil {
		panic(err)
	}
	p := dir
	for {
		f, err := mem.OpenDir(p)
		if err != nil {
			panic(err)
		}
		if err := f.Sync(); err != nil {
			panic(err)
		}
		f.Close()
		if p == "/" || p == "" || p == "." {
			break
		}
		np := mem.PathDir(p)
		if np == p {
			break
		}
		p = np
	}
}

// Install makes this disk the file system of walstore (vfs.Default + the jsimos shim).
// Install(nil) restores the real operating system.
func Install(fs vfs.FS) {
	if fs == nil {
		vfs.Default = realDefault
		jsimos.FS = nil
		return
	}
	vfs.Default = fs
	jsimos.FS = fs
}

var realDefault = vfs.Default

// NOps, SyncedLen: call only from AfterOp or while no operation is running (they do not lock).
func (d *Disk) NOps() int { return d.nOps }

// SyncedLen is the length of the file at path that is known to be durable (0 for a file whose
// contents were never synced).
func (d *Disk) SyncedLen(path string) int64 { return d.synced[path] }

// ArmFault arms the fault plan: the nth operation of the kind fails from now on (counted from now).
func (d *Disk) ArmFault(kind OpKind, nth int, short bool) {
	d.mu.Lock()
	defer d.mu.Unlock()
	d.Armed, d.FailKind, d.FailNth, d.FailShort, d.seenKind = true, kind, nth, short, 0
	d.FailAtByte, d.seenBytes = -1, 0
	d.FailFull = false
}

// ArmWriteFaultAtByte arms a write fault selected by byte position (see FailAtByte). CoalesceWrites only.
func (d *Disk) ArmWriteFaultAtByte(at int64) {
	d.mu.Lock()
	defer d.mu.Unlock()
	if !d.CoalesceWrites {
		panic("jsim Disk: ArmWriteFaultAtByte needs CoalesceWrites")
	}
	d.Armed, d.FailKind, d.FailNth, d.FailShort, d.seenKind = true, OpWrite, 0, true, 0
	d.FailAtByte, d.seenBytes = at, 0
}

// Settle delivers the deferred callback of an open write group (CoalesceWrites). Call it when the API
// call under observation has returned.
func (d *Disk) Settle() {
	d.mu.Lock()
	defer d.mu.Unlock()
	d.settleLocked()
}

func (d *Disk) settleLocked() {
	if !d.pend {
		return
	}
	d.pend = false
	if d.AfterOp != nil && !d.Quiet {
		d.AfterOp(OpWrite, d.pendPath, false)
	}
}

// writeCoalesced is Write under CoalesceWrites.
func (d *Disk) writeCoalesced(path string, p []byte, do func(q []byte) (int, error)) (int, error) {
	d.mu.Lock()
	defer d.mu.Unlock()
	if d.Quiet {
		return do(p)
	}
	if len(p) == 0 {
		return 0, nil
	}
	cont := d.pend && d.pendPath == path
	if !cont {
		d.settleLocked()
	}
	fail, cut := false, 0
	if d.Armed && d.FailKind == OpWrite {
		if d.FailAtByte >= 0 {
			if d.seenBytes+int64(len(p)) > d.FailAtByte {
				fail, cut = true, int(d.FailAtByte-d.seenBytes)
				d.Armed = false // one shot
			}
			d.seenBytes += int64(len(p))
		} else if !cont {
			d.seenKind++
			if d.seenKind == d.FailNth {
				fail = true
				if d.FailShort && len(p) > 1 {
					cut = len(p) / 2
				}
				if d.FailFull {
					cut = len(p)
				}
			}
		}
	}
	if !cont {
		d.nOps++
		d.GroupWrites = 0
	}
	d.GroupWrites++
	if fail {
		d.Fired++
		n := 0
		if cut > 0 {
			n, _ = do(append([]byte(nil), p[:cut]...))
		}
		// the failed write closes the group: one callback for the whole group, marked failed
		d.pend = false
		if d.AfterOp != nil {
			d.AfterOp(OpWrite, path, true)
		}
		return n, ErrInjected
	}
	n, err := do(p)
	d.pend, d.pendPath = true, path
	return n, err
}

func (d *Disk) Disarm() {
	d.mu.Lock()
	defer d.mu.Unlock()
	d.Armed = false
}

// op runs one numbered operation. apply performs it; it is skipped when the fault plan fires
// (partial, when given, is executed instead).
func (d *Disk) op(kind OpKind, path string, apply func() error, partial func()) error {
	d.mu.Lock()
	defer d.mu.Unlock()
	if d.Quiet {
		return apply()
	}
	if d.CoalesceWrites {
		d.settleLocked()
	}
	fail := false
	if d.Armed && kind == d.FailKind {
		d.seenKind++
		if d.seenKind == d.FailNth {
			fail = true
			d.Fired++
		}
	}
	var err error
	if fail {
		if partial != nil && d.FailShort {
			partial()
		}
		err = ErrInjected
	} else {
		err = apply()
	}
	d.nOps++
	if d.AfterOp != nil {
		d.AfterOp(kind, path, fail)
	}
	return err
}

func (d *Disk) wrap(f vfs.File, path string, isDir bool) vfs.File {
	return &dfile{File: f, d: d, path: path, isDir: isDir}
}

func (d *Disk) Create(name string, cat vfs.DiskWriteCategory) (vfs.File, error) {
	var f vfs.File
	err := d.op(OpCreate, name, func() error {
		var e error
		f, e = d.Mem.Create(name, cat)
		if e == nil {
			d.synced[name] = 0
		}
		return e
	}, nil)
	if err != nil {
		return nil, err
	}
	return d.wrap(f, name, false), nil
}

func (d *Disk) Open(name string, opts ...vfs.OpenOption) (vfs.File, error) {
	f, err := d.Mem.Open(name, opts...)
	if err != nil {
		return nil, err
	}
	isDir := false
	if fi, e := f.Stat(); e == nil {
		isDir = fi.IsDir()
	}
	return d.wrap(f, name, isDir), nil
}

func (d *Disk) OpenDir(name string) (vfs.File, error) {
	f, err := d.Mem.OpenDir(name)
	if err != nil {
		return nil, err
	}
	return d.wrap(f, name, true), nil
}

func (d *Disk) OpenReadWrite(name string, cat vfs.DiskWriteCategory, opts ...vfs.OpenOption) (vfs.File, error) {
	if _, err := d.Mem.Stat(name); err != nil {
		return d.Create(name, cat)
	}
	f, err := d.Mem.OpenReadWrite(name, cat, opts...)
	if err != nil {
		return nil, err
	}
	return d.wrap(f, name, false), nil
}

func (d *Disk) Remove(name string) error {
	return d.op(OpRemove, name, func() error {
		e := d.Mem.Remove(name)
		if e == nil {
			delete(d.synced, name)
		}
		return e
	}, nil)
}

func (d *Disk) RemoveAll(name string) error {
	return d.op(OpRemove, name, func() error {
		e := d.Mem.RemoveAll(name)
		if e == nil {
			delete(d.synced, name)
		}
		return e
	}, nil)
}

func (d *Disk) Rename(oldname, newname string) error {
	return d.op(OpRename, oldname, func() error {
		e := d.Mem.Rename(oldname, newname)
		if e == nil {
			d.synced[newname] = d.synced[oldname]
			delete(d.synced, oldname)
		}
		return e
	}, nil)
}

func (d *Disk) Link(oldname, newname string) error {
	panic("jsim Disk: Link is not expected from walstore")
}

func (d *Disk) ReuseForWrite(oldname, newname string, cat vfs.DiskWriteCategory) (vfs.File, error) {
	panic("jsim Disk: ReuseForWrite (log recycling) is not expected from walstore")
}

func (d *Disk) Unwrap() vfs.FS { return nil }

// TruncateFile is the disk's own ftruncate (Pebble's vfs.File has none): ONE operation. MemFS can only
// re-create a file, which replaces the directory entry; to keep the result as durable as a real
// ftruncate+fsync the emulation syncs the new file and its directory inside the same operation, so no
// crash image can ever observe an intermediate state of the emulation. (Side effect: other pending
// directory changes of that directory become durable at this point, which is a legal outcome on a real
// disk.)
func (d *Disk) TruncateFile(name string, size int64) error {
	return d.op(OpTruncate, name, func() error {
		data, err := ReadAll(d.Mem, name)
		if err != nil {
			return err
		}
		if size < int64(len(data)) {
			data = data[:size]
		} else if size > int64(len(data)) {
			data = append(data, make([]byte, size-int64(len(data)))...)
		}
		f, err := d.Mem.Create(name, "jsim-truncate")
		if err != nil {
			return err
		}
		if _, err := f.Write(data); err != nil {
			return err
		}
		if err := f.Sync(); err != nil {
			return err
		}
		if err := f.Close(); err != nil {
			return err
		}
		dir, err := d.Mem.OpenDir(d.Mem.PathDir(name))
		if err != nil {
			return err
		}
		if err := dir.Sync(); err != nil {
			return err
		}
		d.synced[name] = size
		return dir.Close()
	}, nil)
}

type dfile struct {
	vfs.File
	d     *Disk
	path  string
	isDir bool
}

func (f *dfile) Write(p []byte) (n int, err error) {
	if f.d.CoalesceWrites {
		return f.d.writeCoalesced(f.path, p, f.File.Write)
	}
	err = f.d.op(OpWrite, f.path, func() error {
		var e error
		n, e = f.File.Write(p)
		return e
	}, func() {
		if len(p) > 1 {
			n, _ = f.File.Write(append([]byte(nil), p[:len(p)/2]...))
		}
	})
	return n, err
}

func (f *dfile) WriteAt(p []byte, off int64) (n int, err error) {
	err = f.d.op(OpWrite, f.path, func() error {
		var e error
		n, e = f.File.WriteAt(p, off)
		return e
	}, nil)
	return n, err
}

func (f *dfile) sync() error {
	kind := OpSync
	if f.isDir {
		kind = OpDirSync
	}
	return f.d.op(kind, f.path, func() error {
		if e := f.File.Sync(); e != nil {
			return e
		}
		if !f.isDir {
			if fi, e := f.File.Stat(); e == nil {
				f.d.synced[f.path] = fi.Size()
			}
		}
		return nil
	}, nil)
}

func (f *dfile) Sync() error     { return f.sync() }
func (f *dfile) SyncData() error { return f.sync() }

// ---- images ------------------------------------------------------------------------------------------

// Image is the content of one directory: file name -> bytes.
type Image map[string][]byte

func ReadAll(fs vfs.FS, path string) ([]byte, error) {
	f, err := fs.Open(path)
	if err != nil {
		return nil, err
	}
	defer f.Close()
	return io.ReadAll(f)
}

// ReadDir reads all regular files of dir.
func ReadDir(fs vfs.FS, dir string) Image {
	img := Image{}
	names, err := fs.List(dir)
	if err != nil {
		return img
	}
	for _, n := range names {
		p := fs.PathJoin(dir, n)
		fi, err := fs.Stat(p)
		if err != nil || fi.IsDir() {
			continue
		}
		b, err := ReadAll(fs, p)
		if err != nil {
			panic(err)
		}
		img[n] = b
	}
	return img
}

// SyncedView is the directory as a crash that keeps exactly the synced data and synced directory
// entries would leave it (Pebble's CrashClone with UnsyncedDataPercent 0).
func (d *Disk) SyncedView(dir string) Image {
	return ReadDir(d.Mem.CrashClone(vfs.CrashCloneCfg{}), dir)
}

// FullView is the directory with everything written so far.
func (d *Disk) FullView(dir string) Image { return ReadDir(d.Mem, dir) }

// BuildMem builds a fresh, fully durable file system holding img in dir.
func BuildMem(dir string, img Image, crashable bool) *vfs.MemFS {
	var mem *vfs.MemFS
	if crashable {
		mem = vfs.NewCrashableMem()
	} else {
		mem = vfs.NewMem()
	}
	if err := mem.MkdirAll(dir, 0o755); err != nil {
		panic(err)
	}
	for _, n := range img.Names() {
		f, err := mem.Create(mem.PathJoin(dir, n), "jsim-image")
		if err != nil {
			panic(err)
		}
		if _, err := f.Write(append([]byte(nil), img[n]...)); err != nil {
			panic(err)
		}
		if crashable {
			_ = f.Sync()
		}
		f.Close()
	}
	if crashable {
		MkdirDurable(mem, dir)
	}
	return mem
}

// QuietDisk wraps a file system for image evaluation: no numbering, no callbacks, no faults.
func QuietDisk(mem *vfs.MemFS) *Disk {
	return &Disk{FS: mem, Mem: mem, synced: map[string]int64{}, Quiet: true, FailAtByte: -1}
}

// NewDiskFromImage is a disk whose directory dir durably holds img (a machine restarted after a crash).
func NewDiskFromImage(dir string, img Image) *Disk {
	mem := BuildMem(dir, img, true)
	d := &Disk{FS: mem, Mem: mem, synced: map[string]int64{}, FailAtByte: -1}
	for n, b := range img {
		d.synced[mem.PathJoin(dir, n)] = int64(len(b))
	}
	return d
}

func (img Image) Names() []string {
	ns := make([]string, 0, len(img))
	for n := range img {
		ns = append(ns, n)
	}
	sort.Strings(ns)
	return ns
}

func (img Image) Clone() Image {
	o := make(Image, len(img))
	for k, v := range img {
		o[k] = v // contents are never mutated in place
	}
	return o
}

func (img Image) Equal(o Image) bool {
	if len(img) != len(o) {
		return false
	}
	for k, v := range img {
		w, ok := o[k]
		if !ok || string(v) != string(w) {
			return false
		}
	}
	return true
}

func (img Image) String() string {
	var sb strings.Builder
	for _, n := range img.Names() {
		fmt.Fprintf(&sb, "%s(%d) ", n, len(img[n]))
	}
	return sb.String()
}

// IsLog reports whether name is a WAL segment.
func IsLog(name string) bool { return strings.HasSuffix(name, ".log") }

var _ vfs.FS = (*Disk)(nil)
var _ jsimos.Truncater = (*Disk)(nil)
var _ = os.ErrNotExist
