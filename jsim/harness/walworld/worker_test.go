package walworld

import (
	"runtime/debug"
	"testing"

	"jsim/sim"
)

func TestWorker(t *testing.T) {
	debug.SetGCPercent(400) // image evaluation allocates 32 KiB reader blocks per restart; live heap is tiny
	sim.WorkerMain(t, map[string]sim.Harness{
		"C14": C14,
	}, map[string]sim.Options{
		"C14": {PanicIsViolation: true},
	})
}
