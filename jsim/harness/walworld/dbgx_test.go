package walworld

import (
	"fmt"
	"os"
	"sort"
	"strconv"
	"strings"
	"testing"
	"time"

	"jsim/sim"
	"jsim/tape"
)

// TestDbgBulk: developer aid (JSIM_DBG=1, JSIM_DBG_N=runs): wall time, probes and violations, bulk runs only
// unless JSIM_DBG_ALL is set.
func TestDbgBulk(t *testing.T) {
	if os.Getenv("JSIM_DBG") == "" {
		t.Skip()
	}
	n, _ := strconv.Atoi(os.Getenv("JSIM_DBG_N"))
	if n == 0 {
		n = 200
	}
	probes := map[string]int{}
	var tBulk, tOther time.Duration
	nBulk, nOther := 0, 0
	viol := map[string]int{}
	for i := 0; i < n; i++ {
		seed := tape.Mix(11, uint64(i))
		t0 := time.Now()
		r := sim.Exec(C14, "C14", "quick", seed, sim.Options{PanicIsViolation: true})
		d := time.Since(t0)
		bulk := strings.HasSuffix(r.Events[0], " bulk")
		if bulk {
			nBulk++
			tBulk += d
		} else {
			nOther++
			tOther += d
		}
		for k, v := range r.Probes {
			probes[k] += v
		}
		for k, v := range r.Faults {
			probes["F:"+k] += v
		}
		if r.Violation != nil {
			viol[r.Violation.Key]++
			if viol[r.Violation.Key] == 1 {
				fmt.Printf("VIOL seed-index %d %s\n%s\n", i, r.Violation.Key, r.Violation.Detail)
				for _, e := range r.Events {
					fmt.Println("   ", e)
				}
			}
		}
		if r.Machinery != "" {
			fmt.Printf("MACH seed-index %d %s\n", i, r.Machinery)
		}
		if bulk || os.Getenv("JSIM_DBG_ALL") != "" {
			fmt.Printf("seed %d: %v evals=%d events=%d sample=%v\n", i, d, r.Evals, len(r.Events), r.Sample)
		}
	}
	fmt.Printf("bulk runs %d avg %v; other runs %d avg %v\n", nBulk, tBulk/time.Duration(max(nBulk, 1)), nOther, tOther/time.Duration(max(nOther, 1)))
	keys := make([]string, 0, len(probes))
	for k := range probes {
		keys = append(keys, k)
	}
	sort.Strings(keys)
	for _, k := range keys {
		fmt.Printf("  %-36s %d\n", k, probes[k])
	}
	for k, v := range viol {
		fmt.Printf("  VIOLATION %s x%d\n", k, v)
	}
}
