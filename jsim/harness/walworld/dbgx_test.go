package walworld

import (
	"fmt"
	"os"
	"runtime"
	"sort"
	"strconv"
	"strings"
	"testing"
	"time"

	"jsim/sim"
	"jsim/tape"
)

// TestDbgBulk: developer aid (JSIM_DBG=1, JSIM_DBG_N=runs): wall time, probes and violations, bulk runs only
// unless JSIM_DBG_ALL is set.
func TestDbgBulk(t *testing.T) {
	if os.Getenv("JSIM_DBG") == "" {
		t.Skip()
	}
	n, _ := strconv.Atoi(os.Getenv("JSIM_DBG_N"))
	if n == 0 {
		n = 200
	}
	probes := map[string]int{}
	var tBulk, tOther time.Duration
	nBulk, nOther := 0, 0
	viol := map[string]int{}
	first, _ := strconv.Atoi(os.Getenv("JSIM_DBG_FIRST"))
	for i := first; i < first+n; i++ {
		seed := tape.Mix(11, uint64(i))
		t0 := time.Now()
		r := sim.Exec(C14, "C14", "quick", seed, sim.Options{PanicIsViolation: true})
		d := time.Since(t0)
		bulk := strings.HasSuffix(r.Events[0], " bulk")
		if bulk {
			nBulk++
			tBulk += d
		} else {
			nOther++
			tOther += d
		}
		for k, v := range r.Probes {
			probes[k] += v
		}
		for k, v := range r.Faults {
			probes["F:"+k] += v
		}
		if r.Violation != nil {
			viol[r.Violation.Key]++
			if viol[r.Violation.Key] == 1 {
				fmt.Printf("VIOL seed-index %d %s\n%s\n", i, r.Violation.Key, r.Violation.Detail)
				for _, e := range r.Events {
					fmt.Println("   ", e)
				}
			}
		}
		if r.Machinery != "" {
			fmt.Printf("MACH seed-index %d %s\n", i, r.Machinery)
		}
		if bulk || os.Getenv("JSIM_DBG_ALL") != "" {
			fmt.Printf("seed %d: %v evals=%d events=%d sample=%v\n", i, d, r.Evals, len(r.Events), r.Sample)
		}
	}
	fmt.Printf("bulk runs %d avg %v; other runs %d avg %v\n", nBulk, tBulk/time.Duration(max(nBulk, 1)), nOther, tOther/time.Duration(max(nOther, 1)))
	keys := make([]string, 0, len(probes))
	for k := range probes {
		keys = append(keys, k)
	}
	sort.Strings(keys)
	for _, k := range keys {
		fmt.Printf("  %-36s %d\n", k, probes[k])
	}
	for k, v := range viol {
		fmt.Printf("  VIOLATION %s x%d\n", k, v)
	}
}

// TestDbgBulkDeterminism: developer aid (JSIM_DBG=1): bulk runs repeated under several GOMAXPROCS must give
// the same trace hash, evaluation count and probe counts.
func TestDbgBulkDeterminism(t *testing.T) {
	if os.Getenv("JSIM_DBG") == "" {
		t.Skip()
	}
	n, _ := strconv.Atoi(os.Getenv("JSIM_DBG_N"))
	if n == 0 {
		n = 400
	}
	nb, bad := 0, 0
	for i := 0; i < n; i++ {
		seed := tape.Mix(23, uint64(i))
		var ref sim.RunResult
		for rep, g := range []int{1, 2, 4, 16, 3, 1} {
			old := runtime.GOMAXPROCS(g)
			r := sim.Exec(C14, "C14", "quick", seed, sim.Options{PanicIsViolation: true})
			runtime.GOMAXPROCS(old)
			if !strings.HasSuffix(r.Events[0], " bulk") {
				break
			}
			if rep == 0 {
				ref = r
				nb++
				continue
			}
			if r.TraceHash != ref.TraceHash || r.Evals != ref.Evals || fmt.Sprint(r.Probes) != fmt.Sprint(ref.Probes) || fmt.Sprint(r.Faults) != fmt.Sprint(ref.Faults) || r.TapeLen != ref.TapeLen {
				bad++
				fmt.Printf("NONDETERMINISTIC seed-index %d gomaxprocs %d: hash %x/%x evals %d/%d tapelen %d/%d\n  %v\n  %v\n", i, g, r.TraceHash, ref.TraceHash, r.Evals, ref.Evals, r.TapeLen, ref.TapeLen, r.Probes, ref.Probes)
				for k := range r.Events {
					if k >= len(ref.Events) || r.Events[k] != ref.Events[k] {
						fmt.Printf("  first differing event %d: %q vs %q\n", k, r.Events[k], ref.Events[min(k, len(ref.Events)-1)])
						break
					}
				}
			}
		}
	}
	fmt.Printf("bulk runs %d, nondeterministic repetitions %d\n", nb, bad)
	if bad > 0 {
		t.Fail()
	}
}
