package walworld

import (
	"fmt"
	"hash/fnv"
	"sort"
	"strings"

	"github.com/NethermindEth/juno/consensus/types"
	"github.com/NethermindEth/juno/consensus/types/wal"

	"jsim/sim"
)

// C14: the consensus log never loses flushed entries and never revives pruned ones.
//
// One run = one tape-generated history of SetWALEntry / Flush / DeleteWALEntries / Close / reopen /
// crash+restart on the REAL walstore running on the simulated Disk. After EVERY disk operation a set of
// crash images is derived (synced-only, everything-written, tape-chosen mixes, every byte length of
// unsynced log tails, single-byte corruptions and zero fills past the synced offset); each image is
// reopened with the real NewTendermintWALStore and LoadAllEntries is compared with the model.

const (
	clsShort     = iota // fault-free, short histories, exhaustive byte-level images
	clsFault            // one injected I/O error in some Flush/Close, plus crash images
	clsLong             // many prunes: crosses cleanupPruneRecordInterval (watermark, rotation, removal)
	clsCrash            // short histories with frequent crash+restart from a chosen image
	clsLongFault        // like clsLong, with an injected I/O error in the flush that performs the cleanup
	nClasses
)

var clsName = [...]string{"short", "ioerror", "longprune", "crashrestart", "longprune_ioerror"}

const (
	// a Flush/Close of more than largeBatch records counts as a "large batch" (probes only; the generator
	// does not know this number: sizes come from bulkSize)
	largeBatch = 512
	// log tails longer than this are never enumerated byte by byte
	bigTail     = 1024 // runs with a bulk append only
	bigTailCuts = 24
	// Pebble's record reader answers a checksum mismatch with a bit-flip diagnosis that recomputes the
	// checksum of the fragment once per bit (quadratic: seconds for a 32 KiB fragment). In big tails a
	// corrupted image (flip, zero fill) is therefore generated only where the fragment holding the byte
	// cannot be longer than cheapFragment, plus one tape-chosen sample point per tail where it cannot be
	// longer than dearFragment.
	cheapFragment = 2048
	dearFragment  = 8192
	recBlockSize  = 32 * 1024 // Pebble's record block
	smallLogCap   = 28000     // runs without a bulk append stop growing a log file here (one record block)
	bulkLogCap    = 400000
)

type poss struct {
	st    *MState
	carry []MRec // records of failed flushes the store may still hold in memory
}

type capture struct {
	kind   OpKind
	path   string
	failed bool
	S, F   Image
	synced map[string]int64
}

type w14 struct {
	c     *sim.Ctx
	cls   int
	disk  *Disk
	store Store

	poss    []poss
	pending []MRec

	capturing bool
	caps      []capture
	stride    int // byte-level enumeration stride
	seen      map[uint64]bool

	curHeight   types.Height
	faultSince  bool // an injected error fired since the store was last opened
	nImages     int
	nFlushRecs  int
	pruneFlush  int // successful flushes containing a prune record since the store was opened
	adoptWant   int // index of the image to restart from (-1: none)
	adoptImg    Image
	adoptState  []*MState // every allowed state the chosen image is consistent with (they can differ in the watermark)
	adoptSeenN  int
	usedLogSize int
	nTails      int
	cleanupNext bool // the next prune flush is the one that crosses the cleanup interval
	small       bool // generate small entries only (long runs: keep the log below one 32 KiB record block)

	bulk      bool // this run appends one (rarely two) very large batch(es): log files span several record blocks
	bulkAt    int  // index of the ordinary operation before which the bulk append happens
	bulkSizes []int
	pendBytes int  // approximate encoded size of the pending records (only used to place write faults)
	largeNow  bool // the call being evaluated flushes a large batch
	logCap    int
}

func C14(c *sim.Ctx) {
	t := c.T
	w := &w14{c: c, stride: 1, adoptWant: -1, curHeight: 1, logCap: smallLogCap}
	w.cls = []int{clsShort, clsShort, clsShort, clsFault, clsFault, clsFault, clsCrash, clsCrash, clsLong, clsLongFault}[t.Draw("class", 10)]
	if w.cls != clsLong && w.cls != clsLongFault && t.Draw("bulk_run", 8) == 7 {
		w.bulk, w.bulkAt, w.logCap = true, t.Draw("bulk_at", 6), bulkLogCap
	}
	w.disk = NewDisk(WALDir)
	w.disk.CoalesceWrites = true
	w.disk.AfterOp = w.afterOp
	Install(w.disk)
	defer func() {
		if w.store != nil {
			w.disk.Quiet = true
			_ = w.store.Close()
		}
		Install(nil)
	}()
	w.poss = []poss{{st: NewMState()}}
	w.capturing = true
	if w.bulk {
		c.Logf("class=%s bulk", clsName[w.cls])
	} else {
		c.Logf("class=%s", clsName[w.cls])
	}
	w.open("open")

	switch w.cls {
	case clsLong, clsLongFault:
		w.longRun()
	default:
		n := 6 + t.Draw("nops", 20)
		for i := 0; i < n; i++ {
			if w.bulk && i == w.bulkAt {
				w.bulkOp()
				if t.Draw("bulk_again", 4) == 3 {
					w.bulkAt = i + 1 + t.Draw("bulk_again_at", 4)
				}
				n = min(n, i+1+6) // every later restart parses the large log again: few operations follow
			}
			w.randomOp()
		}
	}
	w.finish()
	c.Nontrivial = w.nFlushRecs >= 1 && w.nImages >= 3
	sample := map[string]any{"class": clsName[w.cls], "flushes_with_records": w.nFlushRecs, "images": w.nImages, "disk_ops": w.disk.NOps()}
	if w.bulk {
		sample["bulk_appends"] = w.bulkSizes
	}
	c.Sample = sample
}

// ---- capturing ---------------------------------------------------------------------------------------

func (w *w14) afterOp(kind OpKind, path string, failed bool) {
	if !failed {
		switch kind {
		case OpRemove:
			if IsLog(path) {
				w.c.Probe("obsolete_log_removed")
			}
		case OpTruncate:
			w.c.Probe("log_tail_truncated")
		case OpRename:
			w.c.Probe("watermark_replaced")
		}
	}
	if !w.capturing {
		return
	}
	w.caps = append(w.caps, w.snapshot(kind, path, failed))
}

func (w *w14) snapshot(kind OpKind, path string, failed bool) capture {
	cp := capture{kind: kind, path: path, failed: failed, S: w.disk.SyncedView(WALDir), F: w.disk.FullView(WALDir), synced: map[string]int64{}}
	for n := range cp.F {
		cp.synced[n] = w.disk.SyncedLen(w.disk.PathJoin(WALDir, n))
	}
	return cp
}

func states(ps []poss) []*MState {
	var out []*MState
	seen := map[string]bool{}
	for _, p := range ps {
		k := p.st.Canon() + fmt.Sprintf("#%d", p.st.WM)
		if !seen[k] {
			seen[k] = true
			out = append(out, p.st)
		}
	}
	return out
}

func dedupePoss(ps []poss) []poss {
	var out []poss
	seen := map[string]bool{}
	for _, p := range ps {
		var sb strings.Builder
		sb.WriteString(p.st.Canon())
		fmt.Fprintf(&sb, "#%d#", p.st.WM)
		for _, r := range p.carry {
			fmt.Fprintf(&sb, "%v/%d/%s;", r.Prune, r.H, r.S)
		}
		if !seen[sb.String()] {
			seen[sb.String()] = true
			out = append(out, p)
		}
	}
	return out
}

// evalCaptures evaluates the crash images of every disk operation of the API call that just returned,
// then the quiescent state with the stricter post-call expectation.
func (w *w14) evalCaptures(call string, during []*MState, after []*MState) {
	w.seen = map[uint64]bool{}
	for i := range w.caps {
		cp := &w.caps[i]
		where := call + "/after-" + cp.kind.String()
		if cp.failed {
			where = call + "/failed-" + cp.kind.String()
		}
		if w.largeNow {
			w.c.Probe("crash_inside_large_flush")
		}
		w.evalPoint(cp, where, during)
	}
	w.caps = w.caps[:0]
	if w.capturing {
		w.seen = map[uint64]bool{}
		cp := w.snapshot(0, "", false)
		w.evalPoint(&cp, call+"/returned", after)
	}
	// size of the newest log file (the one being appended to)
	w.usedLogSize = 0
	if names, err := w.disk.List(WALDir); err == nil {
		sort.Strings(names)
		for _, n := range names {
			if fi, err := w.disk.Stat(w.disk.PathJoin(WALDir, n)); err == nil && IsLog(n) {
				w.usedLogSize = int(fi.Size())
			}
		}
	}
}

func allowedKey(allowed []*MState) uint64 {
	h := fnv.New64a()
	for _, a := range allowed {
		h.Write([]byte(a.Canon()))
		h.Write([]byte{'#'})
	}
	return h.Sum64()
}

func (w *w14) evalPoint(cp *capture, where string, allowedStates []*MState) {
	allowed := allowedSet{states: allowedStates, key: allowedKey(allowedStates)}
	w.evalImage(cp.S, where, "synced", allowed)
	same := cp.S.Equal(cp.F)
	if !same {
		w.evalImage(cp.F, where, "all", allowed)
		nMix := 2
		for m := 0; m < nMix; m++ {
			w.evalImage(w.mix(cp), where, "mix", allowed)
		}
	}
	// byte level: every log file with data past its synced length
	for _, n := range cp.F.Names() {
		if !IsLog(n) {
			continue
		}
		full := cp.F[n]
		sl := int(cp.synced[n])
		if sl >= len(full) {
			continue
		}
		if s, ok := cp.S[n]; ok && !(len(s) <= len(full) && string(full[:len(s)]) == string(s)) {
			continue // not an append-only difference; covered by synced/all/mix only
		}
		w.c.Probe("unsynced_log_tail")
		// every byte length for the first tails of a run and for short tails; later tails are sampled with a
		// tape-chosen phase (cost: each image is a full restart of the real store)
		stride := w.stride
		w.nTails++
		if stride == 1 && w.nTails > 2 && len(full)-sl > 48 {
			stride = 5
		}
		if w.bulk && len(full) > recBlockSize && stride < 8 {
			stride = 8 // every restart of a multi-block log parses thousands of records
		}
		if tail := len(full) - sl; w.bulk && tail > bigTail {
			// the tail of a large batch: about bigTailCuts sampled offsets (tape-chosen phase) plus every
			// record-block boundary, the first and the last byte
			if s := (tail + bigTailCuts - 1) / bigTailCuts; s > stride {
				stride = s
			}
			w.c.Probe("big_tail_sampled")
		}
		big := w.bulk && len(full)-sl > bigTail
		dearAt, nSampled := -1, 0
		if big {
			dearAt = w.c.T.Draw("big_corrupt_at", bigTailCuts)
		}
		phase := 0
		if stride > 1 {
			phase = w.c.T.Draw("stride_phase", stride)
		} else {
			w.c.Probe("tail_enumerated_bytewise")
		}
		for L := sl; L < len(full); L++ {
			if stride > 1 && (L-sl)%stride != phase && L != sl && L != len(full)-1 && L%recBlockSize != 0 {
				continue
			}
			img := cp.F.Clone()
			img[n] = full[:L]
			w.evalImage(img, where, "cut", allowed)
			if big {
				// upper bound of the length of the record fragment that holds byte L
				blockStart := L / recBlockSize * recBlockSize
				frag := min(len(full), blockStart+recBlockSize) - max(sl, blockStart)
				nSampled++
				if frag > cheapFragment && !(frag <= dearFragment && nSampled-1 == dearAt) {
					continue
				}
				w.c.Probe("big_tail_corrupted_image")
			}

			fl := append([]byte(nil), full...)
			fl[L] ^= byte(1) << uint(L%8)
			img = cp.F.Clone()
			img[n] = fl
			w.evalImage(img, where, "flip", allowed)

			z := append([]byte(nil), full[:L]...)
			z = append(z, make([]byte, len(full)-L)...)
			img = cp.F.Clone()
			img[n] = z
			w.evalImage(img, where, "zerofill", allowed)
		}
	}
}

// mix: per directory entry a tape-chosen outcome between the durable and the written version.
func (w *w14) mix(cp *capture) Image {
	t := w.c.T
	names := map[string]bool{}
	for n := range cp.S {
		names[n] = true
	}
	for n := range cp.F {
		names[n] = true
	}
	sorted := make([]string, 0, len(names))
	for n := range names {
		sorted = append(sorted, n)
	}
	sort.Strings(sorted)
	img := Image{}
	for _, n := range sorted {
		s, inS := cp.S[n]
		f, inF := cp.F[n]
		type opt struct {
			present bool
			data    []byte
			cut     bool
		}
		var opts []opt
		if inS {
			opts = append(opts, opt{present: true, data: s})
		} else {
			opts = append(opts, opt{})
		}
		if inF {
			if !inS || string(s) != string(f) {
				opts = append(opts, opt{present: true, data: f})
			}
			if int(cp.synced[n]) < len(f) {
				opts = append(opts, opt{present: true, data: f, cut: true})
			}
		} else {
			opts = append(opts, opt{})
		}
		if len(opts) == 1 {
			if opts[0].present {
				img[n] = opts[0].data
			}
			continue
		}
		o := opts[t.Draw("mix_entry", len(opts))]
		if !o.present {
			continue
		}
		if o.cut {
			sl := int(cp.synced[n])
			img[n] = o.data[:sl+t.Draw("mix_cut", len(o.data)-sl)]
		} else {
			img[n] = o.data
		}
	}
	return img
}

type allowedSet struct {
	states []*MState
	key    uint64
}

func hashImage(img Image, allowedKey uint64) uint64 {
	h := fnv.New64a()
	for _, n := range img.Names() {
		h.Write([]byte(n))
		h.Write([]byte{0})
		h.Write(img[n])
		h.Write([]byte{0xff})
	}
	var k [8]byte
	for i := range k {
		k[i] = byte(allowedKey >> (8 * i))
	}
	h.Write(k[:])
	return h.Sum64()
}

// evalImage restarts the real store on the image and compares what it loads with the allowed states.
func (w *w14) evalImage(img Image, where, variant string, as allowedSet) {
	c := w.c
	allowed := as.states
	hk := hashImage(img, as.key)
	track := w.adoptWant >= 0
	if w.seen[hk] && !track {
		return
	}
	w.seen[hk] = true
	c.Evals++
	w.nImages++
	Install(QuietDisk(BuildMem(WALDir, img, false)))
	st, err := OpenStore()
	if err != nil {
		Install(w.disk)
		c.Fail("open_error", where+"/"+variant, "NewTendermintWALStore failed on a crash image: %v\nimage: %s\nallowed[0]: %s", err, img, brief(allowed[0].Canon()))
	}
	ents, lerr := LoadEntries(st)
	_ = st.Close()
	Install(w.disk)
	if lerr != nil {
		c.Fail("load_error", where+"/"+variant, "LoadAllEntries failed on a crash image: %v\nimage: %s", lerr, img)
	}
	got := Observed(ents)
	gc := got.Canon()
	var match []*MState
	for _, a := range allowed {
		if a.Canon() == gc {
			match = append(match, a)
		}
	}
	if len(match) == 0 {
		cls := Classify(got, allowed)
		var sb strings.Builder
		for i, a := range allowed {
			fmt.Fprintf(&sb, "\n  allowed[%d] (pruned<=%d, %d entries): %s", i, a.WM, a.Count(), brief(a.Canon()))
		}
		c.Fail(cls, where+"/"+variant, "crash image %s\n  loaded (%d entries): %s%s", img, got.Count(), brief(gc), sb.String())
	}
	if track {
		if w.adoptSeenN <= w.adoptWant {
			w.adoptImg, w.adoptState = img, match
		}
		w.adoptSeenN++
	}
	switch variant {
	case "cut", "flip", "zerofill":
		c.Probe("torn_tail_image")
	}
	for n := range img {
		if strings.HasSuffix(n, ".tmp") {
			c.Probe("watermark_tmp_present")
		}
	}
}

// brief shortens the canonical text of a large state for messages.
func brief(s string) string {
	const keep = 700
	if len(s) <= 2*keep+40 {
		return s
	}
	return fmt.Sprintf("%s ...(%d bytes omitted)... %s", s[:keep], len(s)-2*keep, s[len(s)-keep:])
}

// ---- operations ----------------------------------------------------------------------------------------

func (w *w14) open(call string) {
	c := w.c
	before := w.disk.NOps()
	st, err := OpenStore()
	w.disk.Settle()
	if err != nil {
		w.caps = w.caps[:0]
		if w.faultSince {
			c.Fail("unusable", call+"/reopen_after_io_error", "reopening the log (no fault injected during open) failed after an earlier injected I/O error: %v", err)
		}
		c.Fail("open_error", call+"/live", "NewTendermintWALStore failed on the live disk: %v", err)
	}
	w.store = st
	w.pruneFlush = 0
	ents, lerr := LoadEntries(st)
	if lerr != nil {
		c.Fail("load_error", call+"/live", "LoadAllEntries: %v", lerr)
	}
	got := Observed(ents)
	var keep []poss
	for _, p := range w.poss {
		if p.st.Canon() == got.Canon() {
			keep = append(keep, poss{st: p.st})
		}
	}
	allowed := states(w.poss)
	if len(keep) == 0 {
		w.caps = w.caps[:0]
		cls := Classify(got, allowed)
		var sb strings.Builder
		for i, a := range allowed {
			fmt.Fprintf(&sb, "\n  allowed[%d] (pruned<=%d, %d entries): %s", i, a.WM, a.Count(), brief(a.Canon()))
		}
		c.Fail(cls, call+"/live-reopen", "reopen on the live disk loaded (%d entries): %s%s", got.Count(), brief(got.Canon()), sb.String())
	}
	w.poss = dedupePoss(keep)
	w.faultSince = false
	c.Logf("%s -> ok entries=%d diskops=%d", call, len(ents), w.disk.NOps()-before)
	w.evalCaptures(call, allowed, states(w.poss))
}

func (w *w14) genEntry(h types.Height) wal.Entry[V, H, A] {
	t := w.c.T
	hdr := func() types.MessageHeader[A] {
		return types.MessageHeader[A]{Height: h, Round: types.Round(t.Draw("round", 3)), Sender: Addr(t.Draw("sender", 4))}
	}
	id := func() *H {
		if t.Draw("nilid", 4) == 3 {
			return nil
		}
		x := H{uint64(1 + t.Draw("id", 5)), 7, 0, ^uint64(0)}
		return &x
	}
	kind := t.Draw("entry_kind", 5)
	if w.small && t.Draw("small_entry", 8) != 7 {
		kind = []int{0, 4}[kind%2]
	}
	switch kind {
	case 0:
		s := wal.Start(h)
		return &s
	case 1:
		p := wal.Proposal[V, H, A]{MessageHeader: hdr(), ValidRound: types.Round(t.Draw("vr", 3) - 1)}
		if t.Draw("nilvalue", 4) != 3 {
			v := V{uint64(1 + t.Draw("val", 5)), 0, 1 << 63, 42}
			p.Value = &v
		}
		return &p
	case 2:
		p := wal.Prevote[H, A]{MessageHeader: hdr(), ID: id()}
		return &p
	case 3:
		p := wal.Precommit[H, A]{MessageHeader: hdr(), ID: id()}
		return &p
	default:
		tm := wal.Timeout{Step: types.Step(t.Draw("step", 3)), Height: h, Round: types.Round(t.Draw("round", 3))}
		return &tm
	}
}

func (w *w14) set(h types.Height) {
	e := w.genEntry(h)
	s := RenderEntry(e)
	if err := w.store.SetWALEntry(e); err != nil {
		w.c.Fail("spurious_error", "SetWALEntry", "SetWALEntry(%s) failed: %v", s, err)
	}
	w.pending = append(w.pending, MRec{H: h, S: s})
	w.pendBytes += encodedSize(e)
	w.c.Logf("set %s", s)
}

// encodedSize: approximate size of the entry's record inside a batch. Only used to aim write faults at a
// byte position inside the flush; a wrong value costs a fault that does not fire, nothing else.
func encodedSize(e wal.Entry[V, H, A]) int {
	const recordHeader = 11 + 2
	switch e := e.(type) {
	case *wal.Start:
		return recordHeader + 8
	case *wal.Timeout:
		return recordHeader + 17
	case *wal.Proposal[V, H, A]:
		if e.Value == nil {
			return recordHeader + 57
		}
		return recordHeader + 89
	case *wal.Prevote[H, A]:
		if e.ID == nil {
			return recordHeader + 49
		}
		return recordHeader + 81
	case *wal.Precommit[H, A]:
		if e.ID == nil {
			return recordHeader + 49
		}
		return recordHeader + 81
	}
	return recordHeader
}

func (w *w14) del(h types.Height) {
	if err := w.store.DeleteWALEntries(h); err != nil {
		w.c.Fail("spurious_error", "DeleteWALEntries", "DeleteWALEntries(%d) failed: %v", h, err)
	}
	w.pending = append(w.pending, MRec{Prune: true, H: h})
	w.pendBytes += 20
	w.c.Logf("delete<=%d", h)
}

// ---- bulk appends: batches far larger than anything a consensus round produces ---------------------------

// bulkSize: swarm-style size of one bulk append. The boundaries an implementation might have (powers of
// two, round numbers, each -1/+0/+1) and a uniform spread; nothing here is derived from the code under test.
func (w *w14) bulkSize() int {
	t := w.c.T
	switch t.Draw("bulk_form", 4) {
	case 0:
		anchors := []int{513, 512, 511, 1025, 1024, 1023, 257, 256, 255, 2049, 2048, 2047, 129, 100, 1000, 1001, 1536, 3000, 4097}
		return anchors[t.Draw("bulk_anchor", len(anchors))]
	case 1:
		return 65 + t.Draw("bulk_uniform", 2500)
	case 2:
		return 1<<uint(6+t.Draw("bulk_pow", 6)) + t.Draw("bulk_jitter", 3) - 1 // 64 .. 2048, -1/0/+1
	default:
		m := []int{100, 250, 500, 1000}[t.Draw("bulk_mult_base", 4)]
		return m*(1+t.Draw("bulk_mult", 4)) + t.Draw("bulk_jitter", 3) - 1 // 100 .. 4000, -1/0/+1
	}
}

// bulkOp buffers one very large batch of small entries (optionally with a prune record somewhere inside)
// and then flushes, closes or crashes - or leaves it to the operations that follow.
func (w *w14) bulkOp() {
	c, t := w.c, w.c.T
	size := w.bulkSize()
	style := t.Draw("bulk_style", 3) // 0: start entries; 1: timeout entries with increasing round; 2: both, two heights
	if size > 2600 {
		style = 0
	}
	pruneAt := -1
	if t.Draw("bulk_prune", 3) == 2 {
		pruneAt = t.Draw("bulk_prune_at", size+1)
	}
	h0 := w.curHeight
	for i := 0; i < size; i++ {
		if i == pruneAt {
			w.bulkDel()
		}
		h := w.curHeight
		var e wal.Entry[V, H, A]
		switch {
		case style == 0 || (style == 2 && i%5 == 0):
			if style == 2 {
				h++
			}
			s := wal.Start(h)
			e = &s
		default:
			tm := wal.Timeout{Step: types.Step(i % 3), Height: h, Round: types.Round(i)}
			e = &tm
		}
		if err := w.store.SetWALEntry(e); err != nil {
			c.Fail("spurious_error", "SetWALEntry", "SetWALEntry(%s) failed: %v", RenderEntry(e), err)
		}
		w.pending = append(w.pending, MRec{H: h, S: RenderEntry(e)})
		w.pendBytes += encodedSize(e)
	}
	if pruneAt == size {
		w.bulkDel()
	}
	w.bulkSizes = append(w.bulkSizes, size)
	then := t.Draw("bulk_then", 5)
	c.Logf("bulk append n=%d style=%d from-height=%d prune-at=%d then=%d", size, style, h0, pruneAt, then)
	inject := w.cls == clsFault && t.Draw("inject?", 3) != 0
	switch then {
	case 0, 1:
		w.flushLike("flush", false, inject)
	case 2:
		w.closeReopen(inject)
	case 3:
		w.crashRestart()
	default:
		// stays pending: the operations that follow add to it and flush it
	}
}

func (w *w14) bulkDel() {
	h := w.curHeight
	if err := w.store.DeleteWALEntries(h); err != nil {
		w.c.Fail("spurious_error", "DeleteWALEntries", "DeleteWALEntries(%d) failed: %v", h, err)
	}
	w.pending = append(w.pending, MRec{Prune: true, H: h})
	w.pendBytes += 20
	w.curHeight++
}

// afterStates: what the durable state may be once the in-flight batch is complete.
func (w *w14) afterStates() []poss {
	var out []poss
	for _, p := range w.poss {
		all := append(append([]MRec(nil), p.carry...), w.pending...)
		out = append(out, poss{st: p.st.Apply(all)})
		if len(p.carry) > 0 {
			// the statement does not say whether a failed batch is retried: accept a store that dropped it
			out = append(out, poss{st: p.st.Apply(w.pending)})
		}
	}
	return dedupePoss(out)
}

func hasPrune(recs []MRec, wm types.Height) bool {
	for _, r := range recs {
		if r.Prune && r.H > wm {
			return true
		}
	}
	return false
}

// flushLike runs Flush or Close (which flushes) and evaluates every crash image of the call.
func (w *w14) flushLike(call string, isClose bool, inject bool) {
	c, t := w.c, w.c.T
	before := w.poss
	after := w.afterStates()
	nrec := len(w.pending)
	for _, p := range before {
		nrec += len(p.carry)
	}
	fired0 := w.disk.Fired
	large := nrec > largeBatch
	w.largeNow = large
	defer func() { w.largeNow = false }()
	if large {
		c.Probe("large_batch_flush")
	}
	if inject && w.bulk {
		// log files of this run may span several record blocks: how the bytes of a record are cut into
		// Write calls is not deterministic there, so a write fault is placed by byte position
		switch t.Draw("bulk_fault_kind", 8) {
		case 0, 1, 2:
			w.disk.ArmFault(OpSync, 1+t.Draw("fault_nth", 4), false)
		case 3, 4, 5:
			est := 12 + 11 + w.pendBytes
			var at int
			switch t.Draw("fault_byte_form", 3) {
			case 0:
				at = t.Draw("fault_byte", est+32)
			case 1:
				at = est - 1 - t.Draw("fault_byte_from_end", min(est, 96))
			default:
				at = t.Draw("fault_byte_from_start", min(est, 64))
			}
			w.disk.ArmWriteFaultAtByte(int64(at))
		case 6:
			w.disk.ArmFault(OpCreate, 1, false)
		default:
			w.disk.ArmFault(OpDirSync, 1, false)
		}
	} else if inject {
		var kinds []OpKind
		if w.cleanupNext {
			// write/sync (batch, watermark tmp, trailer), create (tmp), rename, dirsync, remove
			kinds = []OpKind{OpWrite, OpSync, OpWrite, OpSync, OpCreate, OpRename, OpDirSync, OpRemove, OpRemove}
		} else {
			kinds = []OpKind{OpWrite, OpSync, OpWrite, OpSync, OpWrite, OpSync, OpCreate, OpDirSync}
		}
		k := kinds[t.Draw("fault_kind", len(kinds))]
		nth := 1
		switch {
		case w.cleanupNext && (k == OpWrite || k == OpSync):
			nth = 1 + t.Draw("fault_nth", 3)
		case k == OpWrite || k == OpSync || k == OpRemove:
			nth = 1 + t.Draw("fault_nth", 2)
		}
		mode := t.Draw("fault_short", 3) // 0: nothing written, 1: a strict prefix, 2: everything written - and the error reported all the same
		w.disk.ArmFault(k, nth, mode == 1)
		if mode == 2 && k == OpWrite {
			w.disk.FailFull = true
		}
	}
	ops0 := w.disk.NOps()
	var err error
	if isClose {
		err = w.store.Close()
	} else {
		err = w.store.Flush()
	}
	w.disk.Settle()
	firedKind := ""
	if inject {
		if w.disk.Fired > fired0 {
			firedKind = w.disk.FailKind.String()
			c.Fault("io_error_" + firedKind)
			if large {
				c.Fault("io_error_inside_large_flush")
			}
			w.faultSince = true
		}
		w.disk.Disarm()
	}
	var opsSeq []string
	for _, cp := range w.caps {
		opsSeq = append(opsSeq, cp.kind.String())
	}
	c.Logf("%s recs=%d -> err=%v diskops=%d %v fault=%q", call, nrec, err != nil, w.disk.NOps()-ops0, opsSeq, firedKind)
	during := append(states(before), states(after)...)
	if err == nil {
		if nrec > 0 {
			w.nFlushRecs++
			if hasPrune(w.pending, before[0].st.WM) {
				w.pruneFlush++
			}
		}
		w.poss = after
		w.pending, w.pendBytes = nil, 0
		w.evalCaptures(call, during, states(w.poss))
		w.noteBlocks()
		return
	}
	if !w.faultSince {
		w.caps = w.caps[:0]
		c.Fail("spurious_error", call, "%s failed although no I/O error was ever injected: %v", call, err)
	}
	// failed: none or all of the batch may be durable; the store may or may not retry the records
	var np []poss
	for _, p := range before {
		all := append(append([]MRec(nil), p.carry...), w.pending...)
		np = append(np, poss{st: p.st, carry: all}, poss{st: p.st})
	}
	np = append(np, after...)
	w.poss = dedupePoss(np)
	w.pending, w.pendBytes = nil, 0
	c.Probe("flush_reported_failure")
	w.evalCaptures(call, during, states(w.poss))
	w.noteBlocks()
	// "A flush that reports failure ... does not make the log unusable": the disk is healthy again (the one
	// injected error is over), so the SAME process must be able to append and flush. (After a failed Close
	// the store is closed; that case is covered by usableAfterFault through a reopen.)
	if !isClose && firedKind != "" && t.Draw("retry_in_process", 4) != 0 {
		if t.Draw("retry_without_append", 4) != 3 {
			w.set(w.curHeight)
		}
		w.flushLikeMustSucceed("flush(after-failed-flush)", "after-"+firedKind+"-error",
			"after a Flush that failed with an injected "+firedKind+" error, the next append+Flush of the same process (no fault injected any more)")
		c.Probe("flush_after_failed_flush_ok")
	}
}

// noteBlocks: probe for log files that have grown past one record block (multi-block records / files).
func (w *w14) noteBlocks() {
	if w.usedLogSize > recBlockSize {
		w.c.Probe("log_file_spans_record_blocks")
	}
}

func (w *w14) closeReopen(inject bool) {
	w.flushLike("close", true, inject)
	w.store = nil
	// a closed store holds nothing in memory any more
	for i := range w.poss {
		w.poss[i].carry = nil
	}
	w.poss = dedupePoss(w.poss)
	w.open("reopen")
}

// crashRestart: run one more call, pick one of its crash images, and restart the machine from it.
func (w *w14) crashRestart() {
	c, t := w.c, w.c.T
	w.adoptWant = t.Draw("adopt_index", 24)
	w.adoptSeenN, w.adoptImg, w.adoptState = 0, nil, nil
	saveCap := w.capturing
	w.capturing = true
	w.flushLike("flush(crashing)", false, false)
	w.capturing = saveCap
	w.adoptWant = -1
	if w.adoptImg == nil {
		return
	}
	w.disk.Quiet = true
	_ = w.store.Close()
	w.store = nil
	img, st := w.adoptImg, w.adoptState
	w.adoptImg, w.adoptState = nil, nil
	c.Logf("crash: restart from image %s expecting %d entries", img, st[0].Count())
	c.Fault("crash_restart")
	w.disk = NewDiskFromImage(WALDir, img)
	w.disk.CoalesceWrites = true
	w.disk.AfterOp = w.afterOp
	Install(w.disk)
	w.poss = nil
	for _, a := range st {
		w.poss = append(w.poss, poss{st: a})
	}
	w.poss = dedupePoss(w.poss)
	w.pending, w.pendBytes = nil, 0
	w.faultSince = false
	w.open("recover")
}

func (w *w14) pickHeight() types.Height {
	t := w.c.T
	switch t.Draw("height_sel", 8) {
	case 0, 1, 2, 3:
		return w.curHeight
	case 4:
		return w.curHeight + 1
	case 5:
		return w.curHeight + types.Height(2+t.Draw("future", 50))
	case 6:
		if w.curHeight > 1 {
			return w.curHeight - 1 // normally already pruned
		}
		return w.curHeight
	default:
		return types.Height(1 + t.Draw("any_height", 8))
	}
}

func (w *w14) randomOp() {
	t := w.c.T
	if w.usedLogSize > w.logCap {
		w.c.Probe("size_cap")
		return
	}
	x := t.Draw("op", 100)
	switch {
	case x < 48:
		w.set(w.pickHeight())
	case x < 70:
		w.flushLike("flush", false, w.cls == clsFault && t.Draw("inject?", 3) == 2)
	case x < 82:
		var h types.Height
		switch t.Draw("prune_sel", 4) {
		case 0, 1:
			h = w.curHeight
			w.curHeight++
		case 2:
			h = w.curHeight + 1
			w.curHeight += 2
		default:
			if w.curHeight > 1 {
				h = w.curHeight - 1
			} else {
				h = w.curHeight
			}
		}
		w.del(h)
	case x < 91:
		w.closeReopen(w.cls == clsFault && t.Draw("inject?", 3) == 2)
	default:
		if w.cls == clsCrash || t.Draw("crash?", 3) == 2 {
			w.crashRestart()
		} else {
			w.flushLike("flush", false, false)
		}
	}
	// a store that refuses to flush after a failed repair must work again after a reopen
	if w.cls == clsFault && w.faultSince && w.store != nil && t.Draw("probe_usable", 4) == 3 {
		w.usableAfterFault()
	}
}

// usableAfterFault: "a flush that reports failure ... does not make the log unusable": after Close and
// reopen (no faults injected) an append + flush must succeed and be durable.
func (w *w14) usableAfterFault() {
	c := w.c
	w.flushLike("close", true, false) // may still report the old failure; tolerated (faultSince)
	w.store = nil
	for i := range w.poss {
		w.poss[i].carry = nil
	}
	w.poss = dedupePoss(w.poss)
	w.open("reopen") // fails the run with class "unusable" if the open fails
	w.set(w.curHeight)
	w.flushLikeMustSucceed("flush(after-io-error)", "", "after an injected I/O error, Close and reopen, an append+Flush without any fault")
	c.Probe("usable_after_io_error_checked")
}

func (w *w14) flushLikeMustSucceed(call, keySuffix, what string) {
	c := w.c
	after := w.afterStates()
	during := append(states(w.poss), states(after)...)
	err := w.store.Flush()
	w.disk.Settle()
	c.Logf("%s -> err=%v", call, err != nil)
	if err != nil {
		w.caps = w.caps[:0]
		key := call
		if keySuffix != "" {
			key += "/" + keySuffix
		}
		c.Fail("unusable", key, "%s failed: %v", what, err)
	}
	w.nFlushRecs++
	w.poss = after
	w.pending, w.pendBytes = nil, 0
	w.evalCaptures(call, during, states(w.poss))
}

// longRun crosses cleanupPruneRecordInterval (256 prune records in one process lifetime): watermark write,
// rotation and obsolete-file removal execute with several older log files around, some of them still live.
func (w *w14) longRun() {
	c, t := w.c, w.c.T
	w.stride = 8
	// phase A: a few sessions leaving log files behind; some hold entries of far-future heights (stay live)
	for s, n := 0, 1+t.Draw("sessions", 3); s < n; s++ {
		for i, k := 0, 1+t.Draw("session_entries", 3); i < k; i++ {
			if t.Draw("keep_live", 2) == 1 {
				w.set(types.Height(1000 + t.Draw("live_height", 4)))
			} else {
				w.set(w.curHeight)
			}
		}
		if t.Draw("prune_in_session", 2) == 1 {
			w.del(w.curHeight)
			w.curHeight++
		}
		w.closeReopen(false)
	}
	// phase B: prune-flushes in one session up to and across the cleanup interval
	target := 256 + t.Draw("beyond", 6)
	w.small = true
	guard := 0
	for w.pruneFlush < target && guard < 400 {
		guard++
		near := w.pruneFlush >= 253
		w.capturing = near || t.Draw("sample_flush", 32) == 31
		w.stride = 16
		w.cleanupNext = w.pruneFlush == 255
		if w.cleanupNext {
			w.stride = 1 // the flush that triggers watermark write, rotation and removal
			w.nTails = 0
		}
		switch t.Draw("long_entries", 4) {
		case 0:
		case 1, 2:
			w.set(w.curHeight)
		default:
			w.set(w.curHeight)
			w.set(w.curHeight + 1)
		}
		if t.Draw("skip_prune", 16) == 15 {
			// leaves an un-pruned height behind for a while
		} else {
			w.del(w.curHeight)
		}
		w.curHeight++
		w.flushLike("flush", false, w.cls == clsLongFault && w.cleanupNext && len(w.pending) > 0 && w.pending[len(w.pending)-1].Prune)
		if w.faultSince {
			break // continue with ordinary operations (incl. the usability check)
		}
		if w.usedLogSize > 30000 {
			c.Probe("size_cap")
			break
		}
	}
	w.cleanupNext = false
	w.small = false
	if w.pruneFlush >= 256 {
		c.Probe("cleanup_interval_crossed")
	}
	w.capturing = true
	w.stride = 8
	// phase C: ordinary operations after the cleanup
	for i, n := 0, 2+t.Draw("tail_ops", 8); i < n; i++ {
		w.randomOp()
	}
}

// finish: clean close, reopen, everything flushed is there.
func (w *w14) finish() {
	if w.store == nil {
		return
	}
	w.capturing = true
	if w.faultSince {
		w.usableAfterFault()
	}
	w.closeReopen(false)
}
