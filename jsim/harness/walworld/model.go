package walworld

import (
	"fmt"
	"sort"
	"strings"

	"github.com/NethermindEth/juno/consensus/types"
	"github.com/NethermindEth/juno/consensus/types/wal"
	"github.com/NethermindEth/juno/consensus/walstore"
	kvdb "github.com/NethermindEth/juno/db"
)

// ---- small concrete types for the generic store / state machine ---------------------------------
// walstore's codec requires value, hash and address to be [4]uint64 arrays.

type (
	H [4]uint64
	A [4]uint64
	V [4]uint64
)

func (v V) Hash() H { return H{v[0], v[1] ^ 0x5eed, v[2], v[3]} }

func Addr(i int) A { return A{uint64(i + 1), 0, 0, 0} }

type Store = walstore.TendermintWALStore[V, H, A]

const DBPath = "/jsim/db"

var WALDir = walstore.DefaultWALDir(DBPath)

// stubDB: the store constructor only asks its database for Path().
type stubDB struct {
	kvdb.KeyValueStore
	path string
}

func (s stubDB) Path() string { return s.path }

// OpenStore opens the real WAL store on whatever file system is currently installed.
func OpenStore() (Store, error) {
	return walstore.NewTendermintWALStore[V, H, A](stubDB{path: DBPath})
}

// RenderEntry is the canonical text of a WAL entry (used by model and observation alike).
func RenderEntry(e wal.Entry[V, H, A]) string {
	id := func(h *H) string {
		if h == nil {
			return "nil"
		}
		return fmt.Sprintf("%x.%x.%x.%x", h[0], h[1], h[2], h[3])
	}
	switch e := e.(type) {
	case *wal.Start:
		return fmt.Sprintf("start(h%d)", uint64(*e))
	case *wal.Proposal[V, H, A]:
		v := "nil"
		if e.Value != nil {
			v = fmt.Sprintf("%x.%x.%x.%x", e.Value[0], e.Value[1], e.Value[2], e.Value[3])
		}
		return fmt.Sprintf("proposal(h%d r%d s%x.%x vr%d v=%s)", e.Height, e.Round, e.Sender[0], e.Sender[3], e.ValidRound, v)
	case *wal.Prevote[H, A]:
		return fmt.Sprintf("prevote(h%d r%d s%x.%x id=%s)", e.Height, e.Round, e.Sender[0], e.Sender[3], id(e.ID))
	case *wal.Precommit[H, A]:
		return fmt.Sprintf("precommit(h%d r%d s%x.%x id=%s)", e.Height, e.Round, e.Sender[0], e.Sender[3], id(e.ID))
	case *wal.Timeout:
		return fmt.Sprintf("timeout(h%d r%d step%d)", e.Height, e.Round, e.Step)
	default:
		return fmt.Sprintf("unknown(%T)", e)
	}
}

// LoadEntries drains LoadAllEntries.
func LoadEntries(st Store) ([]wal.Entry[V, H, A], error) {
	var out []wal.Entry[V, H, A]
	for e, err := range st.LoadAllEntries() {
		if err != nil {
			return out, err
		}
		out = append(out, e)
	}
	return out, nil
}

// ---- reference model: list of flushed batches + prune watermark -------------------------------------

// MRec is one buffered record: an appended entry or a prune-up-to-height.
type MRec struct {
	Prune bool
	H     types.Height
	S     string
}

// MState is the durable content the log must show: per un-pruned height the entries in append order.
type MState struct {
	WM   types.Height // highest height h such that a prune(h) is part of this state
	Ents map[types.Height][]string

	canon    string // cache of Canon(); a state is not modified once Canon has been called
	hasCanon bool
}

func NewMState() *MState { return &MState{Ents: map[types.Height][]string{}} }

func (s *MState) Clone() *MState {
	o := &MState{WM: s.WM, Ents: make(map[types.Height][]string, len(s.Ents))}
	for h, l := range s.Ents {
		o.Ents[h] = l[:len(l):len(l)] // appends copy
	}
	return o
}

// Apply returns the state after one complete batch.
func (s *MState) Apply(recs []MRec) *MState {
	o := s.Clone()
	for _, r := range recs {
		if r.Prune {
			if r.H > o.WM {
				o.WM = r.H
				for h := range o.Ents {
					if h <= r.H {
						delete(o.Ents, h)
					}
				}
			}
			continue
		}
		if r.H <= o.WM {
			continue // appended for a height that is already pruned: no requirement, must not show
		}
		o.Ents[r.H] = append(o.Ents[r.H], r.S)
	}
	return o
}

func (s *MState) heights() []types.Height {
	hs := make([]types.Height, 0, len(s.Ents))
	for h := range s.Ents {
		hs = append(hs, h)
	}
	sort.Slice(hs, func(i, j int) bool { return hs[i] < hs[j] })
	return hs
}

// Canon is the observable content (the watermark itself is only observable through absence).
func (s *MState) Canon() string {
	if s.hasCanon {
		return s.canon
	}
	s.canon, s.hasCanon = s.buildCanon(), true
	return s.canon
}

func (s *MState) buildCanon() string {
	var sb strings.Builder
	for _, h := range s.heights() {
		if len(s.Ents[h]) == 0 {
			continue
		}
		fmt.Fprintf(&sb, "h%d:[%s] ", h, strings.Join(s.Ents[h], " | "))
	}
	return sb.String()
}

func (s *MState) Count() int {
	n := 0
	for _, l := range s.Ents {
		n += len(l)
	}
	return n
}

// Observed builds the observable content from loaded entries.
func Observed(entries []wal.Entry[V, H, A]) *MState {
	o := NewMState()
	for _, e := range entries {
		h := e.GetHeight()
		o.Ents[h] = append(o.Ents[h], RenderEntry(e))
	}
	return o
}

func isPrefix(a, b []string) bool {
	if len(a) > len(b) {
		return false
	}
	for i := range a {
		if a[i] != b[i] {
			return false
		}
	}
	return true
}

// Classify names the way in which got differs from every allowed state. allowed[0] is the state with
// nothing of the in-flight batch applied.
func Classify(got *MState, allowed []*MState) string {
	minWM := allowed[0].WM
	for _, a := range allowed {
		if a.WM < minWM {
			minWM = a.WM
		}
	}
	for _, h := range got.heights() {
		if h <= minWM && len(got.Ents[h]) > 0 {
			return "revived_pruned"
		}
	}
	base := allowed[0]
	maxWM := base.WM
	for _, a := range allowed {
		if a.WM > maxWM {
			maxWM = a.WM
		}
	}
	lost := false
	for _, h := range base.heights() {
		if h <= maxWM {
			continue // may legitimately be gone if the in-flight prune is durable
		}
		if !isPrefix(base.Ents[h], got.Ents[h]) {
			lost = true
		}
	}
	if lost {
		return "lost_flushed"
	}
	// everything flushed is there; is the rest a strict part of some allowed bigger state?
	for _, a := range allowed[1:] {
		part, all := true, true
		for _, h := range got.heights() {
			if !isPrefix(got.Ents[h], a.Ents[h]) && !(h <= a.WM) {
				part = false
			}
		}
		if a.Canon() != got.Canon() {
			all = false
		}
		if part && !all {
			return "partial_batch"
		}
	}
	return "unexpected_content"
}
