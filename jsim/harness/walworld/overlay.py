#!/usr/bin/env python3
"""Generates the `go build -overlay` file that lets the REAL consensus/walstore run on a simulated disk.

  python3 overlay.py <out.json>            (cwd /verif/jsim; repository root = $JSIM_REPO or /repo)

* every non-test .go file of <root>/consensus/walstore is read from the CURRENT tree; the direct
  os.ReadFile/OpenFile/Remove/Rename/Open/Stat call sites are rewritten (token regex) to the shim package
  github.com/NethermindEth/juno/jsimos, which forwards to a settable vfs.FS (real os when unset);
* the shim package itself is added virtually as <root>/jsimos/jsimos.go.
Nothing under the repository root is written. Fails loudly (exit 1) if the expected call sites are missing
or if walstore has grown an os.* call this script does not know about.
"""
import hashlib, json, os, re, sys

HERE = os.path.dirname(os.path.abspath(__file__))
PKG = os.environ.get("JSIM_OVERLAY_PKG", os.path.basename(HERE))
SHIM_SRC = os.path.join(os.path.dirname(HERE), "walworld", "jsimos.go.txt")
REDIRECT = ("ReadFile", "OpenFile", "Remove", "Rename", "Open", "Stat")
# call sites that must exist (file -> function -> minimum count); anything less means walstore changed
EXPECT = {
    "prune_watermark.go": {"ReadFile": 1, "OpenFile": 1, "Remove": 1, "Rename": 1, "Open": 1},
    "wal_writer.go": {"OpenFile": 1, "Stat": 1},
}
IMPORT = '\t"github.com/NethermindEth/juno/jsimos"\n'


def die(msg):
    sys.stderr.write("overlay.py: " + msg + "\n")
    sys.exit(1)


def main():
    if len(sys.argv) != 2:
        die("usage: overlay.py <out.json>")
    root = os.environ.get("JSIM_REPO", "/repo").rstrip("/")
    tag = hashlib.sha1(root.encode()).hexdigest()[:10]
    verif = os.path.dirname(os.path.dirname(os.path.dirname(HERE)))
    outdir = os.path.join(verif, "build", "ov", "%s-%s" % (PKG, tag))
    os.makedirs(outdir, exist_ok=True)
    wdir = os.path.join(root, "consensus", "walstore")
    if not os.path.isdir(wdir):
        die("no consensus/walstore under " + root)
    call = re.compile(r"\bos\.(%s)\(" % "|".join(REDIRECT))
    anycall = re.compile(r"\bos\.([A-Za-z_][A-Za-z0-9_]*)\(")
    replace = {}
    seen = {}
    for name in sorted(os.listdir(wdir)):
        if not name.endswith(".go") or name.endswith("_test.go"):
            continue
        src = open(os.path.join(wdir, name)).read()
        counts = {}
        for m in call.finditer(src):
            counts[m.group(1)] = counts.get(m.group(1), 0) + 1
        seen[name] = counts
        # the shim's OpenFile implements exactly the flag combinations walstore uses today
        for m in re.finditer(r"\bos\.OpenFile\(([^\n]*)", src):
            args = m.group(1)
            if not ("os.O_CREATE|os.O_TRUNC|os.O_WRONLY" in args or re.search(r",\s*os\.O_RDWR\s*,", args)):
                die("%s: os.OpenFile with flags the shim does not implement: %s" % (name, args))
        new = call.sub(lambda m: "jsimos." + m.group(1) + "(", src)
        left = sorted({m.group(1) for m in anycall.finditer(new)})
        if left:
            die("%s calls os.%s( which the shim does not redirect - extend jsimos and this script" % (name, left))
        if new == src:
            continue
        if "import (\n" not in new:
            die("%s: no parenthesised import block to extend" % name)
        new = new.replace("import (\n", "import (\n" + IMPORT, 1)
        if not re.search(r"\bos\.", new.replace(IMPORT, "")):
            # the file no longer uses package os at all: drop the import so it still compiles
            new = new.replace('\t"os"\n', "", 1)
        dst = os.path.join(outdir, "walstore_" + name)
        with open(dst, "w") as f:
            f.write(new)
        replace[os.path.join(wdir, name)] = dst
    for fname, want in EXPECT.items():
        for fn, n in want.items():
            if seen.get(fname, {}).get(fn, 0) < n:
                die("expected call site os.%s( in consensus/walstore/%s not found (walstore changed?)" % (fn, fname))
    shim_dst = os.path.join(outdir, "jsimos.go")
    with open(shim_dst, "w") as f:
        f.write(open(SHIM_SRC).read())
    replace[os.path.join(root, "jsimos", "jsimos.go")] = shim_dst
    with open(sys.argv[1], "w") as f:
        json.dump({"Replace": replace}, f, indent=1, sort_keys=True)


if __name__ == "__main__":
    main()
