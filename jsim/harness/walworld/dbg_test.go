package walworld

import (
	"fmt"
	"os"
	"testing"
	"time"

	"jsim/sim"
	"jsim/tape"
)

// TestDbgTiming: developer aid (JSIM_DBG=1): wall time per class.
func TestDbgTiming(t *testing.T) {
	if os.Getenv("JSIM_DBG") == "" {
		t.Skip()
	}
	for i := 0; i < 40; i++ {
		seed := tape.Mix(7, uint64(i))
		t0 := time.Now()
		r := sim.Exec(C14, "C14", "quick", seed, sim.Options{})
		fmt.Printf("seed %d: %v evals=%d events=%d viol=%v mach=%q first=%s\n", i, time.Since(t0), r.Evals, len(r.Events), r.Violation != nil, r.Machinery, r.Events[0])
	}
}
