package propproc

import (
	"fmt"
	"strings"
	"testing"
	"testing/synctest"

	"jsim/sim"
)

func TestDbg(t *testing.T) {
	synctest.Test(t, func(t *testing.T) {
		seen := map[string]int{}
		for seed := uint64(1); seed < 3000; seed++ {
			r := sim.Exec(C19, "C19", "quick", seed, sim.Options{Bubble: true, PanicIsViolation: true})
			way := ""
			for _, e := range r.Events {
				if strings.HasPrefix(e, "retry: ") && strings.Contains(e, "capacity returns by") {
					way = e[strings.Index(e, "returns by"):]
					way = way[:strings.Index(way, ",")]
				}
			}
			if way == "" {
				continue
			}
			seen[way]++
			if seen[way] > 2 {
				continue
			}
			fmt.Println("==== seed", seed, r.Events[0])
			on := false
			for _, e := range r.Events {
				if strings.HasPrefix(e, "retry: ") {
					on = true
				}
				if on {
					fmt.Println("   ", e)
				}
				if strings.HasPrefix(e, "quiescence after_flood") {
					break
				}
			}
			if r.Violation != nil {
				fmt.Println("   VIOL", r.Violation.Key)
			}
		}
		fmt.Println(seen)
	})
}
