// Package propproc is the second simulated world of property C19: the REAL consensus/propeller Processor
// (Processor.Run, Processor.ProcessMessage, createSubprocessor, subprocessor.Run with both stages, the
// finalized time-cache, the task counters, the StaleMessageTimeout context) inside a synctest bubble,
// fed by real publishers through a lossy, duplicating, reordering, corrupting transport, with the fake
// clock advanced up to and beyond the timeout. harness/propeller drives the same property at function
// level; see props/C19.json for what each world decides.
package propproc

import (
	"bytes"
	"context"
	"fmt"
	"runtime"
	"runtime/debug"
	"sort"
	"strings"
	"sync"
	"testing/synctest"
	"time"

	pp "github.com/NethermindEth/juno/consensus/propeller"
	pb "github.com/NethermindEth/juno/consensus/propeller/proto"
	"github.com/libp2p/go-libp2p/core/peer"
	"go.uber.org/zap"
	"go.uber.org/zap/zapcore"
	"google.golang.org/protobuf/proto"

	"jsim/sim"
)

// ---- violations are collected so that the independent oracles of one run are all evaluated ---------

type viol struct {
	class, key, site, detail string
}

// lower rank wins. The wedge that nearly every faithful run ends in ranks last, so that it never hides a
// rarer observation of the same run.
var classRank = map[string]int{
	"panic": 0, "wrong_broadcast": 1, "corrupt_accepted": 2, "duplicate_accepted": 3, "honest_unit_rejected": 4,
	"broadcast_missing": 5, "swallowed": 5, "later_message": 6, "task_leak": 7, "wedge": 8, "create_failed": 9, "unit_malformed": 9,
}

type world struct {
	c     *sim.Ctx
	viols []viol
}

func (w *world) report(class, key, format string, a ...any) {
	w.reportAt(class, key, "-", format, a...)
}

func (w *world) reportAt(class, key, site, format string, a ...any) {
	d := fmt.Sprintf(format, a...)
	for _, v := range w.viols {
		if v.class == class && v.key == key {
			return
		}
	}
	w.c.Logf("violation noted %s/%s:%s", class, key, site)
	w.viols = append(w.viols, viol{class, key, site, d})
}

func (w *world) finish() {
	if len(w.viols) == 0 {
		return
	}
	best := 0
	for i, v := range w.viols {
		if classRank[v.class] < classRank[w.viols[best].class] {
			best = i
		}
	}
	v := w.viols[best]
	w.c.Fail(v.class+"/"+v.key, v.site, "%s", v.detail)
}

func (w *world) has(class string) bool {
	for _, v := range w.viols {
		if v.class == class {
			return true
		}
	}
	return false
}

func shortFn(fn string) string {
	fn = fn[strings.LastIndex(fn, "/")+1:]
	return strings.TrimPrefix(fn, "propeller.")
}

func panicShape(val any) string {
	s := fmt.Sprint(val)
	switch {
	case strings.Contains(s, "nil pointer dereference"):
		return "nil_dereference"
	case strings.Contains(s, "index out of range"):
		return "index_out_of_range"
	case strings.Contains(s, "slice bounds out of range"):
		return "slice_bounds"
	case strings.Contains(s, "nil map"):
		return "nil_map"
	default:
		return "other"
	}
}

func (w *world) panicked(pc *caught, where string) {
	w.reportAt("panic", shortFn(pc.fn), panicShape(pc.val), "%s: %v\n%s", where, pc.val, pc.stack)
}

// ---- the world --------------------------------------------------------------------------------------

type committee struct {
	name     string
	cid      pp.CommitteeID
	members  []member // sorted by id
	extra    []member // pool members outside
	localPos int
	peers    []pp.PeerCommittee
	sched    *pp.Scheduler
	d, p     int
}

type message struct {
	name     string
	msg      []byte
	cid      pp.CommitteeID
	nonce    pp.Nonce
	pub      member
	pubPos   int
	com      *committee
	d, p     int
	localIdx int
	units    []pp.Unit
	senders  []peer.ID
	key      pp.JsimKey
}

type delivery struct {
	unit   pp.Unit
	sender peer.ID
	note   string
	kind   string
	wire   func(pu *pb.PropellerUnit)
	pin    bool
	src    *message
	gap    time.Duration // clock advance after this delivery
}

// inc is the reference model of ONE entry of Processor.subProcessors (one subprocessor goroutine).
type inc struct {
	id       int
	key      pp.JsimKey
	m        *message // nil: no genuine message has this key
	total    int
	d        int
	seen     []bool
	stage1   int // valid units accepted before the build threshold
	built    bool
	hadLocal bool
	need     string // why a broadcast of the local unit is owed ("" = not owed)
	got      bool
	handed   int
	born     time.Time // fake-clock time at which the subprocessor was started (its context ends born+timeout)
}

type logRec struct {
	level, msg, err string
}

type obsEv struct {
	ev      pp.Event
	viaHook bool
}

type fidelity struct {
	engine    bool // the real Engine in front of the Processor (Engine.Run, registerCommittee, processUnit)
	loggerSet bool // Processor.logger set by the harness (NewProcessor leaves it nil)
	eventSink bool // events a subprocessor sends on its nil channel are taken by the harness
	leafCal   bool // validator leaf encoding calibrated to the publisher's if they disagree
}

type pw struct {
	*world
	fid     fidelity
	timeout time.Duration
	wire    bool
	local   member
	coms    []*committee
	comBy   map[pp.CommitteeID]*committee
	aliasOK bool // a corrupted committee id counts as registered with the same peer set
	msgs    []*message
	byKey   map[pp.JsimKey]*message
	rawLeaf bool

	ctx    context.Context
	cancel context.CancelFunc
	p      *pp.Processor
	eng    *pp.Engine
	cmd    pp.JsimCmdCh
	start  time.Time

	incs   []*inc
	nextID int

	// written by goroutines of the code under test, read by the harness after synctest.Wait
	mu        sync.Mutex
	logs      []logRec
	events    []obsEv
	panics    []*caught
	enter     int
	exit      int
	nilParked int
	logSeen   int
	evSeen    int
	pSeen     int

	release   chan struct{}
	entryGate chan struct{}
	atEntry   int
	killing   bool
	stopDrain chan struct{}
	drainDone chan struct{}
	runDone   chan struct{}
	runEnded  bool
	engDone   chan struct{}

	started             bool
	engineRunsProcessor bool
	keep0               bool
	drainStarted        bool
	lastSpawned         bool
	gotKey              map[pp.JsimKey]bool

	// messages whose unit was REFUSED for a transient reason (a task bound), in order of the first refusal,
	// and the keys for which the Processor has ever started a subprocessor (only those can legitimately sit
	// in the finalized time-cache)
	refused     []*message
	refusedWhy  map[pp.JsimKey]string
	everStarted map[pp.JsimKey]bool
}

// ---- recording logger (the only window on invalid-unit reports and finalizations) ------------------------

type recLogger struct{ w *pw }

func (l recLogger) rec(level, msg string, fields []zap.Field) {
	r := logRec{level: level, msg: msg}
	for _, f := range fields {
		if f.Type == zapcore.ErrorType {
			if e, ok := f.Interface.(error); ok && e != nil {
				r.err = e.Error()
			}
		}
	}
	l.w.mu.Lock()
	l.w.logs = append(l.w.logs, r)
	l.w.mu.Unlock()
}
func (l recLogger) Debug(msg string, f ...zap.Field) { l.rec("debug", msg, f) }
func (l recLogger) Info(msg string, f ...zap.Field)  { l.rec("info", msg, f) }
func (l recLogger) Warn(msg string, f ...zap.Field)  { l.rec("warn", msg, f) }
func (l recLogger) Error(msg string, f ...zap.Field) { l.rec("error", msg, f) }
func (l recLogger) Trace(msg string, f ...zap.Field) { l.rec("trace", msg, f) }

// ---- committees and messages ---------------------------------------------------------------------------

func (w *pw) genCID() pp.CommitteeID {
	var cid pp.CommitteeID
	v := w.c.T.U64("cid")
	for i := 0; i < 8; i++ {
		cid[i] = byte(v >> (8 * i))
		cid[31-i] = byte(v >> (8 * i))
	}
	return cid
}

func (w *pw) genNonce() pp.Nonce {
	t := w.c.T
	if !t.Chance("nonce_nonzero", 1, 4) {
		return 0
	}
	switch t.Draw("nonce_kind", 3) {
	case 0:
		return 1
	case 1:
		return pp.Nonce(1_790_000_000_000_000_000 + int64(t.Draw("nonce_ns", 1_000_000)))
	default:
		return pp.Nonce(int64(t.U64("nonce_raw") >> 1))
	}
}

func (w *pw) genCommittee(name string, n int) *committee {
	c, t := w.c, w.c.T
	pl := keyPool()
	var others []member
	for _, m := range pl {
		if m.id != w.local.id {
			others = append(others, m)
		}
	}
	for k := 0; k < n-1; k++ {
		j := k + t.Draw("member", len(others)-k)
		others[k], others[j] = others[j], others[k]
	}
	com := &committee{name: name, cid: w.genCID()}
	for w.comBy[com.cid] != nil {
		com.cid[5]++
	}
	com.members = append(com.members, w.local)
	com.members = append(com.members, others[:n-1]...)
	com.extra = append(com.extra, others[n-1:]...)
	sort.Slice(com.members, func(i, j int) bool { return com.members[i].id < com.members[j].id })
	for i := range com.members {
		if com.members[i].id == w.local.id {
			com.localPos = i
		}
	}
	com.peers = make([]pp.PeerCommittee, n)
	for i := range com.members {
		com.peers[n-1-i] = pp.PeerCommittee{ID: com.members[i].id, Stake: pp.Stake(1 + i)}
	}
	var err error
	if pc := guard(func() {
		com.sched, err = pp.NewScheduler(w.local.id, append([]pp.PeerCommittee(nil), com.peers...))
	}); pc != nil {
		w.panicked(pc, "NewScheduler")
		return nil
	}
	c.Must(err, "NewScheduler")
	com.d, com.p = com.sched.NumDataShards(), com.sched.NumCodingShards()
	if com.d < 1 || com.p < 0 || com.d+com.p != n-1 {
		c.Broken("scheduler shard counts d=%d p=%d for n=%d", com.d, com.p, n)
	}
	w.comBy[com.cid] = com
	w.coms = append(w.coms, com)
	c.Logf("committee %s n=%d local=%d d=%d p=%d", name, n, com.localPos, com.d, com.p)
	return com
}

// senderOf: documented mapping - peers sorted, publisher skipped; the local peer's own shard comes
// straight from the publisher.
func (com *committee) senderOf(pubPos, i int) peer.ID {
	pos := i
	if pos >= pubPos {
		pos++
	}
	if pos == com.localPos {
		return com.members[pubPos].id
	}
	return com.members[pos].id
}

func (com *committee) localIndexFor(pubPos int) int {
	if com.localPos > pubPos {
		return com.localPos - 1
	}
	return com.localPos
}

func (w *pw) publish(name string, com *committee, pubPos int, nonce pp.Nonce, body []byte) *message {
	m := &message{name: name, msg: body, cid: com.cid, nonce: nonce, pub: com.members[pubPos], pubPos: pubPos, com: com, d: com.d, p: com.p}
	for _, o := range w.msgs { // two messages must differ in their key
		if o.cid == m.cid && o.pub.id == m.pub.id && o.nonce == m.nonce && bytes.Equal(o.msg, m.msg) {
			m.msg = append(append([]byte(nil), m.msg...), 0x5a)
		}
	}
	var units []pp.Unit
	var err error
	cid := m.cid
	in := append([]byte(nil), m.msg...)
	if pc := guard(func() { units, err = pp.CreatePropellerUnits(m.pub.priv, &cid, m.nonce, in, m.d, m.p) }); pc != nil {
		w.panicked(pc, "CreatePropellerUnits")
		return nil
	}
	if err != nil {
		w.report("create_failed", "create_units", "CreatePropellerUnits(len=%d, d=%d, p=%d): %v", len(m.msg), m.d, m.p, err)
		return nil
	}
	if len(units) != m.d+m.p {
		w.report("unit_malformed", "create_units/count", "got %d units for d=%d p=%d", len(units), m.d, m.p)
		return nil
	}
	m.units = units
	for i := range units {
		m.senders = append(m.senders, com.senderOf(pubPos, i))
	}
	m.localIdx = com.localIndexFor(pubPos)
	m.key = pp.JsimExtractKey(&m.units[0])
	if w.byKey[m.key] != nil {
		w.c.Broken("two published messages share a routing key")
	}
	w.byKey[m.key] = m
	w.msgs = append(w.msgs, m)
	return m
}

func (w *pw) classify(u *pp.Unit) (*message, int) {
	// a unit identical to a published one has that message's routing key, and keys are unique among the
	// published messages (publish refuses anything else)
	if m := w.byKey[pp.JsimExtractKey(u)]; m != nil {
		for i := range m.units {
			if unitEq(u, &m.units[i]) {
				return m, i
			}
		}
	}
	return nil, -1
}

func errStage(s string) string {
	switch {
	case strings.Contains(s, "duplicated shard"):
		return "duplicate"
	case strings.Contains(s, "data shards verification failed"), strings.Contains(s, "unexpected amount of shards"):
		return "merkle"
	case strings.Contains(s, "signature"):
		return "signature"
	default:
		return "origin"
	}
}

func errClass(s string) string {
	switch {
	case s == "":
		return "ok"
	case strings.Contains(s, "processor channel full"):
		return "channel_full"
	case strings.Contains(s, "tasks per publisher exceeded"):
		return "publisher_bound"
	case strings.Contains(s, "max tasks that the processor can handle"):
		return "total_bound"
	case strings.Contains(s, "cannot get local shard index"):
		return "not_routable"
	default:
		return "other"
	}
}

// ---- starting and stopping the real components -----------------------------------------------------------

func (w *pw) notePanic(r any, st string) {
	fn, in := repoFrame(st)
	pc := &caught{fn: fn, val: r, stack: trim(st, 30), inRepo: in}
	w.mu.Lock()
	w.panics = append(w.panics, pc)
	w.mu.Unlock()
}

func (w *pw) startAll() {
	c := w.c
	w.ctx, w.cancel = context.WithCancel(context.Background())
	w.started = true
	w.release = make(chan struct{})
	w.entryGate = make(chan struct{})
	w.stopDrain = make(chan struct{})
	w.drainDone = make(chan struct{})
	w.start = time.Now()
	pp.JsimRawLeaf = w.rawLeaf
	pp.JsimSubEnterHook = func() {
		// Processor.ProcessMessage hands the unit over with a non-blocking send right after `go`: whether
		// the new goroutine already waits for it is the Go scheduler's choice (it practically never does).
		// The new goroutine is held here until the spawner has returned, so every run takes the usual
		// branch - the unit that starts a subprocessor is dropped - whatever GOMAXPROCS is.
		w.mu.Lock()
		w.enter++
		w.atEntry++
		w.mu.Unlock()
		select {
		case <-w.entryGate:
		case <-w.release:
		}
	}
	pp.JsimSubExitHook = func(r any, st []byte) {
		w.mu.Lock()
		killing := w.killing
		w.exit++
		w.mu.Unlock()
		if r != nil && !killing {
			w.notePanic(r, string(st))
		}
	}
	pp.JsimNilSendHook = func(ev pp.Event) bool {
		w.mu.Lock()
		w.events = append(w.events, obsEv{ev: ev, viaHook: true})
		if w.fid.eventSink {
			w.mu.Unlock()
			return true
		}
		w.nilParked++
		w.mu.Unlock()
		<-w.release // for the rest of the run this goroutine is blocked exactly as on the nil channel
		runtime.Goexit()
		return false
	}
	cfg := pp.DefaultConfig()
	cfg.StaleMessageTimeout = w.timeout
	var events <-chan pp.Event
	if w.fid.engine {
		if pc := guard(func() { w.eng, w.cmd, events = pp.NewEngine(w.local.priv, &cfg, recLogger{w}) }); pc != nil {
			w.panicked(pc, "NewEngine")
			return
		}
		w.p = pp.JsimEngineProcessor(w.eng)
		w.engDone = make(chan struct{})
		go func() {
			defer close(w.engDone)
			defer func() {
				if r := recover(); r != nil {
					w.notePanic(r, string(debug.Stack()))
				}
			}()
			_ = w.eng.Run(w.ctx)
		}()
	} else {
		// as NewEngine does it; whether the Processor gets a logger that way is what the tree under test says
		if pc := guard(func() { w.p, events = pp.JsimNewProcessor(w.local.id, &cfg, recLogger{w}) }); pc != nil {
			w.panicked(pc, "NewProcessor")
			return
		}
		if w.fid.loggerSet || pp.JsimEngineSetsLogger {
			pp.JsimSetLogger(w.p, recLogger{w})
		}
		if !pp.JsimLoggerIsNil(w.p) {
			c.Probe("processor_has_logger")
		}
		w.runDone = make(chan struct{})
		go func() {
			defer close(w.runDone)
			defer func() {
				if r := recover(); r != nil {
					w.notePanic(r, string(debug.Stack()))
				}
			}()
			w.p.Run(w.ctx)
		}()
	}
	if time.Duration(pp.JsimTimeout(w.p)) != w.timeout {
		c.Broken("Processor.timeout %v differs from Config.StaleMessageTimeout %v", time.Duration(pp.JsimTimeout(w.p)), w.timeout)
	}
	// the application side of the event channel
	w.drainStarted = true
	go func() {
		defer close(w.drainDone)
		for {
			select {
			case ev := <-events:
				w.mu.Lock()
				w.events = append(w.events, obsEv{ev: ev})
				w.mu.Unlock()
			case <-w.stopDrain:
				return
			}
		}
	}()
	synctest.Wait()
	if w.fid.engine {
		for _, com := range w.coms {
			var err error
			cid := com.cid
			if pc := guard(func() { err = w.eng.RegisterCommittee(&cid, append([]pp.PeerCommittee(nil), com.peers...), nil) }); pc != nil {
				w.panicked(pc, "RegisterCommittee")
				return
			}
			c.Must(err, "RegisterCommittee")
		}
		synctest.Wait()
		_, runs := blockedSubprocessors()
		w.engineRunsProcessor = runs > 0
		if w.engineRunsProcessor {
			c.Probe("engine_runs_processor")
		}
	}
}

// teardown joins every goroutine of the run (one bubble per process: the next run needs a quiet bubble).
func (w *pw) teardown() {
	defer func() {
		pp.JsimSubEnterHook, pp.JsimSubExitHook, pp.JsimNilSendHook, pp.JsimRawLeaf = nil, nil, nil, false
	}()
	if !w.started {
		return
	}
	w.c.SimNs += int64(time.Since(w.start))
	w.cancel()
	live := func() int {
		w.mu.Lock()
		defer w.mu.Unlock()
		return w.enter - w.exit
	}
	for round := 0; ; round++ {
		synctest.Wait()
		n := 0
		if w.p != nil {
			n = pp.JsimDrainReports(w.p)
		}
		if n == 0 {
			break
		}
		if round > 100000 {
			w.c.Broken("teardown: report channels never run dry")
		}
	}
	close(w.release)
	for round := 0; ; round++ {
		synctest.Wait()
		n := 0
		if w.p != nil {
			n = pp.JsimDrainReports(w.p)
		}
		if n == 0 {
			break
		}
		if round > 100000 {
			w.c.Broken("teardown: report channels never run dry")
		}
	}
	if w.runDone != nil {
		<-w.runDone
	}
	if w.engDone != nil {
		<-w.engDone
	}
	if live() != 0 {
		// A subprocessor that waits for units without watching its context (the run has noted that as a
		// wedge) can only be got rid of by closing its unit channel: it then dies on the nil unit it reads.
		w.mu.Lock()
		w.killing = true
		w.mu.Unlock()
		pp.JsimCloseUnitChannels(w.p)
		for round := 0; round < 1000 && live() != 0; round++ {
			synctest.Wait()
			pp.JsimDrainReports(w.p)
		}
	}
	if l := live(); l != 0 {
		bl, _ := blockedSubprocessors()
		w.c.Broken("teardown: %d subprocessor goroutine(s) cannot be joined: %+v", l, bl)
	}
	close(w.stopDrain)
	if w.drainStarted {
		<-w.drainDone
	}
	synctest.Wait()
}

// ---- observation -------------------------------------------------------------------------------------------

type obs struct {
	reports   []string // error texts of "unit validation failed"
	finErr    []string
	finOK     int
	engineErr []string // Engine: "cannot process incoming unit"
	engineNoC int      // Engine: unit for an unregistered committee
	spawned   int
	evs       []obsEv
	pcs       []*caught
}

func (w *pw) liveCount() int {
	w.mu.Lock()
	defer w.mu.Unlock()
	return w.enter - w.exit
}

// settle: everything parks; goroutines held at their entry are let in; everything parks again.
func (w *pw) settle() {
	for {
		synctest.Wait()
		w.mu.Lock()
		n := w.atEntry
		w.atEntry = 0
		w.mu.Unlock()
		if n == 0 {
			return
		}
		for i := 0; i < n; i++ {
			w.entryGate <- struct{}{}
		}
	}
}

// collect takes what the code under test did since the last call (call after synctest.Wait only).
func (w *pw) collect(enterBefore int) obs {
	w.mu.Lock()
	logs := append([]logRec(nil), w.logs[w.logSeen:]...)
	o := obs{spawned: w.enter - enterBefore}
	o.evs = append([]obsEv(nil), w.events[w.evSeen:]...)
	o.pcs = append([]*caught(nil), w.panics[w.pSeen:]...)
	w.logSeen, w.evSeen, w.pSeen = len(w.logs), len(w.events), len(w.panics)
	w.mu.Unlock()
	for _, l := range logs {
		switch l.msg {
		case "unit validation failed":
			o.reports = append(o.reports, l.err)
		case "subprocessor finalized with error":
			o.finErr = append(o.finErr, l.err)
		case "subprocessor finalized":
			o.finOK++
		case "cannot process incoming unit":
			o.engineErr = append(o.engineErr, l.err)
		case "received key for unregistered committee, dropping":
			o.engineNoC++
		}
	}
	return o
}

// digest judges panics and events of the step and retires model entries whose subprocessor is gone. The
// reference model must already contain what the step's delivery did.
func (w *pw) digest(o obs) {
	c := w.c
	for _, pc := range o.pcs {
		if !pc.inRepo {
			c.Broken("panic outside the code under test: %v\n%s", pc.val, pc.stack)
		}
		c.Logf("PANIC in %s (%s)", shortFn(pc.fn), panicShape(pc.val))
		w.panicked(pc, "goroutine of the receiver")
	}
	for _, e := range o.evs {
		w.checkEvent(e)
	}
	if len(o.finErr)+o.finOK > 0 {
		stages := map[string]int{}
		for _, e := range o.finErr {
			stages[finStage(e)]++
		}
		var ks []string
		for k := range stages {
			ks = append(ks, k)
		}
		sort.Strings(ks)
		s := ""
		for _, k := range ks {
			s += fmt.Sprintf(" %s=%d", k, stages[k])
		}
		c.Logf("  finalized: ok=%d%s", o.finOK, s)
	}
	w.prune(o)
}

func finStage(e string) string {
	switch {
	case strings.Contains(e, "deadline exceeded"):
		return "timeout"
	case strings.Contains(e, "context canceled"):
		return "cancelled"
	case strings.Contains(e, "couldn't validate first unit"):
		return "first_unit_invalid"
	case strings.Contains(e, "recovering shards data"):
		return "recover_failed"
	case strings.Contains(e, "wrong message root hash"):
		return "root_mismatch"
	case strings.Contains(e, "unpadding"):
		return "unpad_failed"
	case strings.Contains(e, "missmatch on shard size"):
		return "shard_size"
	default:
		return "other"
	}
}

func (w *pw) runDead() bool {
	if w.fid.engine {
		return !w.engineRunsProcessor // whether Engine.Run starts Processor.Run is the tree's business
	}
	if w.runEnded {
		return true
	}
	select {
	case <-w.runDone:
		w.runEnded = true
		return true
	default:
		return false
	}
}

func (w *pw) incFor(key pp.JsimKey) *inc {
	for _, in := range w.incs {
		if in.key == key {
			return in
		}
	}
	return nil
}

// prune: model entries whose subprocessor is gone (Processor.finalize ran). A broadcast that is owed must
// have happened by then.
func (w *pw) prune(o obs) {
	// an entry of Processor.subProcessors appears only inside a ProcessMessage call (deliver() adds the model
	// entry) and disappears only in Processor.finalize: equal counts mean that none has ended
	if pp.JsimNumSubprocessors(w.p) == len(w.incs) {
		return
	}
	kept := w.incs[:0]
	for _, in := range w.incs {
		if pp.JsimHasSubprocessor(w.p, in.key) {
			kept = append(kept, in)
			continue
		}
		w.c.Logf("  subprocessor %d ended (handed=%d valid_before_build=%d built=%v)", in.id, in.handed, in.stage1, in.built)
		w.owed(in, o)
	}
	w.incs = kept
}

func (w *pw) owed(in *inc, o obs) {
	if in.need == "" || in.got || w.has("panic") {
		return
	}
	w.reportAt("broadcast_missing", in.need, "-",
		"message %s (len=%d d=%d p=%d local_index=%d): the subprocessor was handed %d valid units (%s) - %s - but no broadcastUnit event for the local shard was emitted before it ended (finalization errors of this step: %v)",
		in.m.name, len(in.m.msg), in.d, in.total-in.d, in.m.localIdx, in.stage1, maskString(in.seen), in.need, o.finErr)
}

func maskString(p []bool) string {
	b := make([]byte, len(p))
	for i := range p {
		b[i] = '.'
		if p[i] {
			b[i] = 'x'
		}
	}
	return string(b)
}

// checkEvent: whatever the receiver emits as "broadcast this unit" must be exactly the local peer's unit of
// a genuinely published message: the shard the publisher produced for the local index, a proof that binds
// it to the signed root, the publisher's signature - acceptable to the real validator of another peer.
func (w *pw) checkEvent(e obsEv) {
	c := w.c
	unit, _, ok := pp.JsimAsBroadcastUnit(e.ev)
	if !ok {
		k := pp.JsimEventKind(e.ev)
		c.Logf("  event %s", k)
		c.Probe("event_" + k)
		return
	}
	if unit == nil {
		w.report("wrong_broadcast", "nil_unit", "broadcastUnit event without a unit")
		return
	}
	key := pp.JsimExtractKey(unit)
	m := w.byKey[key]
	if m == nil {
		w.report("wrong_broadcast", "unknown_message", "broadcastUnit event for a (committee, publisher, root, nonce) nobody published: index=%d shards=%d", unit.ShardIndex, len(unit.ShardData))
		return
	}
	in := w.incFor(key)
	how := "rebuilt"
	if in != nil && in.hadLocal {
		how = "forwarded"
	}
	total := m.d + m.p
	want := &m.units[m.localIdx]
	desc := fmt.Sprintf("message %s len=%d d=%d p=%d local_index=%d (%s)", m.name, len(m.msg), m.d, m.p, m.localIdx, how)
	c.Logf("  event broadcastUnit %s index=%d %s", m.name, unit.ShardIndex, how)
	c.Evals++
	switch {
	case int(unit.ShardIndex) != m.localIdx:
		w.report("wrong_broadcast", "shard_index/"+how, "%s: broadcast unit carries index %d", desc, unit.ShardIndex)
	case len(unit.ShardData) != 1 || !bytes.Equal(unit.ShardData[0], want.ShardData[0]):
		w.report("wrong_broadcast", "shard_data/"+how, "%s: broadcast unit does not carry exactly the local shard the publisher produced", desc)
	case unit.CommitteeID != want.CommitteeID || unit.Publisher != want.Publisher || unit.MessageRoot != want.MessageRoot || unit.Nonce != want.Nonce:
		w.report("wrong_broadcast", "fields/"+how, "%s: committee/publisher/root/nonce differ from the published unit", desc)
	case !proofOK(want.MessageRoot, unit.ShardData[0], unit.MerkleProof, uint32(m.localIdx), total):
		w.report("wrong_broadcast", "proof/"+how, "%s: the proof of the broadcast unit does not bind the shard to the signed root", desc)
	default:
		var err error
		root, cid := unit.MessageRoot, unit.CommitteeID
		if pc := guard(func() { err = pp.VerifyMessageSignature(m.pub.pub, &root, &cid, unit.Nonce, unit.Signature) }); pc != nil {
			w.panicked(pc, "VerifyMessageSignature")
			return
		}
		if err != nil {
			w.report("wrong_broadcast", "signature/"+how, "%s: signature of the broadcast unit does not verify: %v", desc, err)
			return
		}
		// the real validator of another committee member, which expects this shard from the local peer
		for pos, q := range m.com.members {
			if pos == m.com.localPos || pos == m.pubPos {
				continue
			}
			var verr error
			u2 := cloneUnit(unit)
			if pc := guard(func() {
				sq, e := pp.NewScheduler(q.id, append([]pp.PeerCommittee(nil), m.com.peers...))
				if e != nil {
					verr = e
					return
				}
				v := pp.NewValidator(m.pub.id, sq)
				verr = v.Validate(&u2, w.local.id)
			}); pc != nil {
				w.panicked(pc, "peer validator")
				return
			}
			if verr != nil {
				w.report("wrong_broadcast", "rejected_by_peer_validator/"+how, "%s: the validator of another committee member rejects the broadcast unit: %v", desc, verr)
				return
			}
			c.Probe("broadcast_accepted_by_peer_validator")
			break
		}
		c.Probe("broadcast_" + how + "_checked")
		if how == "rebuilt" && in != nil && !in.seen[0] {
			c.Probe("rebuilt_without_shard0")
		}
	}
	if in != nil {
		in.got = true
	}
	w.gotKey[key] = true
}

// ---- one delivery -------------------------------------------------------------------------------------------

// hasRoom: the exported task counters show a free slot for one more message of this publisher.
func (w *pw) hasRoom(pub peer.ID) bool {
	tasks, per := pp.JsimTasks(w.p)
	maxAll, maxPub := pp.JsimBounds(w.p)
	return tasks < maxAll && per[pub] < maxPub
}

// noteRefused: a unit was refused because a task bound was hit - a transient reason.
func (w *pw) noteRefused(key pp.JsimKey, why string, genuine bool) {
	if !genuine || w.refusedWhy[key] != "" {
		return
	}
	w.refusedWhy[key] = why
	if m := w.byKey[key]; m != nil && !w.everStarted[key] {
		w.refused = append(w.refused, m)
	}
}

func (w *pw) livePublisher(id peer.ID) int {
	n := 0
	for _, in := range w.incs {
		if in.key.Publisher == id {
			n++
		}
	}
	return n
}

func (w *pw) deliver(dv *delivery) {
	c := w.c
	w.lastSpawned = false
	u := cloneUnit(&dv.unit)
	if w.wire {
		var (
			dec  pp.Unit
			derr error
			raw  []byte
		)
		if pc := guard(func() {
			pu := u.ToProto()
			if dv.wire != nil {
				dv.wire(pu)
			}
			raw, derr = proto.Marshal(&pb.PropellerUnitBatch{Batch: []*pb.PropellerUnit{pu}})
		}); pc != nil {
			w.panicked(pc, "ToProto")
			return
		}
		c.Must(derr, "marshal unit")
		var batch pb.PropellerUnitBatch
		c.Must(proto.Unmarshal(raw, &batch), "unmarshal unit")
		if pc := guard(func() { dec, derr = pp.UnitFromProto(batch.GetBatch()[0]) }); pc != nil {
			w.panicked(pc, "UnitFromProto")
			return
		}
		if derr != nil {
			if m, i := w.classify(&dv.unit); m != nil && dv.wire == nil && dv.sender == m.senders[i] {
				w.report("honest_unit_rejected", "unit_from_proto", "genuine unit %s does not survive the wire codec: %v", dv.note, derr)
				return
			}
			c.Logf("deliver %s: rejected by decoder", dv.note)
			if dv.kind != "" {
				c.Fault(dv.kind)
			}
			return
		}
		u = dec
	}
	gm, gi := w.classify(&u)
	honest := gm != nil && dv.sender == gm.senders[gi]
	if !honest && dv.kind != "" {
		c.Fault(dv.kind)
	}
	// Engine.processUnit: the committee id selects the scheduler; unknown committee -> dropped
	com := w.comBy[u.CommitteeID]
	if com == nil && !w.fid.engine {
		if w.aliasOK && dv.src != nil {
			com = dv.src.com
		} else {
			c.Logf("deliver %s: no such committee, dropped", dv.note)
			return
		}
	}
	key := pp.JsimExtractKey(&u)
	in := w.incFor(key)
	had := pp.JsimHasSubprocessor(w.p, key)
	if had && in == nil {
		if why := w.refusedWhy[key]; why != "" && !w.everStarted[key] {
			// the only calls that ever carried this key were refused at a bound, no goroutine was started -
			// yet Processor.subProcessors holds a channel for it: nobody reads it, every further unit of the
			// message is dropped as 'channel full', and nothing (no timeout, no finalization) ever removes it
			w.reportAt("swallowed", "refused_at_capacity_left_entry_without_subprocessor", why,
				"unit %s: Processor.subProcessors has an entry for a message whose units were all refused at the task bound (%s) and for which no subprocessor goroutine was ever started", dv.note, why)
			return
		}
		c.Broken("model lost track of a subprocessor")
	}
	w.mu.Lock()
	enterBefore := w.enter
	w.mu.Unlock()
	_, mpp := pp.JsimBounds(w.p)
	bound := int(mpp)
	liveBefore := w.livePublisher(key.Publisher)
	roomBefore := w.hasRoom(key.Publisher)

	unit := u
	errText := ""
	if w.fid.engine {
		if pc := guard(func() { pp.JsimSendProcessUnit(w.cmd, &unit, dv.sender) }); pc != nil {
			w.panicked(pc, "processUnit")
			return
		}
	} else {
		var err error
		if pc := guard(func() { err = w.p.ProcessMessage(w.ctx, &unit, dv.sender, com.sched) }); pc != nil {
			w.panicked(pc, "ProcessMessage")
			return
		}
		if err != nil {
			errText = err.Error()
		}
	}
	w.settle()
	o := w.collect(enterBefore)
	defer w.digest(o)
	if w.fid.engine {
		if o.engineNoC > 0 {
			c.Logf("deliver %s: engine: no such committee, dropped", dv.note)
			return
		}
		if len(o.engineErr) > 0 {
			errText = o.engineErr[0]
		}
	}
	if o.spawned > 1 {
		c.Broken("one delivery started %d subprocessors", o.spawned)
	}
	ec := errClass(errText)
	handed, fresh := false, false
	switch {
	case ec == "ok" && had:
		handed = true
	case ec == "ok" && o.spawned == 1:
		handed, fresh = true, true
	case ec == "ok":
		c.Logf("deliver %s: ignored (key finalized)", dv.note)
		c.Probe("unit_ignored_key_finalized")
		// Refusing at a task bound is legal loss. Not legal: the refusal outlives the overload. This unit is a
		// genuine unit from its proper sender, of a message the Processor has NEVER started a subprocessor
		// for (so nothing of it was ever processed or finalized), whose earlier unit(s) it refused at a task
		// bound; the exported task counters showed a free slot before the call - and the unit was swallowed.
		if why := w.refusedWhy[key]; why != "" && honest && gm.key == key && !w.everStarted[key] && roomBefore {
			tasks, per := pp.JsimTasks(w.p)
			maxAll, _ := pp.JsimBounds(w.p)
			w.reportAt("swallowed", "refused_at_capacity_then_ignored_after_capacity_returned", why,
				"genuine unit %s (message %s, len=%d d=%d p=%d) from its proper sender: an earlier unit of this message was refused at the task bound (%s); now the counters show room (tasks=%d of %d, this publisher %d of %d), no subprocessor was ever started for the message, yet ProcessMessage returned nil without starting one - the unit is dropped unverified as if the message had been finalized, and so is every further shard of it for StaleMessageTimeout=%v",
				dv.note, gm.name, len(gm.msg), gm.d, gm.p, why, tasks, maxAll, per[key.Publisher], bound, w.timeout)
		}
		return
	case o.spawned == 1:
		fresh = true
		c.Probe("first_unit_dropped_at_spawn")
	case had:
		c.Logf("deliver %s: dropped, subprocessor busy (%s)", dv.note, ec)
		c.Probe("unit_dropped_subprocessor_busy")
		return
	default:
		c.Logf("deliver %s: refused (%s)", dv.note, ec)
		switch ec {
		case "publisher_bound":
			c.Probe("refused_publisher_bound")
			w.noteRefused(key, ec, honest && gm.key == key)
			if liveBefore*2 < bound { // far below the bound: counters leaked (an off-by-one of the bound itself is nobody's property)
				w.reportAt("task_leak", "refused_below_bound", "publisher", "a new message of a publisher with %d live subprocessors (bound %d) was refused: %s", liveBefore, bound, errText)
			}
		case "not_routable":
			if honest {
				w.report("honest_unit_rejected", "processor/routing", "genuine unit %s: %s", dv.note, errText)
			}
		case "total_bound":
			c.Probe("refused_total_bound")
			w.noteRefused(key, ec, honest && gm.key == key)
		default:
			if honest {
				w.report("honest_unit_rejected", "processor/other", "genuine unit %s: %s", dv.note, errText)
			}
		}
		return
	}
	if fresh {
		m := w.byKey[key]
		if com == nil {
			com = w.comBy[u.CommitteeID]
		}
		in = &inc{id: w.nextID, key: key, m: m, born: time.Now()}
		w.everStarted[key] = true
		if m != nil {
			in.total, in.d = m.d+m.p, m.d
		} else if com != nil {
			in.total, in.d = com.d+com.p, com.d
		}
		in.seen = make([]bool, in.total)
		w.nextID++
		w.incs = append(w.incs, in) // digest retires it if it has ended within this very step
		w.lastSpawned = true
		if !handed {
			c.Logf("deliver %s: subprocessor %d spawned, unit dropped (%s)", dv.note, in.id, ec)
			return
		}
	}
	// handed over to a running subprocessor: it validates the unit
	c.Nontrivial = true
	in.handed++
	mine := honest && gm.key == key && gi < len(in.seen)
	refValid := mine && !in.seen[gi]
	dup := mine && in.seen[gi]
	c.Logf("deliver %s -> subprocessor %d (valid=%v) reports=%d", dv.note, in.id, refValid, len(o.reports))
	if len(o.reports) > 1 {
		c.Broken("one unit raised %d invalid-unit reports", len(o.reports))
	}
	if !w.runDead() || len(o.reports) > 0 {
		switch {
		case refValid && len(o.reports) > 0:
			site := "as_published"
			if w.rawLeaf {
				site = "raw_leaf_seam"
			}
			w.reportAt("honest_unit_rejected", "validator/"+errStage(o.reports[0]), site,
				"genuine unit %s (len=%d d=%d p=%d nonce=%d) from its proper sender was rejected by the subprocessor's validator: %s", dv.note, len(gm.msg), gm.d, gm.p, int64(gm.nonce), o.reports[0])
			return
		case dup && len(o.reports) == 0:
			w.report("duplicate_accepted", "processor", "second delivery of %s to the same subprocessor raised no invalid-unit report", dv.note)
			return
		case !refValid && len(o.reports) == 0:
			k := dv.kind
			if k == "" || k == "unit_duplicated" {
				k = "unknown"
			}
			w.report("corrupt_accepted", "processor/"+k, "unit %s, which differs from every published unit or comes from the wrong sender, raised no invalid-unit report", dv.note)
			return
		case !refValid:
			c.Probe("corrupt_unit_reported")
			if dup {
				c.Fault("unit_duplicated")
			}
		}
	}
	if !refValid {
		if !in.built && in.stage1 == 0 {
			c.Probe("invalid_unit_before_any_valid_one")
		}
		return
	}
	in.seen[gi] = true
	if in.built {
		c.Probe("valid_unit_after_build")
		return
	}
	in.stage1++
	if gi == gm.localIdx {
		in.hadLocal = true
		if in.need == "" {
			in.need = "local_shard_delivered"
		}
	}
	if in.stage1 == in.d {
		in.built = true
		c.Probe("build_threshold_reached")
		if !in.seen[0] {
			c.Probe("threshold_without_shard0")
		}
		if in.need == "" {
			in.need = "threshold_reached/shard0_present"
			if !in.seen[0] {
				in.need = "threshold_reached/shard0_missing"
			}
		}
		c.Logf("  threshold reached for %s with %s (local=%d)", gm.name, maskString(in.seen), gm.localIdx)
	}
}

// advance moves the fake clock.
func (w *pw) advance(d time.Duration) {
	w.mu.Lock()
	enterBefore := w.enter
	w.mu.Unlock()
	time.Sleep(d)
	w.settle()
	w.digest(w.collect(enterBefore))
}

// quiesced: no unit is in flight and the clock has passed StaleMessageTimeout: every subprocessor must be
// gone and the task counters back at zero.
func (w *pw) quiesced(phase string) bool {
	c := w.c
	live := w.liveCount()
	tasks, per := pp.JsimTasks(w.p)
	nsub := pp.JsimNumSubprocessors(w.p)
	w.mu.Lock()
	parked := w.nilParked
	w.mu.Unlock()
	c.Logf("quiescence %s: live=%d tasks=%d publishers=%d entries=%d parked_on_nil=%d", phase, live, tasks, len(per), nsub, parked)
	c.Evals++
	for _, in := range w.incs { // still there: whatever is owed is overdue
		w.owed(in, obs{})
	}
	if live == 0 && tasks == 0 && len(per) == 0 && nsub == 0 {
		c.Probe("quiesced_clean")
		return true
	}
	if w.has("panic") {
		return false // a goroutine of the receiver died: what is left over is a consequence
	}
	bl, runs := blockedSubprocessors()
	switch {
	case parked > 0:
		w.reportAt("wedge", "send_on_nil_events_channel", "subprocessor.broadcastUnit",
			"%d subprocessor goroutine(s) are blocked for ever sending their broadcastUnit event on subprocessor.processingEvents, which is nil (newSubprocessor never sets it); StaleMessageTimeout=%v passed, the context is cancelled, the send is outside any select: tasks=%d entries=%d never released. blocked at: %+v",
			parked, w.timeout, tasks, nsub, bl)
	case live > 0:
		allReports := len(bl) > 0
		for _, b := range bl {
			if b.site != "p.subProcessorsFinalized<-" && b.site != "s.invalidUnitsChan<-" {
				allReports = false
			}
		}
		if allReports && runs == 0 {
			site := "Processor.Run_ended"
			if w.fid.engine {
				site = "Engine.Run_never_starts_Processor.Run"
			}
			w.reportAt("wedge", "report_channels_have_no_reader", site,
				"%d subprocessor goroutine(s) are blocked for ever reporting to the Processor (no goroutine executes Processor.Run): tasks=%d entries=%d never released after StaleMessageTimeout=%v. blocked at: %+v", live, tasks, nsub, w.timeout, bl)
		} else {
			site := "?"
			if len(bl) > 0 {
				site = bl[0].site
			}
			w.reportAt("wedge", "subprocessor_blocked", site,
				"%d subprocessor goroutine(s) still alive after StaleMessageTimeout=%v passed with nothing in flight: tasks=%d entries=%d. blocked at: %+v", live, w.timeout, tasks, nsub, bl)
		}
	default:
		w.reportAt("task_leak", "counters", "after_timeout", "no subprocessor goroutine is alive but tasks=%d per_publisher=%d entries=%d after StaleMessageTimeout=%v", tasks, len(per), nsub, w.timeout)
	}
	return false
}

// ---- scenarios ----------------------------------------------------------------------------------------------

var kinds = []string{"corrupt_shard", "corrupt_proof", "corrupt_index", "corrupt_signature", "corrupt_committee",
	"corrupt_publisher", "corrupt_root", "corrupt_sender", "resigned_unit", "foreign_unit", "corrupt_nonce"}

func (w *pw) otherMessage(m *message) *message {
	t := w.c.T
	var body []byte
	if t.Draw("foreign_same_len", 2) == 0 {
		body = append([]byte(nil), m.msg...)
		if len(body) == 0 {
			body = []byte{1}
		} else {
			body[t.Draw("foreign_pos", len(body))] ^= 1 + byte(t.Draw("foreign_xor", 255))
		}
	} else {
		body = w.genMsg(w.genLen(m.d, m.p))
		if bytes.Equal(body, m.msg) {
			body = append(body, 7)
		}
	}
	// raw material only: not registered as a published message
	o := &message{name: "F", msg: body, cid: m.cid, nonce: m.nonce, pub: m.pub, pubPos: m.pubPos, com: m.com, d: m.d, p: m.p, senders: m.senders, localIdx: m.localIdx}
	cid := o.cid
	units, err := pp.CreatePropellerUnits(o.pub.priv, &cid, o.nonce, append([]byte(nil), body...), o.d, o.p)
	w.c.Must(err, "publish foreign message")
	o.units = units
	return o
}

func (w *pw) calibrateLeaf() {
	c := w.c
	m := w.msgs[0]
	try := func() bool {
		var err error
		u := cloneUnit(&m.units[0])
		if pc := guard(func() {
			v := pp.NewValidator(m.pub.id, m.com.sched)
			err = v.Validate(&u, m.senders[0])
		}); pc != nil {
			w.panicked(pc, "Validate")
			return false
		}
		c.Evals++
		return err == nil
	}
	pp.JsimRawLeaf = false
	defer func() { pp.JsimRawLeaf = false }()
	if try() {
		c.Probe("leaf_encodings_agree")
		return
	}
	if !w.fid.leafCal || !pp.JsimLeafSeamInstalled {
		return
	}
	pp.JsimRawLeaf = true
	if try() {
		w.rawLeaf = true
		c.Probe("leaf_seam_used")
		c.Logf("validator leaf encoding calibrated to the publisher's (raw shard)")
		return
	}
	c.Inconclusive++
	c.Logf("no leaf encoding makes a fresh validator accept a published unit")
}

func (w *pw) runNormal(faults, keep0 bool) {
	c, t := w.c, w.c.T
	ncom := 1
	if t.Chance("second_committee", 1, 4) {
		ncom = 2
	}
	for k := 0; k < ncom; k++ {
		n := 2 + t.Draw("committee_size", 12)
		if t.Draw("size_bias", 2) == 0 {
			n = 4 + t.Draw("committee_mid", 5)
		}
		if w.genCommittee(string(rune('P'+k)), n) == nil {
			return
		}
	}
	nmsg := 1 + t.Draw("messages", 3)
	for k := 0; k < nmsg; k++ {
		com := w.coms[t.Draw("msg_committee", ncom)]
		n := len(com.members)
		pubPos := t.Draw("publisher", n-1)
		if pubPos >= com.localPos {
			pubPos++
		}
		if k > 0 && com == w.msgs[0].com && t.Draw("same_publisher", 2) == 0 {
			pubPos = w.msgs[0].pubPos
		}
		ln := w.genLen(com.d, com.p)
		body := w.genMsg(ln)
		w.lenProbes(ln, com.d)
		m := w.publish(string(rune('A'+k)), com, pubPos, w.genNonce(), body)
		if m == nil {
			return
		}
		c.Logf("message %s committee=%s publisher=%d len=%d msg=%s nonce_zero=%v local_index=%d", m.name, com.name, pubPos, len(m.msg), short(m.msg), m.nonce == 0, m.localIdx)
	}
	w.calibrateLeaf()
	if len(w.viols) > 0 {
		return
	}
	w.aliasOK = t.Draw("corrupt_cid_registered", 2) == 0

	// transport
	var dl []delivery
	enabled := uint64(0)
	pLoss, pDup, pCorrupt := 0, 0, 0
	reorder, gaps := false, false
	if faults {
		enabled = t.U64("enabled_kinds")
		if enabled&(1<<uint(len(kinds))-1) == 0 {
			enabled = ^uint64(0)
		}
		pLoss = t.Draw("p_loss", 4)
		pDup = t.Draw("p_dup", 4)
		pCorrupt = t.Draw("p_corr", 5)
		reorder = t.Draw("reorder", 3) != 0
		gaps = t.Draw("clock_gaps", 3) == 0
	}
	foreign := map[*message]*message{}
	for _, m := range w.msgs {
		total := m.d + m.p
		for i := 0; i < total; i++ {
			base := delivery{unit: cloneUnit(&m.units[i]), sender: m.senders[i], note: fmt.Sprintf("%s%d", m.name, i), src: m}
			if keep0 && i == 0 {
				// the first unit that reaches a new subprocessor is dropped at spawn time: shard 0 is sent
				// twice, ahead of everything else, so that it is handed over
				base.pin = true
				dl = append(dl, base)
				d2 := base
				d2.unit = cloneUnit(&base.unit)
				dl = append(dl, d2)
				continue
			}
			if !faults {
				dl = append(dl, base)
				continue
			}
			if t.Chance("lose", pLoss, 8) {
				c.Fault("unit_lost")
				c.Logf("lost %s", base.note)
				continue
			}
			if t.Chance("corrupt", pCorrupt, 8) {
				k := t.Draw("kind", len(kinds))
				for s := 0; s < len(kinds) && enabled>>uint(k)&1 == 0; s++ {
					k = (k + 1) % len(kinds)
				}
				if kinds[k] == "foreign_unit" && foreign[m] == nil {
					foreign[m] = w.otherMessage(m)
				}
				bad := w.corrupt(kinds[k], m, i, foreign[m])
				bad.src = m
				if t.Draw("inject_or_replace", 2) == 1 {
					dl = append(dl, base)
				}
				dl = append(dl, bad)
				if t.Chance("repeat_forged", 1, 3) { // the first copy may be the one dropped at spawn time
					b2 := bad
					b2.unit = cloneUnit(&bad.unit)
					dl = append(dl, b2)
				}
				continue
			}
			dl = append(dl, base)
			if t.Chance("dup", pDup, 8) {
				d2 := base
				d2.unit = cloneUnit(&base.unit)
				d2.kind = "unit_duplicated"
				dl = append(dl, d2)
			}
		}
	}
	if reorder {
		var front, rest []delivery
		for _, d := range dl {
			if d.pin {
				front = append(front, d)
			} else {
				rest = append(rest, d)
			}
		}
		moved := false
		for k := 0; k+1 < len(rest); k++ {
			j := k + t.Draw("order", len(rest)-k)
			if j != k {
				moved = true
			}
			rest[k], rest[j] = rest[j], rest[k]
		}
		if moved {
			c.Fault("unit_reordered")
		}
		dl = append(front, rest...)
	}
	for i := range dl {
		dl[i].gap = time.Millisecond
		if gaps && t.Chance("gap", 1, 10) {
			switch t.Draw("gap_kind", 4) {
			case 0:
				dl[i].gap = w.timeout / 3
			case 1:
				dl[i].gap = w.timeout - time.Millisecond
			case 2:
				dl[i].gap = w.timeout + time.Millisecond
			case 3:
				dl[i].gap = 2*w.timeout + 3*time.Millisecond
			}
		}
	}

	w.startAll()
	if len(w.viols) > 0 || !w.started {
		return
	}
	for i := range dl {
		w.deliver(&dl[i])
		if w.has("panic") || w.has("honest_unit_rejected") {
			return // the receiver died / nothing genuine gets through: the rest would be consequences
		}
		if dl[i].gap > time.Millisecond {
			c.Fault("clock_gap")
			if dl[i].gap > w.timeout {
				c.Probe("gap_beyond_timeout")
			}
		}
		w.advance(dl[i].gap)
	}
	// faults stop; the clock passes StaleMessageTimeout
	w.advance(w.timeout + time.Second)
	ok := w.quiesced("after_transport")
	if !ok || len(w.viols) > 0 {
		return
	}
	w.laterMessage()
}

// laterMessage: after all that, a genuine message of the same publisher is still processed.
func (w *pw) laterMessage() {
	c, t := w.c, w.c.T
	m0 := w.msgs[0]
	ln := t.Range("later_len", 0, 200)
	body := w.genMsg(ln)
	m := w.publish("L", m0.com, m0.pubPos, m0.nonce+pp.Nonce(1+t.Draw("later_nonce", 3)), body)
	if m == nil {
		return
	}
	c.Logf("later message L publisher=%d len=%d local_index=%d", m.pubPos, len(m.msg), m.localIdx)
	if w.everStarted[m.key] {
		// The later message happens to carry a routing key (committee, publisher, root, nonce) that a FORGED
		// unit delivered earlier had made up (same root because the bodies are equal, nonce hit by the
		// corruption): that subprocessor ended on its invalid first unit and the key sits in the finalized
		// cache until it expires. Ignoring the message then is the documented behaviour of the cache
		// (DESIGN section 14.3, observations), not a failure to process a later message. Not judged.
		c.Probe("later_message_key_already_used_by_a_forged_unit_not_judged")
		return
	}
	total := m.d + m.p
	// the first delivery is dropped at spawn time: shard 0 goes out twice, up front (runs that keep shard 0)
	// or once more at the end
	order := make([]int, 0, total+1)
	if w.keep0 {
		order = append(order, 0)
	}
	for i := 0; i < total; i++ {
		order = append(order, i)
	}
	if !w.keep0 {
		order = append(order, 0)
	}
	for _, i := range order {
		dv := delivery{unit: cloneUnit(&m.units[i]), sender: m.senders[i], note: fmt.Sprintf("L%d", i), src: m}
		w.deliver(&dv)
		if len(w.viols) > 0 {
			return
		}
		w.advance(time.Millisecond)
	}
	switch {
	case w.gotKey[m.key]:
		c.Probe("later_message_processed")
	case w.incFor(m.key) == nil && len(w.viols) == 0:
		w.report("later_message", "not_processed", "after quiescence a genuine message of the same publisher (all %d units delivered in order, unit 0 twice) led to no broadcast of the local shard and its subprocessor is gone", total)
	}
	w.advance(w.timeout + time.Second)
	w.quiesced("after_later_message")
}

// runFlood: many concurrent messages - of ONE publisher (the per-publisher bound) or, class 'global', spread
// over all publishers of the committee (the bound on all tasks). A bound may refuse messages only while that
// many subprocessors are alive; once slots are free again a message refused before must be taken like any
// other; after StaleMessageTimeout the full bound is available again.
func (w *pw) runFlood() {
	c, t := w.c, w.c.T
	n := 7 + t.Draw("flood_committee", 4)
	com := w.genCommittee("P", n)
	if com == nil {
		return
	}
	pubPos := t.Draw("publisher", n-1)
	if pubPos >= com.localPos {
		pubPos++
	}
	first := w.publish("A", com, pubPos, 0, []byte("flood"))
	if first == nil {
		return
	}
	w.calibrateLeaf()
	w.startAll()
	if len(w.viols) > 0 || !w.started {
		return
	}
	maxAll, mpp := pp.JsimBounds(w.p)
	bound := int(mpp)
	if bound < 1 || bound > 4096 {
		c.Inconclusive++
		c.Logf("per-publisher bound %d outside what the flood scenario handles", bound)
		return
	}
	k := 1 + t.Draw("flood_small", 8)
	if t.Draw("flood_class", 3) != 0 {
		k = bound - 2 + t.Draw("flood_near_bound", 6)
	}
	// class 'global': every other member publishes, round robin, until the bound on ALL tasks is hit
	pubs := []int{pubPos}
	step := time.Millisecond
	if t.Draw("flood_scope", 8) == 7 && maxAll >= 1 && maxAll <= 4096 && uint64(n-1)*(mpp-1) >= maxAll+3 {
		pubs = pubs[:0]
		for q := 0; q < n; q++ {
			if pos := (pubPos + q) % n; pos != com.localPos {
				pubs = append(pubs, pos)
			}
		}
		k = int(maxAll) - 2 + t.Draw("flood_near_total_bound", 6)
		step = 200 * time.Microsecond // all of them in flight at once, whatever StaleMessageTimeout is
		c.Probe("flood_all_publishers")
	}
	c.Logf("flood: %d messages of %d publisher(s) from %d on, bound per publisher %d, on all tasks %d", k, len(pubs), pubPos, bound, maxAll)
	one := func(name string, pos, nonce int, second bool) bool {
		m := w.publish(name, com, pos, pp.Nonce(nonce), []byte(name))
		if m == nil {
			return false
		}
		other := 0
		if m.localIdx == 0 {
			other = 1
		}
		dv := delivery{unit: cloneUnit(&m.units[other]), sender: m.senders[other], note: name + "." + fmt.Sprint(other), src: m}
		w.deliver(&dv)
		w.advance(step)
		if second && len(w.viols) == 0 {
			dv2 := delivery{unit: cloneUnit(&m.units[other]), sender: m.senders[other], note: name + "." + fmt.Sprint(other) + "'", src: m}
			w.deliver(&dv2)
			w.advance(step)
		}
		return len(w.viols) == 0
	}
	for j := 0; j < k; j++ {
		if !one(fmt.Sprintf("f%d", j), pubs[j%len(pubs)], 1000+j, t.Chance("flood_second", 1, 2)) {
			return
		}
	}
	if len(pubs) == 1 && k > bound || len(pubs) > 1 && k > int(maxAll) {
		c.Probe("flood_beyond_bound")
	}
	if !w.retryRefused(step) {
		return
	}
	w.advance(w.timeout + time.Second)
	if !w.quiesced("after_flood") || len(w.viols) > 0 {
		return
	}
	if len(pubs) > 1 {
		return // the refill below is about one publisher; the single-publisher class does it
	}
	// the whole bound is available again
	for j := 0; j < bound; j++ {
		if !one(fmt.Sprintf("g%d", j), pubPos, 100000+j, false) {
			return
		}
		if !w.lastSpawned {
			w.reportAt("task_leak", "bound_not_available_after_quiescence", "publisher", "after quiescence only %d of %d new messages of the publisher could be started", j, bound)
			return
		}
	}
	c.Probe("full_bound_available_after_quiescence")
	w.advance(w.timeout + time.Second)
	w.quiesced("after_refill")
}

// retryRefused: the overload ends - slots are given back by subprocessors that finish, that end on a forged
// first unit, or that run into StaleMessageTimeout - and units of messages REFUSED at a bound arrive (again).
// Nothing of such a message was ever processed, its key is not legitimately finalized: the Processor has to
// start a subprocessor for it and, once the local shard or build-threshold many valid units are handed
// over, owes the same broadcast as for any other message (deliver() keeps the model, the oracles are the
// usual ones plus 'swallowed'). Returns false when the run has noted a violation.
func (w *pw) retryRefused(step time.Duration) bool {
	c, t := w.c, w.c.T
	if len(w.refused) == 0 {
		return true
	}
	want := 1 + t.Draw("retry_slots", 3)
	way := t.Draw("capacity_returns_by", 3)
	live := append([]*inc(nil), w.incs...) // oldest first
	c.Logf("retry: %d message(s) were refused at a bound; capacity returns by %s, %d slot(s)", len(w.refused), []string{"timeout", "completion", "forged_first_unit"}[way], want)
	switch way {
	case 1: // the oldest messages in flight are completed: every unit from its proper sender, in order
		for q := 0; q < want && q < len(live); q++ {
			m := live[q].m
			if m == nil {
				continue
			}
			for i := range m.units {
				dv := delivery{unit: cloneUnit(&m.units[i]), sender: m.senders[i], note: fmt.Sprintf("%s.%d+", m.name, i), src: m}
				w.deliver(&dv)
				if len(w.viols) > 0 {
					return false
				}
				w.advance(step)
			}
		}
	case 2: // a forged unit is the first one validated by a subprocessor that has validated none: it ends
		done := 0
		for _, in := range live {
			if done == want {
				break
			}
			if in.m == nil || in.handed != 0 {
				continue
			}
			bad := w.corrupt("corrupt_shard", in.m, in.m.localIdx, nil)
			bad.src = in.m
			w.deliver(&bad)
			if len(w.viols) > 0 {
				return false
			}
			w.advance(step)
			done++
		}
	}
	// whatever was tried: while the counters show no free slot, the clock passes the deadline of the oldest
	// subprocessors (a refusal remembered by mistake would still be remembered: it is younger than they are)
	r0 := w.refused[0]
	by := []string{"timeout", "completion", "forged_first_unit"}[way]
	if !w.hasRoom(r0.pub.id) && len(w.incs) > 0 {
		by = "timeout"
		idx := want - 1
		if idx >= len(w.incs) {
			idx = len(w.incs) - 1
		}
		if d := time.Until(w.incs[idx].born.Add(w.timeout).Add(step / 4)); d > 0 {
			c.Logf("retry: the clock passes the deadline of the %d oldest subprocessor(s)", idx+1)
			w.advance(d)
		}
	}
	if len(w.viols) > 0 {
		return false
	}
	from := t.Draw("retry_from", len(w.refused))
	for q := 0; q < want && q < len(w.refused); q++ {
		r := w.refused[(from+q)%len(w.refused)]
		if w.everStarted[r.key] || pp.JsimHasSubprocessor(w.p, r.key) {
			continue
		}
		if !w.hasRoom(r.pub.id) {
			// e.g. no goroutine executes Processor.Run: nothing is ever given back (judged at quiescence)
			tasks, per := pp.JsimTasks(w.p)
			c.Logf("retry: no free slot for %s (tasks=%d, publisher=%d)", r.name, tasks, per[r.pub.id])
			c.Probe("capacity_not_back_before_retry")
			break
		}
		c.Probe("capacity_back_after_refusal")
		if q == 0 {
			c.Probe("capacity_back_by_" + by)
		}
		total := r.d + r.p
		other := 0
		if r.localIdx == 0 {
			other = 1
		}
		var order []int
		seq := t.Draw("retry_sequence", 3)
		if seq == 2 && total-1 < r.d {
			seq = 0
		}
		switch seq {
		case 0: // any unit starts the subprocessor (and is dropped there), then the local shard
			order = []int{other, r.localIdx}
		case 1: // the local shard, twice
			order = []int{r.localIdx, r.localIdx}
		case 2: // build-threshold many units, the local shard not among them
			order = []int{other}
			skip0 := t.Draw("retry_without_shard0", 2) == 1 && total-2 >= r.d
			for i := 0; i < total && len(order) < 1+r.d; i++ {
				if i == r.localIdx || skip0 && i == 0 {
					continue
				}
				order = append(order, i)
			}
		}
		for pos, i := range order {
			dv := delivery{unit: cloneUnit(&r.units[i]), sender: r.senders[i], note: fmt.Sprintf("%s.%d again", r.name, i), src: r}
			w.deliver(&dv)
			if len(w.viols) > 0 {
				return false
			}
			if pos == 0 && w.lastSpawned {
				c.Probe("refused_message_started_after_capacity_back")
			}
			w.advance(step)
		}
		if w.gotKey[r.key] {
			c.Probe("refused_message_broadcast_after_capacity_back")
		}
	}
	return len(w.viols) == 0
}

// C19 is one simulated run.
func C19(c *sim.Ctx) {
	keyPool()
	t := c.T
	w := &pw{world: &world{c: c}, comBy: map[pp.CommitteeID]*committee{}, byKey: map[pp.JsimKey]*message{}, gotKey: map[pp.JsimKey]bool{},
		refusedWhy: map[pp.JsimKey]string{}, everStarted: map[pp.JsimKey]bool{}}
	w.fid.engine = t.Draw("world", 8) == 7
	w.fid.loggerSet = t.Draw("logger", 6) != 5
	w.fid.eventSink = t.Draw("events", 4) != 3
	w.fid.leafCal = t.Draw("leaf", 6) != 5
	if w.fid.engine {
		w.fid.eventSink, w.fid.leafCal, w.fid.loggerSet = true, true, false
	}
	flood := t.Draw("scenario", 12) == 11
	faults := t.Draw("fault_class", 4) != 0
	keep0 := t.Draw("shard0_policy", 2) == 0
	w.wire = t.Draw("wire", 2) == 1
	w.keep0 = keep0
	w.timeout = []time.Duration{120 * time.Second, time.Second, 7 * time.Second}[t.Draw("timeout", 3)]
	w.local = keyPool()[t.Draw("local_key", poolSize)]
	c.Logf("world=%s logger_set=%v event_sink=%v leaf_calibrated=%v flood=%v faults=%v keep0=%v wire=%v timeout=%v",
		map[bool]string{false: "processor", true: "engine"}[w.fid.engine], w.fid.loggerSet, w.fid.eventSink, w.fid.leafCal, flood, faults, keep0, w.wire, w.timeout)
	c.Sample = map[string]any{"mode": "real_processor", "engine_in_front": w.fid.engine, "logger_set_by_harness": w.fid.loggerSet,
		"nil_event_channel_sink": w.fid.eventSink, "leaf_calibrated": w.fid.leafCal, "flood": flood, "faults": faults, "wire": w.wire, "timeout_s": w.timeout.Seconds()}
	func() {
		defer w.teardown()
		if flood {
			w.runFlood()
		} else {
			w.runNormal(faults, keep0)
		}
	}()
	w.finish()
}
