package propproc

import (
	"testing"

	"jsim/sim"
)

func TestWorker(t *testing.T) {
	sim.WorkerMain(t, map[string]sim.Harness{
		"C19": C19,
	}, map[string]sim.Options{
		"C19": {Bubble: true, PanicIsViolation: true},
	})
}
