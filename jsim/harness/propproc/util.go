// Code in this file is taken from harness/propeller/c19.go (same author, same property): key pool, panic
// guard, reference Merkle verification, unit helpers, message generation. Only package-name strings differ.
package propproc

import (
	"bytes"
	"crypto/ed25519"
	"crypto/sha256"
	"fmt"
	"os"
	"runtime/debug"
	"strings"
	"sync"

	pp "github.com/NethermindEth/juno/consensus/propeller"
	"github.com/NethermindEth/juno/consensus/propeller/merkle"
	"github.com/libp2p/go-libp2p/core/crypto"
	"github.com/libp2p/go-libp2p/core/peer"
)

// ---- deterministic key pool -----------------------------------------------------------------

type member struct {
	priv crypto.PrivKey
	pub  crypto.PubKey
	id   peer.ID
}

const poolSize = 20

var (
	poolOnce sync.Once
	pool     []member
)

func keyPool() []member {
	poolOnce.Do(func() {
		for i := 0; i < poolSize; i++ {
			seed := sha256.Sum256([]byte(fmt.Sprintf("jsim-c19-key-%d", i)))
			sk := ed25519.NewKeyFromSeed(seed[:])
			priv, err := crypto.UnmarshalEd25519PrivateKey(sk)
			if err != nil {
				panic(err)
			}
			id, err := peer.IDFromPrivateKey(priv)
			if err != nil {
				panic(err)
			}
			pool = append(pool, member{priv: priv, pub: priv.GetPublic(), id: id})
		}
	})
	return pool
}

// ---- guard: panics inside juno code become violations, also for JSIM_REPO builds -------------

type caught struct {
	fn     string
	val    any
	stack  string
	inRepo bool
}

func repoRoots() []string {
	roots := []string{"/repo/"}
	if alt := os.Getenv("JSIM_REPO"); alt != "" {
		roots = append(roots, strings.TrimRight(alt, "/")+"/")
	}
	return roots
}

// guard runs f, which must contain nothing but calls into juno. A panic that passes through a
// frame of the repository under test is returned; anything else is re-raised (machinery trouble).
func guard(f func()) (pc *caught) {
	defer func() {
		if r := recover(); r != nil {
			st := string(debug.Stack())
			fn, in := repoFrame(st)
			if !in {
				panic(r)
			}
			pc = &caught{fn: fn, val: r, stack: trim(st, 40), inRepo: true}
		}
	}()
	f()
	return nil
}

// trim keeps the frames between the panic and the guard, without argument values, goroutine ids and
// pc offsets (the text is hashed into the trace, so it must not contain addresses).
func trim(st string, n int) string {
	var out []string
	seen := false
	for _, l := range strings.Split(st, "\n") {
		if strings.HasPrefix(l, "panic(") {
			seen = true
			continue
		}
		if !seen || l == "" {
			continue
		}
		if strings.HasPrefix(l, "\t") {
			if k := strings.Index(l, " +0x"); k > 0 {
				l = l[:k]
			}
		} else {
			if strings.Contains(l, "jsim/harness/propproc.guard(") {
				break
			}
			if k := strings.LastIndex(l, "("); k > 0 {
				l = l[:k]
			}
		}
		out = append(out, l)
		if len(out) >= n {
			break
		}
	}
	return strings.Join(out, "\n")
}

// repoFrame returns the innermost frame below the panic that lies in the repository under test,
// looking no further than this package's guard frame.
func repoFrame(st string) (string, bool) {
	lines := strings.Split(st, "\n")
	roots := repoRoots()
	seenPanic := false
	for i := 0; i+1 < len(lines); i++ {
		l := lines[i]
		if strings.HasPrefix(l, "panic(") || strings.HasPrefix(l, "runtime.gopanic") {
			seenPanic = true
			continue
		}
		if !seenPanic || strings.HasPrefix(l, "\t") || strings.HasPrefix(l, "goroutine ") || l == "" {
			continue
		}
		if strings.Contains(l, "jsim/harness/propproc.") {
			if strings.Contains(l, "propproc.guard") && !strings.Contains(l, "guard.func") {
				return "?", false
			}
			continue
		}
		loc := strings.TrimSpace(lines[i+1])
		for _, r := range roots {
			if strings.HasPrefix(loc, r) {
				name := l
				if k := strings.LastIndex(name, "("); k > 0 {
					name = name[:k]
				}
				return name, true
			}
		}
	}
	return "?", false
}

// ---- reference Merkle path verification (from the documented tagging scheme) ------------------

func refLeaf(data []byte) [32]byte {
	h := sha256.New()
	h.Write([]byte("<leaf>"))
	h.Write(data)
	h.Write([]byte("</leaf>"))
	var out [32]byte
	copy(out[:], h.Sum(nil))
	return out
}

func refNode(l, r [32]byte) [32]byte {
	h := sha256.New()
	h.Write([]byte("<node><left>"))
	h.Write(l[:])
	h.Write([]byte("</left><right>"))
	h.Write(r[:])
	h.Write([]byte("</right></node>"))
	var out [32]byte
	copy(out[:], h.Sum(nil))
	return out
}

func refVerify(root [32]byte, leaf []byte, sib []merkle.Hash, index uint32) bool {
	cur := refLeaf(leaf)
	idx := index
	for i := range sib {
		if idx%2 == 0 {
			cur = refNode(cur, sib[i])
		} else {
			cur = refNode(sib[i], cur)
		}
		idx /= 2
	}
	return cur == root
}

func treeDepth(total int) int {
	size, d := 2, 1
	for size < total {
		size *= 2
		d++
	}
	return d
}

// proofOK: the proof binds (index, shard) to the root under one of the two leaf encodings the
// tree documents (the raw shard, as the publisher commits; the protobuf ShardsOfPeer encoding, as
// the validator states). The property does not say which; either is accepted here. Whether
// publisher and receiver agree is judged where the real validator is the receiver.
func proofOK(root pp.MessageRoot, shard []byte, proof merkle.Proof, index uint32, total int) bool {
	if len(proof.Siblings) != treeDepth(total) {
		return false
	}
	if refVerify(root, shard, proof.Siblings, index) {
		return true
	}
	return refVerify(root, pp.ShardData{pp.Shard(shard)}.MarshalProto(), proof.Siblings, index)
}

// ---- units ------------------------------------------------------------------------------------

func cloneUnit(u *pp.Unit) pp.Unit {
	n := *u
	n.Signature = append(pp.Signature(nil), u.Signature...)
	if u.Signature == nil {
		n.Signature = nil
	}
	n.ShardData = make(pp.ShardData, len(u.ShardData))
	for i := range u.ShardData {
		n.ShardData[i] = append(pp.Shard{}, u.ShardData[i]...)
	}
	n.MerkleProof = merkle.Proof{Siblings: append([]merkle.Hash(nil), u.MerkleProof.Siblings...)}
	return n
}

func unitEq(a, b *pp.Unit) bool {
	if a.CommitteeID != b.CommitteeID || a.Publisher != b.Publisher || a.MessageRoot != b.MessageRoot ||
		a.Nonce != b.Nonce || a.ShardIndex != b.ShardIndex || !bytes.Equal(a.Signature, b.Signature) ||
		len(a.ShardData) != len(b.ShardData) || len(a.MerkleProof.Siblings) != len(b.MerkleProof.Siblings) {
		return false
	}
	for i := range a.ShardData {
		if !bytes.Equal(a.ShardData[i], b.ShardData[i]) {
			return false
		}
	}
	for i := range a.MerkleProof.Siblings {
		if a.MerkleProof.Siblings[i] != b.MerkleProof.Siblings[i] {
			return false
		}
	}
	return true
}

func short(b []byte) string {
	h := sha256.Sum256(b)
	return fmt.Sprintf("%x", h[:4])
}

// ---- message generation -----------------------------------------------------------------------

func varintLen(n int) int {
	switch {
	case n < 1<<7:
		return 1
	case n < 1<<14:
		return 2
	default:
		return 3
	}
}

func (w *world) genLen(d, p int) int {
	t := w.c.T
	n := 0
	switch t.Draw("len_class", 9) {
	case 0:
		n = 0
	case 1:
		n = t.Range("len_small", 1, 40)
	case 2: // varint(len)+len lands on a multiple of 2*d, or one off
		k := t.Range("pad_k", 1, max(1, 4096/(2*d)))
		delta := t.Draw("pad_delta", 3) - 1
		n = k*2*d - 1 + delta
		if n >= 128 {
			n--
		}
	case 3: // multiples of the shard counts +-1
		base := []int{d, d + p, 2 * d}[t.Draw("mult_base", 3)]
		n = base*t.Range("mult_k", 1, max(1, 4096/base)) + t.Draw("mult_delta", 3) - 1
	case 4:
		n = 126 + t.Draw("varint1", 4) // 126..129
	case 5:
		n = 16382 + t.Draw("varint2", 4) // 16382..16385
	case 6:
		n = t.Range("len_uniform", 0, 4096)
	case 7:
		n = 4096 - t.Draw("len_top", 8)
	case 8:
		n = t.Range("len_tiny", 0, 3)
	}
	if n < 0 {
		n = 0
	}
	return n
}

func (w *world) genMsg(n int) []byte {
	t := w.c.T
	msg := make([]byte, n)
	switch t.Draw("content", 6) {
	case 0: // zeros: indistinguishable from padding unless the length prefix is honoured
	case 1:
		f := t.Fork("content_rand")
		for i := range msg {
			msg[i] = byte(f.U64("b"))
		}
	case 2:
		for i := range msg {
			msg[i] = 0xff
		}
	case 3: // varint continuation bytes
		for i := range msg {
			msg[i] = 0x80
		}
	case 4: // random head, zero tail
		f := t.Fork("content_head")
		for i := 0; i < len(msg)/2; i++ {
			msg[i] = byte(f.U64("b"))
		}
	case 5: // zero head, non-zero last byte
		if n > 0 {
			msg[n-1] = 1 + byte(t.Draw("last", 255))
		}
	}
	return msg
}

func (w *world) lenProbes(n, d int) {
	c := w.c
	if n == 0 {
		c.Probe("empty_message")
	}
	switch n {
	case 127:
		c.Probe("len_127")
	case 128:
		c.Probe("len_128")
	case 16383:
		c.Probe("len_16383")
	case 16384:
		c.Probe("len_16384")
	}
	switch (varintLen(n) + n) % (2 * d) {
	case 0:
		c.Probe("pad_exact_multiple")
	case 1:
		c.Probe("pad_one_over")
	case 2*d - 1:
		c.Probe("pad_one_short")
	}
}
