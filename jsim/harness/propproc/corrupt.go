package propproc

import (
	"fmt"

	pp "github.com/NethermindEth/juno/consensus/propeller"
	"github.com/NethermindEth/juno/consensus/propeller/merkle"
	pb "github.com/NethermindEth/juno/consensus/propeller/proto"
	"github.com/libp2p/go-libp2p/core/peer"
)

// Taken from harness/propeller/c19.go (one field of a unit, or its sender, changed; a unit re-signed by
// another key; material of another message), adapted to several committees.

// corrupt returns the delivery of unit i of m with exactly one field (or the sender) changed, or a
// unit re-signed by another key, or material of another message.
func (r *pw) corrupt(kind string, m *message, i int, foreign *message) delivery {
	t := r.c.T
	total := m.d + m.p
	u := cloneUnit(&m.units[i])
	d := delivery{sender: m.senders[i], kind: kind}
	variant := ""
	switch kind {
	case "corrupt_shard":
		sh := u.ShardData[0]
		switch t.Draw("shard_variant", 5) {
		case 0:
			pos := t.Draw("shard_pos", len(sh))
			sh[pos] ^= 1 + byte(t.Draw("shard_xor", 255))
			variant = "flip"
		case 1:
			u.ShardData[0] = sh[:len(sh)-1]
			variant = "truncate"
		case 2:
			u.ShardData[0] = append(sh, byte(t.Draw("shard_extra", 256)))
			variant = "extend"
		case 3:
			u.ShardData = append(u.ShardData, append(pp.Shard{}, sh...))
			variant = "two_shards"
		case 4:
			u.ShardData = pp.ShardData{}
			variant = "no_shards"
		}
	case "corrupt_proof":
		sib := u.MerkleProof.Siblings
		switch t.Draw("proof_variant", 6) {
		case 4, 5: // on the wire a sibling is a byte string: truncated or empty; in memory a flip of its last byte
			lvl := t.Draw("proof_level_short", len(sib))
			sib[lvl][31] ^= 0xff
			keep := 31
			if t.Draw("proof_short_empty", 2) == 1 {
				keep = 0
			}
			d.wire = func(pu *pb.PropellerUnit) {
				if sb := pu.GetMerkleProof().GetSiblings(); lvl < len(sb) && len(sb[lvl].GetElements()) >= keep {
					sb[lvl].Elements = sb[lvl].Elements[:keep]
				}
			}
			variant = "short_sibling_on_wire"
		case 0:
			lvl := len(sib) - 1 - t.Draw("proof_level_from_top", len(sib))
			sib[lvl][t.Draw("proof_byte", 32)] ^= 1 << uint(t.Draw("proof_bit", 8))
			variant = fmt.Sprintf("flip_level_%d_of_%d", lvl, len(sib))
		case 1:
			u.MerkleProof.Siblings = sib[:len(sib)-1]
			variant = "drop_top"
		case 2:
			var h merkle.Hash
			h[0] = byte(t.Draw("proof_extra", 256))
			u.MerkleProof.Siblings = append(sib, h)
			variant = "extra_level"
		case 3:
			if len(sib) >= 2 {
				sib[0], sib[len(sib)-1] = sib[len(sib)-1], sib[0]
			} else {
				sib[0][0] ^= 0x80
			}
			variant = "swap_levels"
		}
	case "corrupt_index":
		j := i
		switch t.Draw("index_variant", 5) {
		case 0:
			if total > 1 {
				j = t.Draw("index_other", total-1)
				if j >= i {
					j++
				}
			} else {
				j = total
			}
			variant = "other_valid"
		case 1:
			j = i ^ 1
			variant = "sibling"
		case 2:
			j = total
			variant = "first_out_of_range"
		case 3:
			j = i + (1 << uint(len(u.MerkleProof.Siblings))) // same path bits, beyond the tree width
			variant = "alias_beyond_tree"
		case 4:
			j = int(^uint32(0)) - t.Draw("index_top", 2)
			variant = "huge"
		}
		u.ShardIndex = pp.ShardIndex(uint32(j))
		if j >= 0 && j < total && t.Draw("index_sender", 2) == 1 {
			d.sender = m.senders[j] // the peer that legitimately relays index j sends it
			variant += "_from_its_relay"
		}
	case "corrupt_signature":
		switch t.Draw("sig_variant", 4) {
		case 0:
			u.Signature[t.Draw("sig_byte", len(u.Signature))] ^= 1 << uint(t.Draw("sig_bit", 8))
			variant = "flip"
		case 1:
			u.Signature = u.Signature[:len(u.Signature)-1]
			variant = "truncate"
		case 2:
			u.Signature = pp.Signature{}
			variant = "empty"
		case 3:
			u.Signature = append(u.Signature, 0)
			variant = "extend"
		}
	case "corrupt_committee":
		u.CommitteeID[t.Draw("cid_byte", 32)] ^= 1 << uint(t.Draw("cid_bit", 8))
		variant = "flip"
	case "corrupt_publisher":
		switch t.Draw("pub_variant", 4) {
		case 0: // another committee member
			pos := t.Draw("pub_other", len(m.com.members)-1)
			if m.com.members[pos].id == m.pub.id {
				pos = len(m.com.members) - 1
			}
			u.Publisher = m.com.members[pos].id
			variant = "other_member"
			if pos == m.com.localPos {
				variant = "local_peer"
			}
		case 1:
			u.Publisher = m.com.extra[t.Draw("pub_extra", len(m.com.extra))].id
			variant = "non_member"
		case 2:
			b := []byte(u.Publisher)
			b[t.Draw("pub_byte", len(b))] ^= 1 << uint(t.Draw("pub_bit", 8))
			u.Publisher = peer.ID(b)
			variant = "flip"
		case 3:
			u.Publisher = ""
			variant = "empty"
		}
	case "corrupt_root":
		switch t.Draw("root_variant", 3) {
		case 0:
			u.MessageRoot[t.Draw("root_byte", 32)] ^= 1 << uint(t.Draw("root_bit", 8))
			variant = "flip"
		case 1: // on the wire the root is a byte string; in memory this variant is a flip of the last byte
			u.MessageRoot[31] ^= 0xff
			d.wire = func(pu *pb.PropellerUnit) { pu.MerkleRoot.Elements = pu.MerkleRoot.Elements[:31] }
			variant = "short_on_wire"
		case 2:
			u.MessageRoot = pp.MessageRoot{}
			variant = "zero"
		}
	case "corrupt_nonce":
		switch t.Draw("nonce_variant", 3) {
		case 0:
			u.Nonce ^= 1 << uint(t.Draw("nonce_bit", 63))
			variant = "flip"
		case 1:
			u.Nonce++
			variant = "plus_one"
		case 2:
			if u.Nonce == 0 {
				u.Nonce = 1
			} else {
				u.Nonce = 0
			}
			variant = "zero_or_one"
		}
	case "corrupt_sender":
		switch t.Draw("sender_variant", 3) {
		case 0:
			pos := t.Draw("sender_other", len(m.com.members)-1)
			if m.com.members[pos].id == d.sender {
				pos = len(m.com.members) - 1
			}
			d.sender = m.com.members[pos].id
			variant = "other_member"
			if pos == m.com.localPos {
				variant = "local_peer"
			} else if d.sender == m.pub.id {
				variant = "publisher_for_relayed_shard"
			}
		case 1:
			d.sender = m.com.extra[t.Draw("sender_extra", len(m.com.extra))].id
			variant = "non_member"
		case 2:
			d.sender = ""
			variant = "empty"
		}
	case "resigned_unit":
		var other member
		if t.Draw("resign_by", 2) == 0 {
			pos := t.Draw("resign_member", len(m.com.members)-1)
			if m.com.members[pos].id == m.pub.id {
				pos = len(m.com.members) - 1
			}
			other = m.com.members[pos]
			variant = "by_member"
		} else {
			other = m.com.extra[t.Draw("resign_extra", len(m.com.extra))]
			variant = "by_outsider"
		}
		root, cid := u.MessageRoot, u.CommitteeID
		sig, err := pp.SignMessage(other.priv, &root, &cid, u.Nonce)
		r.c.Must(err, "re-sign")
		u.Signature = sig
	case "foreign_unit":
		f := cloneUnit(&foreign.units[i])
		switch t.Draw("foreign_variant", 4) {
		case 0: // whole unit of the other message, relabelled with this message's root and signature
			f.MessageRoot, f.Signature = u.MessageRoot, u.Signature
			u = f
			variant = "relabelled"
		case 1: // this unit's shard replaced by the other message's shard
			u.ShardData = f.ShardData
			variant = "shard_swapped"
		case 2: // shard and proof of the other message under this message's root
			u.ShardData, u.MerkleProof = f.ShardData, f.MerkleProof
			variant = "shard_and_proof_swapped"
		case 3: // the other message's unit carrying this message's signature
			f.Signature = u.Signature
			u = f
			variant = "signature_transplanted"
		}
	}
	d.unit = u
	d.note = fmt.Sprintf("%s%d!%s/%s", m.name, i, kind, variant)
	return d
}
