package propproc

// Where are the subprocessor goroutines of the REAL Processor blocked? Used only after the harness has
// already decided (from the task counters and its own count of live subprocessor goroutines) that
// something did not finish; the answer names the violation key and the detail text.

import (
	"os"
	"runtime"
	"sort"
	"strconv"
	"strings"
)

func allStacks() string {
	buf := make([]byte, 1<<20)
	for {
		n := runtime.Stack(buf, true)
		if n < len(buf) {
			return string(buf[:n])
		}
		buf = make([]byte, 2*len(buf))
	}
}

// sourceLine returns line n (1-based) of file, trimmed; "" if unreadable.
func sourceLine(file string, n int) string {
	b, err := os.ReadFile(file)
	if err != nil {
		return ""
	}
	lines := strings.Split(string(b), "\n")
	if n < 1 || n > len(lines) {
		return ""
	}
	return strings.TrimSpace(lines[n-1])
}

// stmtKey turns a source line into a short stable name: "p.subProcessorsFinalized<-", "select", ...
func stmtKey(line, fn string) string {
	l := strings.ReplaceAll(line, " ", "")
	l = strings.ReplaceAll(l, "\t", "")
	short := fn[strings.LastIndex(fn, ".")+1:]
	if strings.Contains(l, "jsimSendEvent(s.processingEvents") {
		return "s.processingEvents<-"
	}
	if k := strings.Index(l, "<-"); k >= 0 {
		left := l[:k]
		isPath := left != ""
		for _, r := range left {
			if !(r == '.' || r == '_' || r == '[' || r == ']' || r == '*' || r >= '0' && r <= '9' || r >= 'a' && r <= 'z' || r >= 'A' && r <= 'Z') {
				isPath = false
			}
		}
		if isPath {
			return left + "<-" // a send
		}
		rest := strings.TrimRight(l[k+2:], ":){")
		return "<-" + rest + "@" + short // a receive
	}
	if strings.HasPrefix(l, "select{") {
		return "select@" + short
	}
	if l == "" {
		return short
	}
	if len(l) > 48 {
		l = l[:48]
	}
	return l
}

type blockedAt struct {
	site string // stmtKey
	fn   string
	loc  string // file:line
}

// blockedSubprocessors lists, for every goroutine started by Processor.createSubprocessor that is still
// alive, the innermost frame inside consensus/propeller (the statement it is blocked in).
func blockedSubprocessors() (list []blockedAt, processorRun int) {
	roots := repoRoots()
	for _, rec := range strings.Split(allStacks(), "\n\n") {
		if strings.Contains(rec, "propeller.(*Processor).Run(") {
			processorRun++
		}
		if !strings.Contains(rec, "propeller.(*Processor).createSubprocessor") {
			continue
		}
		lines := strings.Split(rec, "\n")
		for i := 1; i+1 < len(lines); i++ {
			l := lines[i]
			if strings.HasPrefix(l, "\t") || strings.HasPrefix(l, "created by ") {
				continue
			}
			loc := strings.TrimSpace(lines[i+1])
			in := false
			for _, r := range roots {
				if strings.HasPrefix(loc, r+"consensus/propeller/") {
					in = true
				}
			}
			if !in || strings.Contains(loc, "zz_jsim_export_proc.go") {
				continue
			}
			if k := strings.Index(loc, " +0x"); k > 0 {
				loc = loc[:k]
			}
			fn := l
			if k := strings.LastIndex(fn, "("); k > 0 {
				fn = fn[:k]
			}
			fn = fn[strings.LastIndex(fn, "/")+1:]
			fn = strings.TrimPrefix(fn, "propeller.")
			file, ln := loc, 0
			if k := strings.LastIndex(loc, ":"); k > 0 {
				file = loc[:k]
				ln, _ = strconv.Atoi(loc[k+1:])
			}
			list = append(list, blockedAt{site: stmtKey(sourceLine(file, ln), fn), fn: fn, loc: loc})
			break
		}
	}
	sort.Slice(list, func(i, j int) bool { return list[i].site < list[j].site })
	return list, processorRun
}
