package rpcserver

// Methods whose TOP-LEVEL parameters are scalars that are not int64 / string / bool (property C11:
// "bad parameters -> -32602" and "invokes its handler exactly once with the arguments the caller
// supplied"; anchor jsonrpc/server.go buildArguments -> parseParam):
//
//   - integers narrower than 64 bits (uint8, uint16, int8, int32, uint32) and float64,
//   - named integer and string types of the harness with their own UnmarshalJSON and/or
//     UnmarshalText that accept a small documented set of spellings and refuse everything else,
//   - three real exported enum types of rpc/v10 that are top-level handler parameters in production
//     (TxnFinalityStatusWithoutL1: starknet_subscribeEvents / subscribeNewTransactionReceipts,
//     TxnStatusWithoutL1: starknet_subscribeNewTransactions, SimulationFlag:
//     starknet_simulateTransactions),
//
// by value, by pointer, as slices, required and optional, next to other parameters, with and without
// a context parameter.
//
// This file holds the types with their decoders (the documentation of each decoder is what the
// oracle in scalar_classify.go is written from), the table of parameter types and methods, the
// handlers, and the rendering of what a handler received (walks the Go value; no marshalling or
// String method of any of the types is involved).

import (
	"context"
	"encoding/json"
	"errors"
	"fmt"
	"math"
	"reflect"
	"strconv"

	"github.com/NethermindEth/juno/jsonrpc"
	rpcv10 "github.com/NethermindEth/juno/rpc/v10"
)

// ---- the harness's own named scalar types -------------------------------------------------------

// sLevel decodes (UnmarshalJSON) from exactly the JSON strings "LOW", "MID", "HIGH". Every other
// JSON value - another spelling or letter case, a number (also 1, 2, 3), null, bool, array, object -
// is refused. The zero value is not a level (it is what an omitted optional parameter is).
type sLevel uint8

const (
	sLevelLow sLevel = iota + 1
	sLevelMid
	sLevelHigh
)

var errSRefused = errors.New("jsim: value refused by the parameter type's decoder")

func (l *sLevel) UnmarshalJSON(b []byte) error {
	var s string
	if len(b) == 0 || b[0] != '"' || json.Unmarshal(b, &s) != nil {
		return errSRefused
	}
	switch s {
	case "LOW":
		*l = sLevelLow
	case "MID":
		*l = sLevelMid
	case "HIGH":
		*l = sLevelHigh
	default:
		return errSRefused
	}
	return nil
}

// sHex decodes (UnmarshalText, i.e. from a JSON string) from "0x" followed by 1 to 8 lowercase
// hexadecimal digits and refuses every other text.
type sHex string

func (h *sHex) UnmarshalText(text []byte) error {
	if len(text) < 3 || len(text) > 10 || text[0] != '0' || text[1] != 'x' {
		return errSRefused
	}
	for _, c := range text[2:] {
		if !(c >= '0' && c <= '9' || c >= 'a' && c <= 'f') {
			return errSRefused
		}
	}
	*h = sHex(text)
	return nil
}

// sEven decodes (UnmarshalJSON) from a JSON number written with decimal digits only (no sign, no
// fraction, no exponent) whose value is at most 65535 and even. Everything else is refused.
type sEven uint16

func (e *sEven) UnmarshalJSON(b []byte) error {
	if len(b) == 0 || len(b) > 5 {
		return errSRefused
	}
	for _, c := range b {
		if c < '0' || c > '9' {
			return errSRefused
		}
	}
	n, err := strconv.ParseUint(string(b), 10, 16)
	if err != nil || n%2 != 0 {
		return errSRefused
	}
	*e = sEven(n)
	return nil
}

// sUnit has both decoders. UnmarshalJSON (the one encoding/json uses for a value that has both)
// accepts the JSON strings "WEI" and "FRI" and the JSON numbers written 1 and 2 (1 = WEI, 2 = FRI)
// and refuses everything else, including "wei", 1.0 and 1e0. UnmarshalText accepts only the lower
// case names; a server that used it for a top-level parameter would accept "wei" and refuse "WEI".
type sUnit int32

const (
	sUnitWei sUnit = iota + 1
	sUnitFri
)

func (u *sUnit) UnmarshalJSON(b []byte) error {
	switch string(b) {
	case `"WEI"`, `1`:
		*u = sUnitWei
	case `"FRI"`, `2`:
		*u = sUnitFri
	default:
		return errSRefused
	}
	return nil
}

func (u *sUnit) UnmarshalText(text []byte) error {
	switch string(text) {
	case "wei":
		*u = sUnitWei
	case "fri":
		*u = sUnitFri
	default:
		return errSRefused
	}
	return nil
}

// ---- description of the parameter types (what the oracle reads) ---------------------------------

type sbase uint8

const (
	sbUint8 sbase = iota
	sbUint16
	sbInt8
	sbInt32
	sbUint32
	sbFloat64
	sbLevel
	sbHex
	sbEven
	sbUnit
	sbFinality  // rpcv10.TxnFinalityStatusWithoutL1
	sbTxnStatus // rpcv10.TxnStatusWithoutL1
	sbSimFlag   // rpcv10.SimulationFlag
	nSBase
)

type sdecoder uint8

const (
	sdPlain sdecoder = iota // encoding/json's own rules for the kind
	sdJSON                  // the type's UnmarshalJSON sees every JSON value
	sdText                  // the type's UnmarshalText sees the content of a JSON string
)

type sbinfo struct {
	name     string
	dec      sdecoder
	isInt    bool
	min, max int64    // isInt
	enum     []string // the accepted JSON strings of an enum-like type ...
	enumVal  []int64  // ... and the values of the Go constants they stand for
	other    []string // names of further constants of the underlying type that the decoder refuses
	otherVal []int64
	numeric  bool // the underlying kind is an integer kind
	real     bool // a type of rpc/v10
}

var sBases = [nSBase]sbinfo{
	sbUint8:   {name: "uint8", isInt: true, min: 0, max: math.MaxUint8, numeric: true},
	sbUint16:  {name: "uint16", isInt: true, min: 0, max: math.MaxUint16, numeric: true},
	sbInt8:    {name: "int8", isInt: true, min: math.MinInt8, max: math.MaxInt8, numeric: true},
	sbInt32:   {name: "int32", isInt: true, min: math.MinInt32, max: math.MaxInt32, numeric: true},
	sbUint32:  {name: "uint32", isInt: true, min: 0, max: math.MaxUint32, numeric: true},
	sbFloat64: {name: "float64"},
	sbLevel:   {name: "level", dec: sdJSON, enum: []string{"LOW", "MID", "HIGH"}, enumVal: []int64{1, 2, 3}, numeric: true},
	sbHex:     {name: "hex", dec: sdText},
	sbEven:    {name: "even", dec: sdJSON, numeric: true},
	sbUnit:    {name: "unit", dec: sdJSON, enum: []string{"WEI", "FRI"}, enumVal: []int64{1, 2}, numeric: true},
	// rpc/v10/subscription_types.go and transaction_types.go: the statuses a subscription can ask for;
	// ACCEPTED_ON_L1 is a TxnFinalityStatus / TxnStatus but is refused by the ...WithoutL1 types
	sbFinality: {name: "finality", dec: sdText, enum: []string{"PRE_CONFIRMED", "ACCEPTED_ON_L2"}, enumVal: []int64{3, 4},
		other: []string{"ACCEPTED_ON_L1"}, otherVal: []int64{5}, numeric: true, real: true},
	sbTxnStatus: {name: "txn_status", dec: sdText, enum: []string{"RECEIVED", "CANDIDATE", "PRE_CONFIRMED", "ACCEPTED_ON_L2"}, enumVal: []int64{1, 2, 3, 4},
		other: []string{"ACCEPTED_ON_L1"}, otherVal: []int64{5}, numeric: true, real: true},
	// rpc/v10/simulation.go
	sbSimFlag: {name: "sim_flag", dec: sdJSON, enum: []string{"SKIP_VALIDATE", "SKIP_FEE_CHARGE", "RETURN_INITIAL_READS"}, enumVal: []int64{1, 2, 3}, numeric: true, real: true},
}

type sform uint8

const (
	sfValue sform = iota
	sfPtr
	sfSlice
)

type stype struct {
	b    sbase
	f    sform
	name string
	gt   reflect.Type
}

func sval[T any](b sbase) stype {
	return stype{b: b, f: sfValue, name: sBases[b].name, gt: reflect.TypeOf((*T)(nil)).Elem()}
}
func sptr[T any](b sbase) stype {
	return stype{b: b, f: sfPtr, name: "*" + sBases[b].name, gt: reflect.TypeOf((**T)(nil)).Elem()}
}
func sslice[T any](b sbase) stype {
	return stype{b: b, f: sfSlice, name: "[]" + sBases[b].name, gt: reflect.TypeOf((*[]T)(nil)).Elem()}
}

// ptype tSBase+i stands for sParamTypes[i]
const tSBase ptype = 128

const (
	tsU8 ptype = tSBase + iota
	tsU8Ptr
	tsU16
	tsU16Ptr
	tsU16s
	tsI8
	tsI8s
	tsI32
	tsI32Ptr
	tsI32s
	tsU32
	tsU32Ptr
	tsF64
	tsF64Ptr
	tsLevel
	tsLevelPtr
	tsLevels
	tsHex
	tsHexPtr
	tsHexes
	tsEven
	tsEvenPtr
	tsEvens
	tsUnit
	tsUnitPtr
	tsFinality
	tsFinalityPtr
	tsFinalities
	tsTxnStatuses
	tsSimFlag
	tsSimFlags
)

var sParamTypes = []stype{
	sval[uint8](sbUint8),
	sptr[uint8](sbUint8),
	sval[uint16](sbUint16),
	sptr[uint16](sbUint16),
	sslice[uint16](sbUint16), // (no []uint8: encoding/json reads a []byte from a base64 string)
	sval[int8](sbInt8),
	sslice[int8](sbInt8),
	sval[int32](sbInt32),
	sptr[int32](sbInt32),
	sslice[int32](sbInt32),
	sval[uint32](sbUint32),
	sptr[uint32](sbUint32),
	sval[float64](sbFloat64),
	sptr[float64](sbFloat64),
	sval[sLevel](sbLevel),
	sptr[sLevel](sbLevel),
	sslice[sLevel](sbLevel),
	sval[sHex](sbHex),
	sptr[sHex](sbHex),
	sslice[sHex](sbHex),
	sval[sEven](sbEven),
	sptr[sEven](sbEven),
	sslice[sEven](sbEven),
	sval[sUnit](sbUnit),
	sptr[sUnit](sbUnit),
	sval[rpcv10.TxnFinalityStatusWithoutL1](sbFinality),
	sptr[rpcv10.TxnFinalityStatusWithoutL1](sbFinality),
	sslice[rpcv10.TxnFinalityStatusWithoutL1](sbFinality),
	sslice[rpcv10.TxnStatusWithoutL1](sbTxnStatus),
	sval[rpcv10.SimulationFlag](sbSimFlag),
	sslice[rpcv10.SimulationFlag](sbSimFlag),
}

func isS(t ptype) bool   { return t >= tSBase }
func sOf(t ptype) *stype { return &sParamTypes[t-tSBase] }

// ---- the methods --------------------------------------------------------------------------------

var sMethodTable = []mspec{
	{name: "su8", params: []pspec{{"a", false, tsU8}}},
	{name: "su16", ctx: true, params: []pspec{{"a", false, tsU16}, {"b", true, tsU8Ptr}}},
	{name: "si8", params: []pspec{{"a", false, tsI8}, {"s", false, tStr}}},
	{name: "si32", params: []pspec{{"a", false, tsI32}, {"p", true, tsI32Ptr}, {"l", true, tsI32s}}},
	{name: "su32", ctx: true, params: []pspec{{"n", false, tInt}, {"a", false, tsU32}, {"p", true, tsU32Ptr}}},
	{name: "sf64", params: []pspec{{"x", false, tsF64}, {"y", true, tsF64Ptr}}},
	{name: "snarrow", params: []pspec{{"l", false, tsU16s}, {"m", true, tsI8s}, {"p", true, tsU16Ptr}}},
	{name: "slevel", params: []pspec{{"level", false, tsLevel}}},
	{name: "slevels", ctx: true, params: []pspec{{"a", false, tInt}, {"level", false, tsLevel}, {"p", true, tsLevelPtr}}},
	{name: "shex", params: []pspec{{"h", false, tsHex}, {"hs", true, tsHexes}}},
	{name: "shexp", ctx: true, params: []pspec{{"p", false, tsHexPtr}, {"n", true, tsU16}}},
	{name: "seven", params: []pspec{{"e", false, tsEven}, {"p", true, tsEvenPtr}, {"l", true, tsEvens}}},
	{name: "sunit", ctx: true, params: []pspec{{"u", false, tsUnit}, {"p", true, tsUnitPtr}, {"levels", true, tsLevels}}},
	{name: "sopt", params: []pspec{{"a", true, tsU8}, {"level", true, tsLevel}, {"h", true, tsHex}}},
	// the real types, in shapes production has: an optional pointer (subscribeEvents), slices
	// (subscribeNewTransactionReceipts, subscribeNewTransactions, simulateTransactions), and by value
	{name: "rfinality", ctx: true, params: []pspec{{"finality_status", false, tsFinality}, {"p", true, tsFinalityPtr}}},
	{name: "rstatuses", ctx: true, params: []pspec{{"finality_status", false, tsTxnStatuses}, {"finality_statuses", true, tsFinalities}, {"id", true, tStr}}},
	{name: "rsimflags", params: []pspec{{"flag", false, tsSimFlag}, {"simulation_flags", true, tsSimFlags}}},
}

func lookupSMethod(name string) *mspec {
	for i := range sMethodTable {
		if sMethodTable[i].name == name {
			return &sMethodTable[i]
		}
	}
	return nil
}

// handlers: every argument is recorded (and echoed) in its wire form
func sh1[A any](r *recorder, name string) any {
	return func(a A) (any, *jsonrpc.Error) {
		w := []any{swireOf(a)}
		r.record(nil, name, w...)
		return okResult(name, w...), nil
	}
}

func sh2[A, B any](r *recorder, name string) any {
	return func(a A, b B) (any, *jsonrpc.Error) {
		w := []any{swireOf(a), swireOf(b)}
		r.record(nil, name, w...)
		return okResult(name, w...), nil
	}
}

func sh3[A, B, C any](r *recorder, name string) any {
	return func(a A, b B, c C) (any, *jsonrpc.Error) {
		w := []any{swireOf(a), swireOf(b), swireOf(c)}
		r.record(nil, name, w...)
		return okResult(name, w...), nil
	}
}

func sh2c[A, B any](r *recorder, name string) any {
	return func(ctx context.Context, a A, b B) (any, *jsonrpc.Error) {
		w := []any{swireOf(a), swireOf(b)}
		if r.record(ctx, name, w...).cancelled {
			return nil, cancelledErr(name)
		}
		return okResult(name, w...), nil
	}
}

func sh3c[A, B, C any](r *recorder, name string) any {
	return func(ctx context.Context, a A, b B, c C) (any, *jsonrpc.Error) {
		w := []any{swireOf(a), swireOf(b), swireOf(c)}
		if r.record(ctx, name, w...).cancelled {
			return nil, cancelledErr(name)
		}
		return okResult(name, w...), nil
	}
}

func registerScalar(s *jsonrpc.Server, r *recorder) error {
	type fin = rpcv10.TxnFinalityStatusWithoutL1
	handlers := map[string]any{
		"su8":       sh1[uint8](r, "su8"),
		"su16":      sh2c[uint16, *uint8](r, "su16"),
		"si8":       sh2[int8, string](r, "si8"),
		"si32":      sh3[int32, *int32, []int32](r, "si32"),
		"su32":      sh3c[int64, uint32, *uint32](r, "su32"),
		"sf64":      sh2[float64, *float64](r, "sf64"),
		"snarrow":   sh3[[]uint16, []int8, *uint16](r, "snarrow"),
		"slevel":    sh1[sLevel](r, "slevel"),
		"slevels":   sh3c[int64, sLevel, *sLevel](r, "slevels"),
		"shex":      sh2[sHex, []sHex](r, "shex"),
		"shexp":     sh2c[*sHex, uint16](r, "shexp"),
		"seven":     sh3[sEven, *sEven, []sEven](r, "seven"),
		"sunit":     sh3c[sUnit, *sUnit, []sLevel](r, "sunit"),
		"sopt":      sh3[uint8, sLevel, sHex](r, "sopt"),
		"rfinality": sh2c[fin, *fin](r, "rfinality"),
		"rstatuses": sh3c[[]rpcv10.TxnStatusWithoutL1, []fin, string](r, "rstatuses"),
		"rsimflags": sh2[rpcv10.SimulationFlag, []rpcv10.SimulationFlag](r, "rsimflags"),
	}
	plain := map[ptype]reflect.Type{
		tInt: reflect.TypeOf(int64(0)), tStr: reflect.TypeOf(""),
	}
	ms := make([]jsonrpc.Method, 0, len(sMethodTable))
	for i := range sMethodTable {
		m := &sMethodTable[i]
		h, ok := handlers[m.name]
		if !ok {
			return fmt.Errorf("scalar method %s has no handler", m.name)
		}
		ht := reflect.TypeOf(h)
		off := 0
		if m.ctx {
			off = 1
		}
		if ht.NumIn() != len(m.params)+off {
			return fmt.Errorf("scalar method %s: handler takes %d arguments, the table says %d", m.name, ht.NumIn()-off, len(m.params))
		}
		for k, p := range m.params {
			want := plain[p.t]
			if isS(p.t) {
				want = sOf(p.t).gt
			}
			if ht.In(k+off) != want {
				return fmt.Errorf("scalar method %s: parameter %s is a %s, the table says %v", m.name, p.name, ht.In(k+off), want)
			}
		}
		ms = append(ms, jsonrpc.Method{Name: m.name, Params: vParamList(m), Handler: h})
	}
	return s.RegisterMethods(ms...)
}

// ---- wire form ----------------------------------------------------------------------------------

var (
	rtSLevel    = reflect.TypeOf(sLevel(0))
	rtSUnit     = reflect.TypeOf(sUnit(0))
	rtFinality  = reflect.TypeOf(rpcv10.TxnFinalityStatusWithoutL1(0))
	rtTxnStatus = reflect.TypeOf(rpcv10.TxnStatusWithoutL1(0))
	rtSimFlag   = reflect.TypeOf(rpcv10.SimulationFlag(0))
)

// sEnumName: the name of the constant an enum-like value equals, "?<n>" for a value that is none of
// the type's constants (the zero value of all of them included). The values of the real types are
// compared with rpc/v10's exported constants.
func sEnumName(b sbase, n int64) string {
	bi := &sBases[b]
	for i, v := range bi.enumVal {
		if v == n {
			return bi.enum[i]
		}
	}
	for i, v := range bi.otherVal {
		if v == n {
			return bi.other[i]
		}
	}
	return "?" + strconv.FormatInt(n, 10)
}

// sConstCheck compares the numbers the description gives the real types' names with rpc/v10's
// constants (a slip of the pen must end as machinery trouble, not as a verdict).
func sConstCheck() error {
	type pair struct {
		b    sbase
		name string
		val  int64
	}
	for _, p := range []pair{
		{sbFinality, "PRE_CONFIRMED", int64(rpcv10.TxnPreConfirmed)},
		{sbFinality, "ACCEPTED_ON_L2", int64(rpcv10.TxnAcceptedOnL2)},
		{sbFinality, "ACCEPTED_ON_L1", int64(rpcv10.TxnAcceptedOnL1)},
		{sbTxnStatus, "RECEIVED", int64(rpcv10.TxnStatusReceived)},
		{sbTxnStatus, "CANDIDATE", int64(rpcv10.TxnStatusCandidate)},
		{sbTxnStatus, "PRE_CONFIRMED", int64(rpcv10.TxnStatusPreConfirmed)},
		{sbTxnStatus, "ACCEPTED_ON_L2", int64(rpcv10.TxnStatusAcceptedOnL2)},
		{sbTxnStatus, "ACCEPTED_ON_L1", int64(rpcv10.TxnStatusAcceptedOnL1)},
		{sbSimFlag, "SKIP_VALIDATE", int64(rpcv10.SkipValidateFlag)},
		{sbSimFlag, "SKIP_FEE_CHARGE", int64(rpcv10.SkipFeeChargeFlag)},
		{sbSimFlag, "RETURN_INITIAL_READS", int64(rpcv10.ReturnInitialReadsFlag)},
		{sbLevel, "LOW", int64(sLevelLow)}, {sbLevel, "MID", int64(sLevelMid)}, {sbLevel, "HIGH", int64(sLevelHigh)},
		{sbUnit, "WEI", int64(sUnitWei)}, {sbUnit, "FRI", int64(sUnitFri)},
	} {
		if got := sEnumName(p.b, p.val); got != p.name {
			return fmt.Errorf("scalar types: constant %s of %s has value %d, which the description calls %s", p.name, sBases[p.b].name, p.val, got)
		}
	}
	return nil
}

func swireOf(a any) any { return swireVal(reflect.ValueOf(a)) }

func swireVal(v reflect.Value) any {
	if !v.IsValid() {
		return nil
	}
	switch v.Type() {
	case rtSLevel:
		return sEnumName(sbLevel, int64(v.Uint()))
	case rtSUnit:
		return sEnumName(sbUnit, v.Int())
	case rtFinality:
		return sEnumName(sbFinality, int64(v.Uint()))
	case rtTxnStatus:
		return sEnumName(sbTxnStatus, int64(v.Uint()))
	case rtSimFlag:
		return sEnumName(sbSimFlag, v.Int())
	}
	switch v.Kind() {
	case reflect.Pointer:
		if v.IsNil() {
			return nil
		}
		return swireVal(v.Elem())
	case reflect.Slice:
		if v.IsNil() {
			return nil
		}
		out := make([]any, v.Len())
		for i := range out {
			out[i] = swireVal(v.Index(i))
		}
		return out
	case reflect.String:
		return v.String()
	case reflect.Bool:
		return v.Bool()
	case reflect.Int, reflect.Int8, reflect.Int16, reflect.Int32, reflect.Int64:
		return json.Number(strconv.FormatInt(v.Int(), 10))
	case reflect.Uint, reflect.Uint8, reflect.Uint16, reflect.Uint32, reflect.Uint64:
		return json.Number(strconv.FormatUint(v.Uint(), 10))
	case reflect.Float64:
		f := v.Float()
		if math.IsInf(f, 0) || math.IsNaN(f) {
			return "?not-a-finite-number"
		}
		return json.Number(strconv.FormatFloat(f, 'g', -1, 64))
	}
	return "?unsupported " + v.Type().String()
}
