package rpcserver

// The HTTP transport class: the generated input is the body of a POST request handed to the real
// jsonrpc.HTTP handler (jsonrpc/http.go: request timeout, admission gate, gzip, listener) by calling
// ServeHTTP directly with an in-memory ResponseWriter. No socket, no net/http server: everything
// runs inside the bubble, so the handler's request timeout is a timer of the fake clock and fires
// exactly when the scheduler decides to let the clock pass it.
//
// What the client of that exchange gets is reconstructed from what the handler wrote, the way an
// HTTP client would read it (status line and header as they were when the header was written, at
// most Content-Length bytes of body, the content coding undone if - and only if - the client
// offered it). That byte sequence is then judged by the same oracle as the output of
// HandleReader.

import (
	"bytes"
	"compress/gzip"
	"context"
	"fmt"
	"io"
	"net/http"
	"net/url"
	"strconv"
	"strings"
	"sync/atomic"
	"time"

	"github.com/NethermindEth/juno/jsonrpc"
	"github.com/NethermindEth/juno/utils/log"

	"jsim/sim"
	"jsim/tape"
)

// respWriter records what a handler sends. Like net/http it fixes status and header at the first
// WriteHeader (or at the first Write, with status 200); header fields set later are not sent.
type respWriter struct {
	hdr     http.Header
	status  int
	sent    http.Header
	body    bytes.Buffer
	nHeader int // calls of WriteHeader
	nWrite  int
}

func newRespWriter() *respWriter { return &respWriter{hdr: http.Header{}} }

func (w *respWriter) Header() http.Header { return w.hdr }

func (w *respWriter) WriteHeader(code int) {
	w.nHeader++
	if w.status != 0 {
		return // net/http: "superfluous response.WriteHeader call", ignored
	}
	if code >= 100 && code < 200 && code != http.StatusSwitchingProtocols {
		return // informational: the final status is still to come
	}
	w.status = code
	w.sent = w.hdr.Clone()
}

func (w *respWriter) Write(p []byte) (int, error) {
	if w.status == 0 {
		w.WriteHeader(http.StatusOK)
	}
	w.nWrite++
	return w.body.Write(p)
}

// finish: the handler has returned; a handler that wrote nothing has sent 200 with the header as
// it is then.
func (w *respWriter) finish() {
	if w.status == 0 {
		w.WriteHeader(http.StatusOK)
	}
}

type countListener struct{ n atomic.Int64 }

func (l *countListener) OnNewRequest(string) { l.n.Add(1) }

// httpPlan is everything about the HTTP exchange that the tape decides before the call.
type httpPlan struct {
	timeout      time.Duration // WithRequestTimeout (0 = not configured)
	gzip         bool          // the client offers gzip
	listener     bool          // WithListener
	gate         bool          // WithGate
	maxConc      int
	maxQueue     int
	occupy       bool // every slot of the gate is taken (by the harness, through Gate.Acquire) when the request arrives
	preCancelled bool // the request's context is cancelled before ServeHTTP is called
	stallAt      int  // >=0: the body stalls at this offset until the scheduler lets it go on
}

func planHTTP(t *tape.Tape, sched, hangProne bool, inputLen int) *httpPlan {
	p := &httpPlan{stallAt: -1}
	num := 1
	if sched {
		num = 3
	}
	if t.Chance("http_timeout", num, 4) && !hangProne {
		// (not for hang-prone inputs: after a hang the fake clock cannot be advanced any more)
		p.timeout = []time.Duration{5 * time.Second, 50 * time.Millisecond, time.Second, 2 * time.Minute}[t.Draw("http_timeout_value", 4)]
	}
	p.gzip = t.Chance("http_gzip", 1, 4)
	p.listener = t.Chance("http_listener", 1, 4)
	if t.Chance("http_gate", 1, 3) {
		p.gate = true
		p.maxConc = 1 + t.Draw("http_gate_conc", 2)
		p.maxQueue = t.Draw("http_gate_queue", 3)
		// a request that has to queue only gets on when the scheduler frees a slot: scheduling class.
		// With no queue it is turned away at once, which needs no scheduler.
		p.occupy = t.Chance("http_gate_occupied", 1, 2) && (sched || p.maxQueue == 0)
	}
	p.preCancelled = t.Chance("http_precancelled", 1, 16)
	if sched && t.Chance("http_body_stall", 1, 5) {
		p.stallAt = t.Draw("http_stall_at", inputLen+1)
	}
	return p
}

func (p *httpPlan) String() string {
	g := "none"
	if p.gate {
		g = fmt.Sprintf("%d+%d", p.maxConc, p.maxQueue)
		if p.occupy {
			g += "(occupied)"
		}
	}
	return fmt.Sprintf("timeout=%v gzip=%v listener=%v gate=%s precancelled=%v stall=%d", p.timeout, p.gzip, p.listener, g, p.preCancelled, p.stallAt)
}

// httpRun is one exchange.
type httpRun struct {
	plan     *httpPlan
	h        *jsonrpc.HTTP
	w        *respWriter
	req      *http.Request
	gateObj  *jsonrpc.Gate
	gateHeld int // slots the harness holds
	lst      *countListener
}

func newHTTPRun(c *sim.Ctx, p *httpPlan, srv *jsonrpc.Server, logger log.StructuredLogger, ctx context.Context, body io.Reader) *httpRun {
	x := &httpRun{plan: p, w: newRespWriter()}
	x.h = jsonrpc.NewHTTP(srv, logger)
	if p.timeout > 0 {
		x.h = x.h.WithRequestTimeout(p.timeout)
	}
	if p.listener {
		x.lst = &countListener{}
		x.h = x.h.WithListener(x.lst)
	}
	if p.gate {
		x.gateObj = jsonrpc.NewGate(uint(p.maxConc), uint64(p.maxQueue))
		x.h = x.h.WithGate(x.gateObj)
		if p.occupy {
			// other requests in flight: they hold their slots exactly as ServeHTTP does for them
			for i := 0; i < p.maxConc; i++ {
				if err := x.gateObj.Acquire(context.Background()); err != nil {
					c.Broken("occupying an empty gate: %v", err)
				}
				x.gateHeld++
			}
		}
	}
	hdr := http.Header{"Content-Type": []string{"application/json"}}
	if p.gzip {
		hdr.Set("Accept-Encoding", "gzip, deflate")
	}
	x.req = (&http.Request{
		Method: http.MethodPost, URL: &url.URL{Path: "/"}, Proto: "HTTP/1.1", ProtoMajor: 1, ProtoMinor: 1,
		Header: hdr, Body: io.NopCloser(body), ContentLength: -1, Host: "jsim",
	}).WithContext(ctx)
	return x
}

// releaseGate frees the slots the harness holds (the other requests finish).
func (x *httpRun) releaseGate() int {
	n := x.gateHeld
	for ; x.gateHeld > 0; x.gateHeld-- {
		x.gateObj.Release()
	}
	return n
}

// received is what the client of the exchange has in hand.
type received struct {
	status  int
	body    []byte // after Content-Length and content coding
	refused bool   // an error status sent without the server having read a single byte of the request
	v       *verdict
}

// clientView reconstructs what the client receives. bodyReads = how often the server read from
// the request body; calls = handler invocations.
func (x *httpRun) clientView(bodyReads, calls int) received {
	w := x.w
	w.finish()
	r := received{status: w.status}
	raw := w.body.Bytes()
	if cl := w.sent.Get("Content-Length"); cl != "" {
		// the client reads exactly that many bytes of body
		n, err := strconv.ParseInt(strings.TrimSpace(cl), 10, 64)
		switch {
		case err != nil || n < 0:
			r.v = &verdict{"malformed_output", "content_length_unreadable", fmt.Sprintf("Content-Length %q", clip(cl, 40))}
			return r
		case n > int64(len(raw)):
			r.v = &verdict{"malformed_output", "content_length_exceeds_body", fmt.Sprintf("Content-Length %d announced, %d bytes of body written: the client waits for the rest and gets a truncated message", n, len(raw))}
			return r
		default:
			raw = raw[:n]
		}
	}
	if w.status >= 400 && bodyReads == 0 && calls == 0 {
		// turned away by the transport before the request was received (admission gate)
		r.refused = true
		r.body = raw
		return r
	}
	if enc := strings.TrimSpace(w.sent.Get("Content-Encoding")); enc != "" && !strings.EqualFold(enc, "identity") {
		// a client undoes the codings it offered; anything else it cannot read
		if strings.EqualFold(enc, "gzip") && x.plan.gzip {
			if len(raw) > 0 {
				zr, err := gzip.NewReader(bytes.NewReader(raw))
				var plain []byte
				if err == nil {
					plain, err = io.ReadAll(zr)
				}
				if err != nil {
					r.v = &verdict{"malformed_output", "gzip_body_unreadable", fmt.Sprintf("Content-Encoding gzip, but the body does not decode: %v", err)}
					return r
				}
				raw = plain
			}
		} else if len(raw) > 0 {
			r.v = &verdict{"malformed_output", "content_coding_not_offered", fmt.Sprintf("Content-Encoding %q although the request did not offer it", clip(enc, 40))}
			return r
		}
	}
	r.body = raw
	if len(raw) > 0 && (w.status < 200 || w.status == http.StatusNoContent || w.status == http.StatusResetContent || w.status == http.StatusNotModified) {
		// such a status tells the client that no body follows: it never looks at the response object
		r.v = &verdict{"status", "no_content_status_with_response_body", fmt.Sprintf("status %d sent together with a body of %d bytes", w.status, len(raw))}
	}
	return r
}
