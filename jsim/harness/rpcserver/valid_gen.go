package rpcserver

// Generator of values for struct-typed, validated parameters. A value is first built so that every
// rule of its type holds, as a tree; while it is built every place where exactly one rule could be
// broken, where decoding could be made to fail, or where the value could be moved into the zone
// that only a liberal reader accepts, is remembered. Then one draw decides what is done with it:
// nothing, one rule broken, several, decoding broken, an oddity. The generator only produces text;
// what that text means is decided by the oracle on its own (valid_classify.go).

import (
	"encoding/base64"
	"fmt"
	"math/big"
	"strconv"
	"strings"
)

type vsite struct {
	tag   string
	apply func()
}

type vplace struct {
	set func(*jv)
	del func() // nil: the value cannot be left out
}

type vgen struct {
	g     *gen
	rules []vsite
	dec   []func()
	odd   []func()
	mute  int // >0: inside elements no rule reaches (a slice member without dive)
}

func (vg *vgen) draw(label string, n int) int        { return vg.g.t.Draw(label, n) }
func (vg *vgen) chance(label string, a, b int) bool { return vg.g.t.Chance(label, a, b) }

func (vg *vgen) rule(tag string, f func()) {
	if vg.mute == 0 {
		vg.rules = append(vg.rules, vsite{tag, f})
	}
}

func (o *jv) setKey(k string, v *jv) {
	for i := range o.keys {
		if o.keys[i] == k {
			o.vals[i] = v
			return
		}
	}
	o.keys = append(o.keys, k)
	o.vals = append(o.vals, v)
}

func (o *jv) delKey(k string) {
	for i := range o.keys {
		if o.keys[i] == k {
			o.keys = append(o.keys[:i], o.keys[i+1:]...)
			o.vals = append(o.vals[:i], o.vals[i+1:]...)
			return
		}
	}
}

// ---- what a tag list asks of a value --------------------------------------------------------------

type vcons struct {
	required, omitempty, hasDive bool
	lo, hi                       *int64
	loTag, hiTag                 string
	ne                           *int64
	oneof                        []string
	eqAlts                       []int64
	bits                         int
	version, base64              bool
	dive                         []vtag
	conds                        []vtag
}

func consOf(tags []vtag) vcons {
	var c vcons
	num := func(s string) *int64 {
		n, err := strconv.ParseInt(s, 10, 64)
		if err != nil {
			return nil
		}
		return &n
	}
	for i, tg := range tags {
		if tg.name == "dive" {
			c.hasDive, c.dive = true, tags[i+1:]
			break
		}
		switch tg.name {
		case "required":
			c.required = true
		case "omitempty":
			c.omitempty = true
		case "min", "gte":
			c.lo, c.loTag = num(tg.param), tg.name
		case "gt":
			if n := num(tg.param); n != nil {
				*n++
				c.lo, c.loTag = n, tg.name
			}
		case "max", "lte":
			c.hi, c.hiTag = num(tg.param), tg.name
		case "lt":
			if n := num(tg.param); n != nil {
				*n--
				c.hi, c.hiTag = n, tg.name
			}
		case "len":
			c.lo, c.hi, c.loTag, c.hiTag = num(tg.param), num(tg.param), tg.name, tg.name
		case "eq":
			if n := num(tg.param); n != nil {
				c.eqAlts = append(c.eqAlts, *n)
				for _, a := range tg.or {
					if m := num(a.param); m != nil && a.name == "eq" {
						c.eqAlts = append(c.eqAlts, *m)
					}
				}
			}
		case "ne":
			c.ne = num(tg.param)
		case "oneof":
			c.oneof = strings.Fields(tg.param)
		case "felt_max_bits":
			c.bits, _ = strconv.Atoi(tg.param)
		case "version_0x3":
			c.version = true
		case "base64":
			c.base64 = true
		default:
			if nilSafe[tg.name] {
				c.conds = append(c.conds, tg)
			}
		}
	}
	return c
}

// ---- building blocks ------------------------------------------------------------------------------

var vLetters = []string{"a", "b", "c", "k", "x", "z", "Q", "é", "😀", " ", "0", "_"}

func (vg *vgen) str(n int) string {
	var sb strings.Builder
	for i := 0; i < n; i++ {
		k := vg.draw("vch", 2*len(vLetters))
		if k >= len(vLetters) {
			k %= 6 // mostly plain letters
		}
		sb.WriteString(vLetters[k])
	}
	return sb.String()
}

func (vg *vgen) feltBelow(bits int) *big.Int {
	if bits > 250 {
		bits = 250
	}
	switch vg.draw("vfelt_kind", 9) {
	case 0, 1, 2, 3, 4:
		n := big.NewInt(int64(vg.draw("vfelt_small", 1<<16)))
		if n.BitLen() > bits {
			n.SetInt64(1)
		}
		return n
	case 5:
		return new(big.Int)
	case 6: // the largest value that fits
		return new(big.Int).Sub(new(big.Int).Lsh(big.NewInt(1), uint(bits)), big.NewInt(1))
	case 7: // exactly `bits` bits
		n := new(big.Int).Lsh(big.NewInt(1), uint(bits-1))
		low := 256
		if bits-1 < 8 {
			low = 1 << uint(bits-1)
		}
		return n.Add(n, big.NewInt(int64(vg.draw("vfelt_low", low))))
	default:
		n := new(big.Int)
		for w := 0; w*64 < bits; w++ {
			n.Lsh(n, 64)
			n.Or(n, new(big.Int).SetUint64(vg.g.t.U64("vfelt_word")))
		}
		return n.And(n, new(big.Int).Sub(new(big.Int).Lsh(big.NewInt(1), uint(bits)), big.NewInt(1)))
	}
}

func jfelt(n *big.Int) *jv { return jstr("0x" + n.Text(16)) }

func (vg *vgen) wrongKind(t *vtype) *jv {
	pick := func(label string, lits ...string) *jv {
		v, err := parseExact([]byte(lits[vg.draw(label, len(lits))]))
		if err != nil {
			return jnum("1.5")
		}
		return v
	}
	switch t.k {
	case vkPtr:
		return vg.wrongKind(t.elem)
	case vkStruct, vkMap:
		return pick("vwrong_obj", `"x"`, `5`, `[1]`, `true`, `[{}]`, `""`)
	case vkSlice, vkArray, vkLimit:
		return pick("vwrong_arr", `{}`, `"x"`, `5`, `false`, `{"0":{}}`)
	case vkString:
		return pick("vwrong_str", `5`, `true`, `["a"]`, `{}`, `0`)
	case vkFelt:
		return pick("vwrong_felt", `5`, `true`, `["0x1"]`, `{}`, `"xyz"`, `"0xZZ"`, `"12"`, `""`, `"0x"`, `"1x0"`)
	case vkEnum:
		return pick("vwrong_enum", `5`, `"NOPE"`, `""`, `["INVOKE"]`, `"invoke"`, `"L3"`, `true`)
	case vkUint:
		return pick("vwrong_uint", `"5"`, `true`, `[1]`, `1.5`, `-1`, `18446744073709551616`, `{}`, `-7e0`)
	case vkInt:
		return pick("vwrong_int", `"5"`, `true`, `[1]`, `1.5`, `9223372036854775808`, `{}`)
	case vkBool:
		return pick("vwrong_bool", `"true"`, `1`, `0`, `[]`)
	case vkBlockID:
		return pick("vwrong_block", `5`, `"newest"`, `{}`, `{"block_hash":5}`, `{"block_number":"7"}`, `{"block_number":-1}`, `[]`, `""`, `{"hash":"0x1"}`, `true`, `{"block_hash":"0xZ"}`)
	default: // address list
		return pick("vwrong_addr", `5`, `"abc"`, `{}`, `["0x1",5]`, `[["0x1"]]`, `true`)
	}
}

func zeroLit(t *vtype) *jv {
	switch t.k {
	case vkString:
		return jstr("")
	case vkUint, vkInt:
		return jnum("0")
	case vkBool:
		return jbool(false)
	case vkStruct:
		return &jv{k: jObj}
	default:
		return jnull()
	}
}

// ---- values ---------------------------------------------------------------------------------------

// value builds a present value of type t that satisfies tags (all but the conditional ones, which the
// enclosing struct deals with). reached: the validator gets to the elements of a container (dive, or
// a container that is itself the parameter).
func (vg *vgen) value(t *vtype, c vcons, pl vplace, reached bool) *jv {
	vg.dec = append(vg.dec, func() { pl.set(vg.wrongKind(t)) })
	switch t.k {
	case vkPtr:
		return vg.value(t.elem, c, pl, reached)
	case vkStruct:
		return vg.strct(t, pl)
	case vkString:
		return vg.strValue(c, pl)
	case vkUint, vkInt:
		return vg.numValue(t, c, pl)
	case vkBool:
		if c.required {
			return jbool(true)
		}
		return jbool(vg.chance("vbool", 1, 2))
	case vkFelt:
		return vg.feltValue(c, pl)
	case vkEnum:
		var names []string
		for _, e := range t.enum {
			if !strings.HasPrefix(e, "<") {
				names = append(names, e)
			}
		}
		return jstr(names[len(names)-1-vg.draw("venum", len(names))])
	case vkSlice, vkArray, vkLimit, vkMap:
		return vg.container(t, c, pl, reached || t.k == vkLimit)
	case vkBlockID:
		vg.odd = append(vg.odd, func() {
			pl.set(mustJV(vg.g.pick("vodd_block", `{"block_number":1e1}`, `{"block_number":2.0}`, `{"block_hash":"0x01"}`, `{"block_number":3,"extra":1}`,
				`{"block_hash":"0x1","block_number":1}`, `{"Block_Number":4}`, `{"block_number":null}`)))
		})
		switch vg.draw("vblock", 6) {
		case 0:
			return jstr("latest")
		case 1:
			return jstr("pre_confirmed")
		case 2:
			return jstr("l1_accepted")
		case 3:
			return jobj([]string{"block_hash"}, []*jv{jfelt(vg.feltBelow(250))})
		default:
			return jobj([]string{"block_number"}, []*jv{jnum(strconv.FormatUint(vg.g.t.U64("vblock_n")>>uint(vg.draw("vblock_shift", 64)), 10))})
		}
	default: // address list
		vg.odd = append(vg.odd, func() { pl.set(mustJV(`["0x5","0x5"]`)) })
		switch vg.draw("vaddr", 5) {
		case 0:
			return jnull()
		case 1:
			return &jv{k: jArr}
		case 2:
			return jfelt(vg.feltBelow(250))
		default:
			out := &jv{k: jArr}
			for i := 0; i < 1+vg.draw("vaddr_n", 3); i++ {
				out.arr = append(out.arr, jfelt(big.NewInt(int64(100*i+vg.draw("vaddr_v", 100)))))
			}
			return out
		}
	}
}

func boolInt(b bool) int {
	if b {
		return 1
	}
	return 0
}

func mustJV(s string) *jv {
	v, err := parseExact([]byte(s))
	if err != nil {
		panic("jsim: bad literal in the generator: " + s)
	}
	return v
}

func (vg *vgen) strValue(c vcons, pl vplace) *jv {
	if len(c.oneof) > 0 {
		vg.rule("oneof", func() { pl.set(jstr(c.oneof[0] + vg.g.pick("voneof_off", "x", " ", "S", "é"))) })
		return jstr(c.oneof[vg.draw("voneof", len(c.oneof))])
	}
	if c.base64 {
		raw := make([]byte, 1+vg.draw("vb64_n", 6))
		for i := range raw {
			raw[i] = byte(vg.g.t.U64("vb64_byte"))
		}
		s := base64.StdEncoding.EncodeToString(raw)
		vg.rule("base64", func() { pl.set(jstr(vg.g.pick("vb64_bad", "!", "*", "-", "_", "=") + s)) })
		return jstr(s)
	}
	lo, hi := int64(0), int64(-1)
	if c.lo != nil {
		lo = *c.lo
	}
	if (c.required || c.omitempty) && lo < 1 {
		lo = 1
	}
	if c.hi != nil {
		hi = *c.hi
	} else {
		hi = lo + 5
	}
	if c.lo != nil && *c.lo >= 1 && !(c.omitempty && *c.lo == 1) {
		n := *c.lo - 1
		vg.rule(c.loTag, func() { pl.set(jstr(vg.str(int(n)))) })
	}
	if c.hi != nil {
		n := *c.hi + 1 + int64(vg.draw("vstr_over", 3))
		vg.rule(c.hiTag, func() { pl.set(jstr(vg.str(int(n)))) })
	}
	return jstr(vg.str(int(lo) + vg.draw("vstr_len", int(hi-lo+1))))
}

func (vg *vgen) numValue(t *vtype, c vcons, pl vplace) *jv {
	lit := func(n int64) *jv { return jnum(strconv.FormatInt(n, 10)) }
	vg.odd = append(vg.odd, func() {
		// the value the member had, in a spelling only a liberal reader takes for an integer
		pl.set(jnum(vg.g.pick("vodd_num", "1.0", "1e1", "2E0", "10.00", "-0")))
	})
	if len(c.eqAlts) > 0 {
		vg.rule("eq", func() { pl.set(lit(c.eqAlts[0] + 1)) })
		return lit(c.eqAlts[vg.draw("veq", len(c.eqAlts))])
	}
	if len(c.oneof) > 0 {
		vg.rule("oneof", func() { pl.set(lit(int64(11 + vg.draw("voneof_num", 5)))) })
		return jnum(c.oneof[vg.draw("voneof", len(c.oneof))])
	}
	lo, hi := int64(0), int64(0)
	if t.k == vkInt {
		lo = -20
	}
	if c.lo != nil {
		lo = *c.lo
	}
	if c.hi != nil {
		hi = *c.hi
	} else {
		hi = lo + 60
	}
	if c.lo != nil && (t.k == vkInt || *c.lo >= 1) {
		n := *c.lo - 1
		vg.rule(c.loTag, func() { pl.set(lit(n)) })
	}
	if c.hi != nil {
		n := *c.hi + 1
		vg.rule(c.hiTag, func() {
			if vg.chance("vnum_far", 1, 3) {
				pl.set(jnum("18446744073709551615"[:10+10*boolInt(t.k == vkUint)]))
				return
			}
			pl.set(lit(n))
		})
	}
	if c.ne != nil {
		n := *c.ne
		vg.rule("ne", func() { pl.set(lit(n)) })
	}
	if t.k == vkUint && c.hi == nil && vg.chance("vnum_big", 1, 6) {
		return jnum(strconv.FormatUint(vg.g.t.U64("vnum_u64")|1, 10))
	}
	n := lo + int64(vg.draw("vnum", int(hi-lo+1)))
	avoid := func(x int64) bool { return (c.ne != nil && x == *c.ne) || ((c.required || c.omitempty) && x == 0) }
	for avoid(n) {
		if n < hi {
			n++
		} else {
			n = lo
		}
	}
	return lit(n)
}

func (vg *vgen) feltValue(c vcons, pl vplace) *jv {
	vg.odd = append(vg.odd, func() {
		pl.set(jstr(vg.g.pick("vodd_felt", "0x03", "0X3", "0x0000", "0x800000000000011000000000000000000000000000000000000000000000001")))
	})
	if c.version {
		q := new(big.Int).Add(new(big.Int).Lsh(big.NewInt(1), 128), big.NewInt(3))
		vg.rule("version_0x3", func() {
			pl.set(jstr(vg.g.pick("vversion_bad", "0x0", "0x1", "0x2", "0x4", "0x30", "0x100000000000000000000000000000001", "0x100000000000000000000000000000000", "0x200000000000000000000000000000003")))
		})
		if vg.chance("vversion_query", 1, 4) {
			return jfelt(q)
		}
		return jstr("0x3")
	}
	bits := 250
	if c.bits > 0 {
		bits = c.bits
		vg.rule("felt_max_bits", func() {
			n := new(big.Int).Lsh(big.NewInt(1), uint(bits))
			switch vg.draw("vbits_over", 3) {
			case 1:
				n.Add(n, big.NewInt(int64(1+vg.draw("vbits_low", 255))))
			case 2:
				n.Lsh(n, uint(1+vg.draw("vbits_more", 40)))
			}
			pl.set(jfelt(n))
		})
	}
	return jfelt(vg.feltBelow(bits))
}

func (vg *vgen) container(t *vtype, c vcons, pl vplace, reached bool) *jv {
	ec := consOf(c.dive)
	elemReached := reached || c.hasDive
	lo, hi := 0, 3
	if c.lo != nil {
		lo = int(*c.lo)
	}
	if c.omitempty && lo < 1 && !c.hasDive {
		lo = 1
	}
	if c.hi != nil {
		hi = int(*c.hi)
	} else if hi < lo {
		hi = lo + 1
	}
	n := lo + vg.draw("vlen", hi-lo+1)
	if t.k == vkArray {
		n = t.n
	}
	if t.k == vkLimit {
		n = 1 + vg.draw("vlimit_n", 3)/2
	}
	out := &jv{k: jArr}
	if t.k == vkMap {
		out = &jv{k: jObj}
	}
	add := func() {
		if !elemReached {
			vg.mute++
			defer func() { vg.mute-- }()
		}
		if t.k == vkMap {
			key := fmt.Sprintf("k%d", len(out.keys))
			if vg.chance("vkey_odd", 1, 6) {
				key = vg.str(1+vg.draw("vkey_len", 3)) + key
			}
			epl := vplace{set: func(v *jv) { out.setKey(key, v) }}
			if t.elem.k == vkPtr && !ec.required && vg.chance("vnil_elem", 1, 4) {
				out.setKey(key, jnull())
				return
			}
			out.setKey(key, vg.value(t.elem, ec, epl, elemReached))
			return
		}
		i := len(out.arr)
		out.arr = append(out.arr, nil)
		epl := vplace{set: func(v *jv) {
			if i < len(out.arr) { // (another site may have shortened the list since)
				out.arr[i] = v
			}
		}}
		if t.elem.k == vkPtr && !ec.required && vg.chance("vnil_elem", 1, 4) {
			out.arr[i] = jnull()
			return
		}
		out.arr[i] = vg.value(t.elem, ec, epl, elemReached)
		if ec.required {
			vg.rule("required", func() { epl.set(zeroLit(t.elem)) })
		}
	}
	for i := 0; i < n; i++ {
		add()
	}
	size := func() int { return len(out.arr) + len(out.keys) }
	if c.lo != nil && *c.lo >= 1 {
		want := int(*c.lo) - 1
		vg.rule(c.loTag, func() {
			if t.k == vkMap && size() > want {
				out.keys, out.vals = out.keys[:want], out.vals[:want]
			} else if t.k != vkMap && size() > want {
				out.arr = out.arr[:want]
			}
		})
	}
	if c.hi != nil {
		want := int(*c.hi) + 1
		vg.rule(c.hiTag, func() {
			for size() < want {
				add()
			}
		})
	}
	if t.k == vkArray {
		vg.odd = append(vg.odd, func() {
			if vg.chance("varr_short", 1, 2) && len(out.arr) > 0 {
				out.arr = out.arr[:len(out.arr)-1]
			} else {
				add()
			}
		})
	}
	return out
}

// strct builds an object for struct type t: first the members no conditional rule speaks about, then
// the others in schema order, each knowing what the members before it are.
func (vg *vgen) strct(t *vtype, pl vplace) *jv {
	obj := &jv{k: jObj}
	slots := t.members()
	for phase := 0; phase < 2; phase++ {
		for i := range slots {
			tags := parseTags(slots[i].f.tags)
			c := consOf(tags)
			if (len(c.conds) > 0) != (phase == 1) {
				continue
			}
			vg.member(t, obj, slots[i], tags, c)
		}
	}
	// oddities of the object itself
	vg.odd = append(vg.odd, func() {
		switch k := vg.draw("vodd_obj", 3); {
		case k == 0 || len(obj.keys) == 0:
			obj.setKey(vg.g.pick("vodd_key", "zzz", "extra", "Name ", "id2"), vg.g.pickJV())
		case k == 1:
			i := vg.draw("vodd_which", len(obj.keys))
			obj.keys[i] = caseVariant(obj.keys[i])
		default:
			i := vg.draw("vodd_which", len(obj.keys))
			obj.vals[i] = jnull()
		}
	})
	if vg.chance("vmember_order", 1, 3) && len(obj.keys) > 1 {
		k := vg.draw("vrot", len(obj.keys))
		obj.keys = append(obj.keys[k:], obj.keys[:k]...)
		obj.vals = append(obj.vals[k:], obj.vals[:k]...)
	}
	return obj
}

func (g *gen) pickJV() *jv {
	return mustJV(g.pick("vodd_val", "1", `"x"`, "null", "true", "[]", "{}"))
}

const (
	vFree = iota
	vMust
	vAbsent
)

func (vg *vgen) member(t *vtype, obj *jv, sl vslot, tags []vtag, c vcons) {
	f := sl.f
	key := f.jsonName
	pl := vplace{set: func(v *jv) { obj.setKey(key, v) }, del: func() { obj.delKey(key) }}
	state, why := vFree, ""
	if len(c.conds) > 0 {
		d := &vdec{}
		m := d.decode(t, obj)
		if m == nil {
			return // (cannot happen: the object so far was built to decode)
		}
		parent := m
		for _, ix := range sl.path[:len(sl.path)-1] {
			parent = parent.el[ix]
		}
		e := &veval{broken: map[string]bool{}}
		for _, tg := range c.conds {
			s := vFree
			switch tg.name {
			case "required_if":
				if e.allEqual(parent, tg.param) {
					s = vMust
				}
			case "required_unless":
				if !e.allEqual(parent, tg.param) {
					s = vMust
				}
			case "excluded_if":
				if e.allEqual(parent, tg.param) {
					s = vAbsent
				}
			case "excluded_unless":
				if !e.allEqual(parent, tg.param) {
					s = vAbsent
				}
			case "required_with":
				for _, n := range strings.Fields(tg.param) {
					if e.otherPresent(parent, n) {
						s = vMust
					}
				}
			case "required_without":
				for _, n := range strings.Fields(tg.param) {
					if !e.otherPresent(parent, n) {
						s = vMust
					}
				}
			}
			if s != vFree && state == vFree {
				state, why = s, tg.name
			}
		}
	}
	if state == vAbsent {
		vg.rule(why, func() {
			cc := c
			cc.required = true // a value that counts as present
			pl.set(vg.value(f.t, cc, pl, false))
		})
		return
	}
	if state == vFree && !c.required {
		// may the member be left out? only if its zero value passes its own unconditional rules
		var plain []vtag
		for _, tg := range tags {
			if !nilSafe[tg.name] || tg.name == "required" {
				plain = append(plain, tg)
			}
		}
		e := &veval{broken: map[string]bool{}}
		e.member(nil, vzero(f.t), plain)
		keep := 3 // of 5
		if inner := f.t; inner.k == vkPtr && inner.elem.k == vkStruct && len(inner.elem.fields) > 2 {
			keep = 1 // a large optional struct: mostly left out (inputs are capped at 4 KiB)
		}
		if len(e.broken) == 0 && e.und == "" && !vg.chance("vmember_present", keep, 5) {
			if vg.chance("vmember_null", 1, 4) && (f.t.k == vkPtr || f.t.k == vkSlice || f.t.k == vkMap) {
				obj.setKey(key, jnull())
			}
			return
		}
	}
	cc := c
	if state == vMust {
		cc.required = true
	}
	obj.setKey(key, vg.value(f.t, cc, pl, false))
	if state == vMust || c.required {
		tag := "required"
		if state == vMust {
			tag = why
		}
		vg.rule(tag, func() {
			if vg.chance("vrequired_del", 1, 2) {
				pl.del()
			} else {
				pl.set(zeroLit(f.t))
			}
		})
	}
}

// ---- text -----------------------------------------------------------------------------------------

func jsonString(s string) string {
	var sb strings.Builder
	sb.WriteByte('"')
	for _, r := range s {
		switch {
		case r == '"':
			sb.WriteString(`\"`)
		case r == '\\':
			sb.WriteString(`\\`)
		case r < 0x20:
			fmt.Fprintf(&sb, `\u%04x`, r)
		default:
			sb.WriteRune(r)
		}
	}
	sb.WriteByte('"')
	return sb.String()
}

func (v *jv) text(sb *strings.Builder) {
	switch v.k {
	case jNull:
		sb.WriteString("null")
	case jBool:
		sb.WriteString(strconv.FormatBool(v.b))
	case jNum:
		sb.WriteString(v.s)
	case jStr:
		sb.WriteString(jsonString(v.s))
	case jArr:
		sb.WriteByte('[')
		for i, e := range v.arr {
			if i > 0 {
				sb.WriteByte(',')
			}
			e.text(sb)
		}
		sb.WriteByte(']')
	default:
		sb.WriteByte('{')
		for i, k := range v.keys {
			if i > 0 {
				sb.WriteByte(',')
			}
			sb.WriteString(jsonString(k))
			sb.WriteByte(':')
			v.vals[i].text(sb)
		}
		sb.WriteByte('}')
	}
}

// ---- the hooks of gen.go --------------------------------------------------------------------------

// vgood: a value for a struct-typed parameter - mostly one that holds, otherwise one with exactly one
// rule broken, with several, one that does not decode, or an oddity.
func (g *gen) vgood(pt ptype) string {
	t := vOf(pt)
	vg := &vgen{g: g}
	holder := []*jv{nil}
	pl := vplace{set: func(v *jv) { holder[0] = v }}
	if t.k == vkPtr && g.t.Chance("vparam_null", 1, 6) {
		return "null"
	}
	holder[0] = vg.value(t, vcons{}, pl, true)
	switch mode := g.t.Draw("vmode", 16); {
	case mode <= 6:
	case mode <= 10:
		if len(vg.rules) > 0 {
			vg.rules[g.t.Draw("vsite", len(vg.rules))].apply()
		}
	case mode == 11:
		for i := 0; i < 2+g.t.Draw("vsites_more", 2) && len(vg.rules) > 0; i++ {
			vg.rules[g.t.Draw("vsite", len(vg.rules))].apply()
		}
	case mode <= 13:
		vg.dec[g.t.Draw("vdec", len(vg.dec))]()
	case mode == 14:
		if len(vg.odd) > 0 {
			vg.odd[g.t.Draw("vodd", len(vg.odd))]()
		}
	default: // one rule broken and an oddity elsewhere
		if len(vg.rules) > 0 {
			vg.rules[g.t.Draw("vsite", len(vg.rules))].apply()
		}
		if len(vg.odd) > 0 && g.t.Chance("vodd_too", 1, 2) {
			vg.odd[g.t.Draw("vodd", len(vg.odd))]()
		}
	}
	var sb strings.Builder
	holder[0].text(&sb)
	g.vbytes += sb.Len()
	return sb.String()
}

// vwrong: a value that certainly does not decode into the parameter's type
func (g *gen) vwrong(pt ptype) string {
	vg := &vgen{g: g}
	var sb strings.Builder
	vg.wrongKind(vOf(pt)).text(&sb)
	return sb.String()
}
