package rpcserver

// The oracle's classification of an input, written from the JSON-RPC 2.0 specification
// (https://www.jsonrpc.org/specification) and the text of property C11 — not from server.go.
//
// Where the specification leaves an implementation freedom, an entry gets several acceptable
// alternatives ("alts"). Alternatives that are only there to recognise one of the suspected
// defects carry a `relax` name: they are ignored by the strict evaluation and only used to give
// the violation a stable, specific class.

import (
	"sort"
	"strings"
)

const (
	codeParse     = -32700
	codeInvalid   = -32600
	codeNoMethod  = -32601
	codeBadParams = -32602
)

// relaxations = suspected defects, each its own violation class
const (
	relaxNotifUnknown   = "notif_unknown_method_answered"   // DESIGN §6 item 10, first half
	relaxNotifBadParams = "notif_bad_params_answered"       // DESIGN §6 item 10, second half
	relaxNilResult      = "nil_result_omitted"              // DESIGN §6 item 11
	relaxIllTypedParse  = "illtyped_member_parse_error"     // well-formed JSON object with a non-string jsonrpc/method answered -32700
	relaxWsBatch        = "batch_after_long_whitespace"     // a batch preceded by >=128 bytes of white space is not recognised as a batch
	relaxUnserDropped   = "unserialisable_result_unanswered" // a request with an id whose handler result cannot be serialised gets no response object at all
	relaxByteString     = "string_read_as_bytes_for_slice_of_named_uint8" // a JSON string given for a parameter that is a slice of a uint8-based type with its own decoder is base64-decoded into raw element values (scalar_classify.go)
)

var allRelax = []string{relaxNotifUnknown, relaxNotifBadParams, relaxNilResult, relaxIllTypedParse, relaxWsBatch, relaxUnserDropped, relaxByteString}

// one fixed violation key per suspected defect (the driver keeps at most six distinct keys per
// worker process, so the known ones must not multiply)
var relaxKey = map[string]string{
	relaxNotifUnknown:   "method_not_found_sent_for_notification",
	relaxNotifBadParams: "invalid_params_sent_for_notification",
	relaxNilResult:      "response_without_result_and_error",
	relaxIllTypedParse:  "parse_error_code_for_wellformed_request_object",
	relaxWsBatch:        "batch_not_recognised",
	relaxUnserDropped:   "request_with_id_gets_no_response_object",
	relaxByteString:     "handler_called_with_elements_the_element_decoder_never_saw",
}

type callSpec struct {
	m    *mspec
	args []*jv // expected decoded arguments (defaults filled in)
}

type alt struct {
	respond  bool
	ids      []*jv // acceptable values of the response's id (respond only)
	errCodes []int // non-empty: a server-made error with one of these codes, and no handler call
	call     *callSpec
	relax    string
}

type entry struct {
	cls  string // stable description of the request's shape, used in violation keys
	alts []alt
	feat map[string]bool // what the struct-typed parameters of the request exercise (valid_classify.go)
}

type topMode uint8

const (
	topSingle topMode = iota // output: nothing or ONE response object
	topBatch                 // output: nothing or an array of response objects
)

type expectation struct {
	what    string
	mode    topMode
	entries []entry
	relax   string // the whole expectation is only there to recognise a suspected defect
}

type classification struct {
	cands     []expectation // the output must satisfy at least one
	undecided string        // non-empty: the input is outside what the oracle decides (only generic checks apply)
	summary   string
	firstEnd  int // offset just past the first complete top-level value (0 if none)
	structured bool
}

func errEntry(cls string, ids []*jv, codes ...int) entry {
	return entry{cls: cls, alts: []alt{{respond: true, ids: ids, errCodes: codes}}}
}

var idNullOnly = []*jv{jnull()}

func classifyInput(in []byte) classification {
	p := parseTop(in)
	var cl classification
	switch {
	case p.blank:
		// no request at all: vacuously "every request was a notification"; a parse error is equally defensible
		cl.summary = "blank"
		cl.cands = []expectation{{what: "blank", mode: topSingle, entries: []entry{{cls: "blank", alts: []alt{
			{respond: false},
			{respond: true, ids: idNullOnly, errCodes: []int{codeParse, codeInvalid}},
		}}}}}
		return cl
	case p.err != nil:
		cl.summary = "unparsable"
		cl.cands = []expectation{{what: "unparsable", mode: topSingle, entries: []entry{errEntry("unparsable", idNullOnly, codeParse)}}}
		return cl
	}
	cl.firstEnd = p.firstEnd
	if p.weird {
		cl.undecided = "string with invalid UTF-8 or unpaired surrogate"
	} else if p.dupKeys {
		cl.undecided = "duplicate member names"
	}
	parseErr := expectation{what: "unparsable(trailing data)", mode: topSingle, entries: []entry{errEntry("trailing_data", idNullOnly, codeParse)}}
	var main expectation
	switch p.first.k {
	case jObj:
		cl.structured = true
		e, und := classifyEntry(p.first)
		if und != "" && cl.undecided == "" {
			cl.undecided = und
		}
		main = expectation{what: "single:" + e.cls, mode: topSingle, entries: []entry{e}}
	case jArr:
		cl.structured = true
		if len(p.first.arr) == 0 {
			main = expectation{what: "empty_batch", mode: topSingle, entries: []entry{errEntry("empty_batch", idNullOnly, codeInvalid)}}
			break
		}
		main = expectation{what: "batch", mode: topBatch}
		var names []string
		for _, el := range p.first.arr {
			e, und := classifyEntry(el)
			if und != "" && cl.undecided == "" {
				cl.undecided = und
			}
			main.entries = append(main.entries, e)
			names = append(names, e.cls)
		}
		sort.Strings(names)
		main.what = "batch[" + strings.Join(dedupe(names), ",") + "]"
	default:
		// RFC 4627 (the one the specification cites) allows only an object or an array as a JSON
		// text, RFC 8259 any value: both "parse error" and "invalid request" are defensible.
		main = expectation{what: "scalar", mode: topSingle, entries: []entry{errEntry("toplevel_scalar", idNullOnly, codeParse, codeInvalid)}}
	}
	cl.summary = main.what
	cl.cands = []expectation{main}
	if !p.whole {
		// a complete value followed by something else: a streaming reader may answer the first
		// value, a whole-message reader reports a parse error. Both accepted.
		cl.summary += "+trailing"
		cl.cands = append(cl.cands, parseErr)
	}
	// recognisers for the suspected defect "batch after long white space"
	if p.first.k == jArr {
		ws := 0
		for ws < len(in) && (in[ws] == ' ' || in[ws] == '\t' || in[ws] == '\n' || in[ws] == '\r') {
			ws++
		}
		if ws >= 128 {
			cl.cands = append(cl.cands, expectation{what: "batch_not_recognised", mode: topSingle, relax: relaxWsBatch,
				entries: []entry{errEntry("batch_after_ws", idNullOnly, codeParse, codeInvalid)}})
		}
	}
	return cl
}

func dedupe(s []string) []string {
	var out []string
	for i, x := range s {
		if i == 0 || x != s[i-1] {
			out = append(out, x)
		}
	}
	return out
}

var memberNames = []string{"jsonrpc", "method", "params", "id"}

// classifyEntry classifies one top-level object or one element of a batch.
func classifyEntry(v *jv) (entry, string) {
	if v.k != jObj {
		return errEntry("not_object", idNullOnly, codeInvalid), ""
	}
	undecided := ""
	extra := false
	for _, k := range v.keys {
		known := false
		for _, n := range memberNames {
			if k == n {
				known = true
			} else if strings.EqualFold(k, n) {
				// member names "should be considered case-sensitive": a liberal reader is not ruled out
				undecided = "member name differing only in case"
			}
		}
		if !known {
			extra = true
		}
	}

	defect := []string{} // definite reasons why this is not a Request object
	illTyped := false
	codes := map[int]bool{}

	// jsonrpc
	if ver, ok := v.get("jsonrpc"); !ok {
		defect = append(defect, "no_version")
	} else if ver.k != jStr {
		defect = append(defect, "version_type")
		illTyped = true
	} else if ver.s != "2.0" {
		defect = append(defect, "version_value")
	}

	// method
	var m *mspec
	methodStr, methodOK := "", false
	if mv, ok := v.get("method"); !ok {
		defect = append(defect, "no_method")
	} else if mv.k != jStr {
		defect = append(defect, "method_type")
		illTyped = true
	} else {
		methodStr, methodOK = mv.s, true
		m = lookupMethod(mv.s)
	}
	lenientInvalid := extra // additional members: nothing in the specification forbids rejecting them
	if methodOK && methodStr == "" {
		lenientInvalid = true // an empty name is a String, but "no method" is a defensible reading
	}

	// id
	type idMode struct {
		respond bool
		id      *jv
	}
	var idModes []idMode
	var echoable *jv
	idCls := ""
	idv, hasID := v.get("id")
	switch {
	case !hasID:
		idCls = "notif"
		idModes = []idMode{{respond: false}}
	case idv.k == jStr || (idv.k == jNum && plainInt(idv.s)):
		idCls = "req"
		echoable = idv
		idModes = []idMode{{true, idv}}
	case idv.k == jNull:
		// discouraged but allowed; JSON-RPC 1.0 used it for notifications. Either reading accepted.
		idCls = "idnull"
		idModes = []idMode{{respond: false}, {true, jnull()}}
	case idv.k == jNum:
		// "Numbers SHOULD NOT contain fractional parts": may be echoed or rejected
		idCls = "idfrac"
		echoable = idv
		idModes = []idMode{{true, idv}}
		lenientInvalid = true
	default:
		idCls = "idbad"
		echoable = idv // echoing the ill-typed id verbatim is not a mis-correlation
		defect = append(defect, "id_type")
	}

	// params
	pv, hasParams := v.get("params")
	paramsScalar := hasParams && pv.k != jArr && pv.k != jObj && pv.k != jNull
	if paramsScalar {
		defect = append(defect, "params_type")
		codes[codeBadParams] = true
	}
	if hasParams && pv.k == jNull {
		lenientInvalid = true // null is not a structured value; treating it as "omitted" is common
		pv, hasParams = nil, false
	}

	// parameter binding (only meaningful for a known method and structured params)
	var bind bindResult
	if m != nil && !paramsScalar {
		bind = bindParams(m, pv, hasParams)
		if bind.und != "" && undecided == "" {
			undecided = bind.und
		}
	}

	invalidIDs := []*jv{jnull()}
	if echoable != nil {
		invalidIDs = append(invalidIDs, echoable)
	}
	if methodOK && m == nil {
		codes[codeNoMethod] = true
	}
	if m != nil && !paramsScalar && bind.bad {
		codes[codeBadParams] = true
	}
	invalidAlt := func() alt {
		cs := []int{codeInvalid}
		for _, c := range []int{codeNoMethod, codeBadParams} {
			if codes[c] {
				cs = append(cs, c)
			}
		}
		return alt{respond: true, ids: invalidIDs, errCodes: cs}
	}

	if len(defect) > 0 {
		sort.Strings(defect)
		e := entry{cls: "invalid(" + strings.Join(defect, "+") + ")/" + idCls, alts: []alt{invalidAlt()}}
		if illTyped {
			e.alts = append(e.alts, alt{respond: true, ids: idNullOnly, errCodes: []int{codeParse}, relax: relaxIllTypedParse})
		}
		return e, undecided
	}

	// a Request object (possibly in a lenient zone)
	var e entry
	switch {
	case m == nil:
		e.cls = "unknown_method/" + idCls
		for _, im := range idModes {
			if im.respond {
				e.alts = append(e.alts, alt{respond: true, ids: []*jv{im.id}, errCodes: []int{codeNoMethod}})
			} else {
				e.alts = append(e.alts, alt{respond: false})
			}
		}
		if idCls == "notif" {
			e.alts = append(e.alts, alt{respond: true, ids: idNullOnly, errCodes: []int{codeNoMethod}, relax: relaxNotifUnknown})
		}
	default:
		switch {
		case bind.bad && bind.ok:
			e.cls = "params_either/" + idCls
		case bind.bad:
			e.cls = "bad_params/" + idCls
		default:
			e.cls = "valid/" + idCls
		}
		e.cls += ":" + bind.form + vShape(bind.feat) + sShape(bind.feat)
		e.feat = bind.feat
		for _, im := range idModes {
			if bind.ok {
				a := alt{respond: im.respond, call: &callSpec{m: m, args: bind.args}}
				if im.respond {
					a.ids = []*jv{im.id}
				}
				e.alts = append(e.alts, a)
			}
			if bind.bad {
				if im.respond {
					e.alts = append(e.alts, alt{respond: true, ids: []*jv{im.id}, errCodes: []int{codeBadParams}})
				} else {
					e.alts = append(e.alts, alt{respond: false})
				}
			}
		}
		if bind.bad && idCls == "notif" {
			e.alts = append(e.alts, alt{respond: true, ids: idNullOnly, errCodes: []int{codeBadParams}, relax: relaxNotifBadParams})
		}
		if bind.bad && !bind.ok && bind.feat["s_string_for_uint8_kind_slice"] {
			// recogniser of one suspected defect (scalar_classify.go, sByteStringReading): the handler
			// is called with the bytes of the base64 reading of the string as elements
			if lb := bindParamsX(m, pv, hasParams, true); lb.ok {
				for _, im := range idModes {
					a := alt{respond: im.respond, call: &callSpec{m: m, args: lb.args}, relax: relaxByteString}
					if im.respond {
						a.ids = []*jv{im.id}
					}
					e.alts = append(e.alts, a)
				}
			}
		}
		if m.ret == retUnser && bind.ok {
			// The handler runs once like any other. Its result cannot be put into a response, and the
			// property still demands "one response object per non-notification request carrying that
			// request's id and exactly one of result or error": the only response object that can be
			// built is an error for that id (respCompat accepts every error code; -32603 Internal
			// error is what the specification offers). Staying silent is the suspected defect.
			silentOK := false
			for _, im := range idModes {
				if !im.respond {
					silentOK = true
				}
			}
			if !silentOK {
				e.alts = append(e.alts, alt{respond: false, call: &callSpec{m: m, args: bind.args}, relax: relaxUnserDropped})
			}
		}
	}
	if lenientInvalid {
		e.alts = append(e.alts, invalidAlt())
		e.cls += "~"
	}
	return e, undecided
}

// bindResult: ok = "a conforming server may call the handler with args"; bad = "a conforming
// server may answer Invalid params". Both set = the specification leaves it open.
type bindResult struct {
	ok, bad bool
	args    []*jv
	form    string          // none | pos | named
	feat    map[string]bool // what the struct-typed parameters of the call exercise (valid_classify.go)
	und     string          // non-empty: a struct-typed parameter is outside what the documents decide
}

type tcheck uint8

const (
	tcOK tcheck = iota
	tcBad
	tcEither
)

func defaultOf(t ptype) *jv {
	if isS(t) {
		return sDefault(t)
	}
	if isV(t) {
		return vDefault(t)
	}
	switch t {
	case tInt:
		return jnum("0")
	case tStr:
		return jstr("")
	case tBool:
		return jbool(false)
	default:
		return jnull() // nil pointer, nil slice, nil interface
	}
}

func checkInt(v *jv) tcheck {
	if v.k != jNum {
		return tcBad
	}
	if _, ok := int64Of(v.s); !ok {
		return tcBad // fractional or out of range: not representable as the handler's int64
	}
	if !plainInt(v.s) {
		return tcEither // 1.0, 1e2: integral value, unusual spelling
	}
	return tcOK
}

// typeCheck decides whether supplied value v fits parameter type t, and what the handler must see.
func typeCheck(t ptype, v *jv) (tcheck, *jv) {
	if v.k == jNull {
		switch t {
		case tPInt, tPStr, tAny:
			return tcOK, jnull()
		default:
			// null for a by-value parameter: "wrong type" and "use the zero value" are both defensible
			return tcEither, defaultOf(t)
		}
	}
	switch t {
	case tInt, tPInt:
		return checkInt(v), v
	case tStr, tPStr:
		if v.k != jStr {
			return tcBad, nil
		}
		return tcOK, v
	case tBool:
		if v.k != jBool {
			return tcBad, nil
		}
		return tcOK, v
	case tInts:
		if v.k != jArr {
			return tcBad, nil
		}
		res := tcOK
		out := &jv{k: jArr}
		for _, e := range v.arr {
			if e.k == jNull {
				res = tcEither
				out.arr = append(out.arr, jnum("0"))
				continue
			}
			switch checkInt(e) {
			case tcBad:
				return tcBad, nil
			case tcEither:
				res = tcEither
			}
			out.arr = append(out.arr, e)
		}
		return res, out
	default: // tAny
		if hasHugeNumber(v) {
			return tcEither, v // implementations may limit the range of numbers (RFC 8259 §6)
		}
		return tcOK, v
	}
}

func bindParams(m *mspec, pv *jv, has bool) bindResult { return bindParamsX(m, pv, has, false) }

// bindParamsX: byteStrings = read a JSON string given for a slice of a uint8-based named type the way
// the suspected defect relaxByteString does (only used to recognise that defect)
func bindParamsX(m *mspec, pv *jv, has bool, byteStrings bool) bindResult {
	required := 0
	for _, p := range m.params {
		if !p.optional {
			required++
		}
	}
	defaults := func() []*jv {
		out := make([]*jv, len(m.params))
		for i, p := range m.params {
			out[i] = defaultOf(p.t)
		}
		return out
	}
	if !has {
		if required > 0 {
			return bindResult{bad: true, form: "none"}
		}
		return bindResult{ok: true, args: defaults(), form: "none"}
	}
	args := defaults()
	either := false
	feat := map[string]bool{}
	if byteStrings {
		feat[sByteStringsMark] = true
	}
	und := ""
	switch pv.k {
	case jArr:
		n := len(pv.arr)
		if n < required {
			return bindResult{bad: true, form: "pos"}
		}
		if n > len(m.params) {
			either = true // surplus positional values: rejecting and ignoring are both defensible
			n = len(m.params)
		}
		for i := 0; i < n; i++ {
			tc, want := typeCheckF(m.params[i].t, pv.arr[i], feat)
			switch tc {
			case tcBad:
				return bindResult{bad: true, form: "pos", feat: feat, und: und}
			case tcEither:
				either = true
			case tcUnd:
				und, want = vUndecided(feat), jnull()
			}
			args[i] = want
		}
		return bindResult{ok: true, bad: either, args: args, form: "pos", feat: feat, und: und}
	default: // object
		used := 0
		for i, p := range m.params {
			sv, ok := pv.get(p.name)
			if !ok {
				if !p.optional {
					return bindResult{bad: true, form: "named", feat: feat, und: und}
				}
				continue
			}
			used++
			tc, want := typeCheckF(p.t, sv, feat)
			switch tc {
			case tcBad:
				return bindResult{bad: true, form: "named", feat: feat, und: und}
			case tcEither:
				either = true
			case tcUnd:
				und, want = vUndecided(feat), jnull()
			}
			args[i] = want
		}
		if used < len(pv.keys) {
			either = true // names the method does not have: the specification is silent
		}
		return bindResult{ok: true, bad: either, args: args, form: "named", feat: feat, und: und}
	}
}
