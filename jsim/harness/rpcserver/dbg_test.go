package rpcserver

import (
	"fmt"
	"os"
	"strconv"
	"testing"
	"testing/synctest"

	"jsim/sim"
)

// TestDbg (JSIM_DBG_SEED=<seed>): one seed many times.
func TestDbg(t *testing.T) {
	seed, _ := strconv.ParseUint(os.Getenv("JSIM_DBG_SEED"), 10, 64)
	if seed == 0 {
		t.Skip("JSIM_DBG_SEED not set")
	}
	synctest.Test(t, func(t *testing.T) {
		for i := 0; i < 3000; i++ {
			r := sim.Exec(C11, "C11", "quick", seed, sim.Options{Bubble: true, PanicIsViolation: true})
			if r.Violation != nil && r.Violation.Class == "hang" {
				fmt.Printf("iteration %d: %s poisoned=%v\n%v\n", i, r.Violation.Key, poisoned(), r.Events)
				os.Exit(1)
			}
		}
		fmt.Println("no hang")
	})
}
