package rpcserver

// An independent, strict RFC 8259 reader used by the oracle. It deliberately does not use
// encoding/json (the parser of the code under test): it keeps member order, duplicate members and
// number literals, and reports where the first top-level value ends.

import (
	"fmt"
	"math"
	"math/big"
	"sort"
	"strconv"
	"strings"
	"unicode/utf8"
)

type jkind uint8

const (
	jNull jkind = iota
	jBool
	jNum
	jStr
	jArr
	jObj
)

func (k jkind) String() string {
	return [...]string{"null", "bool", "number", "string", "array", "object"}[k]
}

type jv struct {
	k    jkind
	b    bool
	s    string // decoded string, or the number literal
	arr  []*jv
	keys []string // decoded member names in input order (duplicates kept)
	vals []*jv
}

func jnull() *jv          { return &jv{k: jNull} }
func jnum(lit string) *jv { return &jv{k: jNum, s: lit} }
func jstr(s string) *jv   { return &jv{k: jStr, s: s} }
func jbool(b bool) *jv    { return &jv{k: jBool, b: b} }
func jarr(e ...*jv) *jv   { return &jv{k: jArr, arr: e} }

// get returns the LAST member with that exact name (callers that care about duplicates check
// dupKeys first).
func (v *jv) get(name string) (*jv, bool) {
	for i := len(v.keys) - 1; i >= 0; i-- {
		if v.keys[i] == name {
			return v.vals[i], true
		}
	}
	return nil, false
}

type jparser struct {
	in      []byte
	pos     int
	depth   int
	dupKeys bool // some object has two members with the same name
	weird   bool // invalid UTF-8 or an unpaired surrogate escape inside a string: outside what the oracle decides
}

type jerr struct {
	pos int
	msg string
}

func (e *jerr) Error() string { return fmt.Sprintf("offset %d: %s", e.pos, e.msg) }

const maxDepth = 5000

func (p *jparser) ws() {
	for p.pos < len(p.in) {
		switch p.in[p.pos] {
		case ' ', '\t', '\n', '\r':
			p.pos++
		default:
			return
		}
	}
}

func (p *jparser) fail(msg string) *jerr { return &jerr{p.pos, msg} }

func (p *jparser) value() (*jv, *jerr) {
	p.ws()
	if p.pos >= len(p.in) {
		return nil, p.fail("unexpected end")
	}
	switch c := p.in[p.pos]; {
	case c == '{':
		return p.object()
	case c == '[':
		return p.array()
	case c == '"':
		s, e := p.str()
		if e != nil {
			return nil, e
		}
		return jstr(s), nil
	case c == '-' || (c >= '0' && c <= '9'):
		return p.number()
	case c == 't':
		return p.lit("true", jbool(true))
	case c == 'f':
		return p.lit("false", jbool(false))
	case c == 'n':
		return p.lit("null", jnull())
	default:
		return nil, p.fail("unexpected character")
	}
}

func (p *jparser) lit(word string, v *jv) (*jv, *jerr) {
	if p.pos+len(word) <= len(p.in) && string(p.in[p.pos:p.pos+len(word)]) == word {
		p.pos += len(word)
		return v, nil
	}
	return nil, p.fail("bad literal")
}

func (p *jparser) number() (*jv, *jerr) {
	start := p.pos
	digits := func() int {
		n := 0
		for p.pos < len(p.in) && p.in[p.pos] >= '0' && p.in[p.pos] <= '9' {
			p.pos++
			n++
		}
		return n
	}
	if p.in[p.pos] == '-' {
		p.pos++
	}
	if p.pos >= len(p.in) {
		return nil, p.fail("bad number")
	}
	if p.in[p.pos] == '0' {
		p.pos++
	} else if digits() == 0 {
		return nil, p.fail("bad number")
	}
	if p.pos < len(p.in) && p.in[p.pos] == '.' {
		p.pos++
		if digits() == 0 {
			return nil, p.fail("bad fraction")
		}
	}
	if p.pos < len(p.in) && (p.in[p.pos] == 'e' || p.in[p.pos] == 'E') {
		p.pos++
		if p.pos < len(p.in) && (p.in[p.pos] == '+' || p.in[p.pos] == '-') {
			p.pos++
		}
		if digits() == 0 {
			return nil, p.fail("bad exponent")
		}
	}
	return jnum(string(p.in[start:p.pos])), nil
}

func hex4(b []byte) (rune, bool) {
	if len(b) < 4 {
		return 0, false
	}
	var r rune
	for _, c := range b[:4] {
		switch {
		case c >= '0' && c <= '9':
			r = r<<4 | rune(c-'0')
		case c >= 'a' && c <= 'f':
			r = r<<4 | rune(c-'a'+10)
		case c >= 'A' && c <= 'F':
			r = r<<4 | rune(c-'A'+10)
		default:
			return 0, false
		}
	}
	return r, true
}

func (p *jparser) str() (string, *jerr) {
	p.pos++ // opening quote
	var sb strings.Builder
	for {
		if p.pos >= len(p.in) {
			return "", p.fail("unterminated string")
		}
		c := p.in[p.pos]
		switch {
		case c == '"':
			p.pos++
			return sb.String(), nil
		case c < 0x20:
			return "", p.fail("control character in string")
		case c == '\\':
			p.pos++
			if p.pos >= len(p.in) {
				return "", p.fail("unterminated escape")
			}
			e := p.in[p.pos]
			p.pos++
			switch e {
			case '"', '\\', '/':
				sb.WriteByte(e)
			case 'b':
				sb.WriteByte('\b')
			case 'f':
				sb.WriteByte('\f')
			case 'n':
				sb.WriteByte('\n')
			case 'r':
				sb.WriteByte('\r')
			case 't':
				sb.WriteByte('\t')
			case 'u':
				r, ok := hex4(p.in[p.pos:])
				if !ok {
					return "", p.fail("bad \\u escape")
				}
				p.pos += 4
				if r >= 0xd800 && r < 0xdc00 {
					// high surrogate: needs a following low surrogate escape
					if p.pos+6 <= len(p.in) && p.in[p.pos] == '\\' && p.in[p.pos+1] == 'u' {
						if r2, ok2 := hex4(p.in[p.pos+2:]); ok2 && r2 >= 0xdc00 && r2 < 0xe000 {
							p.pos += 6
							sb.WriteRune(0x10000 + (r-0xd800)<<10 + (r2 - 0xdc00))
							continue
						}
					}
					p.weird = true
					sb.WriteRune(utf8.RuneError)
				} else if r >= 0xdc00 && r < 0xe000 {
					p.weird = true
					sb.WriteRune(utf8.RuneError)
				} else {
					sb.WriteRune(r)
				}
			default:
				p.pos--
				return "", p.fail("bad escape")
			}
		case c < 0x80:
			sb.WriteByte(c)
			p.pos++
		default:
			r, n := utf8.DecodeRune(p.in[p.pos:])
			if r == utf8.RuneError && n <= 1 {
				p.weird = true
				sb.WriteRune(utf8.RuneError)
				p.pos++
			} else {
				sb.WriteRune(r)
				p.pos += n
			}
		}
	}
}

func (p *jparser) array() (*jv, *jerr) {
	p.depth++
	defer func() { p.depth-- }()
	if p.depth > maxDepth {
		return nil, p.fail("too deep")
	}
	p.pos++
	v := &jv{k: jArr}
	p.ws()
	if p.pos < len(p.in) && p.in[p.pos] == ']' {
		p.pos++
		return v, nil
	}
	for {
		e, err := p.value()
		if err != nil {
			return nil, err
		}
		v.arr = append(v.arr, e)
		p.ws()
		if p.pos >= len(p.in) {
			return nil, p.fail("unterminated array")
		}
		switch p.in[p.pos] {
		case ',':
			p.pos++
		case ']':
			p.pos++
			return v, nil
		default:
			return nil, p.fail("expected , or ]")
		}
	}
}

func (p *jparser) object() (*jv, *jerr) {
	p.depth++
	defer func() { p.depth-- }()
	if p.depth > maxDepth {
		return nil, p.fail("too deep")
	}
	p.pos++
	v := &jv{k: jObj}
	p.ws()
	if p.pos < len(p.in) && p.in[p.pos] == '}' {
		p.pos++
		return v, nil
	}
	seen := map[string]bool{}
	for {
		p.ws()
		if p.pos >= len(p.in) || p.in[p.pos] != '"' {
			return nil, p.fail("expected member name")
		}
		k, err := p.str()
		if err != nil {
			return nil, err
		}
		p.ws()
		if p.pos >= len(p.in) || p.in[p.pos] != ':' {
			return nil, p.fail("expected :")
		}
		p.pos++
		e, err := p.value()
		if err != nil {
			return nil, err
		}
		if seen[k] {
			p.dupKeys = true
		}
		seen[k] = true
		v.keys = append(v.keys, k)
		v.vals = append(v.vals, e)
		p.ws()
		if p.pos >= len(p.in) {
			return nil, p.fail("unterminated object")
		}
		switch p.in[p.pos] {
		case ',':
			p.pos++
		case '}':
			p.pos++
			return v, nil
		default:
			return nil, p.fail("expected , or }")
		}
	}
}

// parsed is what the strict reader makes of a byte sequence.
type parsed struct {
	first    *jv  // the first complete top-level value, if there is one
	firstEnd int  // offset just past it
	whole    bool // the input is exactly one JSON value surrounded by white space
	blank    bool // nothing but white space
	dupKeys  bool
	weird    bool
	err      *jerr
}

func parseTop(in []byte) parsed {
	p := &jparser{in: in}
	p.ws()
	if p.pos >= len(in) {
		return parsed{blank: true}
	}
	v, err := p.value()
	if err != nil {
		// a text the strict grammar rejects is rejected by any JSON reader: nothing undecided here
		return parsed{err: err}
	}
	res := parsed{first: v, firstEnd: p.pos, dupKeys: p.dupKeys}
	p.ws()
	res.whole = p.pos >= len(in)
	res.weird = p.weird || !utf8.Valid(in[:res.firstEnd])
	return res
}

// parseExact parses a complete JSON text (used on the server's output and on recorded values).
func parseExact(in []byte) (*jv, error) {
	r := parseTop(in)
	if r.err != nil {
		return nil, r.err
	}
	if r.blank {
		return nil, fmt.Errorf("empty")
	}
	if !r.whole {
		return nil, fmt.Errorf("trailing data after offset %d", r.firstEnd)
	}
	return r.first, nil
}

// canon renders a value canonically (members sorted, numbers as written). Used for logging and
// for content-derived ordering; never for equality decisions.
func (v *jv) canon() string {
	var sb strings.Builder
	v.canonTo(&sb, 0)
	return sb.String()
}

func (v *jv) canonTo(sb *strings.Builder, depth int) {
	if depth > 40 {
		sb.WriteString("…")
		return
	}
	switch v.k {
	case jNull:
		sb.WriteString("null")
	case jBool:
		if v.b {
			sb.WriteString("true")
		} else {
			sb.WriteString("false")
		}
	case jNum:
		sb.WriteString(v.s)
	case jStr:
		sb.WriteString(strconv.Quote(v.s))
	case jArr:
		sb.WriteByte('[')
		for i, e := range v.arr {
			if i > 0 {
				sb.WriteByte(',')
			}
			e.canonTo(sb, depth+1)
		}
		sb.WriteByte(']')
	case jObj:
		idx := make([]int, len(v.keys))
		for i := range idx {
			idx[i] = i
		}
		sort.SliceStable(idx, func(a, b int) bool { return v.keys[idx[a]] < v.keys[idx[b]] })
		sb.WriteByte('{')
		for n, i := range idx {
			if n > 0 {
				sb.WriteByte(',')
			}
			sb.WriteString(strconv.Quote(v.keys[i]))
			sb.WriteByte(':')
			v.vals[i].canonTo(sb, depth+1)
		}
		sb.WriteByte('}')
	}
}

func clip(s string, n int) string {
	if len(s) <= n {
		return s
	}
	return s[:n] + fmt.Sprintf("…(%d bytes)", len(s))
}

// ---- numbers -------------------------------------------------------------------------------

// plainInt: an integer literal without fraction or exponent.
func plainInt(lit string) bool {
	return !strings.ContainsAny(lit, ".eE")
}

// numRat returns the exact value of a literal, or nil if the exponent is too large to expand.
func numRat(lit string) *big.Rat {
	if i := strings.IndexAny(lit, "eE"); i >= 0 {
		exp, err := strconv.Atoi(lit[i+1:])
		if err != nil || exp > 400 || exp < -400 {
			return nil
		}
	}
	r, ok := new(big.Rat).SetString(lit)
	if !ok {
		return nil
	}
	return r
}

func numFloat(lit string) (float64, bool) {
	f, err := strconv.ParseFloat(lit, 64)
	if err != nil || math.IsInf(f, 0) || math.IsNaN(f) {
		return 0, false
	}
	return f, true
}

// numEq: same literal, same exact value, or (loose) same float64.
func numEq(a, b string, loose bool) bool {
	if a == b {
		return true
	}
	ra, rb := numRat(a), numRat(b)
	if ra != nil && rb != nil && ra.Cmp(rb) == 0 {
		return true
	}
	if loose {
		fa, oka := numFloat(a)
		fb, okb := numFloat(b)
		return oka && okb && fa == fb
	}
	return false
}

// int64Of: exact int64 value of a literal if it has one.
func int64Of(lit string) (int64, bool) {
	r := numRat(lit)
	if r == nil || !r.IsInt() || !r.Num().IsInt64() {
		return 0, false
	}
	return r.Num().Int64(), true
}

// jeq is semantic equality of two duplicate-free values: numbers by value, strings by decoded
// content, objects as unordered maps.
func jeq(a, b *jv, looseNum bool) bool {
	if a.k != b.k {
		return false
	}
	switch a.k {
	case jNull:
		return true
	case jBool:
		return a.b == b.b
	case jNum:
		return numEq(a.s, b.s, looseNum)
	case jStr:
		return a.s == b.s
	case jArr:
		if len(a.arr) != len(b.arr) {
			return false
		}
		for i := range a.arr {
			if !jeq(a.arr[i], b.arr[i], looseNum) {
				return false
			}
		}
		return true
	default:
		if len(a.keys) != len(b.keys) {
			return false
		}
		for i, k := range a.keys {
			o, ok := b.get(k)
			if !ok || !jeq(a.vals[i], o, looseNum) {
				return false
			}
		}
		return true
	}
}

// hasHugeNumber: some number in v does not fit a float64 (implementations may limit range).
func hasHugeNumber(v *jv) bool {
	switch v.k {
	case jNum:
		_, ok := numFloat(v.s)
		return !ok
	case jArr:
		for _, e := range v.arr {
			if hasHugeNumber(e) {
				return true
			}
		}
	case jObj:
		for _, e := range v.vals {
			if hasHugeNumber(e) {
				return true
			}
		}
	}
	return false
}
