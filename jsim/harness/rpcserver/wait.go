package rpcserver

// Waiting for the server without trusting it to come back.
//
// synctest.Wait() returns when every other goroutine of the bubble is DURABLY blocked. A goroutine
// blocked in sync.Mutex.Lock is not durably blocked, so a server that deadlocks on one of its own
// locks makes synctest.Wait() (and a plain `<-done`) wait for ever: the worker process would end in
// the driver's watchdog, i.e. as machinery trouble. For runs that can reach such a state the harness
// therefore decides quiescence itself, from the runtime's own description of the goroutines
// (runtime.Stack(all)): the header of every goroutine names its state, whether it belongs to the
// bubble, and whether the block is durable. "Every other goroutine of the bubble is blocked, durably
// or acquiring a lock" is a fact about one stop-the-world snapshot, not a timeout: nothing in the
// bubble can run again before the harness itself does something (there are no real timers, sockets
// or files in a run; fake timers only fire while the main goroutine is durably blocked, which it is
// not while it polls). Real time is only used to decide how often to look.
//
// A run that ends in a hang cannot join the server's goroutines (a goroutine stuck in Lock cannot
// be woken from outside). They are left behind and the worker process is "poisoned": from then on
// every run uses this census instead of synctest.Wait(), the goroutines known to be stuck are
// ignored, fake time can no longer advance (runs that need it are skipped as inconclusive), and
// because the bubble can never end, the process leaves through exitWhenOutputWritten once the
// worker's result file is complete.

import (
	"bytes"
	"encoding/json"
	"os"
	"runtime"
	"sync"
	"sync/atomic"
	"syscall"
	"time"

	"jsim/sim"
)

var (
	poisonedFlag atomic.Bool         // a hang left goroutines behind in this process
	staleLocked  = map[uint64]bool{} // goroutines known to be stuck acquiring a lock (main goroutine only)
	hangsSeen    int
	keepAlive    sync.Mutex
	stackBuf     = make([]byte, 256<<10)
)

var (
	debugDump = os.Getenv("JSIM_DBG_SEED") != ""
	lastDump  string
	inPoison  bool
)

// after this many hangs in one process, runs that could add another one are skipped
const maxHangsPerProcess = 400

type census struct {
	active  int      // bubble goroutines that are running, runnable, or blocked in a way this file does not understand
	durable int      // durably blocked
	locked  []uint64 // blocked acquiring a sync lock, not yet known as stale
}

var lockStates = map[string]bool{
	"sync.Mutex.Lock":    true,
	"sync.RWMutex.RLock": true,
	"sync.RWMutex.Lock":  true,
	"semacquire":         true,
}

// snapshot calls f for every goroutine the runtime lists except the calling one: its id, whether
// its header carries the bubble's tag, and its status.
func snapshot(f func(id uint64, tagged bool, status []byte, understood bool)) {
	var n int
	for {
		n = runtime.Stack(stackBuf, true)
		if n < len(stackBuf) {
			break
		}
		stackBuf = make([]byte, 2*len(stackBuf))
	}
	s := stackBuf[:n]
	if debugDump && !inPoison {
		lastDump = string(s)
	}
	first := true
	for len(s) > 0 {
		eol := bytes.IndexByte(s, '\n')
		line := s
		if eol >= 0 {
			line = s[:eol]
		}
		if !first { // the first record is the caller
			parseHeader(line, f)
		}
		first = false
		nxt := bytes.Index(s, []byte("\n\ngoroutine "))
		if nxt < 0 {
			break
		}
		s = s[nxt+2:]
	}
}

// header: goroutine 22 [sync.Mutex.Lock, 2 minutes, synctest bubble 1]:
func parseHeader(line []byte, f func(id uint64, tagged bool, status []byte, understood bool)) {
	const pre = "goroutine "
	if !bytes.HasPrefix(line, []byte(pre)) {
		f(0, false, nil, false)
		return
	}
	rest := line[len(pre):]
	var id uint64
	i := 0
	for i < len(rest) && rest[i] >= '0' && rest[i] <= '9' {
		id = id*10 + uint64(rest[i]-'0')
		i++
	}
	open := bytes.IndexByte(rest, '[')
	closeb := bytes.LastIndex(rest, []byte("]:"))
	if i == 0 || open < 0 || closeb < open {
		f(0, false, nil, false)
		return
	}
	state := rest[open+1 : closeb]
	status := state
	if k := bytes.Index(state, []byte(", ")); k >= 0 {
		status = state[:k]
	}
	f(id, bytes.Contains(state, []byte("synctest bubble")), status, true)
}

// foreign: goroutines that do not belong to the bubble (the test framework's, the exit watcher).
// The bubble tag alone does not tell: the runtime takes a goroutine out of its bubble while it
// assists the garbage collector, so an untagged goroutine counts as a busy goroutine of the run
// unless it was already there, untagged, at a moment when the run had started nothing yet.
var foreign = map[uint64]bool{}

// markForeign is called at the start of a run, before it starts any goroutine (goroutines left
// behind by earlier hangs are blocked, hence not allocating, hence tagged).
func markForeign() {
	snapshot(func(id uint64, tagged bool, _ []byte, understood bool) {
		if understood && !tagged {
			foreign[id] = true
		}
	})
}

// takeCensus classifies every goroutine of the bubble except the calling one.
func takeCensus() census {
	var cs census
	snapshot(func(id uint64, tagged bool, status []byte, understood bool) {
		switch {
		case !understood:
			cs.active++ // never conclude anything from what is not understood
		case !tagged:
			if !foreign[id] {
				cs.active++
			}
		case bytes.HasSuffix(status, []byte("(durable)")):
			cs.durable++
		case lockStates[string(status)]:
			if !staleLocked[id] {
				cs.locked = append(cs.locked, id)
			}
		default:
			cs.active++
		}
	})
	return cs
}

func realMs() int64 {
	var tv syscall.Timeval
	_ = syscall.Gettimeofday(&tv)
	return tv.Sec*1000 + int64(tv.Usec)/1000
}

func realSleep(us int64) {
	ts := syscall.Timespec{Sec: us / 1e6, Nsec: (us % 1e6) * 1000}
	_ = syscall.Nanosleep(&ts, nil)
}

// settle returns when isDone() holds (finished=true) or when every other goroutine of the bubble is
// blocked (finished=false; locked = how many of them are acquiring a lock, stale ones not counted).
// spins = how often to merely yield before the first census.
func settle(c *sim.Ctx, isDone func() bool, spins int) (finished bool, locked int) {
	start := realMs()
	for i := 0; ; i++ {
		if isDone() {
			return true, 0
		}
		if i < spins {
			runtime.Gosched()
			continue
		}
		cs := takeCensus()
		if cs.active == 0 {
			if isDone() { // finished before the snapshot was taken
				return true, 0
			}
			return false, len(cs.locked)
		}
		switch k := i - spins; {
		case k < 64:
			runtime.Gosched()
		case k < 256:
			realSleep(50)
		default:
			realSleep(2000)
		}
		if realMs()-start > 120000 {
			c.Broken("the server's goroutines neither finish nor block (busy for two minutes of real time)")
		}
	}
}

func never() bool { return false }

// poison is called when a run ends in a hang, after everything that can be released was released.
func poison(c *sim.Ctx) {
	if !poisonedFlag.Load() {
		poisonedFlag.Store(true)
		// one goroutine that is blocked for ever in a way that is not durable: the bubble never
		// counts as idle, so the runtime never reports the left-behind goroutines as a deadlock
		keepAlive.Lock()
		go keepAlive.Lock()
	}
	hangsSeen++
	inPoison = true
	defer func() { inPoison = false }()
	_, _ = settle(c, never, 0)
	for _, id := range takeCensus().locked {
		staleLocked[id] = true
	}
}

func poisoned() bool { return poisonedFlag.Load() }

// exitWhenOutputWritten runs OUTSIDE the bubble (started by the test function before the worker
// loop). In a poisoned process the bubble cannot end; once the worker has written its complete
// result file the process has nothing left to do.
func exitWhenOutputWritten() {
	out := os.Getenv("JSIM_OUT")
	for {
		time.Sleep(5 * time.Millisecond)
		if out == "" || !poisonedFlag.Load() {
			continue
		}
		if b, err := os.ReadFile(out); err == nil && len(b) > 0 && json.Valid(b) {
			os.Exit(0)
		}
	}
}
