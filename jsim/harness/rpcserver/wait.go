package rpcserver

// Waiting for the server without trusting it to come back.
//
// synctest.Wait() returns when every other goroutine of the bubble is DURABLY blocked. A goroutine
// blocked in sync.Mutex.Lock is not durably blocked, so a server that deadlocks on one of its own
// locks makes synctest.Wait() (and a plain `<-done`) wait for ever: the worker process would end in
// the driver's watchdog, i.e. as machinery trouble. For runs that can reach such a state the harness
// therefore decides quiescence itself, from the runtime's own description of the goroutines
// (runtime.Stack(all)): the header of every goroutine names its state, whether it belongs to the
// bubble, and whether the block is durable. "Every other goroutine of the bubble is blocked, durably
// or acquiring a lock" is a fact about one stop-the-world snapshot, not a timeout: nothing in the
// bubble can run again before the harness itself does something (there are no real timers, sockets
// or files in a run; fake timers only fire while the main goroutine is durably blocked, which it is
// not while it polls). Real time is only used to decide how often to look.
//
// AFTER the verdict "hang" the run still has to get rid of the server's goroutines (one bubble per
// process; the next run needs a quiet bubble):
//
//  1. unstick: a goroutine stuck in sync.Mutex.Lock names the mutex in its stack record
//     (internal/sync.(*Mutex).lockSlow(0x...)). The harness unlocks that mutex on behalf of whoever
//     left it locked; the waiter proceeds, the call returns, everything is joined as usual. This is
//     clean-up only: the verdict was reached before and does not depend on it.
//  2. if that does not work (another kind of lock, a durable deadlock, an unreadable record) the
//     goroutines are left behind and the process is "poisoned": from then on every run uses the
//     census instead of synctest.Wait(), goroutines known to be stuck are ignored, fake time can no
//     longer advance (runs that need it are skipped as inconclusive), and because the bubble can
//     never end the process leaves through exitWhenOutputWritten once its result file is complete.

import (
	"bytes"
	"encoding/json"
	"os"
	"runtime"
	"sort"
	"strconv"
	"sync"
	"sync/atomic"
	"syscall"
	"time"
	"unsafe"

	"jsim/sim"
)

var (
	poisonedFlag atomic.Bool         // a hang left goroutines behind in this process
	staleLocked  = map[uint64]bool{} // goroutines known to be stuck acquiring a lock (main goroutine only)
	hangsLeft    int                 // hangs of this process whose goroutines were left behind
	keepAlive    sync.Mutex
	stackBuf     = make([]byte, 256<<10)
)

// after this many hangs that left goroutines behind, runs that could add another one are skipped
// (every census has to read the stacks of all of them)
const maxHangsLeftBehind = 25

type census struct {
	active  int      // goroutines of the run that are running, runnable, or blocked in a way this file does not understand
	durable int      // durably blocked
	locked  []uint64 // blocked acquiring a sync lock, not yet known as stale
}

var lockStates = map[string]bool{
	"sync.Mutex.Lock":    true,
	"sync.RWMutex.RLock": true,
	"sync.RWMutex.Lock":  true,
	"semacquire":         true,
}

type grec struct {
	id         uint64
	tagged     bool   // the header carries the bubble's tag
	status     []byte // first element of the bracketed state
	understood bool
	body       []byte // the whole record
}

// snapshot calls f for every goroutine the runtime lists except the calling one.
func snapshot(f func(g grec)) {
	var n int
	for {
		n = runtime.Stack(stackBuf, true)
		if n < len(stackBuf) {
			break
		}
		stackBuf = make([]byte, 2*len(stackBuf))
	}
	s := stackBuf[:n]
	first := true
	for len(s) > 0 {
		nxt := bytes.Index(s, []byte("\n\ngoroutine "))
		body := s
		if nxt >= 0 {
			body = s[:nxt+1]
		}
		if !first { // the first record is the caller
			f(parseRecord(body))
		}
		first = false
		if nxt < 0 {
			break
		}
		s = s[nxt+2:]
	}
}

// header: goroutine 22 [sync.Mutex.Lock, 2 minutes, synctest bubble 1]:
func parseRecord(body []byte) grec {
	g := grec{body: body}
	line := body
	if eol := bytes.IndexByte(body, '\n'); eol >= 0 {
		line = body[:eol]
	}
	const pre = "goroutine "
	if !bytes.HasPrefix(line, []byte(pre)) {
		return g
	}
	rest := line[len(pre):]
	i := 0
	for i < len(rest) && rest[i] >= '0' && rest[i] <= '9' {
		g.id = g.id*10 + uint64(rest[i]-'0')
		i++
	}
	open := bytes.IndexByte(rest, '[')
	closeb := bytes.LastIndex(rest, []byte("]:"))
	if i == 0 || open < 0 || closeb < open {
		return g
	}
	state := rest[open+1 : closeb]
	g.status = state
	if k := bytes.Index(state, []byte(", ")); k >= 0 {
		g.status = state[:k]
	}
	g.tagged = bytes.Contains(state, []byte("synctest bubble"))
	g.understood = true
	return g
}

// foreign: goroutines that do not belong to the bubble (the test framework's, the exit watcher).
// The bubble tag alone does not tell: the runtime takes a goroutine out of its bubble while it
// assists the garbage collector, so an untagged goroutine counts as a busy goroutine of the run
// unless it was already there, untagged, at a moment when the run had started nothing yet.
var foreign = map[uint64]bool{}

// markForeign is called at the start of a run, before it starts any goroutine (goroutines left
// behind by earlier hangs are blocked, hence not allocating, hence tagged).
func markForeign() {
	snapshot(func(g grec) {
		if g.understood && !g.tagged {
			foreign[g.id] = true
		}
	})
}

func (cs *census) add(g grec) {
	switch {
	case !g.understood:
		cs.active++ // never conclude anything from what is not understood
	case !g.tagged:
		if !foreign[g.id] {
			cs.active++
		}
	case bytes.HasSuffix(g.status, []byte("(durable)")):
		cs.durable++
	case lockStates[string(g.status)]:
		if !staleLocked[g.id] {
			cs.locked = append(cs.locked, g.id)
		}
	default:
		cs.active++
	}
}

// takeCensus classifies every goroutine of the run except the calling one.
func takeCensus() census {
	var cs census
	snapshot(func(g grec) { cs.add(g) })
	return cs
}

func realMs() int64 {
	var tv syscall.Timeval
	_ = syscall.Gettimeofday(&tv)
	return tv.Sec*1000 + int64(tv.Usec)/1000
}

func realSleep(us int64) {
	ts := syscall.Timespec{Sec: us / 1e6, Nsec: (us % 1e6) * 1000}
	_ = syscall.Nanosleep(&ts, nil)
}

// settle returns when isDone() holds (finished=true) or when every other goroutine of the run is
// blocked (finished=false; locked = how many of them are acquiring a lock, stale ones not counted).
// spins = how often to merely yield before the first census.
func settle(c *sim.Ctx, isDone func() bool, spins int) (finished bool, locked int) {
	start := realMs()
	for i := 0; ; i++ {
		if isDone() {
			return true, 0
		}
		if i < spins {
			runtime.Gosched()
			continue
		}
		cs := takeCensus()
		if cs.active == 0 {
			if isDone() { // finished before the snapshot was taken
				return true, 0
			}
			return false, len(cs.locked)
		}
		switch k := i - spins; {
		case k < 64:
			runtime.Gosched()
		case k < 256:
			realSleep(50)
		default:
			realSleep(2000)
		}
		if realMs()-start > 120000 {
			c.Broken("the server's goroutines neither finish nor block (busy for two minutes of real time)")
		}
	}
}

func never() bool { return false }

// unstickOnce: call only when every goroutine of the run is blocked. For every goroutine stuck in
// sync.Mutex.Lock it unlocks the mutex named in the goroutine's stack record (once per mutex).
// ok=false: some goroutine is stuck on a lock whose address cannot be read.
func unstickOnce() (unlocked int, ok bool) {
	ok = true
	addrs := map[uintptr]bool{}
	snapshot(func(g grec) {
		if !g.understood || !g.tagged || !lockStates[string(g.status)] || staleLocked[g.id] {
			return
		}
		if string(g.status) != "sync.Mutex.Lock" {
			ok = false
			return
		}
		const mark = "internal/sync.(*Mutex).lockSlow(0x"
		k := bytes.Index(g.body, []byte(mark))
		if k < 0 {
			ok = false
			return
		}
		arg := g.body[k+len(mark):]
		e := bytes.IndexByte(arg, ')')
		if e <= 0 { // also refuses "0x...?" (a value the runtime is not sure about) via ParseUint below
			ok = false
			return
		}
		a, err := strconv.ParseUint(string(arg[:e]), 16, 64)
		if err != nil || a == 0 {
			ok = false
			return
		}
		addrs[uintptr(a)] = true
	})
	if !ok {
		return 0, false
	}
	list := make([]uintptr, 0, len(addrs))
	for a := range addrs {
		list = append(list, a)
	}
	sort.Slice(list, func(i, j int) bool { return list[i] < list[j] })
	for _, a := range list {
		// sync.Mutex{_ noCopy; mu isync.Mutex}: both start at the same address. The object is alive:
		// a goroutine is parked on it. It is locked: with every goroutine blocked, a waiter parked
		// on an unlocked mutex would have been woken by the Unlock that released it.
		mu := *(**sync.Mutex)(unsafe.Pointer(&a)) // the address comes from the runtime's own stack record
		mu.Unlock()
		unlocked++
	}
	return unlocked, true
}

// poison is called when a run ended in a hang and its goroutines could not be got moving again.
func poison(c *sim.Ctx) {
	if !poisonedFlag.Load() {
		poisonedFlag.Store(true)
		// one goroutine that is blocked for ever in a way that is not durable: the bubble never
		// counts as idle, so the runtime never reports the left-behind goroutines as a deadlock
		keepAlive.Lock()
		go keepAlive.Lock()
	}
	hangsLeft++
	_, _ = settle(c, never, 0)
	for _, id := range takeCensus().locked {
		staleLocked[id] = true
	}
}

func poisoned() bool { return poisonedFlag.Load() }

// exitWhenOutputWritten runs OUTSIDE the bubble (started by the test function before the worker
// loop). In a poisoned process the bubble cannot end; once the worker has written its complete
// result file the process has nothing left to do.
func exitWhenOutputWritten() {
	out := os.Getenv("JSIM_OUT")
	for {
		time.Sleep(5 * time.Millisecond)
		if out == "" || !poisonedFlag.Load() {
			continue
		}
		if b, err := os.ReadFile(out); err == nil && len(b) > 0 && json.Valid(b) {
			os.Exit(0)
		}
	}
}
