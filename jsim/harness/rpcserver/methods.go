package rpcserver

// The methods the harness registers on the real jsonrpc.Server, the description of their
// parameters that the oracle uses (written by hand, not derived from the server's reflection), and
// the recorder through which every handler reports its invocation and on which it parks.

import (
	"context"
	"encoding/json"
	"errors"
	"net/http"
	"sort"
	"strings"
	"sync"

	"github.com/NethermindEth/juno/jsonrpc"
)

type ptype uint8

const (
	tInt  ptype = iota // int64 by value
	tStr               // string by value
	tBool              // bool by value
	tPInt              // *int64
	tPStr              // *string
	tInts              // []int64
	tAny               // any
)

func (t ptype) String() string {
	if isS(t) {
		return sOf(t).name
	}
	if isV(t) {
		return vOf(t).name
	}
	return [...]string{"int", "string", "bool", "*int", "*string", "[]int", "any"}[t]
}

type pspec struct {
	name     string
	optional bool
	t        ptype
}

// how a handler answers
type retKind uint8

const (
	retArgs    retKind = iota // result {"m":name,"args":[...]}
	retIdent                  // result is the (single, any-typed) argument itself
	retNilIfc                 // result is a nil interface
	retNilPtr                 // result is a nil *T inside a non-nil interface
	retErr                    // *jsonrpc.Error{Code: codeFail, Data: {"m":name,"args":[...]}}
	retErrBare                // *jsonrpc.Error{Code: codeBare} without data
	retErrInt                 // jsonrpc.Err(jsonrpc.InternalError, "boom")
	retUnser                  // result is a value whose JSON encoding fails (a marshal method of it returns an error)
)

const (
	codeFail      = -32050
	codeBare      = 77
	codeCancelled = -32099
)

type mspec struct {
	name   string
	params []pspec
	ctx    bool
	ret    retKind
}

var methodTable = []mspec{
	{name: "m0"},
	{name: "m0ctx", ctx: true},
	{name: "echo1", params: []pspec{{"a", false, tInt}}},
	{name: "pair", ctx: true, params: []pspec{{"a", false, tInt}, {"b", false, tStr}}},
	{name: "opt2", params: []pspec{{"a", false, tInt}, {"b", true, tPInt}}},
	{name: "opt3", ctx: true, params: []pspec{{"s", false, tStr}, {"p", true, tPStr}, {"l", true, tInts}}},
	{name: "allopt", params: []pspec{{"n", true, tPInt}, {"flag", true, tBool}}},
	{name: "blob", params: []pspec{{"v", false, tAny}}},
	{name: "ident", params: []pspec{{"v", true, tAny}}, ret: retIdent},
	{name: "nilres", ret: retNilIfc},
	{name: "nilptr", params: []pspec{{"a", false, tInt}}, ret: retNilPtr},
	{name: "fail1", params: []pspec{{"a", false, tInt}}, ret: retErr},
	{name: "failbare", ctx: true, ret: retErrBare},
	{name: "failint", params: []pspec{{"s", false, tStr}}, ret: retErrInt},
	{name: "hdr3", params: []pspec{{"a", false, tInt}, {"b", true, tBool}}},
	// the two methods whose result cannot be serialised come last: the generator draws ordinary
	// methods from methodTable[:nPlainMethods] and substitutes one of these rarely
	{name: "unser", ctx: true, ret: retUnser},
	{name: "unser1", params: []pspec{{"a", false, tInt}}, ret: retUnser},
}

const nPlainMethods = 15

// unserTag occurs in the name of every method whose result cannot be serialised: an input that does
// not contain these bytes cannot reach them (one that contains them by accident is merely run with
// more care than it needs).
const unserTag = "unser"

func lookupMethod(name string) *mspec {
	for i := range methodTable {
		if methodTable[i].name == name {
			return &methodTable[i]
		}
	}
	if m := lookupSMethod(name); m != nil {
		return m // the methods with narrow, floating-point and named scalar parameters (scalar_types.go)
	}
	return lookupVMethod(name) // the methods with struct-typed, validated parameters (valid_types.go)
}

// ---- recorder ----------------------------------------------------------------------------

type invocation struct {
	method    string
	args      []*jv  // the decoded Go arguments, re-read by the oracle's own parser
	key       string // content-derived, clipped (for logs and for ordering the scheduler's options)
	full      string // content-derived, complete (equal iff the invocations are indistinguishable)
	cancelled bool   // the handler saw its context cancelled while parked
}

type parkedCall struct {
	inv     *invocation
	release chan struct{}
}

type recorder struct {
	mu     sync.Mutex
	invs   []*invocation
	parked []*parkedCall
	park   bool // scheduling class: handlers park until released
	broken string
	unser  int // how often the server tried to encode a result that cannot be serialised
}

func (r *recorder) noteUnser() {
	r.mu.Lock()
	r.unser++
	r.mu.Unlock()
}

func (r *recorder) unserCount() int {
	r.mu.Lock()
	defer r.mu.Unlock()
	return r.unser
}

func (r *recorder) record(ctx context.Context, m string, args ...any) *invocation {
	inv := &invocation{method: m}
	var sb, fb strings.Builder
	sb.WriteString(m)
	sb.WriteByte('(')
	fb.WriteString(m)
	for i, a := range args {
		b, err := json.Marshal(a)
		var v *jv
		if err == nil {
			v, err = parseExact(b)
		}
		if err != nil {
			r.mu.Lock()
			r.broken = "cannot re-read recorded argument: " + err.Error()
			r.mu.Unlock()
			v = jnull()
		}
		inv.args = append(inv.args, v)
		if i > 0 {
			sb.WriteByte(',')
		}
		cn := v.canon()
		sb.WriteString(clip(cn, 80))
		fb.WriteByte(0)
		fb.WriteString(cn)
	}
	sb.WriteByte(')')
	inv.key = sb.String()
	inv.full = fb.String()

	r.mu.Lock()
	r.invs = append(r.invs, inv)
	if !r.park {
		r.mu.Unlock()
		return inv
	}
	pc := &parkedCall{inv: inv, release: make(chan struct{})}
	r.parked = append(r.parked, pc)
	r.mu.Unlock()

	if ctx != nil {
		// at most one of the two is ever ready: the scheduler waits for quiescence between a
		// cancellation and the next release, and a cancelled parked call is never released.
		select {
		case <-pc.release:
		case <-ctx.Done():
			r.mu.Lock()
			inv.cancelled = true
			r.unparkLocked(pc)
			r.mu.Unlock()
		}
	} else {
		<-pc.release
	}
	return inv
}

func (r *recorder) unparkLocked(pc *parkedCall) {
	for i, q := range r.parked {
		if q == pc {
			r.parked = append(r.parked[:i], r.parked[i+1:]...)
			return
		}
	}
}

// parkedGroups: the parked calls grouped by content (calls with equal content are
// indistinguishable to every observer except through the id of the response they belong to, so
// they form ONE schedulable unit: releasing them one by one would make "which id was answered
// before the cancellation" depend on goroutine timing). Sorted by content.
func (r *recorder) parkedGroups() (full []string, show []string) {
	r.mu.Lock()
	defer r.mu.Unlock()
	set := map[string]string{}
	for _, p := range r.parked {
		set[p.inv.full] = p.inv.key
	}
	for k := range set {
		full = append(full, k)
	}
	sort.Strings(full)
	for _, k := range full {
		show = append(show, set[k])
	}
	return full, show
}

// releaseGroup releases every parked call with that content.
func (r *recorder) releaseGroup(full string) int {
	r.mu.Lock()
	defer r.mu.Unlock()
	n := 0
	keep := r.parked[:0]
	for _, p := range r.parked {
		if p.inv.full == full {
			close(p.release)
			n++
		} else {
			keep = append(keep, p)
		}
	}
	r.parked = keep
	return n
}

func (r *recorder) releaseAll() int {
	r.mu.Lock()
	defer r.mu.Unlock()
	n := len(r.parked)
	for _, p := range r.parked {
		close(p.release)
	}
	r.parked = nil
	return n
}

func (r *recorder) snapshot() []*invocation {
	r.mu.Lock()
	defer r.mu.Unlock()
	out := append([]*invocation(nil), r.invs...)
	sort.SliceStable(out, func(i, j int) bool {
		if out[i].full != out[j].full {
			return out[i].full < out[j].full
		}
		return !out[i].cancelled && out[j].cancelled
	})
	return out
}

// ---- handlers ----------------------------------------------------------------------------

type resT struct {
	X int `json:"x"`
}

// Results that cannot be serialised: encoding/json returns an error for them (it does not panic).
// The marshal methods run on the server's goroutine; they only count.
var errUnser = errors.New("jsim: this value cannot be serialised")

// badJSON fails as a whole.
type badJSON struct{ r *recorder }

func (b badJSON) MarshalJSON() ([]byte, error) {
	b.r.noteUnser()
	return nil, errUnser
}

// badText fails as a member of an otherwise ordinary result, after part of it was encoded.
type badText struct{ r *recorder }

func (b badText) MarshalText() ([]byte, error) {
	b.r.noteUnser()
	return nil, errUnser
}

func okResult(m string, args ...any) map[string]any {
	if args == nil {
		args = []any{}
	}
	return map[string]any{"m": m, "args": args}
}

func cancelledErr(m string) *jsonrpc.Error {
	return &jsonrpc.Error{Code: codeCancelled, Message: "cancelled", Data: m}
}

func register(s *jsonrpc.Server, r *recorder) error {
	if err := registerValid(s, r); err != nil {
		return err
	}
	if err := sConstCheck(); err != nil {
		return err
	}
	if err := registerScalar(s, r); err != nil {
		return err
	}
	return s.RegisterMethods(
		jsonrpc.Method{Name: "m0", Handler: func() (any, *jsonrpc.Error) {
			r.record(nil, "m0")
			return okResult("m0"), nil
		}},
		jsonrpc.Method{Name: "m0ctx", Handler: func(ctx context.Context) (any, *jsonrpc.Error) {
			if r.record(ctx, "m0ctx").cancelled {
				return nil, cancelledErr("m0ctx")
			}
			return okResult("m0ctx"), nil
		}},
		jsonrpc.Method{Name: "echo1", Params: []jsonrpc.Parameter{{Name: "a"}}, Handler: func(a int64) (any, *jsonrpc.Error) {
			r.record(nil, "echo1", a)
			return okResult("echo1", a), nil
		}},
		jsonrpc.Method{Name: "pair", Params: []jsonrpc.Parameter{{Name: "a"}, {Name: "b"}},
			Handler: func(ctx context.Context, a int64, b string) (any, *jsonrpc.Error) {
				if r.record(ctx, "pair", a, b).cancelled {
					return nil, cancelledErr("pair")
				}
				return okResult("pair", a, b), nil
			}},
		jsonrpc.Method{Name: "opt2", Params: []jsonrpc.Parameter{{Name: "a"}, {Name: "b", Optional: true}},
			Handler: func(a int64, b *int64) (any, *jsonrpc.Error) {
				r.record(nil, "opt2", a, b)
				return okResult("opt2", a, b), nil
			}},
		jsonrpc.Method{Name: "opt3", Params: []jsonrpc.Parameter{{Name: "s"}, {Name: "p", Optional: true}, {Name: "l", Optional: true}},
			Handler: func(ctx context.Context, s string, p *string, l []int64) (any, *jsonrpc.Error) {
				if r.record(ctx, "opt3", s, p, l).cancelled {
					return nil, cancelledErr("opt3")
				}
				return okResult("opt3", s, p, l), nil
			}},
		jsonrpc.Method{Name: "allopt", Params: []jsonrpc.Parameter{{Name: "n", Optional: true}, {Name: "flag", Optional: true}},
			Handler: func(n *int64, flag bool) (any, *jsonrpc.Error) {
				r.record(nil, "allopt", n, flag)
				return okResult("allopt", n, flag), nil
			}},
		jsonrpc.Method{Name: "blob", Params: []jsonrpc.Parameter{{Name: "v"}}, Handler: func(v any) (any, *jsonrpc.Error) {
			r.record(nil, "blob", v)
			return okResult("blob", v), nil
		}},
		jsonrpc.Method{Name: "ident", Params: []jsonrpc.Parameter{{Name: "v", Optional: true}}, Handler: func(v any) (any, *jsonrpc.Error) {
			r.record(nil, "ident", v)
			return v, nil
		}},
		jsonrpc.Method{Name: "nilres", Handler: func() (any, *jsonrpc.Error) {
			r.record(nil, "nilres")
			return nil, nil
		}},
		jsonrpc.Method{Name: "nilptr", Params: []jsonrpc.Parameter{{Name: "a"}}, Handler: func(a int64) (*resT, *jsonrpc.Error) {
			r.record(nil, "nilptr", a)
			return nil, nil
		}},
		jsonrpc.Method{Name: "fail1", Params: []jsonrpc.Parameter{{Name: "a"}}, Handler: func(a int64) (any, *jsonrpc.Error) {
			r.record(nil, "fail1", a)
			return nil, &jsonrpc.Error{Code: codeFail, Message: "fail1", Data: okResult("fail1", a)}
		}},
		jsonrpc.Method{Name: "failbare", Handler: func(ctx context.Context) (any, *jsonrpc.Error) {
			if r.record(ctx, "failbare").cancelled {
				return nil, cancelledErr("failbare")
			}
			return "ignored", &jsonrpc.Error{Code: codeBare, Message: "bare"}
		}},
		jsonrpc.Method{Name: "failint", Params: []jsonrpc.Parameter{{Name: "s"}}, Handler: func(s string) (any, *jsonrpc.Error) {
			r.record(nil, "failint", s)
			return nil, jsonrpc.Err(jsonrpc.InternalError, "boom")
		}},
		jsonrpc.Method{Name: "hdr3", Params: []jsonrpc.Parameter{{Name: "a"}, {Name: "b", Optional: true}},
			Handler: func(a int64, b bool) (any, http.Header, *jsonrpc.Error) {
				r.record(nil, "hdr3", a, b)
				return okResult("hdr3", a, b), http.Header{"X-Jsim": []string{"1"}}, nil
			}},
		jsonrpc.Method{Name: "unser", Handler: func(ctx context.Context) (any, *jsonrpc.Error) {
			if r.record(ctx, "unser").cancelled {
				return nil, cancelledErr("unser")
			}
			return badJSON{r}, nil
		}},
		jsonrpc.Method{Name: "unser1", Params: []jsonrpc.Parameter{{Name: "a"}}, Handler: func(a int64) (any, *jsonrpc.Error) {
			r.record(nil, "unser1", a)
			return map[string]any{"m": "unser1", "args": []any{a}, "zbad": badText{r}}, nil
		}},
	)
}
