package rpcserver

import (
	"context"
	"fmt"
	"os"
	"sort"
	"strconv"
	"strings"
	"testing"

	"github.com/NethermindEth/juno/jsonrpc"
	rpcv10 "github.com/NethermindEth/juno/rpc/v10"
	"github.com/NethermindEth/juno/utils/log"

	"jsim/tape"
)

// TestValidDev is a developer aid (JSIM_VDEV=<values per parameter type>): it shows what the generator
// of struct-typed parameter values produces per type (share that holds / is refused / is liberal /
// undecided, which rules get broken) and what the real server does with the values the oracle leaves
// undecided. It is not part of any check.
func TestValidDev(t *testing.T) {
	n, _ := strconv.Atoi(os.Getenv("JSIM_VDEV"))
	if n == 0 {
		t.Skip("JSIM_VDEV not set")
	}
	rec := &recorder{}
	srv := jsonrpc.NewServer(1, log.NewNopZapLogger()).WithValidator(rpcv10.Validator())
	if err := register(srv, rec); err != nil {
		t.Fatal(err)
	}
	for mi := range vMethodTable {
		m := &vMethodTable[mi]
		for pi, p := range m.params {
			if !isV(p.t) {
				continue
			}
			tally := map[string]int{}
			rules := map[string]int{}
			undWhat := map[string]int{}
			mism := 0
			for i := 0; i < n; i++ {
				g := &gen{t: tape.New(uint64(mi*1000003+pi*7919+i) + 12345), valid: true}
				val := g.vgood(p.t)
				// every other required parameter gets a value that holds (an all-zero tape)
				parts := []string{}
				for k, q := range m.params {
					switch {
					case k == pi:
						parts = append(parts, fmt.Sprintf("%q:%s", q.name, val))
					case !q.optional:
						z := &gen{t: tape.Replay(nil)}
						parts = append(parts, fmt.Sprintf("%q:%s", q.name, z.good(q.t)))
					}
				}
				req := `{"jsonrpc":"2.0","method":"` + m.name + `","params":{` + strings.Join(parts, ",") + `},"id":1}`
				cl := classifyInput([]byte(req))
				out, _, err := srv.HandleReader(context.Background(), strings.NewReader(req))
				if err != nil {
					t.Fatalf("%s: %v", req, err)
				}
				real := "call"
				if strings.Contains(string(out), `"code":-32602`) {
					real = "refused"
				} else if !strings.Contains(string(out), `"result"`) {
					real = "other:" + clip(string(out), 80)
				}
				var verdict string
				e := cl.cands[0].entries[0]
				switch {
				case cl.undecided != "":
					verdict = "undecided"
					undWhat[cl.undecided+" -> "+real]++
				case strings.HasPrefix(e.cls, "valid/"):
					verdict = "holds"
				case strings.HasPrefix(e.cls, "bad_params/"):
					verdict = "refused"
				default:
					verdict = "either"
				}
				tally[verdict]++
				for f := range e.feat {
					if strings.HasPrefix(f, "v_rule_broken:") || f == "v_decode_error" {
						rules[f]++
					}
				}
				if (verdict == "holds" && real != "call") || (verdict == "refused" && real != "refused") {
					mism++
					if mism <= 5 {
						fmt.Printf("  MISMATCH %s: oracle %s (%s), server %s\n    %s\n    %s\n", m.name, verdict, e.cls, real, req, clip(string(out), 300))
					}
				}
			}
			fmt.Printf("%-10s %-12s %v mismatches=%d\n    %v\n", m.name, p.name, tally, mism, rules)
			var us []string
			for k, v := range undWhat {
				us = append(us, fmt.Sprintf("      %4d  %s", v, k))
			}
			sort.Strings(us)
			for _, u := range us {
				fmt.Println(u)
			}
		}
	}
}
