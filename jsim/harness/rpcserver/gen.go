package rpcserver

// Input generator: grammar (request objects with every member present / missing / ill-typed,
// batches, other JSON values) plus byte-level mutation, arbitrary bytes, deep and long values.
// The generator only produces bytes; the oracle classifies the bytes on its own.

import (
	"fmt"
	"strings"

	"jsim/tape"
)

const maxInput = 4096

type gen struct {
	t       *tape.Tape
	biased  bool // scheduling class: prefer batches of valid calls
	sched   bool // scheduling class (completion order decided by the tape)
	allNote bool // this batch: every entry without id
	unser   bool // this input may call the methods whose result cannot be serialised
	valid   bool // this input may call the methods with struct-typed, validated parameters (valid_gen.go)
	scalar  bool // this input may call the methods with narrow / named scalar parameters (scalar_gen.go)
	vbytes  int  // bytes of struct-typed parameter values produced for this input so far
	idPool  int
}

func (g *gen) pick(label string, opts ...string) string { return opts[g.t.Draw(label, len(opts))] }

// ---- values --------------------------------------------------------------------------------

func (g *gen) strLit() string {
	var sb strings.Builder
	sb.WriteByte('"')
	n := g.t.Draw("strlen", 6)
	for i := 0; i < n; i++ {
		switch g.t.Draw("strpiece", 14) {
		case 0, 1, 2, 3, 4:
			sb.WriteByte(byte('a' + g.t.Draw("ch", 26)))
		case 5:
			sb.WriteString(`\"`)
		case 6:
			sb.WriteString(`\\`)
		case 7:
			sb.WriteString(`\n`)
		case 8:
			sb.WriteString(`é`)
		case 9:
			sb.WriteString("é")
		case 10:
			sb.WriteString(`😀`)
		case 11:
			sb.WriteString("<&>")
		case 12:
			sb.WriteString("  /\\/")
		case 13:
			if g.t.Chance("lone_surrogate", 1, 10) {
				sb.WriteString(`\ud800`)
			} else {
				sb.WriteString("0")
			}
		}
	}
	sb.WriteByte('"')
	return sb.String()
}

func (g *gen) intLit() string {
	switch g.t.Draw("intkind", 10) {
	case 0, 1, 2, 3, 4:
		return fmt.Sprint(g.t.Draw("small", 10))
	case 5:
		return fmt.Sprint(-1 - g.t.Draw("neg", 1000))
	case 6:
		return "9223372036854775807"
	case 7:
		return "-9223372036854775808"
	case 8:
		return fmt.Sprint(g.t.U64("u64") >> 1)
	default:
		return "-0"
	}
}

func (g *gen) oddNum() string {
	return g.pick("oddnum", "1.0", "2e0", "1.5", "-0.25", "1e2", "1E+2", "5e-1", "9223372036854775808", "1e999",
		"123456789012345678901234567890", "0.1e1", "1e-999", "0e0")
}

func (g *gen) value(depth int) string {
	k := g.t.Draw("vkind", 10)
	if depth >= 4 && k >= 8 {
		k = 0
	}
	switch k {
	case 0:
		return "null"
	case 1:
		return g.pick("bool", "true", "false")
	case 2, 3:
		return g.intLit()
	case 4:
		return g.oddNum()
	case 5, 6, 7:
		return g.strLit()
	case 8:
		n := g.t.Draw("arrlen", 4)
		parts := make([]string, n)
		for i := range parts {
			parts[i] = g.value(depth + 1)
		}
		return "[" + strings.Join(parts, ",") + "]"
	default:
		n := g.t.Draw("objlen", 4)
		parts := make([]string, n)
		names := []string{`"a"`, `"b"`, `"x"`, `"m"`, `"args"`, `"A"`, `""`, `"id"`}
		first := g.t.Draw("okey", len(names))
		for i := range parts {
			key := names[(first+i)%len(names)] // distinct within one object; duplicates are a separate, rare oddity
			if g.t.Chance("okey_rand", 1, 6) {
				key = g.strLit()
			}
			parts[i] = key + ":" + g.value(depth+1)
		}
		return "{" + strings.Join(parts, ",") + "}"
	}
}

func (g *gen) good(t ptype) string {
	if isS(t) {
		return g.sgood(t)
	}
	if isV(t) {
		return g.vgood(t)
	}
	switch t {
	case tInt:
		return g.intLit()
	case tStr:
		return g.strLit()
	case tBool:
		return g.pick("bool", "true", "false")
	case tPInt:
		if g.t.Chance("pnull", 1, 5) {
			return "null"
		}
		return g.intLit()
	case tPStr:
		if g.t.Chance("pnull", 1, 5) {
			return "null"
		}
		return g.strLit()
	case tInts:
		n := g.t.Draw("intslen", 4)
		parts := make([]string, n)
		for i := range parts {
			parts[i] = g.intLit()
		}
		return "[" + strings.Join(parts, ",") + "]"
	default:
		return g.value(0)
	}
}

func (g *gen) wrong(t ptype) string {
	if isS(t) {
		return g.swrong(t)
	}
	if isV(t) {
		return g.vwrong(t)
	}
	switch t {
	case tInt, tPInt:
		return g.pick("wrongint", `"5"`, "true", "[1]", "{}", "1.5", "9223372036854775808", `""`)
	case tStr, tPStr:
		return g.pick("wrongstr", "5", "true", `["a"]`, "{}", "0")
	case tBool:
		return g.pick("wrongbool", `"true"`, "1", "0", "[]", "{}")
	case tInts:
		return g.pick("wrongints", "5", `"x"`, `["a"]`, "{}", "[1,true]", "[1.5]", "[[1]]")
	default:
		return "1e999"
	}
}

// ---- params --------------------------------------------------------------------------------

func (g *gen) params(m *mspec) (string, bool) {
	np := len(m.params)
	req := 0
	for _, p := range m.params {
		if !p.optional {
			req++
		}
	}
	pos := func(n int, f func(i int) string) string {
		parts := make([]string, n)
		for i := range parts {
			parts[i] = f(i)
		}
		return "[" + strings.Join(parts, ",") + "]"
	}
	named := func(idx []int, f func(i int) string) string {
		parts := make([]string, 0, len(idx))
		for _, i := range idx {
			parts = append(parts, fmt.Sprintf("%q:%s", m.params[i].name, f(i)))
		}
		if len(parts) > 1 && g.t.Chance("named_shuffle", 1, 2) {
			k := g.t.Draw("rot", len(parts))
			parts = append(parts[k:], parts[:k]...)
		}
		return "{" + strings.Join(parts, ",") + "}"
	}
	goodAt := func(i int) string { return g.good(m.params[i].t) }
	switch mode := g.t.Draw("pmode", 16); mode {
	case 0, 1, 2, 3, 4: // good positional, trailing optionals possibly left out
		n := np
		if np > req && g.t.Chance("omit_tail", 1, 2) {
			n = req + g.t.Draw("keep_opt", np-req+1)
		}
		if n == 0 && g.t.Chance("no_params_member", 1, 2) {
			return "", false
		}
		return pos(n, goodAt), true
	case 5, 6, 7: // good named, optionals possibly left out
		var idx []int
		for i, p := range m.params {
			if !p.optional || !g.t.Chance("omit_named_opt", 1, 2) {
				idx = append(idx, i)
			}
		}
		return named(idx, goodAt), true
	case 8:
		return "", false
	case 9: // a required one missing
		if req == 0 {
			return "[]", true
		}
		drop := g.t.Draw("drop", req)
		if g.t.Chance("missing_named", 1, 2) {
			var idx []int
			for i := range m.params {
				if i != drop {
					idx = append(idx, i)
				}
			}
			return named(idx, goodAt), true
		}
		return pos(drop, goodAt), true
	case 10: // surplus
		if g.t.Chance("extra_named", 1, 2) {
			idx := make([]int, np)
			for i := range idx {
				idx[i] = i
			}
			s := named(idx, goodAt)
			extra := g.pick("extra_name", `"zz"`, `"A"`, `"B"`, `""`, `"a "`) + ":" + g.value(2)
			if s == "{}" {
				return "{" + extra + "}", true
			}
			return s[:len(s)-1] + "," + extra + "}", true
		}
		return pos(np+1+g.t.Draw("surplus", 2), func(i int) string {
			if i < np {
				return goodAt(i)
			}
			return g.value(2)
		}), true
	case 11: // wrong type somewhere
		if np == 0 {
			return g.pick("params0", "[1]", `{"a":1}`, "[null]"), true
		}
		bad := g.t.Draw("badpos", np)
		f := func(i int) string {
			if i == bad {
				return g.wrong(m.params[i].t)
			}
			return goodAt(i)
		}
		if g.t.Chance("wrong_named", 1, 2) {
			idx := make([]int, np)
			for i := range idx {
				idx[i] = i
			}
			return named(idx, f), true
		}
		return pos(np, f), true
	case 12:
		return g.pick("params_scalar", "null", "5", `"x"`, "true", "0", `""`), true
	case 13:
		return g.pick("params_empty", "[]", "{}"), true
	case 14: // explicit nulls
		f := func(i int) string {
			if g.t.Chance("null_arg", 2, 3) {
				return "null"
			}
			return goodAt(i)
		}
		if g.t.Chance("null_named", 1, 2) {
			idx := make([]int, np)
			for i := range idx {
				idx[i] = i
			}
			return named(idx, f), true
		}
		return pos(np, f), true
	default: // unusual spellings / arbitrary values
		f := func(i int) string {
			switch m.params[i].t {
			case tInt, tPInt:
				return g.oddNum()
			default:
				return g.value(1)
			}
		}
		return pos(np, f), true
	}
}

// ---- one request object ----------------------------------------------------------------------

func (g *gen) id() (string, bool) {
	if g.allNote {
		return "", false
	}
	mode := g.t.Draw("idmode", 16)
	switch mode {
	case 0, 1, 2, 3, 4, 5:
		return fmt.Sprint(1 + g.t.Draw("idn", g.idPool)), true
	case 6, 7, 14:
		return "", false
	case 8:
		return g.pick("idstr", `"a"`, `"b"`, `"req-1"`, `"1"`, `""`, `"null"`), true
	case 9:
		return "null", true
	case 10:
		return g.pick("idfrac", "1.5", "1.0", "1e2", "2E0", "0.5", "1e999", "-1.25e-3"), true
	case 11:
		return g.pick("idbad", "true", "false", "{}", "[]", "[1]", `{"id":1}`, `[null]`), true
	case 12:
		return g.pick("idint", "0", "-1", "-0", "9223372036854775807", "18446744073709551616", "123456789012345678901234567890"), true
	case 13:
		return g.strLit(), true
	default:
		return `"` + strings.Repeat(g.pick("idch", "x", "é", `\n`), 1+g.t.Draw("idlen", 40)) + `"`, true
	}
}

func caseVariant(s string) string {
	if s == "" {
		return "X"
	}
	return strings.ToUpper(s[:1]) + s[1:]
}

func (g *gen) request() string {
	type member struct{ k, v string }
	var ms []member

	// jsonrpc
	vm := g.t.Draw("vermode", 12)
	if g.biased && vm >= 9 && !g.t.Chance("biased_keep", 1, 4) {
		vm = 0
	}
	switch vm {
	case 9:
	case 10:
		ms = append(ms, member{"jsonrpc", g.pick("ver_wrong", `"1.0"`, `"2"`, `"2.00"`, `""`, `" 2.0"`, `"2.0 "`)})
	case 11:
		ms = append(ms, member{"jsonrpc", g.pick("ver_type", "2.0", "2", "null", "true", `["2.0"]`, `{"v":"2.0"}`)})
	default:
		ms = append(ms, member{"jsonrpc", `"2.0"`})
	}

	// method
	var m *mspec
	mm := g.t.Draw("methmode", 16)
	if g.biased && mm >= 10 && !g.t.Chance("biased_keep", 1, 4) {
		mm = 0
	}
	switch {
	case mm < 10:
		m = &methodTable[g.t.Draw("method", nPlainMethods)]
		if g.valid && g.vbytes < 2400 && g.t.Chance("valid_method", 3, 4) {
			m = &vMethodTable[g.t.Draw("vmethod", len(vMethodTable))]
			if g.vbytes > 900 && (m.name == "vsimulate" || m.name == "vnode") {
				m = &vMethodTable[0] // inputs are capped at 4 KiB: no second large value
			}
		}
		if g.scalar && g.t.Chance("scalar_method", 4, 5) {
			m = &sMethodTable[g.t.Draw("smethod", len(sMethodTable))]
		}
		if g.unser && g.t.Chance("unser_method", 1, 3) {
			m = &methodTable[nPlainMethods+g.t.Draw("unser_which", len(methodTable)-nPlainMethods)]
		}
		ms = append(ms, member{"method", fmt.Sprintf("%q", m.name)})
	case mm < 12:
		ms = append(ms, member{"method", g.pick("unknown", `"nope"`, `"rpc.discover"`, `"m1"`, `"m0 "`, `"echo"`, `"é"`)})
	case mm == 12:
		ms = append(ms, member{"method", `""`})
	case mm == 13:
	case mm == 14:
		ms = append(ms, member{"method", g.pick("meth_type", "1", "null", "true", `["m0"]`, `{"name":"m0"}`, "0")})
	default:
		ms = append(ms, member{"method", fmt.Sprintf("%q", caseVariant(methodTable[g.t.Draw("method", nPlainMethods)].name))})
	}

	// params
	if m != nil {
		if p, ok := g.params(m); ok {
			ms = append(ms, member{"params", p})
		}
	} else if g.t.Chance("params_for_unknown", 1, 2) {
		ms = append(ms, member{"params", g.pick("uparams", "[]", "[1,2]", `{"a":1}`, "null", "7", `"bar"`)})
	}

	// id
	if id, ok := g.id(); ok {
		ms = append(ms, member{"id", id})
	}

	// rare oddities
	if g.t.Chance("extra_member", 1, 12) {
		ms = append(ms, member{g.pick("extra_key", "extra", "result", "error", "version", "meta"), g.value(2)})
	}
	if len(ms) > 0 && g.t.Chance("dup_member", 1, 150) {
		d := ms[g.t.Draw("dup_which", len(ms))]
		if g.t.Chance("dup_other_value", 1, 2) {
			d.v = g.value(2)
		}
		ms = append(ms, d)
	}
	if len(ms) > 0 && g.t.Chance("case_member", 1, 150) {
		i := g.t.Draw("case_which", len(ms))
		ms[i].k = caseVariant(ms[i].k)
	}
	if len(ms) > 1 && g.t.Chance("shuffle_members", 1, 3) {
		k := g.t.Draw("rot", len(ms))
		ms = append(ms[k:], ms[:k]...)
		if g.t.Chance("swap01", 1, 2) {
			ms[0], ms[1] = ms[1], ms[0]
		}
	}

	colon, comma, open, closeb := ":", ",", "{", "}"
	switch g.t.Draw("ws_style", 6) {
	case 4:
		colon, comma = ": ", ", "
	case 5:
		colon, comma, open, closeb = " :\t", ",\n  ", "{\n  ", "\n}"
	}
	parts := make([]string, len(ms))
	for i, x := range ms {
		parts[i] = fmt.Sprintf("%q%s%s", x.k, colon, x.v)
	}
	return open + strings.Join(parts, comma) + closeb
}

func (g *gen) batch() string {
	var n int
	switch s := g.t.Draw("batch_size_class", 12); {
	case s < 7:
		n = 1 + g.t.Draw("batch_n", 5)
	case s < 10:
		n = 4 + g.t.Draw("batch_n", 9) // up to 12
	case s == 10:
		n = 0
	default:
		n = 1
	}
	g.idPool = 3 + g.t.Draw("id_pool", 3)*5
	g.allNote = g.t.Chance("all_notifications", 1, 7)
	defer func() { g.allNote = false }()
	parts := make([]string, n)
	for i := range parts {
		if !g.biased && g.t.Chance("non_object_entry", 1, 8) {
			parts[i] = g.pick("entry_other", "1", `"x"`, "null", "[]", "[1,2]", "true", "{}", `[{"jsonrpc":"2.0","method":"m0","id":9}]`, "[[]]")
		} else {
			parts[i] = g.request()
		}
	}
	sep := ","
	if g.t.Chance("batch_ws", 1, 4) {
		sep = " ,\n "
	}
	return "[" + strings.Join(parts, sep) + "]"
}

func (g *gen) bytes() string {
	n := g.t.Draw("nbytes", 48)
	b := make([]byte, n)
	for i := range b {
		b[i] = byte(g.t.U64("byte"))
	}
	return string(b)
}

var soupTokens = []string{"{", "}", "[", "]", ":", ",", `"jsonrpc"`, `"2.0"`, `"method"`, `"m0"`, `"id"`, "1", "null",
	`"params"`, " ", `"`, "\n", "true", "-", "0", "1e", `\`, "\x00", "\xef\xbb\xbf", "//", "'a'", "NaN", "01", ".5", "tru"}

func (g *gen) soup() string {
	n := g.t.Draw("nsoup", 24)
	var sb strings.Builder
	for i := 0; i < n; i++ {
		sb.WriteString(soupTokens[g.t.Draw("soup", len(soupTokens))])
	}
	return sb.String()
}

func (g *gen) topOther() string {
	return g.pick("top_other", "42", `"x"`, "null", "true", "false", "0", "-1.5e3", `""`, "[]", "{}", "[[]]", "[{}]", "[null]",
		"[1,2,3]", `["jsonrpc"]`, " ", "", "\n\t", `{"":""}`, "[[[[[]]]]]", `{"jsonrpc":"2.0"}`, `[1]`)
}

func (g *gen) deep() string {
	d := 10 + g.t.Draw("depth", 1200)
	switch g.t.Draw("deep_kind", 8) {
	case 0: // deep array as an any parameter
		return `{"jsonrpc":"2.0","method":"blob","params":[` + strings.Repeat("[", d) + strings.Repeat("]", d) + `],"id":1}`
	case 1: // deep object as an any parameter (named)
		if d > 600 {
			d = 600
		}
		return `{"jsonrpc":"2.0","method":"ident","params":{"v":` + strings.Repeat(`{"a":`, d) + "1" + strings.Repeat("}", d) + `},"id":"deep"}`
	case 2: // deep array as the id
		return `{"jsonrpc":"2.0","method":"m0","id":` + strings.Repeat("[", d) + strings.Repeat("]", d) + `}`
	case 3: // a batch that is a deep nest of arrays
		return strings.Repeat("[", d) + strings.Repeat("]", d)
	case 4: // long string id
		return `{"jsonrpc":"2.0","method":"m0","id":"` + strings.Repeat("x", 3*d) + `"}`
	case 5: // long method name
		return `{"jsonrpc":"2.0","method":"` + strings.Repeat("m", 3*d) + `","id":2}`
	case 6: // long string argument, named
		return `{"jsonrpc":"2.0","method":"pair","params":{"b":"` + strings.Repeat("é", d) + `","a":7},"id":3}`
	default: // deep value for a parameter that is not `any`
		return `{"jsonrpc":"2.0","method":"echo1","params":[` + strings.Repeat("[", d) + strings.Repeat("]", d) + `],"id":4}`
	}
}

func (g *gen) mutate(s string) string {
	b := []byte(s)
	n := 1 + g.t.Draw("nmut", 3)
	for i := 0; i < n; i++ {
		if len(b) == 0 {
			b = append(b, byte(g.t.U64("byte")))
			continue
		}
		p := g.t.Draw("mutpos", len(b))
		switch g.t.Draw("mutkind", 8) {
		case 0: // delete one byte
			b = append(b[:p], b[p+1:]...)
		case 1: // truncate
			b = b[:p]
		case 2: // replace with a random byte
			b[p] = byte(g.t.U64("byte"))
		case 3: // insert a structural character
			const insChars = `{}[]",:\ 0-e.`
			c := insChars[g.t.Draw("ins", len(insChars))]
			b = append(b[:p], append([]byte{c}, b[p:]...)...)
		case 4: // duplicate a slice
			q := p + g.t.Draw("duplen", 12)
			if q > len(b) {
				q = len(b)
			}
			b = append(b[:q], append(append([]byte(nil), b[p:q]...), b[q:]...)...)
		case 5: // delete a slice
			q := p + g.t.Draw("dellen", 12)
			if q > len(b) {
				q = len(b)
			}
			b = append(b[:p], b[q:]...)
		case 6: // flip a bit
			b[p] ^= 1 << g.t.Draw("bit", 8)
		default: // swap with neighbour
			if p+1 < len(b) {
				b[p], b[p+1] = b[p+1], b[p]
			}
		}
	}
	return string(b)
}

// input produces one input and a coarse label of the generator class (for the sample only).
func (g *gen) input() ([]byte, string) {
	g.idPool = 6
	top := g.t.Draw("top", 16)
	if g.biased {
		top = 5 + g.t.Draw("top_biased", 5)
		if g.t.Chance("biased_single", 1, 6) {
			top = 0
		}
	}
	// Rarely the input may call a method whose result cannot be serialised: in single requests in
	// every class, in batches only where the tape decides the completion order (what a server does
	// after a failed serialisation may depend on which entry finishes first; with free-running
	// handlers that order would be a goroutine race and a violation would not replay).
	if top <= 4 || top == 14 || (g.sched && top >= 5 && top <= 10) {
		g.unser = g.t.Chance("unser_input", 1, 8)
	}
	var s, label string
	switch {
	case top <= 4:
		s, label = g.request(), "single"
	case top <= 9:
		s, label = g.batch(), "batch"
	case top == 10:
		s, label = g.mutate(g.batch()), "mutated_batch"
	case top == 11:
		s, label = g.bytes(), "bytes"
	case top == 12:
		s, label = g.soup(), "soup"
	case top == 13:
		s, label = g.topOther(), "other_value"
	case top == 14:
		s, label = g.mutate(g.request()), "mutated_single"
	default:
		s, label = g.deep(), "deep_or_long"
	}
	// white space around the message (the length classes straddle the server's read-ahead size)
	if g.t.Chance("lead_ws", 1, 10) {
		n := []int{1, 2, 64, 127, 128, 129, 300}[g.t.Draw("lead_ws_n", 7)]
		s = strings.Repeat(g.pick("ws_ch", " ", "\n", "\t", "\r\n"), n) + s
		label += "+lead_ws"
	}
	if g.t.Chance("trail", 1, 16) {
		s += g.pick("trail_what", " ", "\n", "  \n\t", "x", "{}", ",", "]", `{"jsonrpc":"2.0","method":"m0","id":99}`, "\x00")
		label += "+trail"
	}
	if len(s) > maxInput {
		s = s[:maxInput]
		label += "+cut"
	}
	return []byte(s), label
}
