package rpcserver

// Methods whose parameters are structs carrying `validate:"..."` tags (property C11, anchor
// rpc/v10/validator.go and the parameter-validation path of jsonrpc/server.go: parseParam ->
// validateParam). The server of every run is built WithValidator(rpcv10.Validator()), as node.go
// builds it; only these methods have parameters the validator looks at.
//
// This file holds the Go parameter types, a hand-written description of them (the "schema": field
// names, JSON names, kinds and the text of every validate tag - what the oracle reads; it is NOT
// derived from the Go types by reflection, only compared with them once per process so that a slip
// of the pen ends as machinery trouble and not as a false alarm), the method table, the handlers,
// and the conversion of a handler's arguments into the form in which invocations are recorded.

import (
	"context"
	"encoding/json"
	"fmt"
	"reflect"
	"sort"
	"strconv"
	"strings"
	"sync"

	"github.com/NethermindEth/juno/core"
	"github.com/NethermindEth/juno/core/felt"
	"github.com/NethermindEth/juno/jsonrpc"
	"github.com/NethermindEth/juno/rpc/rpccore"
	rpcv10 "github.com/NethermindEth/juno/rpc/v10"
)

// ---- the harness's own parameter types ----------------------------------------------------------
// (tags of the kinds rpc/v10 uses: required, min/max, dive, oneof, required_if/excluded_unless...,
// omitempty, version_0x3, felt_max_bits; plus a few more of the documented ones)

type vLeaf struct {
	Name  string  `json:"name" validate:"required,min=2,max=8"`
	Count uint64  `json:"count" validate:"min=1,max=100"`
	Mode  string  `json:"mode" validate:"omitempty,oneof=fast slow"`
	Level int64   `json:"level" validate:"oneof=-1 0 3 7"`
	Note  *string `json:"note" validate:"omitempty,max=4"`
	Flag  bool    `json:"flag"`
}

type vNode struct {
	ID    uint64           `json:"id" validate:"required"`
	Leaf  vLeaf            `json:"leaf"`
	Opt   *vLeaf           `json:"opt"`
	Must  *vLeaf           `json:"must" validate:"required"`
	Items []vLeaf          `json:"items" validate:"max=3,dive"`
	Tags  []string         `json:"tags" validate:"required,min=1,dive,required,max=3"`
	ByKey map[string]vLeaf `json:"by_key" validate:"omitempty,max=2,dive"`
	Ptrs  []*vLeaf         `json:"ptrs" validate:"dive"`
	Codes []uint64         `json:"codes" validate:"omitempty,dive,gte=10,lt=20"`
}

// vTx: the conditional tags and the custom validations of rpc/v10's Transaction on a smaller struct,
// with the real TransactionType, felt.Felt and ResourceBounds
type vTx struct {
	Type       rpcv10.TransactionType `json:"type" validate:"required"`
	Version    *felt.Felt             `json:"version" validate:"required,version_0x3"`
	Nonce      felt.Felt              `json:"nonce" validate:"felt_max_bits=64"`
	Salt       *felt.Felt             `json:"salt" validate:"required_if=Type DEPLOY,required_if=Type DEPLOY_ACCOUNT"`
	Sender     *felt.Felt             `json:"sender" validate:"required_if=Type DECLARE,required_if=Type INVOKE"`
	Calldata   *[]felt.Felt           `json:"calldata" validate:"required_if=Type INVOKE"`
	ProofFacts *[]felt.Felt           `json:"proof_facts" validate:"excluded_unless=Type INVOKE"`
	Bounds     *rpcv10.ResourceBounds `json:"bounds" validate:"required"`
	Tip        *felt.Felt             `json:"tip" validate:"omitempty,felt_max_bits=8"`
	Memo       string                 `json:"memo" validate:"excluded_if=Type L1_HANDLER"`
}

type vCond struct {
	Kind string   `json:"kind" validate:"required,oneof=a b c"`
	A    string   `json:"a" validate:"required_if=Kind a"`
	B    *uint64  `json:"b" validate:"required_unless=Kind a"`
	C    string   `json:"c" validate:"excluded_if=Kind c"`
	D    []uint64 `json:"d" validate:"excluded_unless=Kind b"`
	With string   `json:"with" validate:"required_with=D"`
	Wo   string   `json:"wo" validate:"required_without=B"`
	N    int64    `json:"n" validate:"gte=-5,lte=5,ne=0"`
	L    []string `json:"l" validate:"omitempty,len=2"`
	E    uint64   `json:"e" validate:"eq=7|eq=9"`
	G    uint64   `json:"g" validate:"omitempty,gt=2,lt=9"`
	P    string   `json:"p" validate:"omitempty,base64"`
}

// ---- the schema ---------------------------------------------------------------------------------

type vkind uint8

const (
	vkStruct   vkind = iota
	vkPtr            // *T
	vkSlice          // []T
	vkArray          // [n]T
	vkMap            // map[string]T
	vkString         // string (also core.Base64)
	vkUint           // uint64
	vkInt            // int64
	vkBool           // bool
	vkFelt           // felt.Felt, felt.Address: the JSON string "0x<hex>"; the validator sees it through the custom type function as that string
	vkEnum           // a type decoded from a fixed set of JSON strings (TransactionType, DataAvailabilityMode)
	vkBlockID        // rpcv10.BlockID: a tag string, {"block_hash":felt} or {"block_number":n}; no exported fields, no tags
	vkAddrList       // rpcv10.AddressList: null, one address, or a list of addresses
	vkLimit          // rpccore.LimitSlice[T, L]: a JSON array; a struct {Data []T `validate:"dive"`} for the validator
)

type vfield struct {
	goName   string
	jsonName string
	t        *vtype
	tags     string // the text of the validate tag
	embedded bool   // anonymous struct field: its members are members of the enclosing JSON object
}

type vtype struct {
	k      vkind
	name   string
	elem   *vtype
	n      int // array length
	fields []vfield
	enum   []string // vkEnum: the accepted strings; enum[0] is what the zero value is called
	custom bool     // vkEnum: the validator sees the value through a custom type function (as its name)
	alias  []string // vkEnum: strings juno also accepts although the specification does not list them

	parsed [][]vtag // per field: the parsed tags (filled on first use)
}

func vstruct(name string, f ...vfield) *vtype { return &vtype{k: vkStruct, name: name, fields: f} }
func vf(goName, jsonName string, t *vtype, tags string) vfield {
	return vfield{goName: goName, jsonName: jsonName, t: t, tags: tags}
}
func vemb(goName string, t *vtype) vfield { return vfield{goName: goName, t: t, embedded: true} }
func vptr(t *vtype) *vtype              { return &vtype{k: vkPtr, name: "*" + t.name, elem: t} }
func vslice(t *vtype) *vtype            { return &vtype{k: vkSlice, name: "[]" + t.name, elem: t} }
func varray(n int, t *vtype) *vtype {
	return &vtype{k: vkArray, name: fmt.Sprintf("[%d]%s", n, t.name), elem: t, n: n}
}
func vmap(t *vtype) *vtype   { return &vtype{k: vkMap, name: "map[string]" + t.name, elem: t} }
func vlimit(t *vtype) *vtype { return &vtype{k: vkLimit, name: "LimitSlice[" + t.name + "]", elem: t} }

var (
	vtString   = &vtype{k: vkString, name: "string"}
	vtUint     = &vtype{k: vkUint, name: "uint64"}
	vtInt      = &vtype{k: vkInt, name: "int64"}
	vtBool     = &vtype{k: vkBool, name: "bool"}
	vtFelt     = &vtype{k: vkFelt, name: "felt"}
	vtTxType   = &vtype{k: vkEnum, name: "TransactionType", custom: true, enum: []string{"<unknown>", "DECLARE", "DEPLOY", "DEPLOY_ACCOUNT", "INVOKE", "L1_HANDLER"}, alias: []string{"INVOKE_FUNCTION"}}
	vtDAMode   = &vtype{k: vkEnum, name: "DataAvailabilityMode", enum: []string{"L1", "L2"}}
	vtBlockID  = &vtype{k: vkBlockID, name: "BlockID"}
	vtAddrList = &vtype{k: vkAddrList, name: "AddressList", elem: vtFelt}

	vtLeaf = vstruct("vLeaf",
		vf("Name", "name", vtString, "required,min=2,max=8"),
		vf("Count", "count", vtUint, "min=1,max=100"),
		vf("Mode", "mode", vtString, "omitempty,oneof=fast slow"),
		vf("Level", "level", vtInt, "oneof=-1 0 3 7"),
		vf("Note", "note", vptr(vtString), "omitempty,max=4"),
		vf("Flag", "flag", vtBool, ""),
	)
	vtNode = vstruct("vNode",
		vf("ID", "id", vtUint, "required"),
		vf("Leaf", "leaf", vtLeaf, ""),
		vf("Opt", "opt", vptr(vtLeaf), ""),
		vf("Must", "must", vptr(vtLeaf), "required"),
		vf("Items", "items", vslice(vtLeaf), "max=3,dive"),
		vf("Tags", "tags", vslice(vtString), "required,min=1,dive,required,max=3"),
		vf("ByKey", "by_key", vmap(vtLeaf), "omitempty,max=2,dive"),
		vf("Ptrs", "ptrs", vslice(vptr(vtLeaf)), "dive"),
		vf("Codes", "codes", vslice(vtUint), "omitempty,dive,gte=10,lt=20"),
	)
	// rpc/v10 transaction_types.go
	vtResourceBounds = vstruct("ResourceBounds",
		vf("MaxAmount", "max_amount", vptr(vtFelt), "required,felt_max_bits=64"),
		vf("MaxPricePerUnit", "max_price_per_unit", vptr(vtFelt), "required,felt_max_bits=128"),
	)
	vtResourceBoundsMap = vstruct("ResourceBoundsMap",
		vf("L1Gas", "l1_gas", vtResourceBounds, "required"),
		vf("L2Gas", "l2_gas", vtResourceBounds, "required"),
		vf("L1DataGas", "l1_data_gas", vtResourceBounds, "required"),
	)
	vtTx = vstruct("vTx",
		vf("Type", "type", vtTxType, "required"),
		vf("Version", "version", vptr(vtFelt), "required,version_0x3"),
		vf("Nonce", "nonce", vtFelt, "felt_max_bits=64"),
		vf("Salt", "salt", vptr(vtFelt), "required_if=Type DEPLOY,required_if=Type DEPLOY_ACCOUNT"),
		vf("Sender", "sender", vptr(vtFelt), "required_if=Type DECLARE,required_if=Type INVOKE"),
		vf("Calldata", "calldata", vptr(vslice(vtFelt)), "required_if=Type INVOKE"),
		vf("ProofFacts", "proof_facts", vptr(vslice(vtFelt)), "excluded_unless=Type INVOKE"),
		vf("Bounds", "bounds", vptr(vtResourceBounds), "required"),
		vf("Tip", "tip", vptr(vtFelt), "omitempty,felt_max_bits=8"),
		vf("Memo", "memo", vtString, "excluded_if=Type L1_HANDLER"),
	)
	vtCond = vstruct("vCond",
		vf("Kind", "kind", vtString, "required,oneof=a b c"),
		vf("A", "a", vtString, "required_if=Kind a"),
		vf("B", "b", vptr(vtUint), "required_unless=Kind a"),
		vf("C", "c", vtString, "excluded_if=Kind c"),
		vf("D", "d", vslice(vtUint), "excluded_unless=Kind b"),
		vf("With", "with", vtString, "required_with=D"),
		vf("Wo", "wo", vtString, "required_without=B"),
		vf("N", "n", vtInt, "gte=-5,lte=5,ne=0"),
		vf("L", "l", vslice(vtString), "omitempty,len=2"),
		vf("E", "e", vtUint, "eq=7|eq=9"),
		vf("G", "g", vtUint, "omitempty,gt=2,lt=9"),
		vf("P", "p", vtString, "omitempty,base64"),
	)
	// rpc/v10 events.go
	vtEventFilter = vstruct("EventFilter",
		vf("FromBlock", "from_block", vptr(vtBlockID), ""),
		vf("ToBlock", "to_block", vptr(vtBlockID), ""),
		vf("Address", "address", vtAddrList, ""),
		vf("Keys", "keys", vslice(vslice(vtFelt)), ""),
	)
	vtResultPageRequest = vstruct("ResultPageRequest",
		vf("ContinuationToken", "continuation_token", vtString, ""),
		vf("ChunkSize", "chunk_size", vtUint, "min=1"),
	)
	vtEventArgs = vstruct("EventArgs", vemb("EventFilter", vtEventFilter), vemb("ResultPageRequest", vtResultPageRequest))
	// rpc/v10 transaction_types.go
	vtTransaction = vstruct("Transaction",
		vf("Hash", "transaction_hash", vptr(vtFelt), ""),
		vf("Type", "type", vtTxType, "required"),
		vf("Version", "version", vptr(vtFelt), "required,version_0x3"),
		vf("Nonce", "nonce", vptr(vtFelt), "required"),
		vf("MaxFee", "max_fee", vptr(vtFelt), ""),
		vf("ContractAddress", "contract_address", vptr(vtFelt), ""),
		vf("ContractAddressSalt", "contract_address_salt", vptr(vtFelt), "required_if=Type DEPLOY,required_if=Type DEPLOY_ACCOUNT"),
		vf("ClassHash", "class_hash", vptr(vtFelt), "required_if=Type DEPLOY,required_if=Type DEPLOY_ACCOUNT"),
		vf("ConstructorCallData", "constructor_calldata", vptr(vslice(vtFelt)), "required_if=Type DEPLOY,required_if=Type DEPLOY_ACCOUNT"),
		vf("SenderAddress", "sender_address", vptr(vtFelt), "required_if=Type DECLARE,required_if=Type INVOKE"),
		vf("Signature", "signature", vptr(vslice(vtFelt)), "required"),
		vf("CallData", "calldata", vptr(vslice(vtFelt)), "required_if=Type INVOKE"),
		vf("EntryPointSelector", "entry_point_selector", vptr(vtFelt), ""),
		vf("CompiledClassHash", "compiled_class_hash", vptr(vtFelt), ""),
		vf("ResourceBounds", "resource_bounds", vptr(vtResourceBoundsMap), "required"),
		vf("Tip", "tip", vptr(vtFelt), "required"),
		vf("PaymasterData", "paymaster_data", vptr(vslice(vtFelt)), "required"),
		vf("AccountDeploymentData", "account_deployment_data", vptr(vslice(vtFelt)), "required_if=Type INVOKE,required_if=Type DECLARE"),
		vf("NonceDAMode", "nonce_data_availability_mode", vptr(vtDAMode), "required"),
		vf("FeeDAMode", "fee_data_availability_mode", vptr(vtDAMode), "required"),
		vf("ProofFacts", "proof_facts", vptr(vslice(vtFelt)), "excluded_unless=Type INVOKE"),
	)
	vtContractClassEntryPoint = vstruct("ContractClassEntryPoint",
		vf("Index", "function_idx", vptr(vtUint), "required"),
		vf("Selector", "selector", vptr(vtFelt), "required"),
	)
	vtContractClassEntryPoints = vstruct("ContractClassEntryPoints",
		vf("Constructor", "CONSTRUCTOR", vslice(vtContractClassEntryPoint), "required"),
		vf("External", "EXTERNAL", vslice(vtContractClassEntryPoint), "required"),
		vf("L1Handler", "L1_HANDLER", vslice(vtContractClassEntryPoint), "required"),
	)
	vtContractClass = vstruct("ContractClass",
		vf("SierraProgram", "sierra_program", vslice(vtFelt), "required"),
		vf("ContractClassVersion", "contract_class_version", vtString, "required"),
		vf("EntryPoints", "entry_points_by_type", vtContractClassEntryPoints, "required"),
		vf("ABI", "abi", vtString, ""),
	)
	vtBroadcasted = vstruct("BroadcastedTransaction",
		vemb("Transaction", vtTransaction),
		vf("ContractClass", "contract_class", vptr(vtContractClass), "required_if=Transaction.Type DECLARE"),
		vf("Proof", "proof", vtString, "excluded_unless=Type INVOKE,omitempty,base64"),
	)
)

// the parameter types of the validated methods; ptype tVBase+i stands for vParamTypes[i]
const tVBase ptype = 32

var vParamTypes = []*vtype{
	vtLeaf,                        // 0
	vptr(vtLeaf),                  // 1
	vslice(vtLeaf),                // 2
	vslice(vptr(vtLeaf)),          // 3
	vmap(vtLeaf),                  // 4
	vmap(vptr(vtLeaf)),            // 5
	varray(2, vtLeaf),             // 6
	vtNode,                        // 7
	vslice(vslice(vtLeaf)),        // 8
	vmap(vslice(vtLeaf)),          // 9
	vtTx,                          // 10
	vtCond,                        // 11
	vtResourceBounds,              // 12
	vptr(vtResourceBoundsMap),     // 13
	vslice(vptr(vtResourceBounds)), // 14
	vptr(vtBlockID),               // 15
	vtEventArgs,                   // 16
	vlimit(vtBroadcasted),         // 17
	vptr(vtNode),                  // 18
	vmap(vtResourceBounds),        // 19
}

// the Go types that belong to them (compared with the schema by vSchemaCheck)
var vGoTypes = []reflect.Type{
	reflect.TypeOf(vLeaf{}),
	reflect.TypeOf((*vLeaf)(nil)),
	reflect.TypeOf([]vLeaf(nil)),
	reflect.TypeOf([]*vLeaf(nil)),
	reflect.TypeOf(map[string]vLeaf(nil)),
	reflect.TypeOf(map[string]*vLeaf(nil)),
	reflect.TypeOf([2]vLeaf{}),
	reflect.TypeOf(vNode{}),
	reflect.TypeOf([][]vLeaf(nil)),
	reflect.TypeOf(map[string][]vLeaf(nil)),
	reflect.TypeOf(vTx{}),
	reflect.TypeOf(vCond{}),
	reflect.TypeOf(rpcv10.ResourceBounds{}),
	reflect.TypeOf((*rpcv10.ResourceBoundsMap)(nil)),
	reflect.TypeOf([]*rpcv10.ResourceBounds(nil)),
	reflect.TypeOf((*rpcv10.BlockID)(nil)),
	reflect.TypeOf(rpcv10.EventArgs{}),
	reflect.TypeOf(rpcv10.BroadcastedTransactionInputs{}),
	reflect.TypeOf((*vNode)(nil)),
	reflect.TypeOf(map[string]rpcv10.ResourceBounds(nil)),
}

const (
	tvLeaf ptype = tVBase + iota
	tvLeafPtr
	tvLeaves
	tvLeafPtrs
	tvLeafMap
	tvLeafPtrMap
	tvLeafArr
	tvNode
	tvGrid
	tvMapOfSlices
	tvTx
	tvCond
	tvBounds
	tvBoundsMapPtr
	tvBoundsPtrs
	tvBlockIDPtr
	tvEventArgs
	tvTxInputs
	tvNodePtr
	tvBoundsByName
)

func isV(t ptype) bool     { return t >= tVBase && t < tSBase }
func vOf(t ptype) *vtype   { return vParamTypes[t-tVBase] }
func (m *mspec) isV() bool { return strings.HasPrefix(m.name, "v") && lookupVMethod(m.name) == m }

// ---- the methods --------------------------------------------------------------------------------

var vMethodTable = []mspec{
	{name: "vleaf", params: []pspec{{"p", false, tvLeaf}}},
	{name: "vleafp", ctx: true, params: []pspec{{"p", false, tvLeafPtr}, {"q", true, tvLeafPtr}}},
	{name: "vleaves", params: []pspec{{"l", false, tvLeaves}}},
	{name: "vptrs", params: []pspec{{"l", false, tvLeafPtrs}, {"m", true, tvLeafPtrMap}}},
	{name: "vmap", ctx: true, params: []pspec{{"m", false, tvLeafMap}}},
	{name: "varr", params: []pspec{{"a", false, tvLeafArr}}},
	{name: "vnode", params: []pspec{{"n", false, tvNode}, {"o", true, tvNodePtr}}},
	{name: "vgrid", params: []pspec{{"g", false, tvGrid}, {"mm", true, tvMapOfSlices}}},
	{name: "vmix", ctx: true, params: []pspec{{"a", false, tInt}, {"p", false, tvLeaf}, {"s", true, tPStr}}},
	{name: "vtx", params: []pspec{{"tx", false, tvTx}}},
	{name: "vcond", params: []pspec{{"c", false, tvCond}}},
	{name: "vbounds", params: []pspec{{"b", false, tvBounds}, {"m", true, tvBoundsMapPtr}}},
	{name: "vboundsl", ctx: true, params: []pspec{{"l", false, tvBoundsPtrs}, {"by_name", true, tvBoundsByName}}},
	{name: "vevents", params: []pspec{{"filter", false, tvEventArgs}}},
	{name: "vsimulate", ctx: true, params: []pspec{{"block_id", false, tvBlockIDPtr}, {"transactions", false, tvTxInputs}}},
	{name: "vblock", params: []pspec{{"block_id", true, tvBlockIDPtr}}},
}

func lookupVMethod(name string) *mspec {
	for i := range vMethodTable {
		if vMethodTable[i].name == name {
			return &vMethodTable[i]
		}
	}
	return nil
}

func vParamList(m *mspec) []jsonrpc.Parameter {
	out := make([]jsonrpc.Parameter, len(m.params))
	for i, p := range m.params {
		out[i] = jsonrpc.Parameter{Name: p.name, Optional: p.optional}
	}
	return out
}

// handlers: every argument is recorded (and echoed) in its wire form
func vh1[A any](r *recorder, name string) any {
	return func(a A) (any, *jsonrpc.Error) {
		w := []any{wireOf(a)}
		r.record(nil, name, w...)
		return okResult(name, w...), nil
	}
}

func vh2[A, B any](r *recorder, name string) any {
	return func(a A, b B) (any, *jsonrpc.Error) {
		w := []any{wireOf(a), wireOf(b)}
		r.record(nil, name, w...)
		return okResult(name, w...), nil
	}
}

func vh1c[A any](r *recorder, name string) any {
	return func(ctx context.Context, a A) (any, *jsonrpc.Error) {
		w := []any{wireOf(a)}
		if r.record(ctx, name, w...).cancelled {
			return nil, cancelledErr(name)
		}
		return okResult(name, w...), nil
	}
}

func vh2c[A, B any](r *recorder, name string) any {
	return func(ctx context.Context, a A, b B) (any, *jsonrpc.Error) {
		w := []any{wireOf(a), wireOf(b)}
		if r.record(ctx, name, w...).cancelled {
			return nil, cancelledErr(name)
		}
		return okResult(name, w...), nil
	}
}

func vh3c[A, B, C any](r *recorder, name string) any {
	return func(ctx context.Context, a A, b B, c C) (any, *jsonrpc.Error) {
		w := []any{wireOf(a), wireOf(b), wireOf(c)}
		if r.record(ctx, name, w...).cancelled {
			return nil, cancelledErr(name)
		}
		return okResult(name, w...), nil
	}
}

func registerValid(s *jsonrpc.Server, r *recorder) error {
	if err := vSchemaCheck(); err != nil {
		return err
	}
	handlers := map[string]any{
		"vleaf":     vh1[vLeaf](r, "vleaf"),
		"vleafp":    vh2c[*vLeaf, *vLeaf](r, "vleafp"),
		"vleaves":   vh1[[]vLeaf](r, "vleaves"),
		"vptrs":     vh2[[]*vLeaf, map[string]*vLeaf](r, "vptrs"),
		"vmap":      vh1c[map[string]vLeaf](r, "vmap"),
		"varr":      vh1[[2]vLeaf](r, "varr"),
		"vnode":     vh2[vNode, *vNode](r, "vnode"),
		"vgrid":     vh2[[][]vLeaf, map[string][]vLeaf](r, "vgrid"),
		"vmix":      vh3c[int64, vLeaf, *string](r, "vmix"),
		"vtx":       vh1[vTx](r, "vtx"),
		"vcond":     vh1[vCond](r, "vcond"),
		"vbounds":   vh2[rpcv10.ResourceBounds, *rpcv10.ResourceBoundsMap](r, "vbounds"),
		"vboundsl":  vh2c[[]*rpcv10.ResourceBounds, map[string]rpcv10.ResourceBounds](r, "vboundsl"),
		"vevents":   vh1[rpcv10.EventArgs](r, "vevents"),
		"vsimulate": vh2c[*rpcv10.BlockID, rpcv10.BroadcastedTransactionInputs](r, "vsimulate"),
		"vblock":    vh1[*rpcv10.BlockID](r, "vblock"),
	}
	ms := make([]jsonrpc.Method, 0, len(vMethodTable))
	for i := range vMethodTable {
		m := &vMethodTable[i]
		h, ok := handlers[m.name]
		if !ok {
			return fmt.Errorf("validated method %s has no handler", m.name)
		}
		ht := reflect.TypeOf(h)
		off := 0
		if m.ctx {
			off = 1
		}
		if ht.NumIn() != len(m.params)+off {
			return fmt.Errorf("validated method %s: handler takes %d arguments, the table says %d", m.name, ht.NumIn()-off, len(m.params))
		}
		for k, p := range m.params {
			if isV(p.t) && ht.In(k+off) != vGoTypes[p.t-tVBase] {
				return fmt.Errorf("validated method %s: parameter %s is a %s, the table says %s", m.name, p.name, ht.In(k+off), vGoTypes[p.t-tVBase])
			}
		}
		ms = append(ms, jsonrpc.Method{Name: m.name, Params: vParamList(m), Handler: h})
	}
	return s.RegisterMethods(ms...)
}

// ---- wire form ----------------------------------------------------------------------------------

var (
	rtFelt     = reflect.TypeOf(felt.Felt{})
	rtAddress  = reflect.TypeOf(felt.Address{})
	rtTxType   = reflect.TypeOf(rpcv10.TransactionType(0))
	rtDAMode   = reflect.TypeOf(rpcv10.DataAvailabilityMode(0))
	rtBlockID  = reflect.TypeOf(rpcv10.BlockID{})
	rtBase64   = reflect.TypeOf(core.Base64(""))
	rtAddrList = reflect.TypeOf(rpcv10.AddressList(nil))
)

// wireOf turns an argument a handler received into plain data (maps, slices, strings, numbers, nil)
// by walking its fields: no marshalling method of the value is involved. A struct becomes an object
// with ALL its exported fields under their JSON names (members of embedded structs as members of the
// enclosing object), a nil pointer, slice or map becomes null.
func wireOf(a any) any { return wireVal(reflect.ValueOf(a)) }

func wireVal(v reflect.Value) any {
	if !v.IsValid() {
		return nil
	}
	switch v.Type() {
	case rtFelt:
		f := v.Interface().(felt.Felt)
		return f.String()
	case rtAddress:
		f := felt.Felt(v.Interface().(felt.Address))
		return f.String()
	case rtTxType:
		return v.Interface().(rpcv10.TransactionType).String()
	case rtDAMode:
		switch v.Interface().(rpcv10.DataAvailabilityMode) {
		case rpcv10.DAModeL1:
			return "L1"
		case rpcv10.DAModeL2:
			return "L2"
		}
		return "?"
	case rtBlockID:
		b := v.Interface().(rpcv10.BlockID)
		switch {
		case b.IsLatest():
			return "latest"
		case b.IsPreConfirmed():
			return "pre_confirmed"
		case b.IsL1Accepted():
			return "l1_accepted"
		case b.IsHash():
			return map[string]any{"block_hash": b.Hash().String()}
		case b.IsNumber():
			return map[string]any{"block_number": json.Number(strconv.FormatUint(b.Number(), 10))}
		}
		return "?"
	}
	switch v.Kind() {
	case reflect.Pointer:
		if v.IsNil() {
			return nil
		}
		return wireVal(v.Elem())
	case reflect.Struct:
		out := map[string]any{}
		wireFields(v, out)
		return out
	case reflect.Slice:
		if v.IsNil() {
			return nil
		}
		fallthrough
	case reflect.Array:
		out := make([]any, v.Len())
		for i := range out {
			out[i] = wireVal(v.Index(i))
		}
		return out
	case reflect.Map:
		if v.IsNil() {
			return nil
		}
		out := map[string]any{}
		for _, k := range v.MapKeys() {
			out[k.String()] = wireVal(v.MapIndex(k))
		}
		return out
	case reflect.String:
		return v.String()
	case reflect.Bool:
		return v.Bool()
	case reflect.Int, reflect.Int8, reflect.Int16, reflect.Int32, reflect.Int64:
		return json.Number(strconv.FormatInt(v.Int(), 10))
	case reflect.Uint, reflect.Uint8, reflect.Uint16, reflect.Uint32, reflect.Uint64:
		return json.Number(strconv.FormatUint(v.Uint(), 10))
	}
	return "?unsupported " + v.Type().String()
}

func wireFields(v reflect.Value, out map[string]any) {
	t := v.Type()
	for i := 0; i < t.NumField(); i++ {
		f := t.Field(i)
		if !f.IsExported() {
			continue
		}
		if f.Anonymous && f.Type.Kind() == reflect.Struct {
			wireFields(v.Field(i), out)
			continue
		}
		out[jsonNameOf(f)] = wireVal(v.Field(i))
	}
}

func jsonNameOf(f reflect.StructField) string {
	n := f.Tag.Get("json")
	if k := strings.IndexByte(n, ','); k >= 0 {
		n = n[:k]
	}
	if n == "" {
		return f.Name
	}
	return n
}

// ---- schema against Go types --------------------------------------------------------------------

var (
	vSchemaOnce sync.Once
	vSchemaErr  error
)

// vSchemaCheck compares the hand-written schema with the Go types once per process: names, JSON
// names and kinds of all of them, and the tag text of the harness's own types (the tag text of the
// rpc/v10 types is NOT compared: the schema says what the rules of the pinned revision are, and a
// revision with other rules is to be judged against them).
func vSchemaCheck() error {
	vSchemaOnce.Do(func() {
		if len(vParamTypes) != len(vGoTypes) {
			vSchemaErr = fmt.Errorf("schema: %d parameter types, %d Go types", len(vParamTypes), len(vGoTypes))
			return
		}
		var errs []string
		for i := range vParamTypes {
			vCompare(vParamTypes[i], vGoTypes[i], fmt.Sprintf("#%d", i), &errs, map[*vtype]bool{})
		}
		if len(errs) > 0 {
			sort.Strings(errs)
			vSchemaErr = fmt.Errorf("schema does not describe the Go types: %s", strings.Join(errs, "; "))
		}
	})
	return vSchemaErr
}

func vCompare(t *vtype, g reflect.Type, at string, errs *[]string, seen map[*vtype]bool) {
	bad := func(f string, a ...any) { *errs = append(*errs, at+": "+fmt.Sprintf(f, a...)) }
	switch t.k {
	case vkPtr:
		if g.Kind() != reflect.Pointer {
			bad("schema pointer, Go %s", g)
			return
		}
		vCompare(t.elem, g.Elem(), at+"*", errs, seen)
	case vkSlice:
		if g.Kind() != reflect.Slice || g == rtAddrList {
			bad("schema slice, Go %s", g)
			return
		}
		vCompare(t.elem, g.Elem(), at+"[]", errs, seen)
	case vkArray:
		if g.Kind() != reflect.Array || g.Len() != t.n || g == rtFelt || g == rtAddress {
			bad("schema array of %d, Go %s", t.n, g)
			return
		}
		vCompare(t.elem, g.Elem(), at+"[]", errs, seen)
	case vkMap:
		if g.Kind() != reflect.Map || g.Key().Kind() != reflect.String {
			bad("schema map[string], Go %s", g)
			return
		}
		vCompare(t.elem, g.Elem(), at+"{}", errs, seen)
	case vkString:
		if g.Kind() != reflect.String {
			bad("schema string, Go %s", g)
		}
	case vkUint:
		if g.Kind() != reflect.Uint64 {
			bad("schema uint64, Go %s", g)
		}
	case vkInt:
		if g.Kind() != reflect.Int64 {
			bad("schema int64, Go %s", g)
		}
	case vkBool:
		if g.Kind() != reflect.Bool {
			bad("schema bool, Go %s", g)
		}
	case vkFelt:
		if g != rtFelt && g != rtAddress {
			bad("schema felt, Go %s", g)
		}
	case vkEnum:
		if (t == vtTxType) != (g == rtTxType) || (t == vtDAMode) != (g == rtDAMode) {
			bad("schema %s, Go %s", t.name, g)
		}
	case vkBlockID:
		if g != rtBlockID {
			bad("schema BlockID, Go %s", g)
		}
	case vkAddrList:
		if g != rtAddrList {
			bad("schema AddressList, Go %s", g)
		}
	case vkLimit:
		if g.Kind() != reflect.Struct || g.NumField() != 1 || g.Field(0).Name != "Data" || g.Field(0).Type.Kind() != reflect.Slice ||
			!strings.HasPrefix(g.Name(), "LimitSlice[") || g.PkgPath() != reflect.TypeOf(rpccore.SimulationLimit{}).PkgPath() {
			bad("schema LimitSlice, Go %s", g)
			return
		}
		vCompare(t.elem, g.Field(0).Type.Elem(), at+".Data[]", errs, seen)
	case vkStruct:
		if g.Kind() != reflect.Struct || g.Name() != t.name {
			bad("schema struct %s, Go %s", t.name, g)
			return
		}
		if seen[t] {
			return
		}
		seen[t] = true
		own := g.PkgPath() == reflect.TypeOf(vLeaf{}).PkgPath()
		var exported []reflect.StructField
		for i := 0; i < g.NumField(); i++ {
			if g.Field(i).IsExported() {
				exported = append(exported, g.Field(i))
			}
		}
		if len(exported) != len(t.fields) {
			bad("%s: schema has %d fields, Go has %d", t.name, len(t.fields), len(exported))
			return
		}
		for i, f := range t.fields {
			gf := exported[i]
			where := at + "." + f.goName
			if gf.Name != f.goName || gf.Anonymous != f.embedded {
				*errs = append(*errs, fmt.Sprintf("%s: Go field is %s (embedded %v)", where, gf.Name, gf.Anonymous))
				continue
			}
			if !f.embedded && jsonNameOf(gf) != f.jsonName {
				*errs = append(*errs, fmt.Sprintf("%s: JSON name %q, Go says %q", where, f.jsonName, jsonNameOf(gf)))
			}
			if own && gf.Tag.Get("validate") != f.tags {
				*errs = append(*errs, fmt.Sprintf("%s: tags %q, Go says %q", where, f.tags, gf.Tag.Get("validate")))
			}
			vCompare(f.t, gf.Type, where, errs, seen)
		}
	}
}
