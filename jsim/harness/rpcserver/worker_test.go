package rpcserver

import (
	"testing"

	"jsim/sim"
)

func TestWorker(t *testing.T) {
	// outside the bubble: lets a process in which a run ended in a hang (goroutines that can never be
	// joined, see wait.go) leave once its result file is written
	go exitWhenOutputWritten()
	sim.WorkerMain(t, map[string]sim.Harness{
		"C11": C11,
	}, map[string]sim.Options{
		// one synctest bubble per worker process: the scheduling class of runs parks handlers and
		// advances a fake clock; the other classes call the server synchronously inside the same bubble.
		"C11": {Bubble: true, PanicIsViolation: true},
	})
}
