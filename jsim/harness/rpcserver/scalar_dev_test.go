package rpcserver

import (
	"context"
	"fmt"
	"os"
	"sort"
	"strconv"
	"strings"
	"testing"

	"github.com/NethermindEth/juno/jsonrpc"
	rpcv10 "github.com/NethermindEth/juno/rpc/v10"
	"github.com/NethermindEth/juno/utils/log"

	"jsim/tape"
)

// TestScalarDev is a developer aid (JSIM_SDEV=<values per parameter>): per scalar-typed parameter it
// shows what share of the generated values the oracle accepts / refuses / leaves open, judges the
// real server's answer to each (named and positional) with the oracle, and lists what the server
// does with the values that are left open or undecided. It is not part of any check.
func TestScalarDev(t *testing.T) {
	n, _ := strconv.Atoi(os.Getenv("JSIM_SDEV"))
	if n == 0 {
		t.Skip("JSIM_SDEV not set")
	}
	for mi := range sMethodTable {
		m := &sMethodTable[mi]
		for pi, p := range m.params {
			if !isS(p.t) {
				continue
			}
			tally := map[string]int{}
			open := map[string]int{}
			mism := 0
			for i := 0; i < n; i++ {
				g := &gen{t: tape.New(uint64(mi*1000003+pi*7919+i) + 999), scalar: true}
				val := g.sgood(p.t)
				if i%4 == 3 {
					val = g.swrong(p.t)
				}
				var named, pos []string
				for k, q := range m.params {
					switch {
					case k == pi:
						named = append(named, fmt.Sprintf("%q:%s", q.name, val))
						pos = append(pos, val)
					case !q.optional || k < pi:
						z := &gen{t: tape.Replay(nil)}
						zv := z.good(q.t)
						if isS(q.t) {
							zv = z.sAccepted(sOf(q.t).b)
							if sOf(q.t).f == sfSlice {
								zv = "[" + zv + "]"
							}
						}
						named = append(named, fmt.Sprintf("%q:%s", q.name, zv))
						pos = append(pos, zv)
					}
				}
				for form, params := range map[string]string{"named": "{" + strings.Join(named, ",") + "}", "pos": "[" + strings.Join(pos, ",") + "]"} {
					req := `{"jsonrpc":"2.0","method":"` + m.name + `","params":` + params + `,"id":1}`
					cl := classifyInput([]byte(req))
					rec := &recorder{}
					srv := jsonrpc.NewServer(1, log.NewNopZapLogger()).WithValidator(rpcv10.Validator())
					if err := register(srv, rec); err != nil {
						t.Fatal(err)
					}
					out, _, err := srv.HandleReader(context.Background(), strings.NewReader(req))
					if err != nil {
						t.Fatalf("%s: %v", req, err)
					}
					real := "call"
					if strings.Contains(string(out), `"code":-32602`) {
						real = "refused"
					} else if !strings.Contains(string(out), `"result"`) {
						real = "other:" + clip(string(out), 80)
					}
					e := cl.cands[0].entries[0]
					var verdict string
					switch {
					case cl.undecided != "":
						verdict = "undecided"
						open[cl.undecided+" -> "+real]++
					case strings.HasPrefix(e.cls, "valid/"):
						verdict = "accepted"
					case strings.HasPrefix(e.cls, "bad_params/"):
						verdict = "refused"
					default:
						verdict = "either"
						var why []string
						for f := range e.feat {
							if strings.HasPrefix(f, "s_either:") {
								why = append(why, f)
							}
						}
						sort.Strings(why)
						open[strings.Join(why, ",")+" -> "+real]++
					}
					if form == "named" {
						tally[verdict]++
					}
					if cl.undecided != "" {
						continue
					}
					obs := &observed{out: out, invs: rec.snapshot()}
					if v := readOutput(obs); v != nil {
						t.Fatalf("%s: %s", req, v.detail)
					}
					if v, _, _, _ := judge(cl.cands, obs); v != nil {
						mism++
						if mism <= 8 {
							fmt.Printf("  MISMATCH %s:%s oracle %s (%s), server %s\n    %s\n    %s\n", v.class, v.key, verdict, e.cls, real, req, clip(string(out), 300))
						}
					}
				}
			}
			fmt.Printf("%-10s %-18s %-14s %v mismatches=%d\n", m.name, p.name, p.t, tally, mism)
			var us []string
			for k, v := range open {
				us = append(us, fmt.Sprintf("      %4d  %s", v, k))
			}
			sort.Strings(us)
			for _, u := range us {
				fmt.Println(u)
			}
		}
	}
}
