package rpcserver

// Generator of values for the scalar-typed parameters of scalar_types.go: values inside each type's
// range / accepted set, the boundaries on both sides (255/256, 65535/65536, -129/-128/127/128, 2^31,
// 2^32, 2^53+1), negative numbers for unsigned types, fractions and exponent spellings, numbers as
// strings and strings as numbers, other JSON kinds, null, unknown enum spellings and other letter
// cases. The generator only produces text; what each value must lead to is decided by
// scalar_classify.go from the value alone.

import (
	"fmt"
	"strings"
)

// numbers every integer type is tried with (besides its own boundaries)
var sIntLandmarks = []string{
	"255", "256", "257", "513", "65535", "65536", "66049", "-129", "-128", "127", "128", "-1", "-256",
	"2147483647", "2147483648", "-2147483648", "-2147483649", "4294967295", "4294967296", "4294967297",
	"9007199254740993", "9223372036854775807", "-9223372036854775808", "9223372036854775808",
	"18446744073709551615", "18446744073709551616",
}

// spellings of numbers that are not plain integers
var sNumForms = []string{
	"1.5", "-1.5", "0.5", "1e2", "1E+2", "1.0", "2e0", "0.0", "-0", "0.5e1", "100e-2", "255.0", "2.56e2", "6.5536e4",
	"1e999", "0e999", "1e-999", "-1e999",
}

// JSON values of another kind than a number
var sNotNumbers = []string{
	`"5"`, `"255"`, `"0"`, `"-1"`, `"1e2"`, `"1.5"`, `""`, `"0x1"`, `"LOW"`, `"abc"`, "true", "false", "[1]", "[]", "{}", `{"a":1}`, "[[2]]",
}

var sFloatGood = []string{
	"0", "1", "-1", "1.5", "-0.25", "1e2", "2.5E+3", "0.1", "3.141592653589793", "1e308", "-1e-7", "5e-324", "9007199254740992", "-0", "100",
}

var sFloatOdd = []string{
	"9007199254740993", "123456789012345678901234567890", "1e309", "-1e309", "1e999", "-1e999", "1e-999", "0e999", "1.7976931348623157e308", "1.8e308",
}

func (g *gen) sInRange(bi *sbinfo) string {
	switch g.t.Draw("s_in_kind", 8) {
	case 0, 1:
		return fmt.Sprint(g.t.Draw("s_small", 10))
	case 2:
		return fmt.Sprint(bi.max)
	case 3:
		return fmt.Sprint(bi.min)
	case 4:
		return fmt.Sprint(bi.max - 1)
	case 5:
		if bi.min < 0 {
			return fmt.Sprint(-1 - int64(g.t.Draw("s_neg", 100)))
		}
		return "1"
	default:
		span := uint64(bi.max-bi.min) + 1
		return fmt.Sprint(bi.min + int64(g.t.U64("s_rand")%span))
	}
}

func (g *gen) sHexDigits(n int, alphabet string) string {
	var sb strings.Builder
	for i := 0; i < n; i++ {
		sb.WriteByte(alphabet[g.t.Draw("s_hexdigit", len(alphabet))])
	}
	return sb.String()
}

func caseMix(s string, how int) string {
	switch how {
	case 0:
		return strings.ToLower(s)
	case 1:
		return s[:1] + strings.ToLower(s[1:])
	default:
		return strings.ToLower(s[:1]) + s[1:]
	}
}

// sAccepted: a value the base type certainly takes
func (g *gen) sAccepted(b sbase) string {
	bi := &sBases[b]
	switch {
	case bi.isInt:
		return g.sInRange(bi)
	case b == sbFloat64:
		return g.pick("s_float_good", sFloatGood...)
	case b == sbHex:
		if g.t.Chance("s_hex_fixed", 1, 3) {
			return g.pick("s_hex_good", `"0x0"`, `"0x1a"`, `"0xdeadbeef"`, `"0xffffffff"`, `"0x00000000"`)
		}
		return `"0x` + g.sHexDigits(1+g.t.Draw("s_hexlen", 8), "0123456789abcdef") + `"`
	case b == sbEven:
		if g.t.Chance("s_even_fixed", 1, 2) {
			return g.pick("s_even_good", "0", "2", "100", "65534", "256", "4096")
		}
		return fmt.Sprint(2 * g.t.Draw("s_even_half", 32768))
	case b == sbUnit:
		return g.pick("s_unit_good", `"WEI"`, `"FRI"`, "1", "2")
	default:
		return `"` + bi.enum[g.t.Draw("s_enum_good", len(bi.enum))] + `"`
	}
}

// sOdd: a value from the neighbourhood of what the base type takes: most are refused, some are
// accepted, some are in the zone where both are defensible
func (g *gen) sOdd(b sbase) string {
	bi := &sBases[b]
	switch {
	case bi.isInt:
		switch g.t.Draw("s_odd_int", 10) {
		case 0, 1:
			return g.pick("s_own_boundary", fmt.Sprint(bi.max), fmt.Sprint(bi.max+1), fmt.Sprint(bi.min), fmt.Sprint(bi.min-1),
				fmt.Sprint(2*(bi.max+1)+1), fmt.Sprint(bi.max+1+(bi.max+1)/2))
		case 2, 3, 4:
			return g.pick("s_landmark", sIntLandmarks...)
		case 5, 6:
			return g.pick("s_numform", sNumForms...)
		case 7:
			// a value a conversion from int64 would wrap into the range
			span := bi.max - bi.min + 1
			k := int64(1 + g.t.Draw("s_wrap_k", 3))
			if g.t.Chance("s_wrap_down", 1, 3) {
				k = -k
			}
			return fmt.Sprint(k*span + bi.min + int64(g.t.Draw("s_wrap_off", 20)))
		case 8:
			return "null"
		default:
			return g.pick("s_notnum", sNotNumbers...)
		}
	case b == sbFloat64:
		switch g.t.Draw("s_odd_float", 6) {
		case 0, 1, 2:
			return g.pick("s_float_odd", sFloatOdd...)
		case 3:
			return g.pick("s_landmark", sIntLandmarks...)
		case 4:
			return "null"
		default:
			return g.pick("s_notnum", sNotNumbers...)
		}
	case b == sbHex:
		switch g.t.Draw("s_odd_hex", 8) {
		case 0, 1:
			return g.pick("s_hex_bad", `"0x"`, `"0X1"`, `"0xDEAD"`, `"0x123456789"`, `"1a"`, `""`, `"0xg"`, `" 0x1"`, `"0x1 "`, `"0x1\n"`, `"0x-1"`, `"x1"`, `"0x1A"`, `"0xff"`)
		case 2:
			return `"0x` + g.sHexDigits(1+g.t.Draw("s_hexlen", 10), "0123456789abcdefABCDEFg ") + `"`
		case 3:
			return g.pick("s_hex_number", "26", "0", "1", "255", "-1", "1.5", "4294967295")
		case 4:
			return "null"
		case 5:
			return g.pick("s_hex_kind", "true", "false", `["0x1"]`, "[]", "{}", `{"h":"0x1"}`)
		default:
			return g.strLit()
		}
	case b == sbEven:
		switch g.t.Draw("s_odd_even", 8) {
		case 0, 1:
			return g.pick("s_even_bad", "1", "3", "65535", "65536", "65537", "65538", "131072", "131074", "4294967298", "-2", "-0", "2.0", "1e2", "2e0", "20e-1", "18446744073709551618")
		case 2:
			return fmt.Sprint(2*g.t.Draw("s_even_half", 40000) + 1)
		case 3:
			return g.pick("s_landmark", sIntLandmarks...)
		case 4:
			return "null"
		case 5:
			return g.pick("s_even_str", `"2"`, `"0"`, `"two"`, `""`, `"65534"`)
		default:
			return g.pick("s_even_kind", "true", "false", "[2]", "[]", "{}", `{"e":2}`)
		}
	default: // enum-like
		switch g.t.Draw("s_odd_enum", 10) {
		case 0, 1:
			return `"` + caseMix(bi.enum[g.t.Draw("s_enum_good", len(bi.enum))], g.t.Draw("s_case_how", 3)) + `"`
		case 2:
			e := bi.enum[g.t.Draw("s_enum_good", len(bi.enum))]
			return g.pick("s_enum_near", `"`+e+` "`, `" `+e+`"`, `"`+e+`S"`, `"`+e[:len(e)-1]+`"`, `"`+e+`\u0000"`, `"`+e+`\n"`, `"\"`+e+`\""`)
		case 3:
			return g.pick("s_enum_other", `""`, `"NONE"`, `"UNKNOWN"`, `"ACCEPTED_ON_L1"`, `"REJECTED"`, `"SKIP_EXECUTE"`, `"HIGHEST"`, `"GWEI"`, `"null"`, `"0"`, `"1"`, `"2"`, `"3"`, `"4"`)
		case 4, 5:
			// numbers: the values of the type's constants, their neighbours, and what wraps onto them
			return g.pick("s_enum_number", "0", "1", "2", "3", "4", "5", "6", "255", "256", "257", "258", "259", "260", "-1", "1.0", "2e0", "1.5",
				"4294967297", "4294967298", "4294967299", "18446744073709551617")
		case 6:
			return "null"
		case 7:
			e := bi.enum[g.t.Draw("s_enum_good", len(bi.enum))]
			return g.pick("s_enum_kind", `["`+e+`"]`, `{"`+e+`":1}`, "[]", "{}", "true", "false")
		case 8:
			if len(bi.other) > 0 {
				return `"` + bi.other[g.t.Draw("s_enum_wider", len(bi.other))] + `"`
			}
			return g.strLit()
		default:
			return g.strLit()
		}
	}
}

func (g *gen) sBaseValue(b sbase, goodNum, goodDen int) string {
	if g.t.Chance("s_accepted", goodNum, goodDen) {
		return g.sAccepted(b)
	}
	return g.sOdd(b)
}

// sgood: what the generator puts where it wants "a value for this parameter": for a scalar-typed
// parameter about half of them are values the type takes, the rest comes from their neighbourhood
func (g *gen) sgood(pt ptype) string {
	t := sOf(pt)
	switch t.f {
	case sfPtr:
		if g.t.Chance("s_ptr_null", 1, 6) {
			return "null"
		}
	case sfSlice:
		switch g.t.Draw("s_slice_kind", 12) {
		case 0:
			return "null"
		case 1:
			return "[]"
		case 2:
			return g.pick("s_slice_notarr", "5", `"x"`, "{}", "true", `{"0":1}`, `"LOW"`, `"0x1"`, `"AQID"`, `""`, `"BQ=="`, `"AwQF"`, `"received"`, `"AQI="`)
		}
		n := 1 + g.t.Draw("s_slice_len", 4)
		parts := make([]string, n)
		for i := range parts {
			parts[i] = g.sBaseValue(t.b, 5, 6)
		}
		return "[" + strings.Join(parts, ",") + "]"
	}
	return g.sBaseValue(t.b, 1, 2)
}

// swrong: a value that is meant to be refused (whether it is, the oracle decides)
func (g *gen) swrong(pt ptype) string {
	t := sOf(pt)
	if t.f == sfSlice && g.t.Chance("s_wrong_element", 2, 3) {
		n := 1 + g.t.Draw("s_slice_len", 3)
		bad := g.t.Draw("s_bad_at", n)
		parts := make([]string, n)
		for i := range parts {
			if i == bad {
				parts[i] = g.sOdd(t.b)
			} else {
				parts[i] = g.sAccepted(t.b)
			}
		}
		return "[" + strings.Join(parts, ",") + "]"
	}
	return g.sOdd(t.b)
}
