package rpcserver

// The oracle's reading of a value supplied for a struct-typed parameter: does it decode into the
// parameter's type (encoding/json's documented rules), does the decoded value satisfy every rule its
// validate tags state (the documented meaning of each tag: go-playground/validator doc.go; for the
// two tags and the custom type functions registered by rpc/v10/validator.go, their doc comments),
// and what must the handler be given. The validator itself is never called from here.
//
// Three answers per value: fits (the handler must be called with exactly that value), does not fit
// (-32602, no handler call), or both defensible (encoding/json is more liberal than "a value of that
// type": unknown members, null for a by-value member, 1e2 for an integer, array length). Where the
// documents do not settle what a rule means for a value the answer is "undecided": the run is then
// only checked for no-crash/no-hang/well-formed output.

import (
	"math/big"
	"sort"
	"strconv"
	"strings"
	"unicode"
	"unicode/utf8"
)

const tcUnd tcheck = 3 // outside what the documents decide

// ---- tags ---------------------------------------------------------------------------------------

type vtag struct {
	name, param string
	or          []vtag // further alternatives joined by '|'
}

func parseTags(s string) []vtag {
	if s == "" {
		return nil
	}
	var out []vtag
	for _, part := range strings.Split(s, ",") {
		alts := strings.Split(part, "|")
		var first vtag
		for i, a := range alts {
			t := vtag{name: a}
			if k := strings.IndexByte(a, '='); k >= 0 {
				t.name, t.param = a[:k], a[k+1:]
			}
			if i == 0 {
				first = t
			} else {
				first.or = append(first.or, t)
			}
		}
		out = append(out, first)
	}
	return out
}

func (t *vtype) fieldTags(i int) []vtag {
	if t.parsed == nil {
		t.parsed = make([][]vtag, len(t.fields))
		for k := range t.fields {
			t.parsed[k] = parseTags(t.fields[k].tags)
		}
	}
	return t.parsed[i]
}

// ---- model values ---------------------------------------------------------------------------------

type mval struct {
	t    *vtype
	null bool     // nil pointer, nil slice, nil map
	n    *big.Int // uint, int, felt, block number / block hash
	s    string   // string; enum: the name; BlockID: "", latest, pre_confirmed, l1_accepted, hash, number
	b    bool
	ptr  *mval
	el   []*mval  // slice and array elements, map values, struct fields (schema order)
	keys []string // map keys
}

func vzero(t *vtype) *mval {
	m := &mval{t: t}
	switch t.k {
	case vkStruct:
		for _, f := range t.fields {
			m.el = append(m.el, vzero(f.t))
		}
	case vkPtr, vkSlice, vkMap, vkAddrList:
		m.null = true
	case vkArray:
		for i := 0; i < t.n; i++ {
			m.el = append(m.el, vzero(t.elem))
		}
	case vkUint, vkInt, vkFelt:
		m.n = new(big.Int)
	case vkEnum:
		m.s = t.enum[0]
	case vkLimit:
		m.null = true
	}
	return m
}

// isZero: the Go value is the zero value of its type
func (m *mval) isZero() bool {
	switch m.t.k {
	case vkStruct, vkArray:
		for _, e := range m.el {
			if !e.isZero() {
				return false
			}
		}
		return true
	case vkPtr, vkSlice, vkMap, vkAddrList, vkLimit:
		return m.null
	case vkString:
		return m.s == ""
	case vkUint, vkInt, vkFelt:
		return m.n.Sign() == 0
	case vkBool:
		return !m.b
	case vkEnum:
		return m.s == m.t.enum[0]
	default: // BlockID
		return m.s == ""
	}
}

// ---- decoding -------------------------------------------------------------------------------------

type vdec struct {
	either bool   // some part is accepted by a liberal reader only
	und    string // some part is outside what the documents decide
	feat   map[string]bool
}

func (d *vdec) note(f string) {
	if d.feat != nil {
		d.feat[f] = true
	}
}

func (d *vdec) undecided(why string) {
	if d.und == "" {
		d.und = why
	}
}

var feltP, _ = new(big.Int).SetString("800000000000011000000000000000000000000000000000000000000000001", 16)

// feltOf: a FELT of the Starknet API specification is "0x0" or "0x" followed by up to 63 hex digits
// the first of which is not 0, with a value below the field prime. Strings that are not 0x-hex at all
// are certainly no felt; other spellings (0X, leading zeros, a value of the prime or above) are left
// undecided.
func feltOf(s string) (*big.Int, tcheck) {
	if len(s) < 3 || s[0] != '0' || (s[1] != 'x' && s[1] != 'X') {
		return nil, tcBad
	}
	digits := s[2:]
	for i := 0; i < len(digits); i++ {
		c := digits[i]
		if !(c >= '0' && c <= '9' || c >= 'a' && c <= 'f' || c >= 'A' && c <= 'F') {
			return nil, tcBad
		}
	}
	n, _ := new(big.Int).SetString(digits, 16)
	if s[1] == 'X' || (len(digits) > 1 && digits[0] == '0') || len(digits) > 63 || n.Cmp(feltP) >= 0 {
		if len(digits) > 80 {
			return nil, tcBad // no reading makes 81+ digits a felt
		}
		return n, tcUnd
	}
	return n, tcOK
}

func hasCombining(s string) bool {
	for _, r := range s {
		if unicode.Is(unicode.Mn, r) || unicode.Is(unicode.Me, r) || unicode.Is(unicode.Mc, r) || r == 0x200d || r == utf8.RuneError {
			return true
		}
	}
	return false
}

// uintOf: the exact value of a number literal as a uint64
func uintOf(lit string) (*big.Int, tcheck) {
	r := numRat(lit)
	if r == nil || !r.IsInt() || r.Sign() < 0 || r.Num().BitLen() > 64 {
		return nil, tcBad
	}
	if !plainInt(lit) || strings.HasPrefix(lit, "-") {
		return new(big.Int).Set(r.Num()), tcEither // 1.0, 1e2, -0
	}
	return new(big.Int).Set(r.Num()), tcOK
}

type vslot struct {
	path []int // indices through embedded structs
	f    *vfield
}

// members: the JSON members of a struct (those of embedded structs included)
func (t *vtype) members() []vslot {
	var out []vslot
	var walk func(t *vtype, path []int)
	walk = func(t *vtype, path []int) {
		for i := range t.fields {
			p := append(append([]int(nil), path...), i)
			if t.fields[i].embedded {
				walk(t.fields[i].t, p)
			} else {
				out = append(out, vslot{p, &t.fields[i]})
			}
		}
	}
	walk(t, nil)
	return out
}

// decode returns nil if v certainly does not decode into t.
func (d *vdec) decode(t *vtype, v *jv) *mval {
	if v.k == jNull {
		switch t.k {
		case vkPtr, vkSlice, vkMap:
			return vzero(t)
		case vkAddrList:
			return &mval{t: t} // juno: null is the empty list
		case vkEnum:
			d.undecided("null for " + t.name)
			return vzero(t)
		default:
			// null for a by-value member: encoding/json leaves the member as it is (and hands null to
			// an UnmarshalJSON method, which may refuse it); "wrong type" is as defensible
			d.either = true
			return vzero(t)
		}
	}
	m := &mval{t: t}
	switch t.k {
	case vkPtr:
		in := d.decode(t.elem, v)
		if in == nil {
			return nil
		}
		m.ptr = in
	case vkStruct:
		if v.k != jObj {
			return nil
		}
		m = vzero(t)
		slots := t.members()
		for i, key := range v.keys {
			var hit *vslot
			fold := false
			for k := range slots {
				if slots[k].f.jsonName == key {
					hit = &slots[k]
					break
				}
				if strings.EqualFold(slots[k].f.jsonName, key) {
					fold = true
				}
			}
			if hit == nil {
				if fold {
					d.undecided("member name of a struct differing only in case")
				} else {
					d.either = true // a member the struct does not have: ignoring and rejecting are both defensible
					d.note("v_unknown_member")
				}
				continue
			}
			in := d.decode(hit.f.t, v.vals[i])
			if in == nil {
				return nil
			}
			at := m
			for _, ix := range hit.path[:len(hit.path)-1] {
				at = at.el[ix]
			}
			at.el[hit.path[len(hit.path)-1]] = in
		}
	case vkSlice, vkLimit:
		if v.k != jArr {
			return nil
		}
		for _, e := range v.arr {
			in := d.decode(t.elem, e)
			if in == nil {
				return nil
			}
			if in.t.k == vkPtr && in.null {
				d.note("v_nil_pointer_in_slice")
			}
			m.el = append(m.el, in)
		}
	case vkArray:
		if v.k != jArr {
			return nil
		}
		if len(v.arr) != t.n {
			d.either = true // encoding/json drops surplus elements and zero-fills missing ones
			d.note("v_array_length_differs")
		}
		for i := 0; i < t.n; i++ {
			if i >= len(v.arr) {
				m.el = append(m.el, vzero(t.elem))
				continue
			}
			in := d.decode(t.elem, v.arr[i])
			if in == nil {
				return nil
			}
			m.el = append(m.el, in)
		}
	case vkMap:
		if v.k != jObj {
			return nil
		}
		if len(v.keys) == 0 {
			d.note("v_empty_map")
		}
		for i, key := range v.keys {
			in := d.decode(t.elem, v.vals[i])
			if in == nil {
				return nil
			}
			if in.t.k == vkPtr && in.null {
				d.note("v_nil_pointer_in_map")
			}
			m.keys = append(m.keys, key)
			m.el = append(m.el, in)
		}
	case vkString:
		if v.k != jStr {
			return nil
		}
		if hasCombining(v.s) {
			d.undecided("string with combining characters (what a character is)")
		}
		m.s = v.s
	case vkUint:
		if v.k != jNum {
			return nil
		}
		n, tc := uintOf(v.s)
		if tc == tcBad {
			return nil
		}
		if tc == tcEither {
			d.either = true
		}
		m.n = n
	case vkInt:
		if v.k != jNum {
			return nil
		}
		switch checkInt(v) {
		case tcBad:
			return nil
		case tcEither:
			d.either = true
		}
		x, _ := int64Of(v.s)
		m.n = big.NewInt(x)
	case vkBool:
		if v.k != jBool {
			return nil
		}
		m.b = v.b
	case vkFelt:
		if v.k != jStr {
			return nil
		}
		n, tc := feltOf(v.s)
		switch tc {
		case tcBad:
			return nil
		case tcUnd:
			d.undecided("felt in a spelling the specification does not list")
		}
		m.n = n
	case vkEnum:
		if v.k != jStr {
			return nil
		}
		ok := false
		for _, e := range t.enum {
			if e == v.s && !strings.HasPrefix(e, "<") {
				ok = true
			}
		}
		for _, a := range t.alias {
			if a == v.s {
				d.undecided(t.name + " " + a)
				ok = true
			}
		}
		if !ok {
			return nil
		}
		m.s = v.s
	case vkBlockID:
		switch v.k {
		case jStr:
			switch v.s {
			case "latest", "pre_confirmed", "l1_accepted":
				m.s = v.s
			default:
				return nil
			}
		case jObj:
			hv, hasH := v.get("block_hash")
			nv, hasN := v.get("block_number")
			for _, k := range v.keys {
				if k != "block_hash" && k != "block_number" {
					if strings.EqualFold(k, "block_hash") || strings.EqualFold(k, "block_number") {
						d.undecided("member name of a block id differing only in case")
					} else {
						d.either = true
					}
				}
			}
			switch {
			case hasH && hasN:
				d.undecided("block id with both a hash and a number")
				return vzero(t)
			case hasH:
				in := d.decode(vtFelt, hv)
				if in == nil {
					return nil
				}
				if hv.k == jNull {
					d.undecided("block hash null")
				}
				m.s, m.n = "hash", in.n
			case hasN:
				in := d.decode(vtUint, nv)
				if in == nil {
					return nil
				}
				if nv.k == jNull {
					d.undecided("block number null")
				}
				m.s, m.n = "number", in.n
			default:
				return nil
			}
		default:
			return nil
		}
	case vkAddrList:
		switch v.k {
		case jStr:
			in := d.decode(vtFelt, v)
			if in == nil {
				return nil
			}
			m.el = []*mval{in}
		case jArr:
			seen := map[string]bool{}
			for _, e := range v.arr {
				in := d.decode(vtFelt, e)
				if in == nil {
					return nil
				}
				if e.k == jNull {
					d.undecided("null in an address list")
				}
				if seen[in.n.String()] {
					d.undecided("address list with duplicates")
				}
				seen[in.n.String()] = true
				m.el = append(m.el, in)
			}
		default:
			return nil
		}
	}
	return m
}

// ---- rules ----------------------------------------------------------------------------------------

type veval struct {
	broken map[string]bool // names of the tags some value violates
	und    string
}

func (e *veval) undecided(why string) {
	if e.und == "" {
		e.und = why
	}
}

func (e *veval) fail(tag string) { e.broken[tag] = true }

// present: "set with a value" as the required rule defines it (doc.go, Required): numbers not zero,
// strings not "", booleans not false, slices/maps/pointers not nil, structs not the zero value
// (WithRequiredStructEnabled). viaPtr: the member is a pointer and not nil.
func (e *veval) present(m *mval, viaPtr bool) bool {
	switch m.t.k {
	case vkPtr, vkSlice, vkMap, vkAddrList, vkLimit:
		return !m.null
	}
	if viaPtr {
		return true
	}
	switch m.t.k {
	case vkFelt, vkBlockID:
		if m.isZero() {
			// by-value felt: the validator is handed the string "0x0" by the custom type function - is that
			// "not set"? not settled by the documents
			e.undecided("required-like rule on a by-value " + m.t.name + " that is zero")
		}
		return true
	case vkEnum:
		if m.isZero() {
			e.undecided("required-like rule on a " + m.t.name + " that is zero")
		}
		return true
	}
	return !m.isZero()
}

func deref(m *mval) (*mval, bool, bool) { // value, viaPtr, nil
	via := false
	for m.t.k == vkPtr {
		if m.null {
			return m, via, true
		}
		m, via = m.ptr, true
	}
	return m, via, false
}

// find a member of struct value s by its Go name (members of embedded structs are found under their
// own names, as Go selectors find them)
func findField(s *mval, name string) *mval {
	for i, f := range s.t.fields {
		if f.goName == name {
			return s.el[i]
		}
	}
	for i, f := range s.t.fields {
		if f.embedded {
			if r := findField(s.el[i], name); r != nil {
				return r
			}
		}
	}
	return nil
}

func (e *veval) lookup(parent *mval, path string) *mval {
	cur := parent
	for _, seg := range strings.Split(path, ".") {
		c, _, isNil := deref(cur)
		if isNil || c.t.k != vkStruct {
			e.undecided("rule refers to " + path + " through something that is not a struct")
			return nil
		}
		cur = findField(c, seg)
		if cur == nil {
			e.undecided("rule refers to " + path + ", which the struct does not have")
			return nil
		}
	}
	return cur
}

// equals: "the other specified field is equal to the value following it"
func (e *veval) equals(parent *mval, field, value string) bool {
	o := e.lookup(parent, field)
	if o == nil {
		return false
	}
	o, _, isNil := deref(o)
	if isNil {
		e.undecided("rule compares a nil pointer with a value")
		return false
	}
	switch o.t.k {
	case vkString:
		return o.s == value
	case vkEnum:
		if !o.t.custom {
			e.undecided("rule compares a " + o.t.name + " with a value")
		}
		return o.s == value
	case vkUint, vkInt:
		n, ok := new(big.Int).SetString(value, 10)
		if !ok {
			e.undecided("rule compares a number with " + value)
			return false
		}
		return o.n.Cmp(n) == 0
	case vkBool:
		return o.b == (value == "true")
	}
	e.undecided("rule compares a " + o.t.name + " with a value")
	return false
}

func (e *veval) allEqual(parent *mval, param string) bool {
	p := strings.Fields(param)
	if len(p) == 0 || len(p)%2 != 0 {
		e.undecided("odd parameter list " + param)
		return false
	}
	all := true
	for i := 0; i < len(p); i += 2 {
		if !e.equals(parent, p[i], p[i+1]) {
			all = false
		}
	}
	return all
}

func (e *veval) otherPresent(parent *mval, name string) bool {
	o := e.lookup(parent, name)
	if o == nil {
		return false
	}
	v, via, isNil := deref(o)
	if isNil {
		return false
	}
	return e.present(v, via)
}

func cmpOK(op string, c int) bool {
	switch op {
	case "min", "gte":
		return c >= 0
	case "max", "lte":
		return c <= 0
	case "gt":
		return c > 0
	case "lt":
		return c < 0
	case "len", "eq":
		return c == 0
	default: // ne
		return c != 0
	}
}

// one: does value v (already dereferenced) satisfy one plain tag
func (e *veval) one(parent, v *mval, viaPtr bool, tg vtag) bool {
	switch tg.name {
	case "required":
		return e.present(v, viaPtr)
	case "required_if":
		return !e.allEqual(parent, tg.param) || e.present(v, viaPtr)
	case "required_unless":
		return e.allEqual(parent, tg.param) || e.present(v, viaPtr)
	case "excluded_if":
		return !e.allEqual(parent, tg.param) || !e.present(v, viaPtr)
	case "excluded_unless":
		return e.allEqual(parent, tg.param) || !e.present(v, viaPtr)
	case "required_with":
		for _, n := range strings.Fields(tg.param) {
			if e.otherPresent(parent, n) {
				return e.present(v, viaPtr)
			}
		}
		return true
	case "required_without":
		for _, n := range strings.Fields(tg.param) {
			if !e.otherPresent(parent, n) {
				return e.present(v, viaPtr)
			}
		}
		return true
	case "min", "max", "gt", "gte", "lt", "lte", "len", "eq", "ne":
		switch v.t.k {
		case vkUint, vkInt:
			n, ok := new(big.Int).SetString(tg.param, 10)
			if !ok {
				e.undecided(tg.name + " with parameter " + tg.param)
				return true
			}
			return cmpOK(tg.name, v.n.Cmp(n))
		case vkString:
			if tg.name == "eq" || tg.name == "ne" {
				return (v.s == tg.param) == (tg.name == "eq")
			}
			n, err := strconv.Atoi(tg.param)
			if err != nil {
				e.undecided(tg.name + " with parameter " + tg.param)
				return true
			}
			return cmpOK(tg.name, utf8.RuneCountInString(v.s)-n) // "number of characters"
		case vkSlice, vkMap, vkArray:
			n, err := strconv.Atoi(tg.param)
			if err != nil {
				e.undecided(tg.name + " with parameter " + tg.param)
				return true
			}
			return cmpOK(tg.name, len(v.el)-n) // "number of items"
		}
	case "oneof":
		var words []string
		if strings.Contains(tg.param, "'") {
			e.undecided("oneof with quoted values")
			return true
		}
		words = strings.Fields(tg.param)
		var mine string
		switch v.t.k {
		case vkString:
			mine = v.s
		case vkUint, vkInt:
			mine = v.n.String()
		default:
			e.undecided("oneof on a " + v.t.name)
			return true
		}
		for _, w := range words {
			if w == mine {
				return true
			}
		}
		return false
	case "version_0x3":
		// rpc/v10/validator.go: the version must be 0x3, or 0x3 with the query bit (2^128) set
		if v.t.k == vkFelt {
			q := new(big.Int).Add(new(big.Int).Lsh(big.NewInt(1), 128), big.NewInt(3))
			return v.n.Cmp(big.NewInt(3)) == 0 || v.n.Cmp(q) == 0
		}
	case "felt_max_bits":
		// rpc/v10/validator.go: "checks that a felt fits within the number of bits given as the tag parameter"
		if bits, err := strconv.Atoi(tg.param); err == nil && v.t.k == vkFelt {
			return v.n.BitLen() <= bits
		}
	case "base64":
		if v.t.k == vkString {
			return e.base64(v.s)
		}
	}
	e.undecided("rule " + tg.name + " on a " + v.t.name)
	return true
}

// base64 (doc.go, Base64 String: "a valid base64 value", the empty string is an error): canonical
// standard base64 with padding is one, a string with a character outside the alphabet or of a length
// that is no multiple of four is none; anything else is left undecided
func (e *veval) base64(s string) bool {
	if s == "" {
		return false
	}
	body := strings.TrimRight(s, "=")
	pad := len(s) - len(body)
	for i := 0; i < len(body); i++ {
		c := body[i]
		if !(c >= 'A' && c <= 'Z' || c >= 'a' && c <= 'z' || c >= '0' && c <= '9' || c == '+' || c == '/') {
			return false
		}
	}
	if len(s)%4 != 0 || pad > 2 {
		return false
	}
	// non-zero trailing bits: a value some decoders refuse
	const alphabet = "ABCDEFGHIJKLMNOPQRSTUVWXYZabcdefghijklmnopqrstuvwxyz0123456789+/"
	last := strings.IndexByte(alphabet, body[len(body)-1])
	if (pad == 1 && last&3 != 0) || (pad == 2 && last&15 != 0) {
		e.undecided("base64 with non-zero trailing bits")
	}
	return true
}

var nilSafe = map[string]bool{"required": true, "required_if": true, "required_unless": true, "excluded_if": true,
	"excluded_unless": true, "required_with": true, "required_without": true}

// member applies a tag list to one value (a struct member, or after dive an element).
func (e *veval) member(parent, m *mval, tags []vtag) {
	v, viaPtr, isNil := deref(m)
	if isNil {
		// a nil pointer: nothing to look at. omitempty ends the list, the required family decides on
		// "not set"; what any other rule says about a nil pointer is not documented
		for _, tg := range tags {
			if tg.name == "omitempty" {
				return
			}
			if !nilSafe[tg.name] || len(tg.or) > 0 {
				e.undecided("rule " + tg.name + " on a nil pointer")
				return
			}
			if !e.one(parent, v, false, tg) {
				e.fail(tg.name)
				return // refused whatever the rest of the list would say about a nil pointer
			}
		}
		return
	}
	for i, tg := range tags {
		switch tg.name {
		case "omitempty":
			if v.t.k == vkStruct || v.t.k == vkArray {
				e.undecided("omitempty on a by-value " + v.t.name)
				return
			}
			if viaPtr && v.isZero() && i+1 < len(tags) && v.t.k != vkFelt {
				// pointer to a zero value: set (the pointer is not nil) or not set (the value is zero)?
				// the answer only matters if a later rule could fail for the zero value
				probe := &veval{broken: map[string]bool{}}
				probe.member(parent, v, tags[i+1:])
				if len(probe.broken) > 0 || probe.und != "" {
					e.undecided("omitempty on a pointer to a zero value")
				}
				return
			}
			if !e.present(v, viaPtr) {
				return
			}
			continue
		case "dive":
			switch v.t.k {
			case vkSlice, vkArray, vkMap:
				for _, el := range v.el {
					e.member(parent, el, tags[i+1:])
				}
			default:
				e.undecided("dive on a " + v.t.name)
			}
			return
		}
		ok := e.one(parent, v, viaPtr, tg)
		for _, alt := range tg.or {
			ok = ok || e.one(parent, v, viaPtr, alt)
		}
		if !ok {
			name := tg.name
			e.fail(name)
			if v.t.k == vkStruct && name == "required" {
				return // a zero struct: its members are not looked at once it is refused
			}
		}
	}
	e.inside(v)
}

// inside: a struct's own members are validated wherever the struct is reached ("nested structs")
func (e *veval) inside(v *mval) {
	switch v.t.k {
	case vkStruct:
		for i := range v.t.fields {
			e.member(v, v.el[i], v.t.fieldTags(i))
		}
	case vkLimit:
		// struct {Data []T `validate:"dive"`}
		for _, el := range v.el {
			e.member(v, el, nil)
		}
	}
}

// param: what the server's parameter validation must do with a decoded parameter: a struct or a
// non-nil pointer to one is validated, slices, arrays and maps element by element (nested ones too),
// everything else is not looked at
func (e *veval) param(m *mval) {
	switch m.t.k {
	case vkStruct, vkLimit:
		e.inside(m)
	case vkPtr:
		if !m.null && (m.ptr.t.k == vkStruct || m.ptr.t.k == vkLimit) {
			e.inside(m.ptr)
		}
	case vkSlice, vkArray, vkMap:
		for _, el := range m.el {
			e.param(el)
		}
	}
}

// ---- what the handler must be given ---------------------------------------------------------------

func feltText(n *big.Int) string { return "0x" + n.Text(16) }

func jobj(keys []string, vals []*jv) *jv { return &jv{k: jObj, keys: keys, vals: vals} }

func (m *mval) render() *jv {
	switch m.t.k {
	case vkPtr:
		if m.null {
			return jnull()
		}
		return m.ptr.render()
	case vkStruct:
		out := &jv{k: jObj}
		m.renderFields(out)
		return out
	case vkSlice, vkAddrList:
		if m.null {
			return jnull()
		}
		fallthrough
	case vkArray:
		out := &jv{k: jArr}
		for _, e := range m.el {
			out.arr = append(out.arr, e.render())
		}
		return out
	case vkLimit:
		data := jnull()
		if !m.null {
			data = &jv{k: jArr}
			for _, e := range m.el {
				data.arr = append(data.arr, e.render())
			}
		}
		return jobj([]string{"Data"}, []*jv{data})
	case vkMap:
		if m.null {
			return jnull()
		}
		out := &jv{k: jObj}
		for i, k := range m.keys {
			out.keys = append(out.keys, k)
			out.vals = append(out.vals, m.el[i].render())
		}
		return out
	case vkString, vkEnum:
		return jstr(m.s)
	case vkUint, vkInt:
		return jnum(m.n.String())
	case vkBool:
		return jbool(m.b)
	case vkFelt:
		return jstr(feltText(m.n))
	default: // BlockID
		switch m.s {
		case "hash":
			return jobj([]string{"block_hash"}, []*jv{jstr(feltText(m.n))})
		case "number":
			return jobj([]string{"block_number"}, []*jv{jnum(m.n.String())})
		case "":
			return jstr("?")
		}
		return jstr(m.s)
	}
}

func (m *mval) renderFields(out *jv) {
	for i, f := range m.t.fields {
		if f.embedded {
			m.el[i].renderFields(out)
			continue
		}
		out.keys = append(out.keys, f.jsonName)
		out.vals = append(out.vals, m.el[i].render())
	}
}

// ---- the hook of classify.go ----------------------------------------------------------------------

// vTypeCheck: the typeCheck of a struct-typed parameter. feats collects what the value exercises
// (for the probes and for the shape name of the entry).
func vTypeCheck(t *vtype, v *jv, feats map[string]bool) (tcheck, *jv) {
	d := &vdec{feat: feats}
	d.note("v_param")
	m := d.decode(t, v)
	if d.und != "" {
		feats["v_undecided: "+d.und] = true
		return tcUnd, nil
	}
	if m == nil {
		d.note("v_decode_error")
		return tcBad, nil
	}
	switch {
	case t.k == vkPtr && m.null:
		d.note("v_pointer_param_null")
	case t.k == vkPtr:
		d.note("v_pointer_param_present")
	case t.k == vkStruct || t.k == vkLimit:
		d.note("v_struct_param_by_value")
	case t.k == vkSlice && len(m.el) > 0 && (t.elem.k == vkSlice || t.elem.k == vkMap):
		d.note("v_nested_container_param")
	case t.k == vkMap && len(m.el) > 0 && (t.elem.k == vkSlice || t.elem.k == vkMap):
		d.note("v_nested_container_param")
	case t.k == vkSlice && len(m.el) > 0:
		d.note("v_slice_param")
	case t.k == vkMap && len(m.el) > 0:
		d.note("v_map_param")
	case t.k == vkArray:
		d.note("v_array_param")
	}
	e := &veval{broken: map[string]bool{}}
	e.param(m)
	if e.und != "" {
		feats["v_undecided: "+e.und] = true
		return tcUnd, nil
	}
	if len(e.broken) > 0 {
		names := make([]string, 0, len(e.broken))
		for k := range e.broken {
			names = append(names, k)
		}
		sort.Strings(names)
		for _, n := range names {
			d.note("v_rule_broken:" + n)
		}
		if len(names) > 1 {
			d.note("v_several_rules_broken")
		}
		return tcBad, nil
	}
	d.note("v_all_rules_hold")
	if d.either {
		d.note("v_liberal_decoding")
		return tcEither, m.render()
	}
	return tcOK, m.render()
}

// typeCheckF is what bindParams calls: typeCheck for the scalar parameter types, vTypeCheck for the
// struct-typed ones.
func typeCheckF(t ptype, v *jv, feats map[string]bool) (tcheck, *jv) {
	if isS(t) {
		return sTypeCheck(sOf(t), v, feats)
	}
	if isV(t) {
		return vTypeCheck(vOf(t), v, feats)
	}
	return typeCheck(t, v)
}

// vDefault: what the handler is given for an omitted optional parameter: the zero value, which the
// server does not validate (nothing was supplied)
func vDefault(t ptype) *jv { return vzero(vOf(t)).render() }

// vShape: the part of an entry's shape name that says why a struct-typed parameter was refused
func vShape(feats map[string]bool) string {
	var rules []string
	for f := range feats {
		if strings.HasPrefix(f, "v_rule_broken:") {
			rules = append(rules, strings.TrimPrefix(f, "v_rule_broken:"))
		}
	}
	sort.Strings(rules)
	switch {
	case len(rules) > 0:
		return "+v(" + strings.Join(rules, ",") + ")"
	case feats["v_decode_error"]:
		return "+v(decode)"
	case feats["v_param"]:
		return "+v"
	}
	return ""
}

func vUndecided(feats map[string]bool) string {
	var u []string
	for f := range feats {
		if strings.HasPrefix(f, "v_undecided: ") {
			u = append(u, strings.TrimPrefix(f, "v_undecided: "))
		}
	}
	sort.Strings(u)
	if len(u) == 0 {
		return "struct-typed parameter outside what the documents decide"
	}
	return u[0]
}

// vProbes counts what the struct-typed parameters of a judged request exercised.
func vProbes(c interface{ Probe(string) }, e *entry, a *alt) {
	if len(e.feat) == 0 {
		return
	}
	names := make([]string, 0, len(e.feat))
	for f := range e.feat {
		names = append(names, f)
	}
	sort.Strings(names)
	for _, f := range names {
		if strings.HasPrefix(f, "v_undecided") {
			continue
		}
		c.Probe(f)
	}
	switch {
	case !e.feat["v_param"]:
		sProbes(c, e, a) // only scalar-typed parameters (scalar_classify.go)
	case a.call != nil && strings.Contains(e.cls, ":named"):
		c.Probe("v_handler_called_named")
	case a.call != nil && strings.Contains(e.cls, ":pos"):
		c.Probe("v_handler_called_positional")
	case len(a.errCodes) > 0 && e.feat["v_all_rules_hold"] && !e.feat["v_decode_error"]:
		c.Probe("v_refused_although_rules_hold") // the liberal-decoding zone, or another parameter was at fault
	}
	if a.call != nil {
		for i, p := range a.call.m.params {
			if isV(p.t) && p.optional && jeq(a.call.args[i], defaultOf(p.t), false) {
				c.Probe("v_optional_param_omitted_or_zero")
			}
		}
	}
}
