// Package rpcserver holds the simulation harness of property C11: the real jsonrpc.Server of
// /repo answers any input with well-formed, correlated JSON-RPC 2.0 responses.
package rpcserver

import (
	"bytes"
	"context"
	"errors"
	"fmt"
	"io"
	"reflect"
	"runtime/debug"
	"sort"
	"strings"
	"testing/synctest"
	"time"
	"unsafe"

	"github.com/NethermindEth/juno/jsonrpc"
	"github.com/NethermindEth/juno/utils/log"

	"jsim/sim"
)

// ---- fault-injecting reader ---------------------------------------------------------------

var errInjected = errors.New("jsim: injected read error")

// faultReader delivers data according to a plan fixed before the call (it never draws: Read runs
// on the server's goroutine).
type faultReader struct {
	data    []byte
	pos     int
	cuts    map[int]bool // a Read never crosses one of these offsets
	maxRead int          // >0: no Read returns more than this many bytes
	zeroAt  map[int]bool // at these offsets one Read returns (0, nil) first
	failAt  int          // >=0: at this offset the reader fails with failErr (sticky)
	failErr error
	eofWithData bool // deliver the final error together with the last bytes

	// what actually happened
	nCut, nShort, nZero, nFail int
	served                     int
}

func (r *faultReader) end() int {
	if r.failAt >= 0 && r.failAt < len(r.data) {
		return r.failAt
	}
	return len(r.data)
}

func (r *faultReader) finalErr() error {
	if r.failAt >= 0 {
		return r.failErr
	}
	return io.EOF
}

func (r *faultReader) Read(p []byte) (int, error) {
	end := r.end()
	if r.pos >= end {
		if r.failAt >= 0 {
			r.nFail++
		}
		return 0, r.finalErr()
	}
	if len(p) == 0 {
		return 0, nil
	}
	if r.zeroAt[r.pos] {
		delete(r.zeroAt, r.pos)
		r.nZero++
		return 0, nil
	}
	n := len(p)
	if n > end-r.pos {
		n = end - r.pos
	}
	full := n
	if r.maxRead > 0 && n > r.maxRead {
		n = r.maxRead
	}
	cutHit := false
	for k := 1; k < n; k++ {
		if r.cuts[r.pos+k] {
			n = k
			cutHit = true
			break
		}
	}
	if n < full {
		if cutHit {
			r.nCut++
		} else {
			r.nShort++
		}
	}
	copy(p, r.data[r.pos:r.pos+n])
	r.pos += n
	r.served = r.pos
	if r.pos >= end && r.eofWithData {
		if r.failAt >= 0 {
			r.nFail++
		}
		return n, r.finalErr()
	}
	return n, nil
}

type rwPair struct {
	io.Reader
	w bytes.Buffer
}

func (p *rwPair) Write(b []byte) (int, error) { return p.w.Write(b) }

// ---- access to the server's worker pool (unexported; needed to join its goroutines) ------------

func poolWait(s *jsonrpc.Server) (recovered any) {
	defer func() { recovered = recover() }()
	f := reflect.ValueOf(s).Elem().FieldByName("pool")
	if !f.IsValid() {
		return "jsonrpc.Server has no field named pool"
	}
	p := reflect.NewAt(f.Type(), unsafe.Pointer(f.UnsafeAddr())).Elem()
	w := p.MethodByName("Wait")
	if !w.IsValid() {
		return "pool has no Wait method"
	}
	w.Call(nil)
	return nil
}

// panicSite walks a captured stack from the innermost frame outwards: a frame of the harness
// reached first means the harness is at fault, a frame of the jsonrpc package reached first (possibly
// below standard-library frames it called) means the server crashed.
func panicSite(st string) (fn string, inServer bool) {
	lines := strings.Split(st, "\n")
	seen := false
	fn = "?"
	for i := 0; i+1 < len(lines); i++ {
		l := lines[i]
		if strings.HasPrefix(l, "panic(") || strings.HasPrefix(l, "runtime.gopanic") {
			seen = true
			continue
		}
		if !seen || strings.HasPrefix(l, "\t") || strings.HasPrefix(l, "goroutine ") || l == "" {
			continue
		}
		loc := strings.TrimSpace(lines[i+1])
		if strings.HasPrefix(l, "runtime.") || strings.Contains(loc, "/src/runtime/") {
			continue
		}
		name := l
		if k := strings.LastIndex(name, "("); k > 0 {
			name = name[:k]
		}
		if fn == "?" {
			fn = name
		}
		if strings.Contains(loc, "/harness/rpcserver/") {
			return fn, false
		}
		if strings.Contains(loc, "/jsonrpc/") {
			return fn, true
		}
	}
	return fn, false
}

type callResult struct {
	out      []byte
	err      error
	panicked bool
	panicVal any
	stack    string
}

// ---- the run -------------------------------------------------------------------------------

const (
	classPlain = iota // no faults, handlers do not park
	classReader
	classSched
)

func C11(c *sim.Ctx) {
	t := c.T
	class := []int{classPlain, classPlain, classReader, classSched}[t.Draw("class", 4)]
	switch c.Knobs["only_class"] { // experiment aid (JSIM_KNOB_only_class=plain|reader|sched); not set by props
	case "plain":
		class = classPlain
	case "reader":
		class = classReader
	case "sched":
		class = classSched
	}
	g := &gen{t: t, sched: class == classSched, biased: class == classSched && !t.Chance("sched_unbiased", 1, 5)}
	input, label := g.input()
	// Only an input that names one of the methods whose result cannot be serialised can reach the
	// server's handling of a failed serialisation. Those runs (and every run of a process in which an
	// earlier run hung, see wait.go) do not rely on synctest.Wait() or on a blocking receive to learn
	// that the server has come to rest.
	hangProne := bytes.Contains(input, []byte(unserTag))
	careful := hangProne || poisoned()

	poolSize := []int{1, 2, 3, 8, 16}[t.Draw("pool", 5)]
	useRW := t.Chance("read_writer", 1, 4)
	traceLog := t.Chance("trace_logger", 1, 4)

	// the reader plan
	rd := &faultReader{data: input, failAt: -1, cuts: map[int]bool{}, zeroAt: map[int]bool{}}
	effective := input // the byte sequence the server is given
	hardFault := false // a non-EOF read error is planned
	if class == classReader {
		if t.Chance("chunks", 2, 3) && len(input) > 1 {
			n := 1 + t.Draw("ncuts", 6)
			for i := 0; i < n; i++ {
				rd.cuts[1+t.Draw("cut", len(input)-1)] = true
			}
		}
		switch t.Draw("short", 4) {
		case 1:
			rd.maxRead = 1
		case 2:
			rd.maxRead = 1 + t.Draw("max_read", 7)
		case 3:
			if len(input) > 0 {
				for i := 0; i < 1+t.Draw("nzero", 3); i++ {
					rd.zeroAt[t.Draw("zero_at", len(input))] = true
				}
			}
		}
		switch t.Draw("fail", 6) {
		case 1: // the stream ends early: the received byte sequence is the prefix
			rd.failAt = t.Draw("eof_at", len(input)+1)
			rd.failErr = io.EOF
			effective = input[:rd.failAt]
		case 2:
			rd.failAt = t.Draw("fail_at", len(input)+1)
			rd.failErr = io.ErrUnexpectedEOF
			hardFault = true
		case 3:
			rd.failAt = t.Draw("fail_at", len(input)+1)
			rd.failErr = errInjected
			hardFault = true
		}
		rd.eofWithData = t.Chance("err_with_data", 1, 3)
	}

	// scheduling class knobs
	cancelAllowed := class == classSched && t.Chance("cancel_enabled", 1, 3)
	timeout := time.Duration(0)
	if useRW && cancelAllowed && !hangProne && t.Chance("timeout_instead_of_cancel", 1, 2) {
		// (not for hang-prone inputs: after a hang the fake clock cannot be advanced any more, and
		// the run must still replay in the same process)
		timeout = 5 * time.Second
	}
	if poisoned() && (timeout > 0 || (hangProne && hangsLeft >= maxHangsLeftBehind)) {
		c.Inconclusive++
		return
	}

	cl := classifyInput(effective)
	c.Logf("class=%d gen=%s pool=%d rw=%v trace=%v len=%d input=%q", class, label, poolSize, useRW, traceLog, len(input), clip(string(input), 400))
	c.Logf("input-hash %x effective=%d classified=%s", fnv(input), len(effective), cl.summary)
	c.Sample = map[string]any{"class": class, "generator": label, "classified": cl.summary, "input": clip(string(input), 300)}

	// the server
	var logger log.StructuredLogger = log.NewNopZapLogger()
	if traceLog {
		zl, err := log.NewZapLogger(log.NewLevel(log.TRACE), log.WithWriter(io.Discard), log.WithJSON(true))
		c.Must(err, "logger")
		logger = zl
	}
	srv := jsonrpc.NewServer(poolSize, logger)
	rec := &recorder{park: class == classSched}
	c.Must(register(srv, rec), "register methods")

	ctx, cancel := context.WithCancel(context.Background())
	serve := func() (res callResult) {
		defer func() {
			if r := recover(); r != nil {
				res.panicked, res.panicVal, res.stack = true, r, string(debug.Stack())
			}
		}()
		if useRW {
			rw := &rwPair{Reader: rd}
			res.err = srv.HandleReadWriter(ctx, timeout, rw)
			res.out = rw.w.Bytes()
		} else {
			res.out, _, res.err = srv.HandleReader(ctx, rd)
		}
		return res
	}

	var res callResult
	obs := &observed{}
	joined := false
	shape := "other"
	if len(cl.cands) > 0 && cl.structured {
		shape = "single"
		if cl.cands[0].mode == topBatch {
			shape = "batch"
		}
	}
	unserNoted := false
	noteUnser := func() { // the failed serialisation is a fault that fired
		if unserNoted || rec.unserCount() == 0 {
			return
		}
		unserNoted = true
		c.Fault("result_marshal_error")
		if shape == "batch" {
			c.Probe("unserialisable_result_in_batch")
		} else {
			c.Probe("unserialisable_result_single")
		}
	}
	done := make(chan callResult, 1)
	isDone := func() bool { return len(done) > 0 }
	// hang: the server can make no further step and the call has not returned (or has returned and
	// left a goroutine stuck for ever). That is the verdict; what follows in this function is
	// clean-up, so that the next run finds a quiet bubble (wait.go): get goroutines that are stuck on
	// a mutex moving by unlocking it for whoever left it locked, release every handler, join. If that
	// does not bring the call back, its goroutines are left behind and the process is poisoned.
	hang := func(key, format string, a ...any) {
		cancel()
		noteUnser()
		recovered := false
		rounds := 200
		if c.Knobs["no_unstick"] != "" { // experiment aid: exercise the fallback (goroutines left behind)
			rounds = 0
		}
		for round := 0; round < rounds; round++ {
			released := rec.releaseAll()
			_, locked := settle(c, never, 0)
			if locked > 0 {
				if n, ok := unstickOnce(); !ok || n == 0 {
					break
				}
				continue
			}
			if isDone() {
				recovered = true
				break
			}
			if keys, _ := rec.parkedGroups(); released == 0 && len(keys) == 0 {
				break // everything is durably blocked and nothing is left to release
			}
		}
		if recovered {
			<-done
			joined = true
			rec.releaseAll()
			if r := poolWait(srv); r != nil {
				recovered = false // (cannot happen after a successful join; never hide the hang behind it)
			}
		}
		if !recovered {
			poison(c)
		}
		c.Fail("hang", key+"("+shape+")", format, a...)
	}
	finish := func() {
		// join everything this run started
		if joined {
			return
		}
		joined = true
		cancel()
		rec.releaseAll()
		if r := poolWait(srv); r != nil {
			msg := fmt.Sprint(r)
			if strings.Contains(msg, "/jsonrpc/") {
				c.Fail("panic", "pool_worker", "panic inside a batch worker: %s", clip(msg, 3000))
			}
			c.Broken("joining the server's pool: %s", clip(msg, 2000))
		}
	}

	if careful {
		markForeign()
	}
	// wait: every other goroutine of the bubble is blocked (or gone). Reports how many of them are
	// stuck acquiring a lock (careful mode only; synctest.Wait() would not return at all then).
	wait := func(spins int) (locked int) {
		if careful {
			_, locked = settle(c, isDone, spins)
			return locked
		}
		synctest.Wait()
		return 0
	}
	// leftover: the call has returned; a goroutine of the server that is stuck on a lock for ever
	// is a part of the server that hangs (it keeps its slot of the worker pool), and could not be joined
	leftover := func() {
		if !careful {
			return
		}
		if _, locked := settle(c, never, 0); locked > 0 {
			hang("worker_blocked_on_lock_after_return", "the call returned but %d goroutine(s) of the server stay blocked acquiring a lock; input %q", locked, clip(string(input), 400))
		}
	}

	if class != classSched {
		if !careful {
			res = serve()
		} else {
			go func() { done <- serve() }()
			if finished, locked := settle(c, isDone, 200); !finished {
				if locked > 0 {
					hang("blocked_on_lock", "the call does not return: %d goroutine(s) of the server are blocked acquiring a lock that nobody will release; input %q", locked, clip(string(input), 400))
				}
				hang("call_does_not_return", "the call does not return: every goroutine of the server is blocked; input %q", clip(string(input), 400))
			}
			res = <-done
			leftover()
		}
		finish()
	} else {
		start := time.Now()
		go func() { done <- serve() }()
		finished := false
		steps, reorders := 0, 0
		maxParked := 0
		for !finished {
			locked := wait(4)
			select {
			case res = <-done:
				finished = true
				continue
			default:
			}
			keys, show := rec.parkedGroups()
			if len(keys) == 0 {
				// quiescent, nothing to release, no answer: the call hangs.
				if locked > 0 {
					hang("blocked_on_lock", "the call does not return: no handler is left to release and %d goroutine(s) of the server are blocked acquiring a lock that nobody will release; input %q", locked, clip(string(input), 400))
				}
				hang("no_parked_handler", "HandleReader is blocked with no handler left to release; input %q", clip(string(input), 400))
			}
			if len(keys) > maxParked {
				maxParked = len(keys)
			}
			if steps++; steps > 200 {
				c.Inconclusive++
				break
			}
			nopts := len(keys)
			if cancelAllowed && !obs.cancelled {
				nopts++
			}
			pick := t.Draw("sched", nopts)
			if pick < len(keys) {
				if pick > 0 {
					reorders++
				}
				n := rec.releaseGroup(keys[pick])
				c.Logf("release %s x%d (of %d distinct parked)", show[pick], n, len(keys))
			} else {
				obs.cancelled = true
				if timeout > 0 {
					c.Logf("advance clock beyond the request timeout with %d distinct parked", len(keys))
					time.Sleep(timeout + time.Millisecond)
				} else {
					c.Logf("cancel context with %d distinct parked", len(keys))
					cancel()
				}
				c.Fault("ctx_cancel")
				c.Probe("cancel_while_parked")
			}
		}
		if !finished {
			// step cap: let everything run out, judge nothing
			for i := 0; i < 1000 && !finished; i++ {
				rec.releaseAll()
				wait(4)
				select {
				case res = <-done:
					finished = true
				default:
				}
			}
			if !finished {
				c.Broken("could not drain the server after the step cap")
			}
			leftover()
			finish()
			return
		}
		if reorders > 0 {
			c.Fault("handler_reorder")
		}
		if maxParked > 1 {
			c.Probe("concurrent_handlers")
		}
		c.SimNs += int64(time.Since(start))
		leftover()
		finish()
	}
	noteUnser()

	// faults that actually fired
	if rd.nCut > 0 {
		c.Fault("chunked_read")
	}
	if rd.nShort > 0 || rd.nZero > 0 {
		c.Fault("short_read")
	}
	if rd.failAt >= 0 && rd.nFail > 0 {
		if rd.failErr == io.EOF {
			if rd.failAt < len(input) {
				c.Fault("eof_mid_message")
			}
		} else if rd.failErr == io.ErrUnexpectedEOF {
			c.Fault("eof_mid_message")
			c.Fault("reader_error")
		} else {
			c.Fault("reader_error")
		}
	}

	if res.panicked {
		fn, inRepo := panicSite(res.stack)
		if inRepo {
			c.Fail("panic", fn, "panic in the server: %v\n%s", res.panicVal, clip(res.stack, 4000))
		}
		c.Broken("panic outside the code under test: %v\n%s", res.panicVal, clip(res.stack, 3000))
	}
	if rec.broken != "" {
		c.Broken("%s", rec.broken)
	}

	obs.out, obs.err = res.out, res.err
	obs.invs = rec.snapshot()

	// log the outcome in a schedule-independent form
	if v := readOutput(obs); v != nil {
		c.Logf("output %q", clip(string(obs.out), 300))
		c.Fail(v.class, v.key, "%s; input %q", v.detail, clip(string(input), 600))
	}
	{
		var rs, is []string
		for _, r := range obs.resps {
			rs = append(rs, r.logForm())
		}
		sort.Strings(rs)
		for _, inv := range obs.invs {
			s := inv.key
			if inv.cancelled {
				s += "!cancelled"
			}
			is = append(is, s)
		}
		sort.Strings(is)
		c.Logf("output shape=%s err=%v responses=%s", obs.shape, obs.err != nil, strings.Join(rs, " "))
		c.Logf("calls=%s", strings.Join(is, " "))
	}

	c.Nontrivial = cl.structured || len(c.Faults) > 0

	// transport error: only a hard reader fault may cause one, and then nothing else may have happened
	if obs.err != nil {
		if rec.unserCount() > 0 && len(obs.out) == 0 {
			// (a more specific name for what the two checks below would report anyway: a handler ran,
			// its result could not be serialised, and the caller gets an error from the transport and
			// not a single byte of a response)
			c.Fail(relaxUnserDropped, "single:call_returns_error_instead_of_response_object", "the call returned error %v and no output after the handler's result failed to serialise: the request has an id and gets no response object; input %q", obs.err, clip(string(input), 600))
		}
		if !(hardFault && rd.nFail > 0) {
			c.Fail("transport_error", "without_fault", "the call returned error %v without an injected read error; input %q", obs.err, clip(string(input), 600))
		}
		if len(obs.out) > 0 || len(obs.invs) > 0 {
			c.Fail("fault_partial", "error_with_output_or_calls", "error %v together with output %q / %d handler calls", obs.err, clip(string(obs.out), 300), len(obs.invs))
		}
		c.Probe("fault_transport_error")
		return
	}

	cands := cl.cands
	if hardFault && rd.nFail > 0 {
		// narrow relaxation: the whole call becomes a parse error (no handler ran), or — if the
		// error came after a complete message — is answered normally.
		faultExp := expectation{what: "read_error", mode: topSingle, entries: []entry{errEntry("read_error", idNullOnly, codeParse)}}
		if cl.firstEnd > 0 && rd.failAt >= cl.firstEnd {
			cands = append([]expectation{}, cl.cands...)
			cands = append(cands, faultExp)
		} else {
			cands = []expectation{faultExp}
		}
	}

	if cl.undecided != "" {
		// outside what the specification decides: only the generic checks above apply
		c.Inconclusive++
		c.Probe("undecided_input")
		c.Probe("undecided: " + cl.undecided)
		return
	}

	v, inconclusive, passed, chosen := judge(cands, obs)
	if inconclusive {
		c.Inconclusive++
		return
	}
	if v != nil {
		cls := v.class
		if hardFault && rd.nFail > 0 && (cls == "correlation" || cls == "invocation" || cls == "shape") {
			cls = "fault_" + cls // judged under the reader-fault relaxation
		}
		c.Fail(cls, v.key, "%s; input %q", v.detail, clip(string(input), 800))
	}
	if hardFault && rd.nFail > 0 {
		c.Probe("fault_read_error_judged")
	}
	probes(c, passed, chosen, obs)
}

func fnv(b []byte) uint64 {
	h := uint64(0xcbf29ce484222325)
	for _, x := range b {
		h ^= uint64(x)
		h *= 0x100000001b3
	}
	return h
}

// probes counts the rare conditions reached by a run that was judged and held.
func probes(c *sim.Ctx, exp *expectation, chosen []int, obs *observed) {
	for _, r := range obs.resps {
		if r.hasErr {
			switch r.code {
			case codeParse:
				c.Probe("code_parse_error")
			case codeInvalid:
				c.Probe("code_invalid_request")
			case codeNoMethod:
				c.Probe("code_method_not_found")
			case codeBadParams:
				c.Probe("code_invalid_params")
			case codeFail, codeBare, -32603:
				c.Probe("handler_error_returned")
			}
		}
	}
	nNotif, nCall, nErr, nResp := 0, 0, 0, 0
	for i, e := range exp.entries {
		a := e.alts[chosen[i]]
		cls := e.cls
		if a.call != nil {
			nCall++
			if strings.Contains(cls, ":named") {
				c.Probe("named_params")
			}
			if strings.Contains(cls, ":pos") {
				c.Probe("positional_params")
			}
			if optionalOmitted(a.call) {
				c.Probe("optional_param_omitted")
			}
		}
		if a.respond {
			nResp++
			if len(a.errCodes) > 0 {
				nErr++
			}
		}
		if strings.Contains(cls, "/notif") && a.call != nil && !a.respond {
			nNotif++
		}
		switch {
		case strings.Contains(cls, "/idnull"):
			c.Probe("id_null")
		case strings.Contains(cls, "/idfrac"):
			c.Probe("id_fraction_or_exponent")
		case strings.Contains(cls, "/idbad"):
			c.Probe("id_illtyped")
		case strings.Contains(cls, "/req"):
			if a.respond && len(a.ids) > 0 && a.ids[0].k == jStr {
				c.Probe("id_string")
			} else {
				c.Probe("id_number")
			}
		}
	}
	if exp.mode == topBatch {
		if nNotif == len(exp.entries) && obs.shape == "none" {
			c.Probe("batch_only_notifications")
		}
		if nNotif > 0 && nErr > 0 && nResp > nErr {
			c.Probe("mixed_batch")
		}
		if len(exp.entries) >= 8 {
			c.Probe("batch_8_or_more")
		}
	}
}

func optionalOmitted(cs *callSpec) bool {
	for i, p := range cs.m.params {
		if p.optional && jeq(cs.args[i], defaultOf(p.t), false) {
			return true
		}
	}
	return false
}
