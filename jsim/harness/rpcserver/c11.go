// Package rpcserver holds the simulation harness of property C11: the real jsonrpc.Server of
// /repo answers any input with well-formed, correlated JSON-RPC 2.0 responses.
package rpcserver

import (
	"bytes"
	"context"
	"errors"
	"fmt"
	"io"
	"reflect"
	"runtime/debug"
	"sort"
	"strings"
	"sync/atomic"
	"testing/synctest"
	"time"
	"unsafe"

	"github.com/NethermindEth/juno/jsonrpc"
	rpcv10 "github.com/NethermindEth/juno/rpc/v10"
	"github.com/NethermindEth/juno/utils/log"

	"jsim/sim"
)

// ---- fault-injecting reader ---------------------------------------------------------------

var errInjected = errors.New("jsim: injected read error")

// faultReader delivers data according to a plan fixed before the call (it never draws: Read runs
// on the server's goroutine).
type faultReader struct {
	data        []byte
	pos         int
	cuts        map[int]bool // a Read never crosses one of these offsets
	maxRead     int          // >0: no Read returns more than this many bytes
	zeroAt      map[int]bool // at these offsets one Read returns (0, nil) first
	failAt      int          // >=0: at this offset the reader fails with failErr (sticky)
	failErr     error
	eofWithData bool // deliver the final error together with the last bytes
	stallAt     int  // >=0: the Read that starts at this offset blocks until resume is closed (once)
	resume      chan struct{}
	resumed     bool
	stalled     atomic.Bool // a Read is blocked at stallAt right now

	// what actually happened
	nCut, nShort, nZero, nFail int
	served                     int
	nReads, nStall             int
}

// letGo lets a stalled body go on (idempotent; main goroutine only).
func (r *faultReader) letGo() bool {
	if r.resume == nil || r.resumed {
		return false
	}
	r.resumed = true
	close(r.resume)
	return true
}

func (r *faultReader) end() int {
	if r.failAt >= 0 && r.failAt < len(r.data) {
		return r.failAt
	}
	return len(r.data)
}

func (r *faultReader) finalErr() error {
	if r.failAt >= 0 {
		return r.failErr
	}
	return io.EOF
}

func (r *faultReader) Read(p []byte) (int, error) {
	r.nReads++
	if r.stallAt >= 0 && r.pos == r.stallAt && r.nStall == 0 {
		r.nStall++
		r.stalled.Store(true)
		<-r.resume
		r.stalled.Store(false)
	}
	end := r.end()
	if r.pos >= end {
		if r.failAt >= 0 {
			r.nFail++
		}
		return 0, r.finalErr()
	}
	if len(p) == 0 {
		return 0, nil
	}
	if r.zeroAt[r.pos] {
		delete(r.zeroAt, r.pos)
		r.nZero++
		return 0, nil
	}
	n := len(p)
	if n > end-r.pos {
		n = end - r.pos
	}
	full := n
	if r.maxRead > 0 && n > r.maxRead {
		n = r.maxRead
	}
	cutHit := false
	for k := 1; k < n; k++ {
		if r.cuts[r.pos+k] {
			n = k
			cutHit = true
			break
		}
	}
	if n < full {
		if cutHit {
			r.nCut++
		} else {
			r.nShort++
		}
	}
	copy(p, r.data[r.pos:r.pos+n])
	r.pos += n
	r.served = r.pos
	if r.pos >= end && r.eofWithData {
		if r.failAt >= 0 {
			r.nFail++
		}
		return n, r.finalErr()
	}
	return n, nil
}

type rwPair struct {
	io.Reader
	w bytes.Buffer
}

func (p *rwPair) Write(b []byte) (int, error) { return p.w.Write(b) }

// ---- access to the server's worker pool (unexported; needed to join its goroutines) ------------

func poolWait(s *jsonrpc.Server) (recovered any) {
	defer func() { recovered = recover() }()
	f := reflect.ValueOf(s).Elem().FieldByName("pool")
	if !f.IsValid() {
		return "jsonrpc.Server has no field named pool"
	}
	p := reflect.NewAt(f.Type(), unsafe.Pointer(f.UnsafeAddr())).Elem()
	w := p.MethodByName("Wait")
	if !w.IsValid() {
		return "pool has no Wait method"
	}
	w.Call(nil)
	return nil
}

// panicSite walks a captured stack from the innermost frame outwards: a frame of the harness
// reached first means the harness is at fault, a frame of the jsonrpc package reached first (possibly
// below standard-library frames it called) means the server crashed.
func panicSite(st string) (fn string, inServer bool) {
	lines := strings.Split(st, "\n")
	seen := false
	fn = "?"
	for i := 0; i+1 < len(lines); i++ {
		l := lines[i]
		if strings.HasPrefix(l, "panic(") || strings.HasPrefix(l, "runtime.gopanic") {
			seen = true
			continue
		}
		if !seen || strings.HasPrefix(l, "\t") || strings.HasPrefix(l, "goroutine ") || l == "" {
			continue
		}
		loc := strings.TrimSpace(lines[i+1])
		if strings.HasPrefix(l, "runtime.") || strings.Contains(loc, "/src/runtime/") {
			continue
		}
		name := l
		if k := strings.LastIndex(name, "("); k > 0 {
			name = name[:k]
		}
		if fn == "?" {
			fn = name
		}
		if strings.Contains(loc, "/harness/rpcserver/") {
			return fn, false
		}
		if strings.Contains(loc, "/jsonrpc/") {
			return fn, true
		}
	}
	return fn, false
}

type callResult struct {
	out      []byte
	err      error
	panicked bool
	panicVal any
	stack    string
}

// ---- the run -------------------------------------------------------------------------------

const (
	classPlain = iota // no faults, handlers do not park
	classReader
	classSched
)

func C11(c *sim.Ctx) {
	t := c.T
	// the transport class: the same three kinds of run, with the input travelling as the body of an
	// HTTP request through the real jsonrpc.HTTP handler (httpx.go)
	// (httpx.go), or as a message on a WebSocket connection through the real jsonrpc.Websocket handler (wsx.go)
	const viaHTTPClass, viaWSClass = -1, -2
	class := []int{classPlain, classPlain, classReader, classSched, viaHTTPClass, viaHTTPClass, viaWSClass}[t.Draw("class", 7)]
	switch c.Knobs["only_class"] { // experiment aid (JSIM_KNOB_only_class=plain|reader|sched|http|http_plain|http_reader|http_sched|ws|ws_plain|ws_frag|ws_sched); not set by props
	case "plain":
		class = classPlain
	case "reader":
		class = classReader
	case "sched":
		class = classSched
	case "http", "http_plain", "http_reader", "http_sched":
		class = viaHTTPClass
	case "ws", "ws_plain", "ws_frag", "ws_sched":
		class = viaWSClass
	}
	viaHTTP, viaWS, wsFrag := class == viaHTTPClass, class == viaWSClass, false
	if viaWS {
		// plain / the message split into frames and the frames into writes / scheduling
		switch k := t.Draw("ws_inner", 4); {
		case c.Knobs["only_class"] == "ws_plain":
			class = classPlain
		case c.Knobs["only_class"] == "ws_frag":
			class, wsFrag = classPlain, true
		case c.Knobs["only_class"] == "ws_sched" || k >= 2:
			class = classSched
		case k == 1:
			class, wsFrag = classPlain, true
		default:
			class = classPlain
		}
	}
	if viaHTTP {
		class = []int{classPlain, classReader, classSched, classSched}[t.Draw("http_inner", 4)]
		switch c.Knobs["only_class"] {
		case "http_plain":
			class = classPlain
		case "http_reader":
			class = classReader
		case "http_sched":
			class = classSched
		}
	}
	// vc: violations found through the HTTP transport carry that in their class, except the classes of
	// the suspected defects of the dispatcher (classify.go), which are the same defect on every path
	vc := func(cls string) string {
		if !viaHTTP && !viaWS {
			return cls
		}
		for _, r := range allRelax {
			if cls == r {
				return cls
			}
		}
		if viaWS {
			return "ws_" + cls
		}
		return "http_" + cls
	}
	// a share of the runs calls the methods whose parameters are structs with validate tags
	// (valid_types.go); the validator is attached to the server of every run, as node.go attaches it
	validRun := t.Chance("valid_methods", 2, 5)
	switch c.Knobs["valid"] { // experiment aid (JSIM_KNOB_valid=only|off); not set by props
	case "only":
		validRun = true
	case "off":
		validRun = false
	}
	// another share calls the methods whose top-level parameters are narrow integers, float64, named
	// scalar types with their own decoders and slices / pointers of those (scalar_types.go)
	scalarRun := !validRun && t.Chance("scalar_methods", 1, 3)
	switch c.Knobs["scalar"] { // experiment aid (JSIM_KNOB_scalar=only|off); not set by props
	case "only":
		validRun, scalarRun = false, true
	case "off":
		scalarRun = false
	}
	g := &gen{t: t, sched: class == classSched, biased: class == classSched && !t.Chance("sched_unbiased", 1, 5), valid: validRun, scalar: scalarRun}
	input, label := g.input()
	// Only an input that names one of the methods whose result cannot be serialised can reach the
	// server's handling of a failed serialisation. Those runs (and every run of a process in which an
	// earlier run hung, see wait.go) do not rely on synctest.Wait() or on a blocking receive to learn
	// that the server has come to rest.
	hangProne := bytes.Contains(input, []byte(unserTag))
	careful := hangProne || poisoned()

	poolSize := []int{1, 2, 3, 8, 16}[t.Draw("pool", 5)]
	useRW := !viaHTTP && !viaWS && t.Chance("read_writer", 1, 4)
	traceLog := t.Chance("trace_logger", 1, 4)

	// the reader plan
	rd := &faultReader{data: input, failAt: -1, stallAt: -1, cuts: map[int]bool{}, zeroAt: map[int]bool{}}
	effective := input // the byte sequence the server is given
	hardFault := false // a non-EOF read error is planned
	if class == classReader {
		if t.Chance("chunks", 2, 3) && len(input) > 1 {
			n := 1 + t.Draw("ncuts", 6)
			for i := 0; i < n; i++ {
				rd.cuts[1+t.Draw("cut", len(input)-1)] = true
			}
		}
		switch t.Draw("short", 4) {
		case 1:
			rd.maxRead = 1
		case 2:
			rd.maxRead = 1 + t.Draw("max_read", 7)
		case 3:
			if len(input) > 0 {
				for i := 0; i < 1+t.Draw("nzero", 3); i++ {
					rd.zeroAt[t.Draw("zero_at", len(input))] = true
				}
			}
		}
		switch t.Draw("fail", 6) {
		case 1: // the stream ends early: the received byte sequence is the prefix
			rd.failAt = t.Draw("eof_at", len(input)+1)
			rd.failErr = io.EOF
			effective = input[:rd.failAt]
		case 2:
			rd.failAt = t.Draw("fail_at", len(input)+1)
			rd.failErr = io.ErrUnexpectedEOF
			hardFault = true
		case 3:
			rd.failAt = t.Draw("fail_at", len(input)+1)
			rd.failErr = errInjected
			hardFault = true
		}
		rd.eofWithData = t.Chance("err_with_data", 1, 3)
	}

	// scheduling class knobs
	cancelAllowed := class == classSched && t.Chance("cancel_enabled", 1, 3)
	if viaWS {
		// the only context a WebSocket connection has is the connection's: cancelling it takes the
		// connection away and with it everything that could be observed
		cancelAllowed = false
	}
	timeout := time.Duration(0)
	if useRW && cancelAllowed && !hangProne && t.Chance("timeout_instead_of_cancel", 1, 2) {
		// (not for hang-prone inputs: after a hang the fake clock cannot be advanced any more, and
		// the run must still replay in the same process)
		timeout = 5 * time.Second
	}
	var hp *httpPlan
	if viaHTTP {
		hp = planHTTP(t, class == classSched, hangProne, len(input))
		timeout = hp.timeout
		if hp.stallAt >= 0 {
			rd.stallAt, rd.resume = hp.stallAt, make(chan struct{})
			rd.cuts[hp.stallAt] = true // the Read before ends there, so that one Read starts there
		}
	}
	var wp *wsPlan
	if viaWS {
		wp = planWS(t, class == classSched, wsFrag, hangProne, len(input))
		timeout = wp.timeout
	}
	if poisoned() && (timeout > 0 || (hangProne && hangsLeft >= maxHangsLeftBehind)) {
		c.Inconclusive++
		return
	}

	cl := classifyInput(effective)
	c.Logf("class=%d gen=%s pool=%d rw=%v trace=%v len=%d input=%q", class, label, poolSize, useRW, traceLog, len(input), clip(string(input), 400))
	if viaHTTP {
		c.Logf("transport=http %s", hp)
		c.Probe("http_transport")
	}
	if viaWS {
		c.Logf("transport=websocket timeout=%v binary=%v frames-at=%v writes=%d max-conn=%d", wp.timeout, wp.binary, wp.frags, len(wp.segs), wp.maxConn)
		c.Probe("ws_transport")
	}
	c.Logf("input-hash %x effective=%d classified=%s", fnv(input), len(effective), cl.summary)
	c.Sample = map[string]any{"class": class, "generator": label, "classified": cl.summary, "input": clip(string(input), 300)}
	if viaHTTP {
		c.Sample.(map[string]any)["http"] = hp.String()
	}

	// the server
	var logger log.StructuredLogger = log.NewNopZapLogger()
	if traceLog {
		zl, err := log.NewZapLogger(log.NewLevel(log.TRACE), log.WithWriter(io.Discard), log.WithJSON(true))
		c.Must(err, "logger")
		logger = zl
	}
	srv := jsonrpc.NewServer(poolSize, logger).WithValidator(rpcv10.Validator())
	rec := &recorder{park: class == classSched}
	heldAnswer := !viaHTTP && !viaWS && !useRW && class != classSched && t.Chance("held_answer", 1, 6)
	c.Must(register(srv, rec), "register methods")
	if viaWS {
		c.Must(srv.RegisterMethods(jsonrpc.Method{Name: sentinelMethod, Handler: func() (any, *jsonrpc.Error) { return "pong", nil }}), "register the sentinel method")
	}

	ctx, cancel := context.WithCancel(context.Background())
	// what the scheduler did to the exchange (HTTP and WebSocket classes)
	deadlineFired := false   // the fake clock was moved past the transport's request timeout
	clientCancelled := false // the request's context was cancelled
	releasedBefore := 0      // handler groups released before the deadline fired
	var hx *httpRun
	if viaHTTP {
		hx = newHTTPRun(c, hp, srv, logger, ctx, rd)
		if hp.preCancelled {
			cancel()
			clientCancelled = true
			c.Logf("the request's context is cancelled before the call")
			c.Fault("http_client_cancel")
			c.Probe("http_client_cancel_before_call")
		}
	}
	var wsx *wsRun
	if viaWS {
		wsx = newWSRun(wp, srv, logger, ctx)
	}
	serve := func() (res callResult) {
		defer func() {
			if r := recover(); r != nil {
				res.panicked, res.panicVal, res.stack = true, r, string(debug.Stack())
			}
		}()
		if viaHTTP {
			// the output is what the handler wrote to hx.w; it is read after the call has returned
			hx.h.ServeHTTP(hx.w, hx.req)
		} else if viaWS {
			// the whole life of the connection; the output is what the client end received
			wsx.h.ServeHTTP(wsx.w, wsx.req)
		} else if useRW {
			rw := &rwPair{Reader: rd}
			res.err = srv.HandleReadWriter(ctx, timeout, rw)
			res.out = rw.w.Bytes()
		} else {
			res.out, _, res.err = srv.HandleReader(ctx, rd)
			if heldAnswer && !rec.park {
				// Another client's batch is served while this answer has been handed over but not yet
				// written out by a transport: the bytes handed over must still be this request's answer
				// afterwards (they must not live in memory the server reuses for the next request).
				rec.mu.Lock()
				keep := len(rec.invs)
				rec.mu.Unlock()
				_, _, _ = srv.HandleReader(context.Background(), strings.NewReader(`[{"jsonrpc":"2.0","method":"m0","params":[],"id":"other-client-1"},{"jsonrpc":"2.0","method":"m0","params":[],"id":"other-client-2"},{"jsonrpc":"2.0","method":"m0","params":[],"id":"other-client-3"}]`))
				rec.mu.Lock()
				rec.invs = rec.invs[:keep]
				rec.mu.Unlock()
				c.Probe("answer_held_while_another_request_is_served")
			}
		}
		return res
	}

	var res callResult
	obs := &observed{cancelled: clientCancelled}
	joined := false
	shape := "other"
	if len(cl.cands) > 0 && cl.structured {
		shape = "single"
		if cl.cands[0].mode == topBatch {
			shape = "batch"
		}
	}
	unserNoted := false
	noteUnser := func() { // the failed serialisation is a fault that fired
		if unserNoted || rec.unserCount() == 0 {
			return
		}
		unserNoted = true
		c.Fault("result_marshal_error")
		if shape == "batch" {
			c.Probe("unserialisable_result_in_batch")
		} else {
			c.Probe("unserialisable_result_single")
		}
	}
	done := make(chan callResult, 1)
	isDone := func() bool { return len(done) > 0 }
	// hang: the server can make no further step and the call has not returned (or has returned and
	// left a goroutine stuck for ever). That is the verdict; what follows in this function is
	// clean-up, so that the next run finds a quiet bubble (wait.go): get goroutines that are stuck on
	// a mutex moving by unlocking it for whoever left it locked, release every handler, join. If that
	// does not bring the call back, its goroutines are left behind and the process is poisoned.
	// releaseExtra lets go of whatever else the harness holds the server back with: a stalled body,
	// the slots of the admission gate
	releaseExtra := func() int {
		n := 0
		if rd.letGo() {
			n++
		}
		if hx != nil {
			n += hx.releaseGate()
		}
		if wsx != nil && !wsx.closed {
			wsx.abort()
			n++
		}
		return n
	}
	failClass := "hang" // (the same clean-up serves one other verdict reached while the call is still in flight)
	hang := func(key, format string, a ...any) {
		cancel()
		noteUnser()
		recovered := false
		rounds := 200
		if c.Knobs["no_unstick"] != "" { // experiment aid: exercise the fallback (goroutines left behind)
			rounds = 0
		}
		for round := 0; round < rounds; round++ {
			released := rec.releaseAll() + releaseExtra()
			_, locked := settle(c, never, 0)
			if locked > 0 {
				if n, ok := unstickOnce(); !ok || n == 0 {
					break
				}
				continue
			}
			if isDone() {
				recovered = true
				break
			}
			if keys, _ := rec.parkedGroups(); released == 0 && len(keys) == 0 {
				break // everything is durably blocked and nothing is left to release
			}
		}
		if recovered {
			<-done
			joined = true
			rec.releaseAll()
			if r := poolWait(srv); r != nil {
				recovered = false // (cannot happen after a successful join; never hide the hang behind it)
			}
		}
		if !recovered {
			poison(c)
		}
		c.Fail(vc(failClass), key+"("+shape+")", format, a...)
	}
	finish := func() {
		// join everything this run started
		if joined {
			return
		}
		joined = true
		cancel()
		rec.releaseAll()
		releaseExtra()
		if r := poolWait(srv); r != nil {
			msg := fmt.Sprint(r)
			if strings.Contains(msg, "/jsonrpc/") {
				c.Fail("panic", "pool_worker", "panic inside a batch worker: %s", clip(msg, 3000))
			}
			c.Broken("joining the server's pool: %s", clip(msg, 2000))
		}
	}

	if careful {
		markForeign()
	}
	// wait: every other goroutine of the bubble is blocked (or gone). Reports how many of them are
	// stuck acquiring a lock (careful mode only; synctest.Wait() would not return at all then).
	wait := func(spins int) (locked int) {
		if careful {
			_, locked = settle(c, isDone, spins)
			return locked
		}
		synctest.Wait()
		return 0
	}
	// leftover: the call has returned; a goroutine of the server that is stuck on a lock for ever
	// is a part of the server that hangs (it keeps its slot of the worker pool), and could not be joined
	leftover := func() {
		if !careful {
			return
		}
		if _, locked := settle(c, never, 0); locked > 0 {
			hang("worker_blocked_on_lock_after_return", "the call returned but %d goroutine(s) of the server stay blocked acquiring a lock; input %q", locked, clip(string(input), 400))
		}
	}

	if class != classSched && !viaWS {
		if !careful {
			res = serve()
		} else {
			go func() { done <- serve() }()
			if finished, locked := settle(c, isDone, 200); !finished {
				if locked > 0 {
					hang("blocked_on_lock", "the call does not return: %d goroutine(s) of the server are blocked acquiring a lock that nobody will release; input %q", locked, clip(string(input), 400))
				}
				hang("call_does_not_return", "the call does not return: every goroutine of the server is blocked; input %q", clip(string(input), 400))
			}
			res = <-done
			leftover()
		}
		finish()
	} else {
		start := time.Now()
		if viaWS {
			nf, nw := wsx.sendMessage(input)
			if nf > 1 {
				c.Fault("ws_fragmented_message")
			}
			if nw > 1 {
				c.Fault("ws_segmented_write")
			}
			if wp.binary {
				c.Probe("ws_binary_message")
			}
		}
		go func() { done <- serve() }()
		finished := false
		wsClockUsed := false
		steps, reorders := 0, 0
		tp := "http" // prefix of the probes of the transport classes
		if viaWS {
			tp = "ws"
		}
		maxParked := 0
		for !finished {
			locked := wait(4)
			select {
			case res = <-done:
				finished = true
				continue
			default:
			}
			keys, show := rec.parkedGroups()
			// HTTP: the request can also be waiting for a slot of the admission gate or for the rest
			// of its body; then the scheduler has something else to let go of
			gateWaiting := hx != nil && hx.gateHeld > 0
			bodyStalled := rd.stalled.Load()
			if wsx != nil && len(keys) == 0 {
				// The server is at rest and waits for no handler: either it is reading the connection
				// (the message has been dealt with) or it is stuck.
				msgs, gotClose, _, _ := wsx.client.snapshot()
				stuck := ""
				switch {
				case wsx.phase == 0 && !gotClose:
					wsx.sendSentinel()
					c.Logf("server at rest: send the sentinel request")
					continue
				case wsx.phase == 1 && len(msgs) > wsx.nBefore:
					ans, perr := parseExact(msgs[wsx.nBefore])
					ok := perr == nil && len(msgs) == wsx.nBefore+1 && ans.k == jObj
					if ok {
						id, has := ans.get("id")
						r, hasR := ans.get("result")
						ok = has && hasR && id.k == jStr && id.s == "jsim-sentinel" && r.k == jStr && r.s == "pong"
					}
					if !ok {
						failClass = "next_message"
						hang("next_request_on_connection_answered_wrongly", "the request sent after the message under test on the same connection got %q; input %q", clip(string(msgs[wsx.nBefore]), 200), clip(string(input), 400))
					}
					c.Probe("ws_next_message_answered")
					wsx.client.sendClose()
					wsx.phase = 2
					c.Logf("sentinel answered: close the connection")
					continue
				case wsx.phase == 1 && !gotClose:
					// it has not taken the next message from the connection and has not closed it
					stuck = "no_parked_handler"
				default:
					// the close handshake is under way (started by the client in phase 2, by the server
					// otherwise) and the call has not returned: the library may be waiting on one of
					// its own timers (5 s, 15 s) - let them pass once
					if gotClose && wsx.phase < 2 {
						c.Probe("ws_server_closed_first")
					}
					if !wsClockUsed && !careful {
						wsClockUsed = true
						c.Logf("closing: let the library's timers pass")
						time.Sleep(21 * time.Second)
						continue
					}
					stuck = "connection_close_does_not_complete"
				}
				if locked > 0 {
					stuck = "blocked_on_lock"
				}
				hang(stuck, "the connection's handler does not return and waits for nothing the client could still do (phase %d, close frame received: %v, %d goroutine(s) blocked on a lock); input %q", wsx.phase, gotClose, locked, clip(string(input), 400))
			}
			if len(keys) == 0 && !gateWaiting && !bodyStalled {
				// quiescent, nothing to release, no answer: the call hangs.
				if locked > 0 {
					hang("blocked_on_lock", "the call does not return: no handler is left to release and %d goroutine(s) of the server are blocked acquiring a lock that nobody will release; input %q", locked, clip(string(input), 400))
				}
				hang("no_parked_handler", "the call is blocked with no handler left to release; input %q", clip(string(input), 400))
			}
			if len(keys) > maxParked {
				maxParked = len(keys)
			}
			if steps++; steps > 200 {
				c.Inconclusive++
				break
			}
			// what the scheduler can do now: let one group of handlers finish, or one of the other events
			const (
				optCancel   = iota // the caller's context is cancelled (direct calls: or the request timeout of HandleReadWriter passes)
				optGate            // HTTP: the requests holding the gate's slots finish
				optBody            // HTTP: the rest of the body arrives
				optDeadline        // HTTP: the fake clock passes the handler's request timeout
			)
			var extra []int
			if wsx != nil {
				if timeout > 0 && !deadlineFired {
					extra = append(extra, optDeadline)
				}
			} else if hx == nil {
				if cancelAllowed && !obs.cancelled {
					extra = append(extra, optCancel)
				}
			} else {
				if gateWaiting {
					extra = append(extra, optGate)
				}
				if bodyStalled {
					extra = append(extra, optBody)
				}
				if timeout > 0 && !deadlineFired {
					extra = append(extra, optDeadline)
				}
				// (a client that goes away while its body is still arriving makes the body fail, not
				// stall; that is the reader class, not this one)
				if cancelAllowed && !clientCancelled && !bodyStalled {
					extra = append(extra, optCancel)
				}
			}
			pick := t.Draw("sched", len(keys)+len(extra))
			if pick < len(keys) {
				if pick > 0 {
					reorders++
				}
				n := rec.releaseGroup(keys[pick])
				c.Logf("release %s x%d (of %d distinct parked)", show[pick], n, len(keys))
				if (hx != nil || wsx != nil) && timeout > 0 {
					if deadlineFired {
						c.Probe(tp + "_handler_released_after_deadline")
					} else {
						releasedBefore++
					}
				}
				continue
			}
			switch extra[pick-len(keys)] {
			case optCancel:
				obs.cancelled = true
				if hx != nil {
					clientCancelled = true
					c.Logf("client gone: cancel the request's context with %d distinct parked", len(keys))
					cancel()
					c.Fault("http_client_cancel")
					switch {
					case timeout > 0 && deadlineFired:
						c.Probe("http_client_cancel_after_deadline")
					case timeout > 0:
						c.Probe("http_client_cancel_before_deadline")
					}
					if gateWaiting {
						c.Probe("http_gate_cancel_while_queued")
					}
					if len(keys) == 0 {
						break
					}
				} else if timeout > 0 {
					c.Logf("advance clock beyond the request timeout with %d distinct parked", len(keys))
					time.Sleep(timeout + time.Millisecond)
				} else {
					c.Logf("cancel context with %d distinct parked", len(keys))
					cancel()
				}
				c.Fault("ctx_cancel")
				c.Probe("cancel_while_parked")
			case optGate:
				n := hx.releaseGate()
				c.Logf("the %d request(s) holding the gate finish", n)
				c.Probe("http_gate_admitted_after_wait")
			case optBody:
				rd.letGo()
				c.Logf("the body goes on at offset %d", rd.stallAt)
				if deadlineFired {
					c.Probe("http_body_completed_after_deadline")
				}
			case optDeadline:
				deadlineFired = true
				obs.cancelled = true // handlers that watch their context may report that they were cut off
				c.Logf("advance clock beyond the request timeout (%v) with %d distinct parked, gate-waiting=%v body-stalled=%v", timeout, len(keys), gateWaiting, bodyStalled)
				time.Sleep(timeout + time.Millisecond)
				c.Fault(tp + "_request_deadline")
				switch {
				case gateWaiting:
					c.Probe("http_gate_timeout_while_queued")
				case bodyStalled:
					c.Probe("http_deadline_during_body_read")
				case len(keys) > 0:
					c.Probe(tp + "_deadline_before_handler_done")
					if shape == "batch" && releasedBefore > 0 {
						c.Probe(tp + "_batch_straddles_deadline")
					}
				}
				if clientCancelled {
					c.Probe("http_deadline_after_client_cancel")
				}
			}
		}
		if !finished {
			// step cap: let everything run out, judge nothing
			for i := 0; i < 1000 && !finished; i++ {
				rec.releaseAll()
				releaseExtra()
				wait(4)
				select {
				case res = <-done:
					finished = true
				default:
				}
			}
			if !finished {
				c.Broken("could not drain the server after the step cap")
			}
			leftover()
			finish()
			return
		}
		if reorders > 0 {
			c.Fault("handler_reorder")
		}
		if maxParked > 1 {
			c.Probe("concurrent_handlers")
		}
		c.SimNs += int64(time.Since(start))
		leftover()
		finish()
	}
	noteUnser()

	// faults that actually fired
	if rd.nCut > 0 {
		c.Fault("chunked_read")
	}
	if rd.nShort > 0 || rd.nZero > 0 {
		c.Fault("short_read")
	}
	if rd.failAt >= 0 && rd.nFail > 0 {
		if rd.failErr == io.EOF {
			if rd.failAt < len(input) {
				c.Fault("eof_mid_message")
			}
		} else if rd.failErr == io.ErrUnexpectedEOF {
			c.Fault("eof_mid_message")
			c.Fault("reader_error")
		} else {
			c.Fault("reader_error")
		}
	}

	if res.panicked {
		fn, inRepo := panicSite(res.stack)
		if inRepo {
			c.Fail("panic", fn, "panic in the server: %v\n%s", res.panicVal, clip(res.stack, 4000))
		}
		c.Broken("panic outside the code under test: %v\n%s", res.panicVal, clip(res.stack, 3000))
	}
	if rec.broken != "" {
		c.Broken("%s", rec.broken)
	}

	obs.out, obs.err = res.out, res.err
	obs.invs = rec.snapshot()

	if viaHTTP {
		// what the client of the exchange has in hand
		if rd.nStall > 0 {
			c.Fault("http_body_stall")
		}
		if hp.timeout > 0 {
			c.Probe("http_request_timeout_configured")
			if class == classSched && !deadlineFired && len(obs.invs) > 0 {
				c.Probe("http_handlers_done_before_deadline")
			}
		}
		if hp.gate {
			c.Probe("http_gate_configured")
			if hp.occupy {
				c.Fault("http_gate_contention")
			}
		}
		if hp.listener && hx.lst.n.Load() != 1 {
			c.Probe("http_listener_not_called_once") // not part of the property; visible in the evidence only
		}
		rcv := hx.clientView(rd.nReads, len(obs.invs))
		c.Logf("http status=%d header-writes=%d refused=%v", rcv.status, hx.w.nHeader, rcv.refused)
		c.Nontrivial = cl.structured || len(c.Faults) > 0
		if rcv.v != nil {
			c.Fail(vc(rcv.v.class), rcv.v.key, "%s; status %d; input %q", rcv.v.detail, rcv.status, clip(string(input), 600))
		}
		if rcv.refused {
			// Turned away by the transport before a single byte of the request was read: the server
			// has not received a request, and the statement says nothing about admission control.
			// Checked: the call came back, nothing crashed, no handler ran.
			c.Logf("refused: %q", clip(string(rcv.body), 80))
			switch {
			case hp.gate && hp.occupy && deadlineFired:
				// (probe http_gate_timeout_while_queued counted by the scheduler)
			case hp.gate && hp.occupy && !clientCancelled:
				c.Probe("http_gate_busy_rejected")
			default:
				// nothing the harness did explains the refusal: not a matter of this property, but
				// not something to pass over silently either
				c.Probe("http_refused_unexplained")
				c.Inconclusive++
			}
			return
		}
		if clientCancelled && len(rcv.body) == 0 {
			// the client went away before the call returned: there is nobody an answer could be owed to
			c.Logf("no body; the client had gone")
			c.Probe("http_no_body_after_client_cancel")
			return
		}
		if hx.w.sent.Get("Content-Encoding") != "" && len(rcv.body) > 0 {
			c.Probe("http_gzip_body")
		}
		if hx.w.sent.Get("X-Jsim") != "" {
			c.Probe("http_handler_header_forwarded")
		}
		obs.out = rcv.body
	}

	if viaWS {
		// what the client end of the connection received (the client has been shut by finish())
		msgs, gotClose, closeCode, perr := wsx.client.snapshot()
		c.Nontrivial = cl.structured || len(c.Faults) > 0
		if wsx.w.status != 101 || !wsx.w.hijacked {
			c.Broken("the upgrade request was not accepted: status %d, body %q", wsx.w.status, clip(wsx.w.body.String(), 200))
		}
		if wp.timeout > 0 {
			c.Probe("ws_request_timeout_configured")
		}
		first := msgs
		if wsx.phase >= 1 && len(first) > wsx.nBefore {
			first = msgs[:wsx.nBefore]
		}
		c.Logf("websocket: %d message(s) for the message under test, phase=%d close-frame=%v code=%d", len(first), wsx.phase, gotClose, closeCode)
		if perr != "" {
			c.Fail(vc("malformed_output"), "frame_"+perr, "the server sent a frame the client cannot accept (%s); input %q", perr, clip(string(input), 600))
		}
		if len(first) > 1 {
			c.Fail(vc("malformed_output"), "several_messages_for_one_request", "%d messages were sent in answer to one message: %q ...; input %q", len(first), clip(string(first[0]), 200), clip(string(input), 600))
		}
		obs.out = nil
		if len(first) == 1 {
			obs.out = first[0]
			if len(obs.out) == 0 {
				c.Fail(vc("malformed_output"), "empty_message", "an empty message was sent in answer; input %q", clip(string(input), 600))
			}
		}
	}

	// log the outcome in a schedule-independent form
	if v := readOutput(obs); v != nil {
		c.Logf("output %q", clip(string(obs.out), 300))
		c.Fail(vc(v.class), v.key, "%s; input %q", v.detail, clip(string(input), 600))
	}
	{
		var rs, is []string
		for _, r := range obs.resps {
			rs = append(rs, r.logForm())
		}
		sort.Strings(rs)
		for _, inv := range obs.invs {
			s := inv.key
			if inv.cancelled {
				s += "!cancelled"
			}
			is = append(is, s)
		}
		sort.Strings(is)
		c.Logf("output shape=%s err=%v responses=%s", obs.shape, obs.err != nil, strings.Join(rs, " "))
		c.Logf("calls=%s", strings.Join(is, " "))
	}

	c.Nontrivial = cl.structured || len(c.Faults) > 0

	// transport error: only a hard reader fault may cause one, and then nothing else may have happened
	if obs.err != nil {
		if rec.unserCount() > 0 && len(obs.out) == 0 {
			// (a more specific name for what the two checks below would report anyway: a handler ran,
			// its result could not be serialised, and the caller gets an error from the transport and
			// not a single byte of a response)
			c.Fail(relaxUnserDropped, "single:call_returns_error_instead_of_response_object", "the call returned error %v and no output after the handler's result failed to serialise: the request has an id and gets no response object; input %q", obs.err, clip(string(input), 600))
		}
		if !(hardFault && rd.nFail > 0) {
			c.Fail("transport_error", "without_fault", "the call returned error %v without an injected read error; input %q", obs.err, clip(string(input), 600))
		}
		if len(obs.out) > 0 || len(obs.invs) > 0 {
			c.Fail("fault_partial", "error_with_output_or_calls", "error %v together with output %q / %d handler calls", obs.err, clip(string(obs.out), 300), len(obs.invs))
		}
		c.Probe("fault_transport_error")
		return
	}

	cands := cl.cands
	if hardFault && rd.nFail > 0 {
		// narrow relaxation: the whole call becomes a parse error (no handler ran), or — if the
		// error came after a complete message — is answered normally.
		faultExp := expectation{what: "read_error", mode: topSingle, entries: []entry{errEntry("read_error", idNullOnly, codeParse)}}
		if cl.firstEnd > 0 && rd.failAt >= cl.firstEnd {
			cands = append([]expectation{}, cl.cands...)
			cands = append(cands, faultExp)
		} else {
			cands = []expectation{faultExp}
		}
	}

	if cl.undecided != "" {
		// outside what the specification decides: only the generic checks above apply
		c.Inconclusive++
		c.Probe("undecided_input")
		c.Probe("undecided: " + cl.undecided)
		return
	}

	v, inconclusive, passed, chosen := judge(cands, obs)
	if inconclusive {
		c.Inconclusive++
		return
	}
	if v != nil {
		cls := v.class
		if hardFault && rd.nFail > 0 && (cls == "correlation" || cls == "invocation" || cls == "shape") {
			cls = "fault_" + cls // judged under the reader-fault relaxation
		}
		if (viaHTTP || viaWS) && vc(cls) != cls && len(obs.out) == 0 {
			// (a more specific name for what the verdict says anyway) no body at all, although no
			// reading of the input makes it a message of notifications only
			silentOK := false
			for i := range cands {
				if cands[i].relax == "" && match(&cands[i], &observed{shape: "none"}, map[string]bool{}, false).ok {
					silentOK = true
				}
			}
			if !silentOK {
				when := ""
				if deadlineFired {
					when = "_after_request_timeout"
				}
				if viaWS {
					c.Fail(vc("unanswered"), "no_message_for_request_with_id("+shape+")"+when, "no message was sent in answer (request timeout passed: %v): %s; input %q", deadlineFired, v.detail, clip(string(input), 800))
				}
				c.Fail(vc("unanswered"), "empty_body_for_request_with_id("+shape+")"+when, "status %d and an empty body (client still there: %v, request timeout passed: %v): %s; input %q",
					hx.w.status, !clientCancelled, deadlineFired, v.detail, clip(string(input), 800))
			}
		}
		c.Fail(vc(cls), v.key, "%s; input %q", v.detail, clip(string(input), 800))
	}
	if hardFault && rd.nFail > 0 {
		c.Probe("fault_read_error_judged")
	}
	probes(c, passed, chosen, obs)
}

func fnv(b []byte) uint64 {
	h := uint64(0xcbf29ce484222325)
	for _, x := range b {
		h ^= uint64(x)
		h *= 0x100000001b3
	}
	return h
}

// probes counts the rare conditions reached by a run that was judged and held.
func probes(c *sim.Ctx, exp *expectation, chosen []int, obs *observed) {
	for _, r := range obs.resps {
		if r.hasErr {
			switch r.code {
			case codeParse:
				c.Probe("code_parse_error")
			case codeInvalid:
				c.Probe("code_invalid_request")
			case codeNoMethod:
				c.Probe("code_method_not_found")
			case codeBadParams:
				c.Probe("code_invalid_params")
			case codeFail, codeBare, -32603:
				c.Probe("handler_error_returned")
			}
		}
	}
	nNotif, nCall, nErr, nResp := 0, 0, 0, 0
	for i, e := range exp.entries {
		a := e.alts[chosen[i]]
		cls := e.cls
		vProbes(c, &e, &a)
		if a.call != nil {
			nCall++
			if strings.Contains(cls, ":named") {
				c.Probe("named_params")
			}
			if strings.Contains(cls, ":pos") {
				c.Probe("positional_params")
			}
			if optionalOmitted(a.call) {
				c.Probe("optional_param_omitted")
			}
		}
		if a.respond {
			nResp++
			if len(a.errCodes) > 0 {
				nErr++
			}
		}
		if strings.Contains(cls, "/notif") && a.call != nil && !a.respond {
			nNotif++
		}
		switch {
		case strings.Contains(cls, "/idnull"):
			c.Probe("id_null")
		case strings.Contains(cls, "/idfrac"):
			c.Probe("id_fraction_or_exponent")
		case strings.Contains(cls, "/idbad"):
			c.Probe("id_illtyped")
		case strings.Contains(cls, "/req"):
			if a.respond && len(a.ids) > 0 && a.ids[0].k == jStr {
				c.Probe("id_string")
			} else {
				c.Probe("id_number")
			}
		}
	}
	if exp.mode == topBatch {
		if nNotif == len(exp.entries) && obs.shape == "none" {
			c.Probe("batch_only_notifications")
		}
		if nNotif > 0 && nErr > 0 && nResp > nErr {
			c.Probe("mixed_batch")
		}
		if len(exp.entries) >= 8 {
			c.Probe("batch_8_or_more")
		}
	}
}

func optionalOmitted(cs *callSpec) bool {
	for i, p := range cs.m.params {
		if p.optional && jeq(cs.args[i], defaultOf(p.t), false) {
			return true
		}
	}
	return false
}
