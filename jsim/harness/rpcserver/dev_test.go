package rpcserver

import (
	"fmt"
	"os"
	"sort"
	"strconv"
	"testing"
	"testing/synctest"

	"jsim/sim"
)

// TestDev is a developer aid (JSIM_DEV=<runs>): many seeds in one bubble, violation keys tallied.
func TestDev(t *testing.T) {
	n, _ := strconv.Atoi(os.Getenv("JSIM_DEV"))
	if n == 0 {
		t.Skip("JSIM_DEV not set")
	}
	synctest.Test(t, func(t *testing.T) {
		keys := map[string]int{}
		example := map[string]sim.RunResult{}
		probes := map[string]int{}
		faults := map[string]int{}
		inconcl, nontriv := 0, 0
		for i := 0; i < n; i++ {
			r := sim.Exec(C11, "C11", "quick", uint64(i)*7919+1, sim.Options{Bubble: true, PanicIsViolation: true})
			if r.Machinery != "" {
				fmt.Printf("seed %d machinery: %s\n%v\n", r.Seed, r.Machinery, r.Events)
				os.Exit(1)
			}
			r2 := sim.ExecTape(C11, "C11", "quick", r.Seed, r.Tape, sim.Options{Bubble: true, PanicIsViolation: true})
			if r2.TraceHash != r.TraceHash {
				fmt.Printf("seed %d: replay hash differs\n%v\n%v\n", r.Seed, r.Events, r2.Events)
				os.Exit(1)
			}
			for k, v := range r.Probes {
				probes[k] += v
			}
			for k, v := range r.Faults {
				faults[k] += v
			}
			inconcl += r.Inconcl
			if r.Nontrivial {
				nontriv++
			}
			if r.Violation != nil {
				keys[r.Violation.Key]++
				if _, ok := example[r.Violation.Key]; !ok {
					example[r.Violation.Key] = r
				}
			}
		}
		var ks []string
		for k := range keys {
			ks = append(ks, k)
		}
		sort.Strings(ks)
		for _, k := range ks {
			r := example[k]
			fmt.Printf("%6d  %s\n        seed %d: %s\n", keys[k], k, r.Seed, r.Violation.Detail)
		}
		fmt.Printf("runs=%d nontrivial=%d inconclusive=%d\nprobes=%v\nfaults=%v\n", n, nontriv, inconcl, probes, faults)
		if poisoned() { // a hang left goroutines behind: the bubble cannot end
			fmt.Printf("hangs=%d (process poisoned; leaving)\n", hangsLeft)
			os.Exit(0)
		}
	})
}
