package rpcserver

// The WebSocket transport class: the generated input is one WebSocket message sent to the real
// jsonrpc.Websocket handler (jsonrpc/websocket.go) over a net.Pipe. The server side of the
// connection is the real github.com/coder/websocket library (websocket.Accept on a ResponseWriter
// whose Hijack hands out one end of the pipe); the client side is written here by hand (RFC 6455
// framing: masked client frames, fragmentation, close handshake), because the library's Dial needs a
// real HTTP round trip. No socket: the pipe's operations are channel operations, so the whole
// exchange runs inside the bubble on the fake clock.
//
// After the message under test the client sends one more, fixed, request (the "sentinel") on the
// same connection: its answer shows that the server went back to reading (so: it does not hang in
// the first message) and that the connection still carries requests; then the client closes.

import (
	"bufio"
	"context"
	"encoding/binary"
	"errors"
	"io"
	"net"
	"net/http"
	"net/url"
	"sort"
	"sync"
	"time"

	"github.com/NethermindEth/juno/jsonrpc"
	"github.com/NethermindEth/juno/utils/log"

	"jsim/tape"
)

const (
	wsOpCont   = 0
	wsOpText   = 1
	wsOpBinary = 2
	wsOpClose  = 8
	wsOpPing   = 9
	wsOpPong   = 10

	sentinelMethod  = "jsim.sentinel"
	sentinelRequest = `{"jsonrpc":"2.0","method":"jsim.sentinel","id":"jsim-sentinel"}`
)

// hijackWriter is the ResponseWriter of the upgrade request.
type hijackWriter struct {
	respWriter
	conn     net.Conn
	hijacked bool
}

func (w *hijackWriter) Hijack() (net.Conn, *bufio.ReadWriter, error) {
	if w.hijacked {
		return nil, nil, errors.New("jsim: hijacked twice")
	}
	w.hijacked = true
	return w.conn, bufio.NewReadWriter(bufio.NewReader(w.conn), bufio.NewWriter(w.conn)), nil
}

type wsPlan struct {
	timeout time.Duration // WithRequestTimeout
	binary  bool          // the message travels as a binary message
	frags   []int         // offsets at which the message is split into frames
	segs    map[int]bool  // offsets (in the byte stream of the frames) at which a write to the connection ends
	maxConn int64         // WithMaxConnections (0 = default)
}

func planWS(t *tape.Tape, sched, frag, hangProne bool, inputLen int) *wsPlan {
	p := &wsPlan{segs: map[int]bool{}}
	num := 1
	if sched {
		num = 3
	}
	if t.Chance("ws_timeout", num, 4) && !hangProne {
		// (none of them equal to one of the library's own 5 s / 15 s timers)
		p.timeout = []time.Duration{3 * time.Second, 50 * time.Millisecond, 700 * time.Millisecond, 2 * time.Minute}[t.Draw("ws_timeout_value", 4)]
	}
	p.binary = t.Chance("ws_binary", 1, 6)
	if t.Chance("ws_max_conn", 1, 4) {
		p.maxConn = int64(1 + t.Draw("ws_max_conn_n", 3))
	}
	if frag {
		if inputLen > 1 && t.Chance("ws_fragments", 2, 3) {
			set := map[int]bool{}
			for i, n := 0, 1+t.Draw("ws_nfrag", 5); i < n; i++ {
				set[t.Draw("ws_frag_at", inputLen+1)] = true // 0 and inputLen give an empty first/last frame
			}
			for k := range set {
				p.frags = append(p.frags, k)
			}
			sort.Ints(p.frags)
		}
		if t.Chance("ws_segments", 1, 2) {
			for i, n := 0, 1+t.Draw("ws_nseg", 6); i < n; i++ {
				p.segs[1+t.Draw("ws_seg_at", inputLen+16)] = true
			}
		}
	}
	return p
}

// wsFrame builds one masked client frame.
func wsFrame(op byte, fin bool, payload []byte, key [4]byte) []byte {
	b := []byte{op}
	if fin {
		b[0] |= 0x80
	}
	switch n := len(payload); {
	case n < 126:
		b = append(b, 0x80|byte(n))
	case n < 1<<16:
		b = append(b, 0x80|126, byte(n>>8), byte(n))
	default:
		b = append(b, 0x80|127)
		b = binary.BigEndian.AppendUint64(b, uint64(n))
	}
	b = append(b, key[:]...)
	for i, x := range payload {
		b = append(b, x^key[i%4])
	}
	return b
}

// wsClient is the hand-written client end.
type wsClient struct {
	conn net.Conn
	out  chan [][]byte // pieces to write, one Write each; closed by the harness
	wg   sync.WaitGroup

	mu        sync.Mutex
	msgs      [][]byte
	closeCode int // status of the close frame received from the server (-1: none, 0: one without status)
	gotClose  bool
	pongs     int
	protoErr  string
	sentClose bool
	shutDown  bool
}

func newWSClient(conn net.Conn) *wsClient {
	k := &wsClient{conn: conn, out: make(chan [][]byte, 16), closeCode: -1}
	k.wg.Add(2)
	go k.writeLoop()
	go k.readLoop()
	return k
}

func (k *wsClient) writeLoop() {
	defer k.wg.Done()
	failed := false
	for pieces := range k.out {
		for _, p := range pieces {
			if failed {
				break
			}
			if _, err := k.conn.Write(p); err != nil {
				failed = true // the connection is gone; keep draining so that nobody blocks on k.out
			}
		}
	}
}

// send queues bytes for the connection (never blocks: the queue is far longer than what one run sends).
func (k *wsClient) send(pieces ...[]byte) {
	k.mu.Lock()
	defer k.mu.Unlock()
	if k.shutDown {
		return
	}
	select {
	case k.out <- pieces:
	default:
	}
}

func (k *wsClient) readLoop() {
	defer k.wg.Done()
	br := bufio.NewReader(k.conn)
	var cur []byte
	open := false
	fail := func(s string) {
		k.mu.Lock()
		if k.protoErr == "" {
			k.protoErr = s
		}
		k.mu.Unlock()
	}
	for {
		var h [2]byte
		if _, err := io.ReadFull(br, h[:]); err != nil {
			return
		}
		fin, op := h[0]&0x80 != 0, h[0]&0x0f
		if h[0]&0x70 != 0 {
			fail("reserved_bits_set")
			return
		}
		if h[1]&0x80 != 0 {
			fail("masked_server_frame")
			return
		}
		n := uint64(h[1] & 0x7f)
		switch n {
		case 126:
			var e [2]byte
			if _, err := io.ReadFull(br, e[:]); err != nil {
				return
			}
			n = uint64(binary.BigEndian.Uint16(e[:]))
		case 127:
			var e [8]byte
			if _, err := io.ReadFull(br, e[:]); err != nil {
				return
			}
			n = binary.BigEndian.Uint64(e[:])
		}
		if n > 64<<20 {
			fail("oversized_frame")
			return
		}
		payload := make([]byte, n)
		if _, err := io.ReadFull(br, payload); err != nil {
			return
		}
		switch op {
		case wsOpText, wsOpBinary:
			if open {
				fail("data_frame_inside_fragmented_message")
				return
			}
			cur, open = append([]byte(nil), payload...), true
		case wsOpCont:
			if !open {
				fail("continuation_without_message")
				return
			}
			cur = append(cur, payload...)
		case wsOpClose:
			k.mu.Lock()
			k.gotClose = true
			k.closeCode = 0
			if len(payload) >= 2 {
				k.closeCode = int(binary.BigEndian.Uint16(payload))
			}
			echo := !k.sentClose
			k.sentClose = true
			k.mu.Unlock()
			if echo { // complete the handshake the server started
				k.send(wsFrame(wsOpClose, true, payload[:min(len(payload), 2)], [4]byte{9, 9, 9, 9}))
			}
			continue
		case wsOpPing:
			k.send(wsFrame(wsOpPong, true, payload, [4]byte{7, 7, 7, 7}))
			continue
		case wsOpPong:
			k.mu.Lock()
			k.pongs++
			k.mu.Unlock()
			continue
		default:
			fail("unknown_opcode")
			return
		}
		if fin && (op == wsOpText || op == wsOpBinary || op == wsOpCont) {
			k.mu.Lock()
			k.msgs = append(k.msgs, cur)
			k.mu.Unlock()
			cur, open = nil, false
		}
	}
}

func (k *wsClient) snapshot() (msgs [][]byte, gotClose bool, closeCode int, protoErr string) {
	k.mu.Lock()
	defer k.mu.Unlock()
	return append([][]byte(nil), k.msgs...), k.gotClose, k.closeCode, k.protoErr
}

// sendClose starts (or has already answered) the close handshake.
func (k *wsClient) sendClose() {
	k.mu.Lock()
	already := k.sentClose
	k.sentClose = true
	k.mu.Unlock()
	if !already {
		k.send(wsFrame(wsOpClose, true, []byte{0x03, 0xe8}, [4]byte{1, 2, 3, 4})) // 1000
	}
}

// shut ends the client: the connection is closed under it, both loops leave.
func (k *wsClient) shut() {
	k.conn.Close()
	k.mu.Lock()
	k.shutDown = true
	close(k.out)
	k.mu.Unlock()
	k.wg.Wait()
}

// wsRun is one connection.
type wsRun struct {
	plan   *wsPlan
	h      *jsonrpc.Websocket
	w      *hijackWriter
	req    *http.Request
	client *wsClient
	server net.Conn

	phase   int // 0: the message under test is with the server; 1: the sentinel has been sent; 2: the client has sent its close frame
	nBefore int // messages received before the sentinel was sent
	closed  bool
}

func newWSRun(p *wsPlan, srv *jsonrpc.Server, logger log.StructuredLogger, ctx context.Context) *wsRun {
	x := &wsRun{plan: p}
	x.h = jsonrpc.NewWebsocket(srv, make(chan struct{}), logger)
	if p.timeout > 0 {
		x.h = x.h.WithRequestTimeout(p.timeout)
	}
	if p.maxConn > 0 {
		x.h = x.h.WithMaxConnections(p.maxConn)
	}
	cl, sv := net.Pipe()
	x.server = sv
	x.w = &hijackWriter{respWriter: respWriter{hdr: http.Header{}}, conn: sv}
	x.req = (&http.Request{
		Method: http.MethodGet, URL: &url.URL{Path: "/"}, Proto: "HTTP/1.1", ProtoMajor: 1, ProtoMinor: 1, Host: "jsim",
		Header: http.Header{
			"Connection":            []string{"Upgrade"},
			"Upgrade":               []string{"websocket"},
			"Sec-Websocket-Version": []string{"13"},
			"Sec-Websocket-Key":     []string{"anNpbS1qc2ltLWpzaW0tMQ=="}, // 16 bytes
		},
		Body: http.NoBody,
	}).WithContext(ctx)
	x.client = newWSClient(cl)
	return x
}

// sendMessage queues the message under test: frames per plan, cut into writes per plan.
func (x *wsRun) sendMessage(msg []byte) (nFrames, nWrites int) {
	op := byte(wsOpText)
	if x.plan.binary {
		op = wsOpBinary
	}
	var stream []byte
	prev := 0
	bounds := append(append([]int(nil), x.plan.frags...), len(msg))
	for i, b := range bounds {
		o := op
		if i > 0 {
			o = wsOpCont
		}
		stream = append(stream, wsFrame(o, i == len(bounds)-1, msg[prev:b], [4]byte{byte(0x3a + i), 0x5c, 0x00, 0xff})...)
		prev = b
		nFrames++
	}
	var pieces [][]byte
	start := 0
	for i := 1; i < len(stream); i++ {
		if x.plan.segs[i] {
			pieces = append(pieces, stream[start:i])
			start = i
		}
	}
	pieces = append(pieces, stream[start:])
	x.client.send(pieces...)
	return nFrames, len(pieces)
}

func (x *wsRun) sendSentinel() {
	msgs, _, _, _ := x.client.snapshot()
	x.nBefore = len(msgs)
	x.client.send(wsFrame(wsOpText, true, []byte(sentinelRequest), [4]byte{0x11, 0x22, 0x33, 0x44}))
	x.phase = 1
}

// abort: whatever state the connection is in, take it away (idempotent).
func (x *wsRun) abort() {
	if x.closed {
		return
	}
	x.closed = true
	x.server.Close()
	x.client.shut()
}
