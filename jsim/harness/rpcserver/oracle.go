package rpcserver

// Judging what the server did (output bytes, transport error, recorded handler invocations)
// against the classification of the input.

import (
	"fmt"
	"sort"
	"strings"
)

type response struct {
	id        *jv
	hasResult bool
	result    *jv
	hasErr    bool
	code      int
	data      *jv
	sig       string // canonical text of the whole object: equal sig = interchangeable responses
}

func (r *response) desc() string {
	idk := "id=" + r.id.k.String()
	switch {
	case r.hasErr:
		return fmt.Sprintf("err%d,%s", r.code, idk)
	case r.hasResult:
		return "result," + idk
	default:
		return "neither," + idk
	}
}

// logForm is deterministic: the data of server-made errors is left out (it can contain text
// built by ranging over a Go map).
func (r *response) logForm() string {
	switch {
	case r.hasErr:
		return fmt.Sprintf("{id:%s err:%d}", clip(r.id.canon(), 60), r.code)
	case r.hasResult:
		return fmt.Sprintf("{id:%s result:%s}", clip(r.id.canon(), 60), clip(r.result.canon(), 120))
	default:
		return fmt.Sprintf("{id:%s}", clip(r.id.canon(), 60))
	}
}

type observed struct {
	out       []byte
	err       error
	shape     string // none | object | array
	resps     []*response
	invs      []*invocation
	cancelled bool // the context was cancelled while the call was in flight
}

type verdict struct {
	class, key, detail string
}

// readOutput does the checks that do not depend on the input: the output is empty or valid JSON
// made of well-formed response objects.
func readOutput(o *observed) *verdict {
	if len(o.out) == 0 {
		o.shape = "none"
		return nil
	}
	v, err := parseExact(o.out)
	if err != nil {
		return &verdict{"malformed_output", "not_json", fmt.Sprintf("output is not valid JSON (%v): %q", err, clip(string(o.out), 300))}
	}
	var elems []*jv
	switch v.k {
	case jObj:
		o.shape = "object"
		elems = []*jv{v}
	case jArr:
		o.shape = "array"
		if len(v.arr) == 0 {
			return &verdict{"malformed_output", "empty_array", "the server returned an empty array"}
		}
		elems = v.arr
	default:
		return &verdict{"malformed_output", "scalar_output", fmt.Sprintf("output is a JSON %s: %q", v.k, clip(string(o.out), 200))}
	}
	for _, e := range elems {
		r, bad := readResponse(e)
		if bad != "" {
			return &verdict{"malformed_output", bad, fmt.Sprintf("response %s: %s", bad, clip(e.canon(), 300))}
		}
		o.resps = append(o.resps, r)
	}
	return nil
}

func readResponse(e *jv) (*response, string) {
	if e.k != jObj {
		return nil, "response_not_object"
	}
	seen := map[string]bool{}
	for _, k := range e.keys {
		if seen[k] {
			return nil, "duplicate_member"
		}
		seen[k] = true
	}
	ver, ok := e.get("jsonrpc")
	if !ok || ver.k != jStr || ver.s != "2.0" {
		return nil, "bad_version_member"
	}
	r := &response{}
	if r.id, ok = e.get("id"); !ok {
		return nil, "no_id_member"
	}
	r.result, r.hasResult = e.get("result")
	errv, hasErr := e.get("error")
	if hasErr && r.hasResult {
		return nil, "both_result_and_error"
	}
	if hasErr {
		r.hasErr = true
		if errv.k != jObj {
			return nil, "error_not_object"
		}
		cv, ok := errv.get("code")
		if !ok || cv.k != jNum {
			return nil, "error_code_missing"
		}
		c, ok := int64Of(cv.s)
		if !ok {
			return nil, "error_code_not_integer"
		}
		r.code = int(c)
		if mv, ok := errv.get("message"); !ok || mv.k != jStr {
			return nil, "error_message_missing"
		}
		if d, ok := errv.get("data"); ok {
			r.data = d
		}
	}
	// responses with equal sig are interchangeable for the matching: id, kind, and everything the
	// compatibility test looks at (the data of server-made errors is free text and is not looked at)
	switch {
	case r.hasErr && r.code == codeFail && r.data != nil:
		r.sig = fmt.Sprintf("%s|e%d|%s", r.id.canon(), r.code, r.data.canon())
	case r.hasErr:
		r.sig = fmt.Sprintf("%s|e%d", r.id.canon(), r.code)
	case r.hasResult:
		r.sig = fmt.Sprintf("%s|r|%s", r.id.canon(), r.result.canon())
	default:
		r.sig = r.id.canon() + "|-"
	}
	return r, ""
}

// ---- compatibility of one alternative with one response / one invocation ---------------------

func idEq(a, b *jv) bool {
	if a.k != b.k {
		return false
	}
	switch a.k {
	case jNum:
		return numEq(a.s, b.s, false)
	default:
		return jeq(a, b, false)
	}
}

func argEq(t ptype, want, got *jv) bool { return jeq(want, got, isLooseNum(t)) }

func argsMatch(m *mspec, want []*jv, got []*jv) bool {
	if len(want) != len(got) {
		return false
	}
	for i := range want {
		if !argEq(m.params[i].t, want[i], got[i]) {
			return false
		}
	}
	return true
}

// resultShape: {"m":name,"args":[...]}
func okShape(cs *callSpec, v *jv) bool {
	if v == nil || v.k != jObj || len(v.keys) != 2 {
		return false
	}
	mv, ok := v.get("m")
	if !ok || mv.k != jStr || mv.s != cs.m.name {
		return false
	}
	av, ok := v.get("args")
	return ok && av.k == jArr && argsMatch(cs.m, cs.args, av.arr)
}

func respCompat(a *alt, r *response, relax map[string]bool, cancelled bool) bool {
	if !a.respond {
		return false
	}
	idok := false
	for _, id := range a.ids {
		if idEq(id, r.id) {
			idok = true
			break
		}
	}
	if !idok {
		return false
	}
	if len(a.errCodes) > 0 {
		if !r.hasErr {
			return false
		}
		for _, c := range a.errCodes {
			if c == r.code {
				return true
			}
		}
		return false
	}
	cs := a.call
	if cs == nil {
		return false
	}
	if cancelled && cs.m.ctx && r.hasErr && r.code == codeCancelled {
		return true
	}
	nullResult := func() bool {
		if r.hasErr {
			return false
		}
		if r.hasResult {
			return r.result.k == jNull
		}
		return relax[relaxNilResult] // neither member: only the suspected defect explains it
	}
	switch cs.m.ret {
	case retArgs:
		return r.hasResult && okShape(cs, r.result)
	case retIdent:
		if cs.args[0].k == jNull {
			return nullResult()
		}
		return r.hasResult && argEq(tAny, cs.args[0], r.result)
	case retNilIfc, retNilPtr:
		return nullResult()
	case retErr:
		return r.hasErr && r.code == codeFail && okShape(cs, r.data)
	case retErrBare:
		return r.hasErr && r.code == codeBare
	case retErrInt:
		return r.hasErr && r.code == -32603
	case retUnser:
		// no result can be sent; which error code reports that is not fixed by the property text
		return r.hasErr
	}
	return false
}

func invCompat(a *alt, inv *invocation) bool {
	return a.call != nil && inv.method == a.call.m.name && argsMatch(a.call.m, a.call.args, inv.args)
}

// ---- matching ----------------------------------------------------------------------------

type matcher struct {
	exp       *expectation
	obs       *observed
	relax     map[string]bool
	withInvs  bool
	usedR     []bool
	usedI     []bool
	steps     int
	exhausted bool
	// filled on success
	chosen []int // alt index per entry
}

const matchStepCap = 300000

func (m *matcher) allowed(a *alt) bool { return a.relax == "" || m.relax[a.relax] }

func (m *matcher) solve(i int) bool {
	if m.steps++; m.steps > matchStepCap {
		m.exhausted = true
		return false
	}
	if i == len(m.exp.entries) {
		for _, u := range m.usedR {
			if !u {
				return false
			}
		}
		if m.withInvs {
			for _, u := range m.usedI {
				if !u {
					return false
				}
			}
		}
		return true
	}
	e := &m.exp.entries[i]
	for ai := range e.alts {
		a := &e.alts[ai]
		if !m.allowed(a) {
			continue
		}
		m.chosen[i] = ai
		tryInv := func() bool {
			if a.call == nil || !m.withInvs {
				return m.solve(i + 1)
			}
			lastKey := "\x01none"
			for k, inv := range m.obs.invs {
				if m.usedI[k] || !invCompat(a, inv) {
					continue
				}
				if inv.full == lastKey {
					continue // an identical invocation was already tried at this level
				}
				lastKey = inv.full
				m.usedI[k] = true
				if m.solve(i + 1) {
					return true
				}
				m.usedI[k] = false
				if m.exhausted {
					return false
				}
			}
			return false
		}
		if !a.respond {
			if tryInv() {
				return true
			}
		} else {
			tried := map[string]bool{}
			for k, r := range m.obs.resps {
				if m.usedR[k] || tried[r.sig] || !respCompat(a, r, m.relax, m.obs.cancelled) {
					continue
				}
				tried[r.sig] = true // an identical response need not be tried again at this level
				m.usedR[k] = true
				if tryInv() {
					return true
				}
				m.usedR[k] = false
				if m.exhausted {
					return false
				}
			}
		}
		if m.exhausted {
			return false
		}
	}
	return false
}

type matchResult struct {
	ok        bool
	exhausted bool
	chosen    []int
}

func match(exp *expectation, obs *observed, relax map[string]bool, withInvs bool) matchResult {
	if exp.relax != "" && !relax[exp.relax] {
		return matchResult{}
	}
	switch exp.mode {
	case topSingle:
		if obs.shape == "array" {
			return matchResult{}
		}
	case topBatch:
		if obs.shape == "object" {
			return matchResult{}
		}
	}
	m := &matcher{exp: exp, obs: obs, relax: relax, withInvs: withInvs,
		usedR: make([]bool, len(obs.resps)), usedI: make([]bool, len(obs.invs)), chosen: make([]int, len(exp.entries))}
	ok := m.solve(0)
	return matchResult{ok: ok, exhausted: m.exhausted, chosen: m.chosen}
}

// judge evaluates the candidates. It returns nil (held), a verdict, or inconclusive=true.
func judge(cands []expectation, obs *observed) (v *verdict, inconclusive bool, passed *expectation, chosen []int) {
	strict := map[string]bool{}
	exhausted := false
	for i := range cands {
		r := match(&cands[i], obs, strict, true)
		if r.ok {
			return nil, false, &cands[i], r.chosen
		}
		exhausted = exhausted || r.exhausted
	}
	if exhausted {
		return nil, true, nil, nil
	}
	// does one suspected defect explain it?
	tryRelax := func(set map[string]bool) bool {
		for i := range cands {
			r := match(&cands[i], obs, set, true)
			if r.ok {
				return true
			}
			exhausted = exhausted || r.exhausted
		}
		return false
	}
	mode := "single"
	if cands[0].mode == topBatch {
		mode = "batch"
	}
	for _, r := range allRelax {
		if tryRelax(map[string]bool{r: true}) {
			return &verdict{r, relaxKey[r], "(" + mode + ") " + describe(&cands[0], obs)}, false, nil, nil
		}
	}
	all := map[string]bool{}
	for _, r := range allRelax {
		all[r] = true
	}
	if tryRelax(all) {
		// several suspected defects at once: find a minimal set, report under the first of them
		for _, r := range allRelax {
			delete(all, r)
			if !tryRelax(all) {
				all[r] = true
			}
		}
		var names []string
		for _, r := range allRelax {
			if all[r] {
				names = append(names, r)
			}
		}
		return &verdict{names[0], relaxKey[names[0]], fmt.Sprintf("(%s; together with %s) %s", mode, strings.Join(names[1:], ", "), describe(&cands[0], obs))}, false, nil, nil
	}
	if exhausted {
		return nil, true, nil, nil // the search was cut short somewhere: undecided, never a violation
	}
	return diagnose(&cands[0], obs), false, nil, nil
}

func describe(exp *expectation, obs *observed) string {
	var rs []string
	for _, r := range obs.resps {
		rs = append(rs, r.logForm())
	}
	sort.Strings(rs)
	var is []string
	for _, inv := range obs.invs {
		is = append(is, inv.key)
	}
	// the raw output is deliberately not quoted: the order of a batch's responses and the text of
	// some error data depend on goroutine timing / map iteration and would make the trace unstable
	return fmt.Sprintf("input classified as %s; output %s %s; handler calls %s",
		exp.what, obs.shape, clip(strings.Join(rs, " "), 600), clip(strings.Join(is, " "), 400))
}

// diagnose produces a stable class/key for a failure that no suspected defect explains.
func diagnose(exp *expectation, obs *observed) *verdict {
	strict := map[string]bool{}
	detail := describe(exp, obs)
	if exp.mode == topSingle && obs.shape == "array" {
		return &verdict{"shape", "array_for_single:" + exp.entries[0].cls, detail}
	}
	if exp.mode == topBatch && obs.shape == "object" {
		return &verdict{"shape", "object_for_batch", detail}
	}
	if match(exp, obs, strict, false).ok {
		// the responses are fine; the handler calls are not
		var unexp, miss []string
		for _, inv := range obs.invs {
			found := false
			for ei := range exp.entries {
				for ai := range exp.entries[ei].alts {
					if a := &exp.entries[ei].alts[ai]; a.relax == "" && invCompat(a, inv) {
						found = true
					}
				}
			}
			if !found {
				unexp = append(unexp, inv.method)
			}
		}
		for ei := range exp.entries {
			must := len(exp.entries[ei].alts) > 0
			found := false
			for ai := range exp.entries[ei].alts {
				a := &exp.entries[ei].alts[ai]
				if a.relax != "" {
					continue
				}
				if a.call == nil {
					must = false
					continue
				}
				for _, inv := range obs.invs {
					if invCompat(a, inv) {
						found = true
					}
				}
			}
			if must && !found {
				miss = append(miss, exp.entries[ei].cls)
			}
		}
		sort.Strings(unexp)
		sort.Strings(miss)
		switch {
		case len(unexp) > 0:
			return &verdict{"invocation", "unexpected_call(" + unexp[0] + ")", detail}
		case len(miss) > 0:
			return &verdict{"invocation", "missing_call(" + miss[0] + ")", detail}
		default:
			return &verdict{"invocation", "call_multiplicity", detail}
		}
	}
	var unexp, miss []string
	for _, r := range obs.resps {
		found := false
		for ei := range exp.entries {
			for ai := range exp.entries[ei].alts {
				if a := &exp.entries[ei].alts[ai]; a.relax == "" && respCompat(a, r, strict, obs.cancelled) {
					found = true
				}
			}
		}
		if !found {
			unexp = append(unexp, r.desc())
		}
	}
	for ei := range exp.entries {
		must, found := true, false
		for ai := range exp.entries[ei].alts {
			a := &exp.entries[ei].alts[ai]
			if a.relax != "" {
				continue
			}
			if !a.respond {
				must = false
				continue
			}
			for _, r := range obs.resps {
				if respCompat(a, r, strict, obs.cancelled) {
					found = true
				}
			}
		}
		if must && !found {
			miss = append(miss, exp.entries[ei].cls)
		}
	}
	sort.Strings(unexp)
	sort.Strings(miss)
	where := "single"
	if exp.mode == topBatch {
		where = "batch"
	}
	switch {
	case len(unexp) > 0 && len(miss) > 0:
		return &verdict{"correlation", fmt.Sprintf("%s:wrong_response(%s)for(%s)", where, unexp[0], miss[0]), detail}
	case len(unexp) > 0:
		return &verdict{"correlation", fmt.Sprintf("%s:unexpected_response(%s)", where, unexp[0]), detail}
	case len(miss) > 0:
		return &verdict{"correlation", fmt.Sprintf("%s:missing_response(%s)", where, miss[0]), detail}
	default:
		return &verdict{"correlation", where + ":response_multiplicity", detail}
	}
}
