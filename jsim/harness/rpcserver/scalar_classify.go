package rpcserver

// The oracle's reading of a value supplied for one of the scalar-typed parameters of scalar_types.go.
// Written from
//   - the documentation of encoding/json.Unmarshal: a JSON number goes into an integer or float type
//     only if it does not overflow it and is appropriate for it (UnmarshalTypeError otherwise); a
//     string, bool, array or object is not appropriate for a numeric type; null sets a pointer or a
//     slice to nil; a value whose type implements Unmarshaler is handed to UnmarshalJSON whatever the
//     JSON value is; otherwise, if it implements encoding.TextUnmarshaler and the input is a JSON
//     string, UnmarshalText gets the unquoted string;
//   - the doc comments of the harness's decoders (sLevel, sHex, sEven, sUnit) and, for the three real
//     types, the Starknet API's enumerations as rpc/v10 spells them.
//
// Four answers per value: fits (exactly one call, with exactly that value), does not fit (-32602 and
// no call), both defensible, undecided. Both defensible: null for a by-value parameter or element
// (encoding/json leaves the zero value; an UnmarshalJSON method gets to see it and may refuse), an
// integer written 1.0 / 1e2 / -0 (the value is representable, the spelling is unusual), a number a
// float64 can only hold rounded. Undecided: a JSON number for a type whose UnmarshalText reads
// strings and whose underlying kind is numeric (the documentation says what happens with a JSON
// string and nothing about other kinds).
//
// No decoder of the code under test and none of the harness's own decoders is called from here.

import (
	"encoding/base64"
	"math"
	"math/big"
	"sort"
	"strconv"
	"strings"
)

// sNumber: the exact value of a number literal. huge = +1 / -1: the exponent is beyond what is
// expanded (|exp| > 400) and the value is not zero: astronomically large / a tiny fraction.
func sNumber(lit string) (r *big.Rat, huge int) {
	if r = numRat(lit); r != nil {
		return r, 0
	}
	i := strings.IndexAny(lit, "eE")
	if i < 0 {
		return nil, 1 // (not reached: numRat only gives up on exponents)
	}
	if strings.Trim(lit[:i], "-0.") == "" {
		return new(big.Rat), 0 // 0e999
	}
	if strings.HasPrefix(lit[i+1:], "-") {
		return nil, -1
	}
	return nil, 1
}

func looksNumeric(s string) bool {
	if s == "" {
		return false
	}
	_, err := strconv.ParseFloat(s, 64)
	return err == nil || strings.HasPrefix(s, "0x")
}

type scheck struct {
	feats map[string]bool
	b     *sbinfo
	und   string
}

func (c *scheck) refuse(reason string) (tcheck, *jv) {
	c.feats["s_refuse:"+c.b.name+":"+reason] = true
	return tcBad, nil
}

func (c *scheck) accept(want *jv) (tcheck, *jv) {
	c.feats["s_accept:"+c.b.name] = true
	return tcOK, want
}

func (c *scheck) either(reason string, want *jv) (tcheck, *jv) {
	c.feats["s_either:"+reason] = true
	return tcEither, want
}

func (c *scheck) wrongKind(v *jv) (tcheck, *jv) {
	if v.k == jStr && looksNumeric(v.s) {
		return c.refuse("number_as_string")
	}
	return c.refuse("wrong_json_kind")
}

// sZero: what a handler is given when nothing (or, for a liberal reader, null) was supplied
func sZero(b sbase) *jv {
	bi := &sBases[b]
	switch {
	case bi.enum != nil:
		return jstr(sEnumName(b, 0))
	case b == sbHex:
		return jstr("")
	default:
		return jnum("0")
	}
}

func sDefault(t ptype) *jv {
	st := sOf(t)
	if st.f != sfValue {
		return jnull()
	}
	return sZero(st.b)
}

func isLooseNum(t ptype) bool { return t == tAny || (isS(t) && sOf(t).b == sbFloat64) }

// base: one non-null value against a base type
func (c *scheck) base(b sbase, v *jv) (tcheck, *jv) {
	bi := &sBases[b]
	c.b = bi
	switch {
	case bi.isInt:
		if v.k != jNum {
			return c.wrongKind(v)
		}
		r, huge := sNumber(v.s)
		switch {
		case huge > 0:
			return c.refuse("out_of_range")
		case huge < 0 || !r.IsInt():
			return c.refuse("fraction")
		}
		n := r.Num()
		if !n.IsInt64() || n.Int64() < bi.min || n.Int64() > bi.max {
			if n.Sign() < 0 && bi.min == 0 {
				c.feats["s_int_negative_for_unsigned"] = true
			}
			if n.IsInt64() {
				c.feats["s_int_out_of_range_fits_int64"] = true // what a conversion from int64 would wrap
				if x := n.Int64(); x == bi.max+1 || x == bi.min-1 {
					c.feats["s_int_boundary_outside"] = true
				}
			}
			return c.refuse("out_of_range")
		}
		if x := n.Int64(); x == bi.max || (x == bi.min && bi.min != 0) {
			c.feats["s_int_boundary_inside"] = true
		}
		switch {
		case !plainInt(v.s):
			return c.either("integer_with_point_or_exponent", v)
		case strings.HasPrefix(v.s, "-") && n.Sign() == 0 && bi.min == 0:
			return c.either("minus_zero_for_unsigned", v)
		}
		return c.accept(v)

	case b == sbFloat64:
		if v.k != jNum {
			return c.wrongKind(v)
		}
		r, huge := sNumber(v.s)
		switch {
		case huge > 0:
			return c.refuse("overflow")
		case huge < 0:
			return c.either("float_underflow", v)
		}
		f, exact := r.Float64()
		switch {
		case math.IsInf(f, 0):
			return c.refuse("overflow")
		case exact:
			c.feats["s_float_exact"] = true
			return c.accept(v)
		case f == 0:
			return c.either("float_underflow", v)
		case r.IsInt():
			return c.either("float_rounded_integer", v) // 2^53+1: "exactly the supplied value" cannot be had
		}
		return c.accept(v) // 0.1: the nearest float64 is what a decimal fraction means for this type

	case b == sbHex:
		if v.k != jStr {
			if v.k == jNum {
				return c.refuse("number_for_string_type")
			}
			return c.refuse("wrong_json_kind")
		}
		s := v.s
		ok := len(s) >= 3 && len(s) <= 10 && s[0] == '0' && s[1] == 'x'
		for i := 2; ok && i < len(s); i++ {
			ok = s[i] >= '0' && s[i] <= '9' || s[i] >= 'a' && s[i] <= 'f'
		}
		if !ok {
			return c.refuse("text_refused_by_decoder")
		}
		return c.accept(v)

	case b == sbEven:
		if v.k != jNum {
			return c.wrongKind(v)
		}
		for i := 0; i < len(v.s); i++ {
			if v.s[i] < '0' || v.s[i] > '9' {
				return c.refuse("not_plain_digits")
			}
		}
		n, ok := new(big.Int).SetString(v.s, 10)
		switch {
		case !ok || !n.IsInt64() || n.Int64() > math.MaxUint16:
			if ok && n.IsInt64() {
				c.feats["s_int_out_of_range_fits_int64"] = true
			}
			return c.refuse("out_of_range")
		case n.Int64()%2 != 0:
			return c.refuse("odd")
		}
		return c.accept(v)

	default: // the enum-like types
		if v.k == jNum {
			if b == sbUnit {
				switch v.s {
				case "1":
					return c.accept(jstr("WEI"))
				case "2":
					return c.accept(jstr("FRI"))
				}
				return c.refuse("number_not_accepted")
			}
			if bi.dec == sdText {
				c.und = "a JSON number for a type that decodes text and whose kind is numeric (" + bi.name + ")"
				return tcUnd, nil
			}
			return c.refuse("number_for_enum")
		}
		if v.k != jStr {
			return c.refuse("wrong_json_kind")
		}
		for _, e := range bi.enum {
			if v.s == e {
				return c.accept(v)
			}
		}
		for _, e := range bi.enum {
			if strings.EqualFold(v.s, e) {
				return c.refuse("other_letter_case")
			}
		}
		for _, e := range bi.other {
			if v.s == e {
				return c.refuse("name_of_the_wider_type")
			}
		}
		return c.refuse("unknown_spelling")
	}
}

// sByteStringsMark in the feature set: classify a string for a slice of a uint8-based named type
// by the base64 reading (the recogniser of the suspected defect relaxByteString in classify.go)
const sByteStringsMark = "\x00byte-strings"

func sUint8Kind(b sbase) bool { return b == sbLevel || b == sbFinality || b == sbTxnStatus }

// sByteStringReading: the elements a handler is given if the string is taken as standard base64
// and every byte as the underlying value of an element; nil if the string is not base64
func sByteStringReading(b sbase, s string) *jv {
	raw, err := base64.StdEncoding.DecodeString(s)
	if err != nil {
		return nil
	}
	out := &jv{k: jArr, arr: []*jv{}}
	for _, x := range raw {
		out.arr = append(out.arr, jstr(sEnumName(b, int64(x))))
	}
	return out
}

// sTypeCheck: the typeCheck of a scalar-typed parameter
func sTypeCheck(t *stype, v *jv, feats map[string]bool) (tcheck, *jv) {
	c := &scheck{feats: feats, b: &sBases[t.b]}
	feats["s_param"] = true
	if c.b.real {
		feats["s_real_rpc_type"] = true
	}
	finish := func(tc tcheck, want *jv) (tcheck, *jv) {
		if c.und != "" {
			feats["v_undecided: "+c.und] = true
			return tcUnd, nil
		}
		return tc, want
	}
	switch t.f {
	case sfPtr:
		if v.k == jNull {
			feats["s_form:pointer_null"] = true
			return tcOK, jnull()
		}
		feats["s_form:pointer"] = true
		return finish(c.base(t.b, v))
	case sfSlice:
		if v.k == jNull {
			feats["s_form:slice_null"] = true
			return tcOK, jnull()
		}
		if v.k == jStr && sUint8Kind(t.b) {
			// A string is not a list. encoding/json, however, reads a JSON string into ANY slice whose
			// element kind is uint8 as base64-encoded bytes, without consulting the element type's
			// own decoder: the handler would get elements the caller never named and that the
			// element decoder may never let through. Refused here; sByteStringReading names what a
			// server that follows encoding/json blindly hands to the handler.
			feats["s_string_for_uint8_kind_slice"] = true
			if feats[sByteStringsMark] {
				if alt := sByteStringReading(t.b, v.s); alt != nil {
					return tcOK, alt
				}
			}
			return c.refuse("string_for_slice")
		}
		if v.k != jArr {
			return c.refuse("not_an_array")
		}
		feats["s_form:slice"] = true
		if len(v.arr) == 0 {
			feats["s_form:slice_empty"] = true
		}
		res := tcOK
		out := &jv{k: jArr, arr: []*jv{}}
		for _, e := range v.arr {
			if e.k == jNull {
				res = tcEither
				feats["s_either:null_element"] = true
				out.arr = append(out.arr, sZero(t.b))
				continue
			}
			tc, want := c.base(t.b, e)
			switch tc {
			case tcBad:
				return tcBad, nil
			case tcUnd:
				return finish(tcUnd, nil)
			case tcEither:
				res = tcEither
			}
			out.arr = append(out.arr, want)
		}
		return res, out
	default:
		if v.k == jNull {
			feats["s_form:value"] = true
			return c.either("null_by_value", sZero(t.b))
		}
		feats["s_form:value"] = true
		return finish(c.base(t.b, v))
	}
}

// sShape: the part of an entry's shape name that says why a scalar-typed parameter was refused
func sShape(feats map[string]bool) string {
	if !feats["s_param"] {
		return ""
	}
	var why, took []string
	for f := range feats {
		if strings.HasPrefix(f, "s_refuse:") {
			why = append(why, strings.TrimPrefix(f, "s_refuse:"))
		}
		if strings.HasPrefix(f, "s_accept:") {
			took = append(took, strings.TrimPrefix(f, "s_accept:"))
		}
	}
	sort.Strings(why)
	sort.Strings(took)
	switch {
	case len(why) > 0:
		return "+s(" + strings.Join(why, ",") + ")"
	case len(took) > 0:
		return "+s[" + strings.Join(took, ",") + "]"
	}
	return "+s"
}

// sProbes counts what the scalar-typed parameters of a judged request exercised (called by vProbes
// for entries without struct-typed parameters; the features themselves are counted there).
func sProbes(c interface{ Probe(string) }, e *entry, a *alt) {
	if !e.feat["s_param"] {
		return
	}
	refused := false
	for f := range e.feat {
		if strings.HasPrefix(f, "s_refuse:") {
			refused = true
		}
	}
	switch {
	case a.call != nil && strings.Contains(e.cls, ":named"):
		c.Probe("s_handler_called_named")
	case a.call != nil && strings.Contains(e.cls, ":pos"):
		c.Probe("s_handler_called_positional")
	case len(a.errCodes) > 0 && refused && strings.Contains(e.cls, ":named"):
		c.Probe("s_refused_named")
	case len(a.errCodes) > 0 && refused && strings.Contains(e.cls, ":pos"):
		c.Probe("s_refused_positional")
	}
	if a.call != nil {
		if a.call.m.ctx {
			c.Probe("s_handler_with_context_called")
		}
		for i, p := range a.call.m.params {
			if isS(p.t) && p.optional && jeq(a.call.args[i], defaultOf(p.t), false) {
				c.Probe("s_optional_param_omitted_or_zero")
			}
		}
	}
}
