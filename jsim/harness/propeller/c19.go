// Package propeller holds the C19 harness: the erasure-coded broadcast of
// consensus/propeller (publisher, lossy/corrupting transport, receiver).
//
// Real code under test: CreatePropellerUnits, ConstructMessageFromUnits, PadMessage/UnpadMessage,
// reedsolomon.EncodeData/RecoverData, merkle.New/Proof.Verify, SignMessage/VerifyMessageSignature,
// UnitValidator.Validate, Scheduler (NewScheduler, ShardIndexForPublisher, ValidateShardOrigin),
// Unit.ToProto/UnitFromProto (wire runs).
// Simulated: the transport. Units are routed to one validator per message key exactly as
// Processor.ProcessMessage routes them to one subprocessor: the key is computed by the REAL
// extractKey (exported through overlay.py as JsimExtractKey, key type JsimMessageKey), the gate is the
// real Scheduler.ShardIndexForPublisher(key.Publisher), the validator is NewValidator(key.Publisher, ..).
// The Processor's goroutines themselves are not driven, see the props file.
package propeller

import (
	"bytes"
	"crypto/ed25519"
	"crypto/sha256"
	"fmt"
	"jsim/tape"
	"os"
	"runtime/debug"
	"sort"
	"strings"
	"sync"

	pp "github.com/NethermindEth/juno/consensus/propeller"
	"github.com/NethermindEth/juno/consensus/propeller/merkle"
	pb "github.com/NethermindEth/juno/consensus/propeller/proto"
	"github.com/libp2p/go-libp2p/core/crypto"
	"github.com/libp2p/go-libp2p/core/peer"
	"google.golang.org/protobuf/proto"

	"jsim/sim"
)

// ---- deterministic key pool -----------------------------------------------------------------

type member struct {
	priv crypto.PrivKey
	pub  crypto.PubKey
	id   peer.ID
}

const poolSize = 20

var (
	poolOnce sync.Once
	pool     []member
)

func keyPool() []member {
	poolOnce.Do(func() {
		for i := 0; i < poolSize; i++ {
			seed := sha256.Sum256([]byte(fmt.Sprintf("jsim-c19-key-%d", i)))
			sk := ed25519.NewKeyFromSeed(seed[:])
			priv, err := crypto.UnmarshalEd25519PrivateKey(sk)
			if err != nil {
				panic(err)
			}
			id, err := peer.IDFromPrivateKey(priv)
			if err != nil {
				panic(err)
			}
			pool = append(pool, member{priv: priv, pub: priv.GetPublic(), id: id})
		}
	})
	return pool
}

// ---- guard: panics inside juno code become violations, also for JSIM_REPO builds -------------

type caught struct {
	fn    string
	val   any
	stack string
}

func repoRoots() []string {
	roots := []string{"/repo/"}
	if alt := os.Getenv("JSIM_REPO"); alt != "" {
		roots = append(roots, strings.TrimRight(alt, "/")+"/")
	}
	return roots
}

// guard runs f, which must contain nothing but calls into juno. A panic that passes through a
// frame of the repository under test is returned; anything else is re-raised (machinery trouble).
func guard(f func()) (pc *caught) {
	defer func() {
		if r := recover(); r != nil {
			st := string(debug.Stack())
			fn, in := repoFrame(st)
			if !in {
				panic(r)
			}
			pc = &caught{fn: fn, val: r, stack: trim(st, 40)}
		}
	}()
	f()
	return nil
}

// trim keeps the frames between the panic and the guard, without argument values, goroutine ids and
// pc offsets (the text is hashed into the trace, so it must not contain addresses).
func trim(st string, n int) string {
	var out []string
	seen := false
	for _, l := range strings.Split(st, "\n") {
		if strings.HasPrefix(l, "panic(") {
			seen = true
			continue
		}
		if !seen || l == "" {
			continue
		}
		if strings.HasPrefix(l, "\t") {
			if k := strings.Index(l, " +0x"); k > 0 {
				l = l[:k]
			}
		} else {
			if strings.Contains(l, "jsim/harness/propeller.guard(") {
				break
			}
			if k := strings.LastIndex(l, "("); k > 0 {
				l = l[:k]
			}
		}
		out = append(out, l)
		if len(out) >= n {
			break
		}
	}
	return strings.Join(out, "\n")
}

// repoFrame returns the innermost frame below the panic that lies in the repository under test,
// looking no further than this package's guard frame.
func repoFrame(st string) (string, bool) {
	lines := strings.Split(st, "\n")
	roots := repoRoots()
	seenPanic := false
	for i := 0; i+1 < len(lines); i++ {
		l := lines[i]
		if strings.HasPrefix(l, "panic(") || strings.HasPrefix(l, "runtime.gopanic") {
			seenPanic = true
			continue
		}
		if !seenPanic || strings.HasPrefix(l, "\t") || strings.HasPrefix(l, "goroutine ") || l == "" {
			continue
		}
		if strings.Contains(l, "jsim/harness/propeller.") {
			if strings.Contains(l, "propeller.guard") && !strings.Contains(l, "guard.func") {
				return "?", false
			}
			continue
		}
		loc := strings.TrimSpace(lines[i+1])
		for _, r := range roots {
			if strings.HasPrefix(loc, r) {
				name := l
				if k := strings.LastIndex(name, "("); k > 0 {
					name = name[:k]
				}
				return name, true
			}
		}
	}
	return "?", false
}

// ---- violations are collected so that independent sub-evaluations of one run all happen --------

// A violation's reported class is "<class>/<key>" (the minimiser preserves the class, so two findings
// never merge into the simpler one) and its key is "<class>/<key>:<site>".
type viol struct {
	class, key, site, detail string
}

var classRank = map[string]int{
	"wrong_message": 0, "corrupt_accepted": 1, "duplicate_accepted": 2, "below_threshold_accepted": 3,
	"local_shard_invalid": 4, "reconstruct_failed": 5, "proof_invalid": 6, "unit_malformed": 7,
	"create_failed": 8, "honest_unit_rejected": 9, "unit_signature_invalid": 10, "panic": 11,
}

type world struct {
	c     *sim.Ctx
	viols []viol
}

func (w *world) report(class, key, format string, a ...any) {
	w.reportAt(class, key, "-", format, a...)
}

func (w *world) reportAt(class, key, site, format string, a ...any) {
	d := fmt.Sprintf(format, a...)
	for _, v := range w.viols {
		if v.class == class && v.key == key {
			return
		}
	}
	w.c.Logf("violation noted %s:%s", class, key)
	w.viols = append(w.viols, viol{class, key, site, d})
}

// finish fails the run with the noted violation of the most severe class (first noted wins a tie).
func (w *world) finish() {
	if len(w.viols) == 0 {
		return
	}
	best := 0
	for i, v := range w.viols {
		if classRank[v.class] < classRank[w.viols[best].class] {
			best = i
		}
	}
	v := w.viols[best]
	w.c.Fail(v.class+"/"+v.key, v.site, "%s", v.detail)
}

func (w *world) panicked(pc *caught, shape string) {
	key := pc.fn[strings.LastIndex(pc.fn, ".")+1:]
	if shape != "" {
		key += "/" + shape
	}
	w.reportAt("panic", key, pc.fn, "%v\n%s", pc.val, pc.stack)
}

// ---- reference Merkle path verification (from the documented tagging scheme) ------------------

func refLeaf(data []byte) [32]byte {
	h := sha256.New()
	h.Write([]byte("<leaf>"))
	h.Write(data)
	h.Write([]byte("</leaf>"))
	var out [32]byte
	copy(out[:], h.Sum(nil))
	return out
}

func refNode(l, r [32]byte) [32]byte {
	h := sha256.New()
	h.Write([]byte("<node><left>"))
	h.Write(l[:])
	h.Write([]byte("</left><right>"))
	h.Write(r[:])
	h.Write([]byte("</right></node>"))
	var out [32]byte
	copy(out[:], h.Sum(nil))
	return out
}

func refVerify(root [32]byte, leaf []byte, sib []merkle.Hash, index uint32) bool {
	cur := refLeaf(leaf)
	idx := index
	for i := range sib {
		if idx%2 == 0 {
			cur = refNode(cur, sib[i])
		} else {
			cur = refNode(sib[i], cur)
		}
		idx /= 2
	}
	return cur == root
}

func treeDepth(total int) int {
	size, d := 2, 1
	for size < total {
		size *= 2
		d++
	}
	return d
}

// proofOK: the proof binds (index, shard) to the root under one of the two leaf encodings the
// tree documents (the raw shard, as the publisher commits; the protobuf ShardsOfPeer encoding, as
// the validator states). The property does not say which; either is accepted here. Whether
// publisher and receiver agree is judged where the real validator is the receiver.
func proofOK(root pp.MessageRoot, shard []byte, proof merkle.Proof, index uint32, total int) bool {
	if len(proof.Siblings) != treeDepth(total) {
		return false
	}
	if refVerify(root, shard, proof.Siblings, index) {
		return true
	}
	return refVerify(root, pp.ShardData{pp.Shard(shard)}.MarshalProto(), proof.Siblings, index)
}

// ---- units ------------------------------------------------------------------------------------

func cloneUnit(u *pp.Unit) pp.Unit {
	n := *u
	n.Signature = append(pp.Signature(nil), u.Signature...)
	if u.Signature == nil {
		n.Signature = nil
	}
	n.ShardData = make(pp.ShardData, len(u.ShardData))
	for i := range u.ShardData {
		n.ShardData[i] = append(pp.Shard{}, u.ShardData[i]...)
	}
	n.MerkleProof = merkle.Proof{Siblings: append([]merkle.Hash(nil), u.MerkleProof.Siblings...)}
	return n
}

func unitEq(a, b *pp.Unit) bool {
	if a.CommitteeID != b.CommitteeID || a.Publisher != b.Publisher || a.MessageRoot != b.MessageRoot ||
		a.Nonce != b.Nonce || a.ShardIndex != b.ShardIndex || !bytes.Equal(a.Signature, b.Signature) ||
		len(a.ShardData) != len(b.ShardData) || len(a.MerkleProof.Siblings) != len(b.MerkleProof.Siblings) {
		return false
	}
	for i := range a.ShardData {
		if !bytes.Equal(a.ShardData[i], b.ShardData[i]) {
			return false
		}
	}
	for i := range a.MerkleProof.Siblings {
		if a.MerkleProof.Siblings[i] != b.MerkleProof.Siblings[i] {
			return false
		}
	}
	return true
}

func short(b []byte) string {
	h := sha256.Sum256(b)
	return fmt.Sprintf("%x", h[:4])
}

// ---- message generation -----------------------------------------------------------------------

func varintLen(n int) int {
	switch {
	case n < 1<<7:
		return 1
	case n < 1<<14:
		return 2
	default:
		return 3
	}
}

func (w *world) genLen(d, p int) int {
	t := w.c.T
	n := 0
	switch t.Draw("len_class", 9) {
	case 0:
		n = 0
	case 1:
		n = t.Range("len_small", 1, 40)
	case 2: // varint(len)+len lands on a multiple of 2*d, or one off
		k := t.Range("pad_k", 1, max(1, 4096/(2*d)))
		delta := t.Draw("pad_delta", 3) - 1
		n = k*2*d - 1 + delta
		if n >= 128 {
			n--
		}
	case 3: // multiples of the shard counts +-1
		base := []int{d, d + p, 2 * d}[t.Draw("mult_base", 3)]
		n = base*t.Range("mult_k", 1, max(1, 4096/base)) + t.Draw("mult_delta", 3) - 1
	case 4:
		n = 126 + t.Draw("varint1", 4) // 126..129
	case 5:
		n = 16382 + t.Draw("varint2", 4) // 16382..16385
	case 6:
		n = t.Range("len_uniform", 0, 4096)
	case 7:
		n = 4096 - t.Draw("len_top", 8)
	case 8:
		n = t.Range("len_tiny", 0, 3)
	}
	if n < 0 {
		n = 0
	}
	return n
}

func (w *world) genMsg(n int) []byte {
	t := w.c.T
	msg := make([]byte, n)
	switch t.Draw("content", 6) {
	case 0: // zeros: indistinguishable from padding unless the length prefix is honoured
	case 1:
		f := t.Fork("content_rand")
		for i := range msg {
			msg[i] = byte(f.U64("b"))
		}
	case 2:
		for i := range msg {
			msg[i] = 0xff
		}
	case 3: // varint continuation bytes
		for i := range msg {
			msg[i] = 0x80
		}
	case 4: // random head, zero tail
		f := t.Fork("content_head")
		for i := 0; i < len(msg)/2; i++ {
			msg[i] = byte(f.U64("b"))
		}
	case 5: // zero head, non-zero last byte
		if n > 0 {
			msg[n-1] = 1 + byte(t.Draw("last", 255))
		}
	}
	return msg
}

func (w *world) lenProbes(n, d int) {
	c := w.c
	if n == 0 {
		c.Probe("empty_message")
	}
	switch n {
	case 127:
		c.Probe("len_127")
	case 128:
		c.Probe("len_128")
	case 16383:
		c.Probe("len_16383")
	case 16384:
		c.Probe("len_16384")
	}
	switch (varintLen(n) + n) % (2 * d) {
	case 0:
		c.Probe("pad_exact_multiple")
	case 1:
		c.Probe("pad_one_over")
	case 2*d - 1:
		c.Probe("pad_one_short")
	}
}

// ---- one published message --------------------------------------------------------------------

type message struct {
	name    string
	msg     []byte
	cid     pp.CommitteeID
	nonce   pp.Nonce
	pub     member
	d, p    int
	units   []pp.Unit
	senders []peer.ID // RX only
	rung    int
}

func (w *world) genCID() pp.CommitteeID {
	var cid pp.CommitteeID
	v := w.c.T.U64("cid")
	for i := 0; i < 8; i++ {
		cid[i] = byte(v >> (8 * i))
		cid[31-i] = byte(v >> (8 * i))
	}
	return cid
}

func (w *world) genNonce() pp.Nonce {
	t := w.c.T
	if !t.Chance("nonce_nonzero", 1, 4) {
		return 0
	}
	switch t.Draw("nonce_kind", 3) {
	case 0:
		return 1
	case 1:
		return pp.Nonce(1_790_000_000_000_000_000 + int64(t.Draw("nonce_ns", 1_000_000)))
	default:
		return pp.Nonce(int64(t.U64("nonce_raw") >> 1))
	}
}

// publish runs the real publisher. ok=false when it failed (already reported).
func (w *world) publish(m *message) bool {
	var units []pp.Unit
	var err error
	cid := m.cid
	msg := append([]byte(nil), m.msg...)
	if pc := guard(func() {
		units, err = pp.CreatePropellerUnits(m.pub.priv, &cid, m.nonce, msg, m.d, m.p)
	}); pc != nil {
		w.panicked(pc, "")
		return false
	}
	if err != nil {
		w.report("create_failed", "create_units", "CreatePropellerUnits(len=%d, d=%d, p=%d): %v", len(m.msg), m.d, m.p, err)
		return false
	}
	if !bytes.Equal(msg, m.msg) {
		w.report("unit_malformed", "create_units/input_mutated", "CreatePropellerUnits changed its input message")
		return false
	}
	if len(units) != m.d+m.p {
		w.report("unit_malformed", "create_units/count", "got %d units for d=%d p=%d", len(units), m.d, m.p)
		return false
	}
	m.units = units
	return true
}

// checkPublished: every unit carries its own index, one shard, the common signed root, a proof that
// binds (index, shard) to that root and a signature the publisher's key verifies for the unit's own
// (root, committee, nonce).
func (w *world) checkPublished(m *message) {
	total := m.d + m.p
	nz := "nonce_zero"
	if m.nonce != 0 {
		nz = "nonce_nonzero"
	}
	for i := range m.units {
		u := &m.units[i]
		if int(u.ShardIndex) != i || len(u.ShardData) != 1 || u.Publisher != m.pub.id || u.CommitteeID != m.cid ||
			u.MessageRoot != m.units[0].MessageRoot {
			w.report("unit_malformed", "create_units/fields", "unit %d: index=%d shards=%d publisher/committee/root mismatch", i, u.ShardIndex, len(u.ShardData))
			return
		}
		if len(u.ShardData[0]) != len(m.units[0].ShardData[0]) {
			w.report("unit_malformed", "create_units/shard_size", "unit %d shard size %d vs %d", i, len(u.ShardData[0]), len(m.units[0].ShardData[0]))
			return
		}
		if !proofOK(u.MessageRoot, u.ShardData[0], u.MerkleProof, uint32(i), total) {
			w.report("proof_invalid", "create_units", "proof of shard %d/%d does not verify against the unit's root (len=%d d=%d p=%d)", i, total, len(m.msg), m.d, m.p)
			return
		}
		var err error
		root, cid := u.MessageRoot, u.CommitteeID
		if pc := guard(func() { err = pp.VerifyMessageSignature(m.pub.pub, &root, &cid, u.Nonce, u.Signature) }); pc != nil {
			w.panicked(pc, "")
			return
		}
		w.c.Evals++
		if err != nil {
			w.report("unit_signature_invalid", "create_units/"+nz,
				"unit %d as returned by CreatePropellerUnits(nonce=%d) carries nonce=%d and a signature that does not verify for its own (root, committee, nonce) under the publisher's key: %v",
				i, int64(m.nonce), int64(u.Nonce), err)
			return
		}
	}
}

// ---- reconstruction oracle --------------------------------------------------------------------

// reconstruct calls the real ConstructMessageFromUnits on the units selected by mask and judges
// the outcome. where is "construct" (function-level) or "receiver".
func (w *world) reconstruct(m *message, present []bool, local int, where string) (rebuilt bool) {
	total := m.d + m.p
	in := make([]*pp.Unit, total)
	cnt := 0
	for i := 0; i < total; i++ {
		if present[i] {
			u := cloneUnit(&m.units[i])
			in[i] = &u
			cnt++
		}
	}
	shape := "shard0_present"
	if !present[0] {
		shape = "shard0_missing"
	}
	var (
		got   []byte
		sd    pp.ShardData
		proof merkle.Proof
		err   error
	)
	w.c.Evals++
	if pc := guard(func() { got, sd, proof, err = pp.ConstructMessageFromUnits(in, pp.ShardIndex(local), m.d, m.p) }); pc != nil {
		if cnt < m.d {
			shape += "_below_threshold"
		}
		w.panicked(pc, shape)
		return
	}
	desc := func() string {
		return fmt.Sprintf("len=%d d=%d p=%d present=%s local=%d", len(m.msg), m.d, m.p, maskString(present), local)
	}
	if cnt < m.d {
		if err == nil {
			w.report("below_threshold_accepted", where, "%d < %d shards but a message was returned (%s) equal_to_original=%v", cnt, m.d, desc(), bytes.Equal(got, m.msg))
		}
		return
	}
	if m.rung == 3 {
		// harness-built proto-leaf units are by construction not what ConstructMessageFromUnits
		// recomputes; only "never a wrong message" is judged for them.
		if err == nil && !bytes.Equal(got, m.msg) {
			w.report("wrong_message", where, "reconstructed message differs (%s)", desc())
		}
		return
	}
	if err != nil {
		w.report("reconstruct_failed", where+"/"+shape, "%d >= %d valid shards but: %v (%s)", cnt, m.d, err, desc())
		return
	}
	if !bytes.Equal(got, m.msg) {
		w.report("wrong_message", where, "reconstructed %d bytes %s, original %d bytes %s (%s)", len(got), short(got), len(m.msg), short(m.msg), desc())
		return
	}
	if len(sd) != 1 || !bytes.Equal(sd[0], m.units[local].ShardData[0]) {
		w.report("local_shard_invalid", where+"/shard", "returned local shard differs from the published shard %d (%s)", local, desc())
		return
	}
	if !proofOK(m.units[0].MessageRoot, sd[0], proof, uint32(local), total) {
		w.report("local_shard_invalid", where+"/proof", "returned local proof does not verify against the signed root (%s)", desc())
		return
	}
	return true
}

func maskString(p []bool) string {
	b := make([]byte, len(p))
	for i := range p {
		b[i] = '.'
		if p[i] {
			b[i] = 'x'
		}
	}
	return string(b)
}

// ---- mode FN: publisher -> every subset -> reconstruction --------------------------------------

// reconstructCorrupted repeats a successful reconstruction with ONE present unit's shard bytes
// altered: the function may fail, or still return the original message (the altered shard was not
// needed and not committed to), but it must never hand back a different message - the signed root
// covers every shard.
func (w *world) reconstructCorrupted(m *message, present []bool, local int, cf *tape.Tape) {
	total := m.d + m.p
	in := make([]*pp.Unit, total)
	var idx []int
	for i := 0; i < total; i++ {
		if present[i] {
			u := cloneUnit(&m.units[i])
			in[i] = &u
			if len(u.ShardData) == 1 && len(u.ShardData[0]) > 0 {
				idx = append(idx, i)
			}
		}
	}
	if len(idx) == 0 {
		return
	}
	j := idx[cf.Draw("unit", len(idx))]
	sh := in[j].ShardData[0]
	pos := cf.Draw("byte", len(sh))
	sh[pos] ^= byte(1 + cf.Draw("bits", 255))
	var (
		got []byte
		err error
	)
	w.c.Evals++
	w.c.Fault("corrupt_shard_at_reconstruction")
	if pc := guard(func() { got, _, _, err = pp.ConstructMessageFromUnits(in, pp.ShardIndex(local), m.d, m.p) }); pc != nil {
		w.panicked(pc, "corrupted_shard")
		return
	}
	if err == nil && !bytes.Equal(got, m.msg) {
		kind := "parity"
		if j < m.d {
			kind = "data"
		}
		w.report("wrong_message", "construct/corrupted_"+kind+"_shard", "with byte %d of shard %d altered a DIFFERENT message was returned without error: %d bytes %s, original %d bytes %s (len=%d d=%d p=%d present=%s local=%d)", pos, j, len(got), short(got), len(m.msg), short(m.msg), len(m.msg), m.d, m.p, maskString(present), local)
	}
	if err != nil {
		w.c.Probe("corrupted_shard_reconstruction_refused")
	}
}

func (w *world) runFN() {
	c, t := w.c, w.c.T
	keep0 := t.Draw("shard0_policy", 2) == 0 // 0: every subset contains shard 0
	var d, p int
	switch t.Draw("cfg_class", 4) {
	case 0, 1:
		d = t.Range("d", 1, 5)
		p = t.Range("p", 0, 5)
	case 2: // scheduler-shaped: N peers -> d=max(1,(N-1)/3), p=N-1-d
		n := t.Range("n", 2, 13)
		d = max(1, (n-1)/3)
		p = n - 1 - d
	case 3:
		d = t.Range("d_big", 1, 20)
		p = t.Range("p_big", 0, 20)
	}
	total := d + p
	m := &message{name: "A", cid: w.genCID(), nonce: w.genNonce(), pub: keyPool()[t.Draw("publisher", poolSize)], d: d, p: p, rung: 1}
	n := w.genLen(d, p)
	m.msg = w.genMsg(n)
	w.lenProbes(n, d)
	c.Logf("FN d=%d p=%d len=%d msg=%s nonce_zero=%v keep0=%v", d, p, n, short(m.msg), m.nonce == 0, keep0)
	c.Sample = map[string]any{"mode": "subsets", "data_shards": d, "parity_shards": p, "message_len": n, "keep_shard0": keep0}
	if p == 0 {
		c.Probe("no_parity")
	}
	if !w.publish(m) {
		return
	}
	w.checkPublished(m)

	present := make([]bool, total)
	cf := t.Fork("corrupt.at.reconstruction")
	evalMask := func(mask uint64, local int) {
		cnt := 0
		for i := 0; i < total; i++ {
			present[i] = mask>>uint(i)&1 == 1
			if present[i] {
				cnt++
			}
		}
		if keep0 && !present[0] {
			return
		}
		before := len(w.viols)
		if w.reconstruct(m, present, local, "construct") && cf.Draw("try", 3) == 0 {
			w.reconstructCorrupted(m, present, local, cf)
		}
		if cnt >= d {
			if cnt == d {
				c.Probe("subset_exactly_threshold")
			}
			if !present[0] {
				c.Probe("subset_without_shard0")
			}
			onlyParity := true
			for i := 0; i < d; i++ {
				if present[i] {
					onlyParity = false
				}
			}
			if onlyParity {
				c.Probe("subset_only_parity")
			}
			if cnt < total {
				c.Nontrivial = true
			}
		} else {
			c.Probe("subset_below_threshold")
		}
		if len(w.viols) != before {
			c.Logf("subset %s local=%d -> %s", maskString(present), local, w.viols[len(w.viols)-1].class)
		}
	}
	full := uint64(1)<<uint(total) - 1
	nsub := 0
	if total <= 12 && (total <= 8 || t.Draw("enumerate_all", 4) != 0 || c.Tier == "thorough") {
		c.Probe("all_subsets_enumerated")
		lf := t.Fork("locals")
		for mask := uint64(0); mask <= full; mask++ {
			evalMask(mask, int(lf.U64("l")%uint64(total)))
			nsub++
		}
	} else {
		// fixed special subsets, then samples
		special := []uint64{full, uint64(1)<<uint(d) - 1, full &^ 1}
		if p >= d {
			special = append(special, full&^(uint64(1)<<uint(d)-1))    // only parity
			special = append(special, (uint64(1)<<uint(d)-1)<<uint(p)) // the last d shards
		}
		for i := 0; i < total && i < 8; i++ {
			special = append(special, full&^(uint64(1)<<uint(i)))
		}
		for _, mk := range special {
			evalMask(mk, t.Draw("local", total))
			nsub++
		}
		ns := 24
		if c.Tier == "thorough" {
			ns = 96
		}
		for s := 0; s < ns; s++ {
			// choose a target size biased to the threshold, then a random subset of that size
			size := d
			switch t.Draw("size_class", 4) {
			case 1:
				size = min(total, d+1)
			case 2:
				size = t.Range("size_any", 0, total)
			case 3:
				size = max(0, d-1)
			}
			idx := make([]int, total)
			for i := range idx {
				idx[i] = i
			}
			var mask uint64
			for k := 0; k < size; k++ {
				j := k + t.Draw("pick", total-k)
				idx[k], idx[j] = idx[j], idx[k]
				mask |= 1 << uint(idx[k])
			}
			evalMask(mask, t.Draw("local", total))
			nsub++
		}
		c.Probe("subsets_sampled")
	}
	c.Logf("evaluated %d subsets, %d violation(s) noted", nsub, len(w.viols))
}

// ---- mode RX: publisher -> transport -> validators (one per message key) -> reconstruction -----

type delivery struct {
	unit   pp.Unit
	sender peer.ID
	note   string
	kind   string                     // fault kind applied ("" = none)
	wire   func(pu *pb.PropellerUnit) // wire-only mutation
	pin    bool                       // never lost/corrupted/reordered away from the front
}

// rxState is what the Processor keeps per entry of its subProcessors map: one validator (and the
// units it accepted). The map key is the REAL routing key, computed by the real extractKey (exported
// by overlay.py as JsimExtractKey), so a unit reaches exactly the validator production would hand it to.
type rxState struct {
	id        int
	val       pp.UnitValidator
	localIdx  pp.ShardIndex
	accepted  []bool
	count     int
	delivered bool
	msg       *message // message of the first genuine unit this validator accepted
}

type rxWorld struct {
	*world
	members  []member // committee, sorted by id
	localPos int
	sched    *pp.Scheduler
	d, p     int
	msgs     []*message
	states   map[pp.JsimMessageKey]*rxState
	extra    []member // pool members outside the committee

	acceptedAny bool
}

// expected sender of shard i of publisher pubPos (documented mapping: peers sorted, publisher skipped;
// the local peer's own shard comes straight from the publisher).
func (r *rxWorld) senderOf(pubPos, i int) peer.ID {
	pos := i
	if pos >= pubPos {
		pos++
	}
	if pos == r.localPos {
		return r.members[pubPos].id
	}
	return r.members[pos].id
}

func (r *rxWorld) posOf(id peer.ID) int {
	for i := range r.members {
		if r.members[i].id == id {
			return i
		}
	}
	return -1
}

func errStage(err error) string {
	s := err.Error()
	switch {
	case strings.HasPrefix(s, "duplicated shard"):
		return "duplicate"
	case strings.HasPrefix(s, "data shards verification failed"), strings.HasPrefix(s, "unexpected amount of shards"):
		return "merkle"
	case strings.Contains(s, "signature"):
		return "signature"
	default:
		return "origin"
	}
}

// classify finds the genuine unit (message, index) a delivered unit is identical to.
func (r *rxWorld) classify(u *pp.Unit) (*message, int) {
	for _, m := range r.msgs {
		for i := range m.units {
			if unitEq(u, &m.units[i]) {
				return m, i
			}
		}
	}
	return nil, -1
}

// adapt applies the calibration rung to a freshly published message (calibrated runs only).
func (r *rxWorld) adapt(m *message, rung int) {
	m.rung = rung
	if rung >= 2 {
		for i := range m.units {
			m.units[i].Nonce = m.nonce
		}
	}
	if rung == 3 {
		leaves := make([][]byte, len(m.units))
		for i := range m.units {
			leaves[i] = m.units[i].ShardData.MarshalProto()
		}
		root, tree := merkle.New(leaves)
		mr := pp.MessageRoot(root)
		cid := m.cid
		sig, err := pp.SignMessage(m.pub.priv, &mr, &cid, m.nonce)
		r.c.Must(err, "sign adapted root")
		for i := range m.units {
			m.units[i].MessageRoot = mr
			m.units[i].MerkleProof = tree[i]
			m.units[i].Signature = append(pp.Signature(nil), sig...)
		}
	}
}

// acceptedFresh: does a new validator accept unit 0 of m from its proper sender?
func (r *rxWorld) acceptedFresh(m *message) bool {
	var err error
	u := cloneUnit(&m.units[0])
	if pc := guard(func() {
		v := pp.NewValidator(m.pub.id, r.sched)
		err = v.Validate(&u, m.senders[0])
	}); pc != nil {
		r.panicked(pc, "honest_unit")
		return false
	}
	r.c.Evals++
	return err == nil
}

func (w *world) runRX() {
	c, t := w.c, w.c.T
	r := &rxWorld{world: w, states: map[pp.JsimMessageKey]*rxState{}}
	strict := t.Draw("publisher_class", 3) == 0 // 0: units exactly as published; else calibrated
	faults := t.Draw("fault_class", 4) != 0
	keep0 := t.Draw("shard0_policy", 2) == 0
	wire := t.Draw("wire", 2) == 1
	n := 2 + t.Draw("committee_size", 12) // 2..13 -> 1..12 shards
	if t.Draw("size_bias", 2) == 0 {
		n = 4 + t.Draw("committee_mid", 5) // 4..8
	}
	// committee: n members of the pool, tape-chosen
	pl := keyPool()
	idx := make([]int, poolSize)
	for i := range idx {
		idx[i] = i
	}
	for k := 0; k < n; k++ {
		j := k + t.Draw("member", poolSize-k)
		idx[k], idx[j] = idx[j], idx[k]
	}
	for k := 0; k < n; k++ {
		r.members = append(r.members, pl[idx[k]])
	}
	for k := n; k < poolSize; k++ {
		r.extra = append(r.extra, pl[idx[k]])
	}
	sort.Slice(r.members, func(i, j int) bool { return r.members[i].id < r.members[j].id })
	r.localPos = t.Draw("local", n)
	peers := make([]pp.PeerCommittee, n)
	for i := range r.members {
		peers[n-1-i] = pp.PeerCommittee{ID: r.members[i].id, Stake: pp.Stake(1 + i)}
	}
	var err error
	if pc := guard(func() { r.sched, err = pp.NewScheduler(r.members[r.localPos].id, peers) }); pc != nil {
		w.panicked(pc, "")
		return
	}
	c.Must(err, "NewScheduler")
	r.d, r.p = r.sched.NumDataShards(), r.sched.NumCodingShards()
	if r.d < 1 || r.p < 0 || r.d+r.p != n-1 {
		c.Broken("scheduler shard counts d=%d p=%d for n=%d", r.d, r.p, n)
	}
	total := r.d + r.p
	c.Logf("RX n=%d local=%d d=%d p=%d strict=%v faults=%v keep0=%v wire=%v", n, r.localPos, r.d, r.p, strict, faults, keep0, wire)
	c.Sample = map[string]any{"mode": "receiver", "committee": n, "data_shards": r.d, "parity_shards": r.p,
		"publisher_units": map[bool]string{true: "as_published", false: "calibrated"}[strict], "faults": faults, "wire": wire}

	// messages
	nmsg := 1
	if t.Chance("second_message", 1, 3) {
		nmsg = 2
	}
	cid := w.genCID()
	for k := 0; k < nmsg; k++ {
		pubPos := t.Draw("publisher", n-1)
		if pubPos >= r.localPos {
			pubPos++
		}
		m := &message{name: string(rune('A' + k)), cid: cid, nonce: w.genNonce(), pub: r.members[pubPos], d: r.d, p: r.p, rung: 1}
		ln := w.genLen(r.d, r.p)
		m.msg = w.genMsg(ln)
		if k == 1 && bytes.Equal(m.msg, r.msgs[0].msg) {
			m.msg = append(m.msg, 0x5a)
			ln++
		}
		w.lenProbes(ln, r.d)
		if !w.publish(m) {
			w.finish()
			return
		}
		for i := 0; i < total; i++ {
			m.senders = append(m.senders, r.senderOf(pubPos, i))
		}
		c.Logf("message %s publisher=%d len=%d msg=%s nonce_zero=%v", m.name, pubPos, ln, short(m.msg), m.nonce == 0)
		r.msgs = append(r.msgs, m)
	}
	if !strict {
		// calibration: the first publisher variant a fresh validator accepts. Rung 1 = as published,
		// 2 = Unit.Nonce filled in, 3 = tree over the validator's leaf encoding, root re-signed.
		rung := 0
		for _, cand := range []int{1, 2, 3} {
			if cand == 2 && r.msgs[0].nonce == 0 {
				continue
			}
			pristine := make([]pp.Unit, total)
			for i := range pristine {
				pristine[i] = cloneUnit(&r.msgs[0].units[i])
			}
			r.adapt(r.msgs[0], cand)
			ok := r.acceptedFresh(r.msgs[0])
			r.msgs[0].units = pristine
			r.msgs[0].rung = 1
			if len(w.viols) > 0 {
				w.finish()
			}
			if ok {
				rung = cand
				break
			}
		}
		if rung == 0 {
			c.Inconclusive++
			c.Logf("no publisher variant is accepted by a fresh validator; calibrated run inconclusive")
			return
		}
		c.Probe(fmt.Sprintf("calibrated_rung_%d", rung))
		c.Logf("calibrated rung %d", rung)
		for _, m := range r.msgs {
			r.adapt(m, rung)
		}
	}

	// transport
	var dl []delivery
	kinds := []string{"corrupt_shard", "corrupt_proof", "corrupt_index", "corrupt_signature", "corrupt_committee",
		"corrupt_publisher", "corrupt_root", "corrupt_sender", "resigned_unit", "foreign_unit", "corrupt_nonce"}
	enabled := uint64(0)
	pLoss, pDup, pCorrupt := 0, 0, 0
	reorder := false
	if faults {
		enabled = t.U64("enabled_kinds")
		if enabled&(1<<uint(len(kinds))-1) == 0 {
			enabled = ^uint64(0)
		}
		pLoss = t.Draw("p_loss", 4)        // x/8
		pDup = t.Draw("p_dup", 4)          // x/8
		pCorrupt = 1 + t.Draw("p_corr", 4) // x/8
		reorder = t.Draw("reorder", 3) != 0
	}
	var foreign *message
	for _, m := range r.msgs {
		for i := 0; i < total; i++ {
			base := delivery{unit: cloneUnit(&m.units[i]), sender: m.senders[i], note: fmt.Sprintf("%s%d", m.name, i)}
			if keep0 && i == 0 {
				base.pin = true
				dl = append(dl, base)
				if faults && t.Chance("dup_pinned", 1, 8) {
					d2 := base
					d2.pin = false
					d2.unit = cloneUnit(&base.unit)
					d2.kind = "unit_duplicated"
					dl = append(dl, d2)
				}
				continue
			}
			if !faults {
				dl = append(dl, base)
				continue
			}
			if t.Chance("lose", pLoss, 8) {
				c.Fault("unit_lost")
				c.Logf("lost %s", base.note)
				continue
			}
			if t.Chance("corrupt", pCorrupt, 8) {
				k := t.Draw("kind", len(kinds))
				for s := 0; s < len(kinds) && enabled>>uint(k)&1 == 0; s++ {
					k = (k + 1) % len(kinds)
				}
				if kinds[k] == "foreign_unit" && foreign == nil {
					foreign = r.otherMessage(m)
				}
				bad := r.corrupt(kinds[k], m, i, foreign)
				if t.Draw("inject_or_replace", 2) == 1 {
					dl = append(dl, base) // forged copy injected next to the genuine unit
				}
				dl = append(dl, bad)
				continue
			}
			dl = append(dl, base)
			if t.Chance("dup", pDup, 8) {
				d2 := base
				d2.unit = cloneUnit(&base.unit)
				d2.kind = "unit_duplicated"
				dl = append(dl, d2)
			}
		}
	}
	if reorder {
		// pinned deliveries stay in front, the rest is permuted
		var front, rest []delivery
		for _, d := range dl {
			if d.pin {
				front = append(front, d)
			} else {
				rest = append(rest, d)
			}
		}
		moved := false
		for k := 0; k+1 < len(rest); k++ {
			j := k + t.Draw("order", len(rest)-k)
			if j != k {
				moved = true
			}
			rest[k], rest[j] = rest[j], rest[k]
		}
		if moved {
			c.Fault("unit_reordered")
		}
		dl = append(front, rest...)
	}

	// receiver
	for di := range dl {
		r.receive(&dl[di], wire)
		if len(w.viols) > 0 {
			w.finish()
		}
	}
}

// otherMessage publishes a different message by the same publisher in the same committee; its units
// are only used as raw material for foreign_unit faults.
func (r *rxWorld) otherMessage(m *message) *message {
	t := r.c.T
	o := &message{name: "F", cid: m.cid, nonce: m.nonce, pub: m.pub, d: m.d, p: m.p, rung: 1}
	if t.Draw("foreign_same_len", 2) == 0 {
		o.msg = append([]byte(nil), m.msg...)
		if len(o.msg) == 0 {
			o.msg = []byte{1}
		} else {
			o.msg[t.Draw("foreign_pos", len(o.msg))] ^= 1 + byte(t.Draw("foreign_xor", 255))
		}
	} else {
		o.msg = r.genMsg(r.genLen(m.d, m.p))
		if bytes.Equal(o.msg, m.msg) {
			o.msg = append(o.msg, 7)
		}
	}
	if !r.publish(o) {
		r.finish()
		r.c.Broken("foreign message could not be published")
	}
	o.senders = m.senders
	r.adapt(o, m.rung)
	return o
}

// corrupt returns the delivery of unit i of m with exactly one field (or the sender) changed, or a
// unit re-signed by another key, or material of another message.
func (r *rxWorld) corrupt(kind string, m *message, i int, foreign *message) delivery {
	t := r.c.T
	total := m.d + m.p
	u := cloneUnit(&m.units[i])
	d := delivery{sender: m.senders[i], kind: kind}
	variant := ""
	switch kind {
	case "corrupt_shard":
		sh := u.ShardData[0]
		switch t.Draw("shard_variant", 5) {
		case 0:
			pos := t.Draw("shard_pos", len(sh))
			sh[pos] ^= 1 + byte(t.Draw("shard_xor", 255))
			variant = "flip"
		case 1:
			u.ShardData[0] = sh[:len(sh)-1]
			variant = "truncate"
		case 2:
			u.ShardData[0] = append(sh, byte(t.Draw("shard_extra", 256)))
			variant = "extend"
		case 3:
			u.ShardData = append(u.ShardData, append(pp.Shard{}, sh...))
			variant = "two_shards"
		case 4:
			u.ShardData = pp.ShardData{}
			variant = "no_shards"
		}
	case "corrupt_proof":
		sib := u.MerkleProof.Siblings
		switch t.Draw("proof_variant", 6) {
		case 4, 5: // on the wire a sibling is a byte string: truncated or empty; in memory a flip of its last byte
			lvl := t.Draw("proof_level_short", len(sib))
			sib[lvl][31] ^= 0xff
			keep := 31
			if t.Draw("proof_short_empty", 2) == 1 {
				keep = 0
			}
			d.wire = func(pu *pb.PropellerUnit) {
				if sb := pu.GetMerkleProof().GetSiblings(); lvl < len(sb) && len(sb[lvl].GetElements()) >= keep {
					sb[lvl].Elements = sb[lvl].Elements[:keep]
				}
			}
			variant = "short_sibling_on_wire"
		case 0:
			lvl := len(sib) - 1 - t.Draw("proof_level_from_top", len(sib))
			sib[lvl][t.Draw("proof_byte", 32)] ^= 1 << uint(t.Draw("proof_bit", 8))
			variant = fmt.Sprintf("flip_level_%d_of_%d", lvl, len(sib))
		case 1:
			u.MerkleProof.Siblings = sib[:len(sib)-1]
			variant = "drop_top"
		case 2:
			var h merkle.Hash
			h[0] = byte(t.Draw("proof_extra", 256))
			u.MerkleProof.Siblings = append(sib, h)
			variant = "extra_level"
		case 3:
			if len(sib) >= 2 {
				sib[0], sib[len(sib)-1] = sib[len(sib)-1], sib[0]
			} else {
				sib[0][0] ^= 0x80
			}
			variant = "swap_levels"
		}
	case "corrupt_index":
		j := i
		switch t.Draw("index_variant", 5) {
		case 0:
			if total > 1 {
				j = t.Draw("index_other", total-1)
				if j >= i {
					j++
				}
			} else {
				j = total
			}
			variant = "other_valid"
		case 1:
			j = i ^ 1
			variant = "sibling"
		case 2:
			j = total
			variant = "first_out_of_range"
		case 3:
			j = i + (1 << uint(len(u.MerkleProof.Siblings))) // same path bits, beyond the tree width
			variant = "alias_beyond_tree"
		case 4:
			j = int(^uint32(0)) - t.Draw("index_top", 2)
			variant = "huge"
		}
		u.ShardIndex = pp.ShardIndex(uint32(j))
		if j >= 0 && j < total && t.Draw("index_sender", 2) == 1 {
			d.sender = m.senders[j] // the peer that legitimately relays index j sends it
			variant += "_from_its_relay"
		}
	case "corrupt_signature":
		switch t.Draw("sig_variant", 4) {
		case 0:
			u.Signature[t.Draw("sig_byte", len(u.Signature))] ^= 1 << uint(t.Draw("sig_bit", 8))
			variant = "flip"
		case 1:
			u.Signature = u.Signature[:len(u.Signature)-1]
			variant = "truncate"
		case 2:
			u.Signature = pp.Signature{}
			variant = "empty"
		case 3:
			u.Signature = append(u.Signature, 0)
			variant = "extend"
		}
	case "corrupt_committee":
		u.CommitteeID[t.Draw("cid_byte", 32)] ^= 1 << uint(t.Draw("cid_bit", 8))
		variant = "flip"
	case "corrupt_publisher":
		switch t.Draw("pub_variant", 4) {
		case 0: // another committee member
			pos := t.Draw("pub_other", len(r.members)-1)
			if r.members[pos].id == m.pub.id {
				pos = len(r.members) - 1
			}
			u.Publisher = r.members[pos].id
			variant = "other_member"
			if pos == r.localPos {
				variant = "local_peer"
			}
		case 1:
			u.Publisher = r.extra[t.Draw("pub_extra", len(r.extra))].id
			variant = "non_member"
		case 2:
			b := []byte(u.Publisher)
			b[t.Draw("pub_byte", len(b))] ^= 1 << uint(t.Draw("pub_bit", 8))
			u.Publisher = peer.ID(b)
			variant = "flip"
		case 3:
			u.Publisher = ""
			variant = "empty"
		}
	case "corrupt_root":
		switch t.Draw("root_variant", 3) {
		case 0:
			u.MessageRoot[t.Draw("root_byte", 32)] ^= 1 << uint(t.Draw("root_bit", 8))
			variant = "flip"
		case 1: // on the wire the root is a byte string; in memory this variant is a flip of the last byte
			u.MessageRoot[31] ^= 0xff
			d.wire = func(pu *pb.PropellerUnit) { pu.MerkleRoot.Elements = pu.MerkleRoot.Elements[:31] }
			variant = "short_on_wire"
		case 2:
			u.MessageRoot = pp.MessageRoot{}
			variant = "zero"
		}
	case "corrupt_nonce":
		switch t.Draw("nonce_variant", 3) {
		case 0:
			u.Nonce ^= 1 << uint(t.Draw("nonce_bit", 63))
			variant = "flip"
		case 1:
			u.Nonce++
			variant = "plus_one"
		case 2:
			if u.Nonce == 0 {
				u.Nonce = 1
			} else {
				u.Nonce = 0
			}
			variant = "zero_or_one"
		}
	case "corrupt_sender":
		switch t.Draw("sender_variant", 3) {
		case 0:
			pos := t.Draw("sender_other", len(r.members)-1)
			if r.members[pos].id == d.sender {
				pos = len(r.members) - 1
			}
			d.sender = r.members[pos].id
			variant = "other_member"
			if pos == r.localPos {
				variant = "local_peer"
			} else if d.sender == m.pub.id {
				variant = "publisher_for_relayed_shard"
			}
		case 1:
			d.sender = r.extra[t.Draw("sender_extra", len(r.extra))].id
			variant = "non_member"
		case 2:
			d.sender = ""
			variant = "empty"
		}
	case "resigned_unit":
		var other member
		if t.Draw("resign_by", 2) == 0 {
			pos := t.Draw("resign_member", len(r.members)-1)
			if r.members[pos].id == m.pub.id {
				pos = len(r.members) - 1
			}
			other = r.members[pos]
			variant = "by_member"
		} else {
			other = r.extra[t.Draw("resign_extra", len(r.extra))]
			variant = "by_outsider"
		}
		root, cid := u.MessageRoot, u.CommitteeID
		sig, err := pp.SignMessage(other.priv, &root, &cid, u.Nonce)
		r.c.Must(err, "re-sign")
		u.Signature = sig
	case "foreign_unit":
		f := cloneUnit(&foreign.units[i])
		switch t.Draw("foreign_variant", 4) {
		case 0: // whole unit of the other message, relabelled with this message's root and signature
			f.MessageRoot, f.Signature = u.MessageRoot, u.Signature
			u = f
			variant = "relabelled"
		case 1: // this unit's shard replaced by the other message's shard
			u.ShardData = f.ShardData
			variant = "shard_swapped"
		case 2: // shard and proof of the other message under this message's root
			u.ShardData, u.MerkleProof = f.ShardData, f.MerkleProof
			variant = "shard_and_proof_swapped"
		case 3: // the other message's unit carrying this message's signature
			f.Signature = u.Signature
			u = f
			variant = "signature_transplanted"
		}
	}
	d.unit = u
	d.note = fmt.Sprintf("%s%d!%s/%s", m.name, i, kind, variant)
	return d
}

// receive: one delivered unit goes through (optionally) the wire codec, the per-key routing of the
// processor and the real validator; when the build threshold is reached the message is rebuilt.
func (r *rxWorld) receive(dv *delivery, wire bool) {
	c := r.c
	u := cloneUnit(&dv.unit)
	if wire {
		var (
			dec  pp.Unit
			derr error
			raw  []byte
		)
		if pc := guard(func() {
			pu := u.ToProto()
			if dv.wire != nil {
				dv.wire(pu)
			}
			b, err := proto.Marshal(&pb.PropellerUnitBatch{Batch: []*pb.PropellerUnit{pu}})
			if err != nil {
				derr = err
				return
			}
			raw = b
		}); pc != nil {
			r.panicked(pc, "")
			return
		}
		c.Must(derr, "marshal unit")
		var batch pb.PropellerUnitBatch
		c.Must(proto.Unmarshal(raw, &batch), "unmarshal unit")
		shape := "well_formed_unit"
		if len(dv.unit.ShardData) == 0 {
			shape = "unit_without_shards"
		} else if dv.wire != nil {
			shape = "short_root"
		}
		if pc := guard(func() { dec, derr = pp.UnitFromProto(batch.GetBatch()[0]) }); pc != nil {
			c.Logf("deliver %s: decoder panicked", dv.note)
			if dv.kind != "" {
				c.Fault(dv.kind)
			}
			r.panicked(pc, shape)
			return
		}
		if derr != nil {
			if m, i := r.classify(&dv.unit); m != nil && dv.wire == nil && dv.sender == m.senders[i] {
				r.report("honest_unit_rejected", "unit_from_proto", "genuine unit %s does not survive the wire codec: %v", dv.note, derr)
				return
			}
			c.Logf("deliver %s: rejected by decoder", dv.note)
			if dv.kind != "" {
				c.Fault(dv.kind)
			}
			return
		}
		u = dec
	}
	gm, gi := r.classify(&u)
	honest := gm != nil && dv.sender == gm.senders[gi]
	if !honest && dv.kind != "" {
		c.Fault(dv.kind)
	}
	defer func() { c.Nontrivial = c.Nontrivial || (r.acceptedAny && len(c.Faults) > 0) }()

	// Processor.ProcessMessage: key := extractKey(unit); p.subProcessors[key]
	var key pp.JsimMessageKey
	if pc := guard(func() { key = pp.JsimExtractKey(&u) }); pc != nil {
		r.panicked(pc, "")
		return
	}
	st := r.states[key]
	fresh := st == nil
	if dv.kind == "corrupt_committee" && !honest {
		// is the genuine message this unit was forged from already being validated (signature cached)?
		var gk pp.JsimMessageKey
		src := r.msgs[0]
		for _, m := range r.msgs {
			if strings.HasPrefix(dv.note, m.name) {
				src = m
			}
		}
		gk = pp.JsimExtractKey(&src.units[0])
		if g := r.states[gk]; g != nil && g.count > 0 {
			c.Probe("wrong_committee_unit_after_genuine_accepted")
		} else {
			c.Probe("wrong_committee_unit_before_genuine_accepted")
		}
	}
	if !fresh && !honest && st.count > 0 {
		c.Probe("forged_unit_met_running_validator")
	}
	if st == nil {
		// Processor.createSubprocessor: the publisher must be a committee member other than the local peer
		var li pp.ShardIndex
		var err error
		if pc := guard(func() { li, err = r.sched.ShardIndexForPublisher(key.Publisher) }); pc != nil {
			r.panicked(pc, "")
			return
		}
		if err != nil {
			if honest {
				r.report("honest_unit_rejected", "validator/routing", "genuine unit %s: %v", dv.note, err)
				return
			}
			c.Logf("deliver %s: rejected, no subprocessor for this publisher", dv.note)
			return
		}
		st = &rxState{id: len(r.states), localIdx: li, accepted: make([]bool, r.d+r.p)}
		if pc := guard(func() { st.val = pp.NewValidator(key.Publisher, r.sched) }); pc != nil {
			r.panicked(pc, "")
			return
		}
		r.states[key] = st
	}
	c.Logf("route %s -> validator %d (new=%v)", dv.note, st.id, fresh)
	var err error
	in := cloneUnit(&u)
	c.Evals++
	if pc := guard(func() { err = st.val.Validate(&in, dv.sender) }); pc != nil {
		c.Logf("deliver %s: validator panicked", dv.note)
		shape := "honest_unit"
		if !honest {
			shape = dv.kind
		}
		r.panicked(pc, shape)
		return
	}
	switch {
	case honest && st.msg == gm && st.accepted[gi]:
		if err == nil {
			r.report("duplicate_accepted", "validator", "second delivery of %s accepted", dv.note)
			return
		}
		c.Logf("deliver %s: duplicate rejected", dv.note)
		c.Fault("unit_duplicated")
		return
	case honest:
		if err != nil {
			what := "as published by CreatePropellerUnits"
			if gm.rung > 1 {
				what = fmt.Sprintf("calibrated rung %d", gm.rung)
			}
			site := "as_published"
			if gm.rung > 1 {
				site = fmt.Sprintf("calibrated_rung_%d", gm.rung)
			}
			r.reportAt("honest_unit_rejected", "validator/"+errStage(err), site,
				"genuine unit %s (%s; len=%d d=%d p=%d nonce=%d) from its proper sender rejected: %v", dv.note, what, len(gm.msg), gm.d, gm.p, int64(gm.nonce), err)
			return
		}
		c.Logf("deliver %s: accepted", dv.note)
	default:
		if err == nil {
			k := dv.kind
			if k == "" || k == "unit_duplicated" {
				k = "unknown"
			}
			r.report("corrupt_accepted", "validator/"+k, "unit %s, which differs from every published unit or comes from the wrong sender, was accepted", dv.note)
			return
		}
		c.Logf("deliver %s: rejected (%s)", dv.note, errStage(err))
		c.Probe("corrupt_unit_rejected")
		return
	}
	// accepted genuine unit
	if st.msg == nil {
		st.msg = gm
	} else if st.msg != gm {
		r.report("corrupt_accepted", "validator/unit_of_other_message", "validator %d accepted units of message %s and then %s", st.id, st.msg.name, dv.note)
		return
	}
	r.acceptedAny = true
	st.accepted[gi] = true
	st.count++
	if st.count == r.d && !st.delivered {
		st.delivered = true
		if !st.accepted[0] {
			c.Probe("threshold_without_shard0")
		}
		c.Logf("threshold reached for %s with %s", gm.name, maskString(st.accepted))
		if r.reconstruct(gm, st.accepted, int(st.localIdx), "receiver") {
			c.Probe("message_delivered")
			c.Logf("message %s delivered", gm.name)
		} else if len(r.viols) == 0 {
			c.Logf("message %s: reconstruction not comparable (calibrated publisher variant), no message returned", gm.name)
		}
	}
}

// C19 is one simulated run.
func C19(c *sim.Ctx) {
	w := &world{c: c}
	keyPool()
	if c.T.Draw("mode", 5) < 2 {
		w.runFN()
	} else {
		w.runRX()
	}
	w.finish()
}
