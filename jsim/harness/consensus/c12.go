package consensus

import (
	"fmt"
	"sort"

	"github.com/NethermindEth/juno/consensus/tendermint"
	"github.com/NethermindEth/juno/consensus/types"
	"github.com/NethermindEth/juno/consensus/types/actions"
	"github.com/NethermindEth/juno/consensus/votecounter"
	"github.com/NethermindEth/juno/utils/log"

	"jsim/sim"
)

// ---- small concrete types for the generic state machine -----------------------------------

type H [4]uint64
type A [4]uint64
type V uint64

func (v V) Hash() H { return H{uint64(v), 0x5eed, 0, 0} }

func addr(i int) A { return A{uint64(i + 1), 0, 0, 0} }

// invalid values are those with bit 8 set (a fixed predicate of the application)
func validValue(v V) bool { return uint64(v)&0x100 == 0 }

type app struct {
	node  int
	calls int
}

func (a *app) Value() V {
	a.calls++
	return V(uint64(a.node+1)<<16 | uint64(a.calls)<<9 | uint64(a.node+1)) // bit 8 clear: valid
}
func (a *app) Valid(v V) bool { return validValue(v) }

type valset struct {
	power []types.VotingPower // powers at height 0 (and at every height unless perHeight is set)
	total types.VotingPower
	// perHeight[h] overrides the powers from height h on (validator-set changes between heights)
	perHeight map[types.Height][]types.VotingPower
	// proposer schedule: stride chosen per run so that proposer rotation varies
	stride int
}

func (vs *valset) powersAt(h types.Height) []types.VotingPower {
	if p, ok := vs.perHeight[h]; ok {
		return p
	}
	return vs.power
}

func (vs *valset) TotalVotingPower(h types.Height) types.VotingPower {
	var t types.VotingPower
	for _, p := range vs.powersAt(h) {
		t += p
	}
	return t
}
func (vs *valset) ValidatorVotingPower(h types.Height, a *A) types.VotingPower {
	i := int(a[0]) - 1
	if i < 0 || i >= len(vs.power) || a[1] != 0 || a[2] != 0 || a[3] != 0 {
		return 0
	}
	return vs.powersAt(h)[i]
}
func (vs *valset) Proposer(h types.Height, r types.Round) A {
	n := len(vs.power)
	return addr((int(h)*vs.stride + int(r)) % n)
}

// ---- messages in flight ---------------------------------------------------------------------

type msgKind uint8

const (
	kProposal msgKind = iota
	kPrevote
	kPrecommit
)

func (k msgKind) String() string { return [...]string{"proposal", "prevote", "precommit"}[k] }

type msg struct {
	kind   msgKind
	h      types.Height
	r      types.Round
	sender int
	id     *H // votes
	val    V  // proposals
	vr     types.Round
}

func (m msg) String() string {
	switch m.kind {
	case kProposal:
		return fmt.Sprintf("proposal(h%d r%d from n%d v=%x vr=%d)", m.h, m.r, m.sender, uint64(m.val), m.vr)
	default:
		id := "nil"
		if m.id != nil {
			id = fmt.Sprintf("%x", m.id[0])
		}
		return fmt.Sprintf("%s(h%d r%d from n%d id=%s)", m.kind, m.h, m.r, m.sender, id)
	}
}

type flight struct {
	m  msg
	to int
}

type voteKey struct {
	h    types.Height
	r    types.Round
	kind msgKind
}

type node struct {
	idx       int
	sm        tendermint.StateMachine[V, H, A]
	app       *app
	timeouts  []types.Timeout // scheduled, not yet fired
	needStart bool
	started   bool
	height    types.Height // height as tracked from the node's own Commit actions
	// monitor state
	sent       map[voteKey]map[H]bool // ids broadcast per (h,r,kind); nil id recorded as zero H with flag below
	sentNil    map[voteKey]bool
	proposals  map[voteKey]V
	committed  map[types.Height]V
	lastLockR  map[types.Height]types.Round // last non-nil precommit round at height
	lastLockID map[types.Height]H
	// what has been delivered to this node (plus own messages), for the lock-rule oracle
	recvPrevotes map[types.Height]map[types.Round]map[H]map[int]bool
	recvProps    map[types.Height]map[types.Round][]msg
}

type world struct {
	c       *sim.Ctx
	vs      *valset
	n       int
	byz     map[int]bool
	nodes   []*node
	net     []flight
	group   []int // partition group per node; deliverable iff same group
	maxH    types.Height
	maxR    types.Round
	commits int
}

// C12 is one simulated run of the consensus net.
func C12(c *sim.Ctx) {
	t := c.T
	w := &world{c: c, byz: map[int]bool{}}
	// --- configuration (swarm) ---
	cls := t.Draw("class", 4)
	var powers []types.VotingPower
	switch cls {
	case 0, 1:
		powers = []types.VotingPower{1, 1, 1, 1}
	case 2:
		powers = []types.VotingPower{1, 1, 1, 1, 1, 1, 1}
	default:
		n := t.Range("n", 4, 7)
		for i := 0; i < n; i++ {
			powers = append(powers, types.VotingPower(t.Range("power", 1, 6)))
		}
	}
	w.n = len(powers)
	var total types.VotingPower
	for _, p := range powers {
		total += p
	}
	w.vs = &valset{power: powers, total: total, stride: 1 + t.Draw("stride", 3), perHeight: map[types.Height][]types.VotingPower{}}
	if cls == 3 && t.Draw("valset.changes", 2) == 1 {
		// the validator set's powers change between heights
		for h := types.Height(1); h <= 4; h++ {
			ph := make([]types.VotingPower, len(powers))
			for i := range ph {
				ph[i] = types.VotingPower(t.Range("power.h", 1, 6))
			}
			w.vs.perHeight[h] = ph
		}
		c.Probe("validator_powers_change_between_heights")
	}
	// Byzantine set: total power strictly less than one third of the total (the statement's assumption)
	var bp types.VotingPower
	order := permutation(c, w.n)
	wantByz := t.Draw("byzantine", 4) != 0
	if wantByz {
		for _, i := range order {
			// strictly less than a third of the total power at EVERY height
			ok := true
			for h := types.Height(0); h <= 4; h++ {
				var b types.VotingPower
				ph := w.vs.powersAt(h)
				for j := range w.byz {
					b += ph[j]
				}
				if 3*(b+ph[i]) >= w.vs.TotalVotingPower(h) {
					ok = false
				}
			}
			if ok {
				w.byz[i] = true
				bp += powers[i]
			}
		}
	}
	w.maxH = types.Height(1 + t.Draw("heights", 3))
	w.maxR = types.Round(2 + t.Draw("rounds", 4))
	lossPct := []int{0, 0, 5, 15}[t.Draw("loss", 4)]
	dupPct := []int{0, 3, 10}[t.Draw("dup", 3)]
	steps := 150 + t.Draw("steps", 450)
	c.Logf("config n=%d powers=%v total=%d byz=%v heights=%d maxround=%d loss=%d%% dup=%d%% stride=%d", w.n, powers, total, keys(w.byz), w.maxH, w.maxR, lossPct, dupPct, w.vs.stride)

	w.group = make([]int, w.n)
	for i := 0; i < w.n; i++ {
		nd := &node{idx: i, app: &app{node: i}, needStart: true,
			sent: map[voteKey]map[H]bool{}, sentNil: map[voteKey]bool{}, proposals: map[voteKey]V{},
			committed: map[types.Height]V{}, lastLockR: map[types.Height]types.Round{}, lastLockID: map[types.Height]H{},
			recvPrevotes: map[types.Height]map[types.Round]map[H]map[int]bool{}, recvProps: map[types.Height]map[types.Round][]msg{},
		}
		if !w.byz[i] {
			nd.sm = tendermint.New[V, H, A](log.NewNopZapLogger(), addr(i), nd.app, w.vs, 0)
		}
		w.nodes = append(w.nodes, nd)
	}

	if t.Draw("thresholds?", 100) == 99 {
		thresholds(c)
		return
	}
	faultsSeen := false
	for step := 0; step < steps; step++ {
		// enumerate enabled events
		type ev struct {
			kind string
			a, b int
		}
		var evs []ev
		for i, nd := range w.nodes {
			if w.byz[i] {
				continue
			}
			if nd.needStart {
				evs = append(evs, ev{"start", i, 0})
			}
			if nd.started {
				for k := range nd.timeouts {
					evs = append(evs, ev{"timeout", i, k})
				}
			}
		}
		deliverable := 0
		for k, f := range w.net {
			// the driver processes nothing before its first ProcessStart: messages wait in flight
			if w.group[f.m.sender] == w.group[f.to] && w.nodes[f.to].started {
				evs = append(evs, ev{"deliver", k, 0})
				deliverable++
			}
		}
		if len(w.byz) > 0 {
			evs = append(evs, ev{"byz", 0, 0}, ev{"byz", 0, 0})
		}
		evs = append(evs, ev{"partition", 0, 0})
		if len(evs) == 1 && deliverable == 0 {
			// only "partition" possible: heal and stop if nothing else can ever happen
			allSame := true
			for _, g := range w.group {
				if g != 0 {
					allSame = false
				}
			}
			if allSame {
				break
			}
		}
		e := evs[t.Draw("event", len(evs))]
		switch e.kind {
		case "start":
			nd := w.nodes[e.a]
			nd.needStart = false
			nd.started = true
			c.Logf("n%d start height %d", e.a, nd.sm.Height())
			w.handle(nd, nd.sm.ProcessStart(0))
		case "timeout":
			nd := w.nodes[e.a]
			tm := nd.timeouts[e.b]
			nd.timeouts = append(nd.timeouts[:e.b], nd.timeouts[e.b+1:]...)
			c.Logf("n%d timeout %s h%d r%d fires", e.a, tm.Step, tm.Height, tm.Round)
			c.Fault("timeout_fired")
			w.handle(nd, nd.sm.ProcessTimeout(tm))
		case "deliver":
			f := w.net[e.a]
			roll := t.Draw("fate", 100)
			switch {
			case roll < lossPct:
				w.net = append(w.net[:e.a], w.net[e.a+1:]...)
				c.Logf("drop %s -> n%d", f.m, f.to)
				c.Fault("msg_dropped")
				faultsSeen = true
			case roll < lossPct+dupPct:
				c.Logf("deliver (keeping a duplicate) %s -> n%d", f.m, f.to)
				c.Fault("msg_duplicated")
				faultsSeen = true
				w.deliver(f)
			default:
				w.net = append(w.net[:e.a], w.net[e.a+1:]...)
				if e.a != 0 {
					c.Fault("msg_reordered")
				}
				c.Logf("deliver %s -> n%d", f.m, f.to)
				w.deliver(f)
			}
		case "byz":
			w.byzantine()
			faultsSeen = true
		case "partition":
			if t.Draw("partition?", 12) == 0 {
				healed := true
				for i := range w.group {
					w.group[i] = t.Draw("group", 2)
					if w.group[i] != 0 {
						healed = false
					}
				}
				c.Logf("partition groups=%v", w.group)
				if !healed {
					c.Fault("partition")
					faultsSeen = true
				}
			} else if t.Draw("heal?", 4) == 0 {
				for i := range w.group {
					w.group[i] = 0
				}
				c.Logf("heal")
			}
		}
	}
	if w.commits > 0 {
		c.Probe("some_commit")
	}
	done := 0
	for i, nd := range w.nodes {
		if !w.byz[i] && nd.height >= w.maxH {
			done++
		}
	}
	if done == w.n-len(w.byz) {
		c.Probe("all_correct_reached_last_height")
	}
	c.Nontrivial = faultsSeen && w.commits > 0
}

func keys(m map[int]bool) []int {
	var k []int
	for i := range m {
		k = append(k, i)
	}
	sort.Ints(k)
	return k
}

func permutation(c *sim.Ctx, n int) []int {
	p := make([]int, n)
	for i := range p {
		p[i] = i
	}
	for i := n - 1; i > 0; i-- {
		j := c.T.Draw("perm", i+1)
		p[i], p[j] = p[j], p[i]
	}
	return p
}

func (w *world) broadcast(from int, m msg) {
	for to := 0; to < w.n; to++ {
		if to == from || w.byz[to] {
			continue
		}
		w.net = append(w.net, flight{m, to})
	}
}

// record what a node has "received" (also its own messages) for the lock-rule oracle
func (nd *node) noteRecv(m msg) {
	switch m.kind {
	case kPrevote:
		if m.id == nil {
			return
		}
		a := nd.recvPrevotes[m.h]
		if a == nil {
			a = map[types.Round]map[H]map[int]bool{}
			nd.recvPrevotes[m.h] = a
		}
		b := a[m.r]
		if b == nil {
			b = map[H]map[int]bool{}
			a[m.r] = b
		}
		s := b[*m.id]
		if s == nil {
			s = map[int]bool{}
			b[*m.id] = s
		}
		s[m.sender] = true
	case kProposal:
		a := nd.recvProps[m.h]
		if a == nil {
			a = map[types.Round][]msg{}
			nd.recvProps[m.h] = a
		}
		a[m.r] = append(a[m.r], m)
	}
}

func (w *world) deliver(f flight) {
	nd := w.nodes[f.to]
	nd.noteRecv(f.m)
	hdr := types.MessageHeader[A]{Height: f.m.h, Round: f.m.r, Sender: addr(f.m.sender)}
	var acts []actions.Action[V, H, A]
	switch f.m.kind {
	case kProposal:
		v := f.m.val
		acts = nd.sm.ProcessProposal(&types.Proposal[V, H, A]{MessageHeader: hdr, ValidRound: f.m.vr, Value: &v})
	case kPrevote:
		acts = nd.sm.ProcessPrevote(&types.Prevote[H, A]{MessageHeader: hdr, ID: copyID(f.m.id)})
	case kPrecommit:
		acts = nd.sm.ProcessPrecommit(&types.Precommit[H, A]{MessageHeader: hdr, ID: copyID(f.m.id)})
	}
	w.handle(nd, acts)
}

func copyID(id *H) *H {
	if id == nil {
		return nil
	}
	x := *id
	return &x
}

// quorum and fault bounds recomputed from the statement, not from the implementation:
// faulty power is strictly less than a third; a quorum is any power q with 2q-N > maxFaulty.
func (w *world) powerOf(h types.Height, senders map[int]bool) types.VotingPower {
	var p types.VotingPower
	ph := w.vs.powersAt(h)
	for s := range senders {
		p += ph[s]
	}
	return p
}

func (w *world) isQuorum(h types.Height, p types.VotingPower) bool {
	// at least two thirds of the total power of that height
	return 3*p >= 2*w.vs.TotalVotingPower(h)
}

func (w *world) handle(nd *node, acts []actions.Action[V, H, A]) {
	c := w.c
	for _, a := range acts {
		switch a := a.(type) {
		case *actions.WriteWAL[V, H, A]:
		case *actions.ScheduleTimeout:
			nd.timeouts = append(nd.timeouts, types.Timeout(*a))
		case *actions.TriggerSync:
			c.Probe("trigger_sync")
		case *actions.BroadcastProposal[V, H, A]:
			m := msg{kind: kProposal, h: a.Height, r: a.Round, sender: nd.idx, val: *a.Value, vr: a.ValidRound}
			c.Logf("n%d broadcasts %s", nd.idx, m)
			w.checkHeader(nd, a.Height, a.Sender, m)
			if w.vs.Proposer(a.Height, a.Round) != addr(nd.idx) {
				c.Fail("proposal_by_non_proposer", "proposal", "n%d proposed at h%d r%d but proposer is %v", nd.idx, a.Height, a.Round, w.vs.Proposer(a.Height, a.Round))
			}
			k := voteKey{a.Height, a.Round, kProposal}
			if old, ok := nd.proposals[k]; ok && old != *a.Value {
				c.Fail("double_proposal", "proposal", "n%d proposed %x and %x at h%d r%d", nd.idx, uint64(old), uint64(*a.Value), a.Height, a.Round)
			}
			nd.proposals[k] = *a.Value
			if !validValue(*a.Value) {
				c.Fail("correct_proposes_invalid", "proposal", "n%d proposed invalid value %x", nd.idx, uint64(*a.Value))
			}
			nd.noteRecv(m)
			w.broadcast(nd.idx, m)
		case *actions.BroadcastPrevote[H, A]:
			m := msg{kind: kPrevote, h: a.Height, r: a.Round, sender: nd.idx, id: copyID(a.ID)}
			c.Logf("n%d broadcasts %s", nd.idx, m)
			w.checkHeader(nd, a.Height, a.Sender, m)
			w.checkSingleVote(nd, m)
			w.checkLockRule(nd, m)
			nd.noteRecv(m)
			w.broadcast(nd.idx, m)
		case *actions.BroadcastPrecommit[H, A]:
			m := msg{kind: kPrecommit, h: a.Height, r: a.Round, sender: nd.idx, id: copyID(a.ID)}
			c.Logf("n%d broadcasts %s", nd.idx, m)
			w.checkHeader(nd, a.Height, a.Sender, m)
			w.checkSingleVote(nd, m)
			if a.ID != nil {
				// a correct validator precommits a value only after a quorum of prevotes for it (line 36)
				got := w.powerOf(a.Height, nd.recvPrevotes[a.Height][a.Round][*a.ID])
				if !w.isQuorum(a.Height, got) {
					c.Fail("precommit_without_polka", "precommit", "n%d precommitted %x at h%d r%d with prevote power %d of %d", nd.idx, a.ID[0], a.Height, a.Round, got, w.vs.TotalVotingPower(a.Height))
				}
				nd.lastLockR[a.Height] = a.Round
				nd.lastLockID[a.Height] = *a.ID
				c.Probe("locked")
			}
			w.broadcast(nd.idx, m)
		case *actions.Commit[V, H, A]:
			c.Logf("n%d COMMIT h%d r%d value=%x proposer=n%d", nd.idx, a.Height, a.Round, uint64(*a.Value), int(a.Sender[0])-1)
			w.commits++
			if a.Sender != w.vs.Proposer(a.Height, a.Round) {
				c.Fail("commit_not_from_proposer", "validity", "n%d committed a proposal of %v at h%d r%d whose proposer is %v", nd.idx, a.Sender, a.Height, a.Round, w.vs.Proposer(a.Height, a.Round))
			}
			if !validValue(*a.Value) {
				c.Fail("commit_invalid_value", "validity", "n%d committed invalid value %x at h%d", nd.idx, uint64(*a.Value), a.Height)
			}
			if old, ok := nd.committed[a.Height]; ok {
				c.Fail("double_commit", "agreement", "n%d committed twice at h%d: %x then %x", nd.idx, a.Height, uint64(old), uint64(*a.Value))
			}
			nd.committed[a.Height] = *a.Value
			for j, o := range w.nodes {
				if w.byz[j] || j == nd.idx {
					continue
				}
				if ov, ok := o.committed[a.Height]; ok && ov != *a.Value {
					c.Fail("disagreement", "agreement", "height %d: n%d committed %x but n%d committed %x", a.Height, nd.idx, uint64(*a.Value), j, uint64(ov))
				}
			}
			// timeouts of the finished height stay pending: a late firing is a legal event.
			// The driver calls ProcessStart(0) for the next height right after executing a commit,
			// before it looks at any other input; the harness follows that contract.
			nd.height++
			if nd.sm.Height() != nd.height {
				c.Fail("height_not_advanced", "commit", "n%d committed h%d but the machine reports height %d", nd.idx, a.Height, nd.sm.Height())
			}
			if nd.height <= w.maxH {
				c.Logf("n%d start height %d", nd.idx, nd.height)
				w.handle(nd, nd.sm.ProcessStart(0))
			} else {
				nd.started = false // stop driving this node: run bound reached
			}
			return
		default:
			c.Broken("unknown action %T", a)
		}
	}
}

func (w *world) checkHeader(nd *node, h types.Height, sender A, m msg) {
	if sender != addr(nd.idx) {
		w.c.Fail("wrong_sender", "header", "n%d broadcast %s with sender %v", nd.idx, m, sender)
	}
	// the state machine advances its height in the same step in which it commits; a broadcast can only
	// carry the height the machine is at
	if h != nd.height {
		w.c.Fail("wrong_height", "header", "n%d at height %d broadcast %s", nd.idx, nd.height, m)
	}
}

func (w *world) checkSingleVote(nd *node, m msg) {
	k := voteKey{m.h, m.r, m.kind}
	ids := nd.sent[k]
	if ids == nil {
		ids = map[H]bool{}
		nd.sent[k] = ids
	}
	conflict := false
	if m.id == nil {
		conflict = len(ids) > 0
		nd.sentNil[k] = true
	} else {
		conflict = nd.sentNil[k]
		for o := range ids {
			if o != *m.id {
				conflict = true
			}
		}
		ids[*m.id] = true
	}
	if conflict {
		w.c.Fail("equivocation", m.kind.String(), "correct validator n%d sent two different %ss for h%d r%d (latest %s)", nd.idx, m.kind, m.h, m.r, m)
	}
}

// lock rule: a correct validator whose last non-nil precommit at this height was (rl, vl) prevotes
// id(v) != id(vl) only if a proposal for the current round carries validRound vr >= rl (vr < r) and the
// validator has received a quorum of prevotes for id(v) in round vr.
func (w *world) checkLockRule(nd *node, m msg) {
	if m.id == nil {
		return
	}
	rl, locked := nd.lastLockR[m.h]
	if !locked || nd.lastLockID[m.h] == *m.id {
		return
	}
	w.c.Probe("prevote_other_than_lock")
	for _, p := range nd.recvProps[m.h][m.r] {
		if p.val.Hash() != *m.id || p.vr < rl || p.vr >= m.r || addr(p.sender) != w.vs.Proposer(m.h, m.r) {
			continue
		}
		if w.isQuorum(m.h, w.powerOf(m.h, nd.recvPrevotes[m.h][p.vr][*m.id])) {
			w.c.Probe("legal_unlock")
			return
		}
	}
	w.c.Fail("lock_violation", "prevote", "n%d locked on %x at h%d r%d but prevoted %x at r%d without a justifying proposal+polka", nd.idx, nd.lastLockID[m.h][0], m.h, rl, m.id[0], m.r)
}

// One Byzantine action: an arbitrary message from a Byzantine validator to an arbitrary subset.
func (w *world) byzantine() {
	t, c := w.c.T, w.c
	bs := keys(w.byz)
	from := bs[t.Draw("byz.from", len(bs))]
	// base height: around where the correct nodes are
	var hs []types.Height
	for i, nd := range w.nodes {
		if !w.byz[i] {
			hs = append(hs, nd.sm.Height())
		}
	}
	base := hs[t.Draw("byz.base", len(hs))]
	h := base
	switch t.Draw("byz.hoff", 6) {
	case 0:
		if h > 0 {
			h--
		}
	case 1:
		h++
	}
	r := types.Round(t.Draw("byz.round", int(w.maxR)+1))
	// value alphabet: values already proposed at this height by anyone, plus a few fresh ones (valid and invalid)
	alpha := []V{V(0xb000 + uint64(h)), V(0xb100 + uint64(h)) /* invalid: bit 8 set */, V(0xb200 + uint64(h))}
	seen := map[V]bool{}
	for _, nd := range w.nodes {
		for k, v := range nd.proposals {
			if k.h == h && !seen[v] {
				seen[v] = true
				alpha = append(alpha, v)
			}
		}
	}
	sort.Slice(alpha, func(i, j int) bool { return alpha[i] < alpha[j] })
	var m msg
	switch t.Draw("byz.kind", 3) {
	case 0:
		v := alpha[t.Draw("byz.val", len(alpha))]
		vr := types.Round(t.Draw("byz.vr", int(r)+1)) - 1
		m = msg{kind: kProposal, h: h, r: r, sender: from, val: v, vr: vr}
		// a Byzantine validator may also claim to be somebody else's round: sender stays its own
		// address (messages are authenticated), so this is "wrong proposer" whenever it is not its turn.
	case 1:
		m = msg{kind: kPrevote, h: h, r: r, sender: from}
	default:
		m = msg{kind: kPrecommit, h: h, r: r, sender: from}
	}
	if m.kind != kProposal && t.Draw("byz.nil", 4) != 0 {
		id := alpha[t.Draw("byz.val", len(alpha))].Hash()
		m.id = &id
	}
	sentTo := []int{}
	for to := 0; to < w.n; to++ {
		if w.byz[to] {
			continue
		}
		if t.Draw("byz.to", 3) != 0 {
			w.net = append(w.net, flight{m, to})
			sentTo = append(sentTo, to)
		}
	}
	c.Logf("byzantine n%d sends %s to %v", from, m, sentTo)
	c.Fault("byzantine_msg")
	if m.kind == kProposal && !validValue(m.val) {
		c.Fault("byzantine_invalid_value")
	}
}


type unitVals struct {
	n int
	w types.VotingPower
}

func (u unitVals) TotalVotingPower(types.Height) types.VotingPower { return types.VotingPower(u.n) * u.w }
func (u unitVals) ValidatorVotingPower(_ types.Height, a *A) types.VotingPower {
	if int(a[0]) >= 1 && int(a[0]) <= u.n {
		return u.w
	}
	return 0
}
func (u unitVals) Proposer(types.Height, types.Round) A { return addr(0) }

// thresholds enumerates (plain enumeration, a run of its own selected by one tape draw, nothing else drawn) all
// total voting powers 1..200 through the public vote-counter API and checks the quorum / f+1
// thresholds against the statement: faulty power is the largest power strictly below one third; two
// quorums must intersect in more than the faulty power (safety) and the correct validators alone
// must be able to form a quorum (liveness).
func thresholds(c *sim.Ctx) {
	for _, wgt := range []types.VotingPower{1, 3} {
		for n := 1; n <= 200; n++ {
			vals := unitVals{n, wgt}
			total := vals.TotalVotingPower(0)
			vc := votecounter.New[V, H, A](vals, 0)
			id := V(7).Hash()
			qReal, fReal := types.VotingPower(0), types.VotingPower(0)
			foundQ, foundF := false, false
			for k := 1; k <= n; k++ {
				vc.AddPrevote(&types.Prevote[H, A]{MessageHeader: types.MessageHeader[A]{Height: 0, Round: 1, Sender: addr(k - 1)}, ID: &id})
				pw := types.VotingPower(k) * wgt
				if !foundQ && vc.HasQuorumForVote(1, votecounter.Prevote, &id) {
					foundQ, qReal = true, pw
					if !vc.HasQuorumForAny(1, votecounter.Prevote) {
						c.Fail("threshold", "quorum_any", "N=%d: quorum for a value at power %d but not 'any'", total, pw)
					}
				}
				if !foundF && vc.HasNonFaultyFutureMessage(1) {
					foundF, fReal = true, pw-wgt // largest power that is still tolerated as faulty
				}
			}
			c.Evals++
			if !foundQ || !foundF {
				c.Fail("threshold", "never", "N=%d: quorum reached=%v, f+1 reached=%v with all validators voting", total, foundQ, foundF)
			}
			// largest multiple of wgt strictly below a third
			var fWant types.VotingPower
			for x := types.VotingPower(0); 3*x < total; x += wgt {
				fWant = x
			}
			if fReal != fWant {
				c.Fail("threshold", "f", "N=%d (unit %d): f+1 threshold tolerates faulty power %d, statement says %d", total, wgt, fReal, fWant)
			}
			if !(2*qReal > total+fWant) {
				c.Fail("threshold", "quorum_safety", "N=%d: quorum %d: two quorums may intersect in only %d <= f=%d", total, qReal, 2*qReal-total, fWant)
			}
			if qReal > total-fWant {
				c.Fail("threshold", "quorum_liveness", "N=%d: quorum %d exceeds correct power %d", total, qReal, total-fWant)
			}
		}
	}
	c.Probe("threshold_enumeration_1_200")
}
