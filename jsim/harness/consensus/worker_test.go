package consensus

import (
	"testing"

	"jsim/sim"
)

func TestWorker(t *testing.T) {
	sim.WorkerMain(t, map[string]sim.Harness{
		"C12": C12,
	}, map[string]sim.Options{
		"C12": {PanicIsViolation: true},
	})
}
