#!/usr/bin/env python3
"""C13 runs the real walstore on the simulated disk of harness/walworld: same overlay, own output directory."""
import os, runpy, sys
HERE = os.path.dirname(os.path.abspath(__file__))
os.environ["JSIM_OVERLAY_PKG"] = "driverworld"
sys.argv = [os.path.join(os.path.dirname(HERE), "walworld", "overlay.py")] + sys.argv[1:]
runpy.run_path(sys.argv[0], run_name="__main__")
