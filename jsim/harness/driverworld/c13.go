// Package driverworld: C13 - a validator that crashes and recovers does not contradict what it already sent.
//
// One REAL driver.Driver (own goroutine, time.AfterFunc under the synctest fake clock) + the REAL tendermint
// state machine + the REAL walstore on the simulated disk of harness/walworld. Broadcasters, listeners,
// commit listener, application and validator set are simulated. Every effect of the driver (WAL append, WAL
// flush, each broadcast, commit callback, WAL prune) is a seam call that parks until the harness releases
// it, so effects are numbered and the process can be stopped at any of them: killed (the process image is
// gone at once, buffered WAL entries die with it), or stopped in one of the ways in which Driver.Run returns by
// itself and its deferred Close of the store runs - the commit listener reports a failure, the driver's context
// is cancelled (graceful shutdown), a WAL flush meets an I/O error.
package driverworld

import (
	"context"
	"errors"
	"fmt"
	"iter"
	"sort"
	"strings"
	gosync "sync"
	"testing/synctest"
	"time"

	"github.com/NethermindEth/juno/consensus/driver"
	"github.com/NethermindEth/juno/consensus/p2p"
	"github.com/NethermindEth/juno/consensus/tendermint"
	"github.com/NethermindEth/juno/consensus/types"
	"github.com/NethermindEth/juno/consensus/types/wal"
	junosync "github.com/NethermindEth/juno/sync"
	"github.com/NethermindEth/juno/utils/log"

	"jsim/harness/walworld"
	"jsim/sim"
)

type (
	V = walworld.V
	H = walworld.H
	A = walworld.A
)

const nVal = 4 // equal power: f = 1, quorum = 3; validator 0 is the node under test

var self = walworld.Addr(0)

const (
	appStable   = iota // Value() is a function of (height, number of the call within the height): persisted proposals
	appFresh           // a new value on every call, also across restarts (production: block with a new timestamp)
	appVolatile        // like stable, but Valid(v) only knows values announced in THIS process lifetime
	nAppModes
)

var appName = [...]string{"stable", "fresh", "volatile_valid"}

// ---- validator set ------------------------------------------------------------------------------------

type valset struct{ stride, off int }

func (vs *valset) TotalVotingPower(types.Height) types.VotingPower { return nVal }
func (vs *valset) ValidatorVotingPower(_ types.Height, a *A) types.VotingPower {
	if a[0] >= 1 && a[0] <= nVal && a[1] == 0 && a[2] == 0 && a[3] == 0 {
		return 1
	}
	return 0
}
func (vs *valset) Proposer(h types.Height, r types.Round) A {
	return walworld.Addr((int(h)*vs.stride + int(r) + vs.off) % nVal)
}

// ---- application ----------------------------------------------------------------------------------------

// appDurable is what survives a crash: the chain (committed values) and, in fresh mode, the source of
// never-repeating values (a clock).
type appDurable struct {
	committed map[types.Height]V
	last      types.Height
	nonce     uint64
	produced  map[H]bool // ids of every value Value() ever returned (attribution of findings)
	producedV []V
}

type app struct {
	d     *appDurable
	mode  int
	calls map[types.Height]int // volatile
	known map[H]bool           // volatile: values announced to this process (volatile_valid mode)
}

const appMark = 0xA99

func (a *app) Value() V {
	h := a.d.last + 1
	var v V
	switch a.mode {
	case appFresh:
		a.d.nonce++
		v = V{uint64(h)<<16 | 2, a.d.nonce, 1, appMark}
	default:
		idx := a.calls[h]
		a.calls[h]++
		v = V{uint64(h)<<16 | 2, uint64(idx), 0, appMark}
	}
	if !a.d.produced[v.Hash()] {
		a.d.producedV = append(a.d.producedV, v)
	}
	a.d.produced[v.Hash()] = true
	a.known[v.Hash()] = true
	return v
}

// fixed predicate: bit 8 of the first limb marks an invalid value
func fixedValid(v V) bool { return v[0]&0x100 == 0 }

func (a *app) Valid(v V) bool {
	if a.mode == appVolatile && !a.known[v.Hash()] {
		return false
	}
	return fixedValid(v)
}

// ---- inputs ------------------------------------------------------------------------------------------------

const (
	inProposal = iota
	inPrevote
	inPrecommit
	inTimer
)

type input struct {
	kind int
	prop *types.Proposal[V, H, A]
	pv   *types.Prevote[H, A]
	pc   *types.Precommit[H, A]
	// forOwn: the vote is "for the proposal the node under test made in this (height, round)": peers vote
	// for what they received, i.e. the FIRST proposal the node broadcast for that round in the execution
	// at hand. (Only matters when the application can return different values in different executions.)
	forOwn bool
}

func idStr(h *H) string {
	if h == nil {
		return "nil"
	}
	return fmt.Sprintf("%x.%x", h[0], h[1])
}

func valStr(v *V) string {
	if v == nil {
		return "nil"
	}
	return fmt.Sprintf("%x.%x", v[0], v[1])
}

func (in input) String() string {
	switch in.kind {
	case inProposal:
		return fmt.Sprintf("proposal(h%d r%d from%d v=%s vr=%d)", in.prop.Height, in.prop.Round, in.prop.Sender[0]-1, valStr(in.prop.Value), in.prop.ValidRound)
	case inPrevote:
		return fmt.Sprintf("prevote(h%d r%d from%d id=%s)", in.pv.Height, in.pv.Round, in.pv.Sender[0]-1, idStr(in.pv.ID))
	case inPrecommit:
		return fmt.Sprintf("precommit(h%d r%d from%d id=%s)", in.pc.Height, in.pc.Round, in.pc.Sender[0]-1, idStr(in.pc.ID))
	default:
		return "timer"
	}
}

// ---- seams ----------------------------------------------------------------------------------------------------

const (
	efAppend = iota
	efFlush
	efPrune
	efBcastProposal
	efBcastPrevote
	efBcastPrecommit
	efCommit
)

var efName = [...]string{"wal_append", "wal_flush", "wal_prune", "bcast_proposal", "bcast_prevote", "bcast_precommit", "commit"}

// ways in which the validator process stops at a stop point
const (
	stopKill            = iota // the process image is gone at once; nothing runs any more
	stopListenerFailure        // commit effects only: OnCommit returns false (the block could not be persisted)
	stopGracefulCancel         // the driver's context is cancelled while the driver is parked at the effect / idle
	stopWALIOError             // flush effects only: one disk operation of the flush fails
)

var stopName = [...]string{"kill", "listener_failure", "graceful_cancel", "wal_io_error"}

type verdict struct {
	dead    bool // the process is dead: do nothing, fail
	during  bool // wal_flush only: perform the flush, but the process dies inside it
	fail    bool // commit only: the listener reports failure (OnCommit returns false)
	ioFault bool // wal_flush only: the disk has a fault armed; should it not fire, the process is killed after the flush
}

type req struct {
	kind    int
	desc    string
	h       types.Height
	r       types.Round
	id      string // vote id / proposal value / committed value
	idHash  *H
	value   *V
	release chan verdict
}

var errDead = errors.New("jsim: process killed")

type incarnation struct {
	x      *execution
	ctx    context.Context
	cancel context.CancelFunc
	dead   bool
	real   walworld.Store
	app    *app
	sm     tendermint.StateMachine[V, H, A]
	done   chan error
	propCh chan *types.Proposal[V, H, A]
	pvCh   chan *types.Prevote[H, A]
	pcCh   chan *types.Precommit[H, A]
	loaded []string // entries handed to the driver by LoadAllEntries
	loadH  []types.Height

	cancelled bool  // the harness cancelled ctx as the stop request (graceful shutdown)
	closed    bool  // the driver itself closed the store (Run returned in a live process)
	closeErr  error // what that Close returned
	ioNoFire  bool  // the armed disk fault did not fire inside the flush: the process was killed after it instead
}

func (inc *incarnation) park(r *req) verdict {
	if inc.dead {
		return verdict{dead: true}
	}
	r.release = make(chan verdict)
	inc.x.mu.Lock()
	inc.x.parked = r
	inc.x.mu.Unlock()
	return <-r.release
}

// seamStore wraps the real store.
type seamStore struct{ inc *incarnation }

func (s *seamStore) SetWALEntry(e wal.Entry[V, H, A]) error {
	v := s.inc.park(&req{kind: efAppend, desc: walworld.RenderEntry(e), h: e.GetHeight()})
	if v.dead {
		return errDead
	}
	return s.inc.real.SetWALEntry(e)
}

func (s *seamStore) Flush() error {
	v := s.inc.park(&req{kind: efFlush})
	if v.during {
		_ = s.inc.real.Flush()
		return errDead
	}
	if v.dead {
		return errDead
	}
	if v.ioFault {
		if err := s.inc.real.Flush(); err != nil {
			return err
		}
		// nothing had to be written, or the flush did not perform the operation the fault was armed for
		s.inc.ioNoFire = true
		s.inc.dead = true
		return errDead
	}
	return s.inc.real.Flush()
}

func (s *seamStore) DeleteWALEntries(h types.Height) error {
	v := s.inc.park(&req{kind: efPrune, desc: fmt.Sprintf("prune<=%d", h), h: h})
	if v.dead {
		return errDead
	}
	return s.inc.real.DeleteWALEntries(h)
}

func (s *seamStore) LoadAllEntries() iter.Seq2[wal.Entry[V, H, A], error] {
	inner := s.inc.real.LoadAllEntries()
	return func(yield func(wal.Entry[V, H, A], error) bool) {
		for e, err := range inner {
			if err == nil {
				s.inc.loaded = append(s.inc.loaded, walworld.RenderEntry(e))
				s.inc.loadH = append(s.inc.loadH, e.GetHeight())
			}
			if !yield(e, err) {
				return
			}
		}
	}
}

// Close: the driver closes the store when Run returns. A dead process (killed, or ended by the harness when
// the execution is over) closes nothing - the harness closes its store quietly after the crash image has been
// taken. A process that is alive when Run returns (listener failure, graceful shutdown, I/O error) closes the
// real store: whatever that makes durable is on the disk the validator restarts from.
func (s *seamStore) Close() error {
	if s.inc.dead {
		return nil
	}
	s.inc.closed = true
	s.inc.closeErr = s.inc.real.Close()
	return s.inc.closeErr
}

type bcast[M any] struct {
	inc  *incarnation
	make func(M) *req
}

func (b *bcast[M]) Broadcast(_ context.Context, m M) { b.inc.park(b.make(m)) }

type lis[M any] struct{ ch chan M }

func (l *lis[M]) Listen() <-chan M { return l.ch }

type commitSim struct{ inc *incarnation }

func (c *commitSim) OnCommit(_ context.Context, h types.Height, v V) bool {
	vv := v
	verdict := c.inc.park(&req{kind: efCommit, desc: fmt.Sprintf("commit(h%d v=%s)", h, valStr(&vv)), h: h, id: valStr(&vv), value: &vv})
	return !verdict.dead && !verdict.fail
}
func (c *commitSim) Listen() <-chan junosync.CommittedBlock { return nil }

// ---- one execution ------------------------------------------------------------------------------------------

type voteKey struct {
	kind int
	h    types.Height
	r    types.Round
}

type appendRec struct {
	desc  string
	h     types.Height
	input int
	first bool // first append while this input was being processed
}

type config struct {
	vs      *valset
	appMode int
	maxH    types.Height
}

type execution struct {
	c    *sim.Ctx
	cfg  *config
	role string // "ref", "crashed", "twin"

	mu     gosync.Mutex
	parked *req
	inhand *req // taken from parked, not yet released

	disk *walworld.Disk
	dur  *appDurable
	inc  *incarnation

	nEffects   int
	killAt     int // stop before this effect (1-based); 0 = never
	killDuring bool
	killed     bool
	killInput  int
	killEffect string
	effKinds   []int // per effect: its kind and the input that was being processed
	effInputs  []int

	// how the process stops at the stop point (stopKill: as the field names say)
	stopKind     int
	stopAt       string                // effect kind the stop request met, or "idle"
	preEffectN   int                   // effects before the stop request
	runErr       error                 // what Driver.Run returned (stop kinds other than kill)
	mustHoldLog  bool                  // Run returned by itself and no I/O error was reported at the store's Close
	failedCommit map[types.Height]bool // commit callbacks that reported failure / were cancelled while stopping
	dirty        int                   // appends and prunes since the last flush

	curInput   int
	appends    []appendRec
	sentVotes  map[voteKey]*req // broadcasts whose seam call returned (cumulative)
	sentProps  map[voteKey]*req
	preVotes   map[voteKey]*req // snapshot at the kill
	preProps   map[voteKey]*req
	outputs    []string
	phase      int // 0 before the crash, 1 recovery (replay + first start), 2 suffix
	sufOutputs []string
	recOutputs []string
	timers     []time.Time
	tSeq       int
	curRound   types.Round
	knownProp  map[voteKey]*V // proposals seen by the environment (delivered or broadcast by the node)
	ownProp    map[voteKey]*V // first proposal the node broadcast per (height, round), over all incarnations
	checkCause bool           // oracle 2 with a real crash image at every broadcast/commit (reference run)
	effectsLog []string

	preAppendN int          // number of appends before the kill
	recHeight  types.Height // height at which the recovered state machine was constructed
	recLoaded  []string     // what the recovered log handed to the driver
	recLoadH   []types.Height
}

func newExecution(c *sim.Ctx, cfg *config, role string) *execution {
	x := &execution{c: c, cfg: cfg, role: role,
		dur:       &appDurable{committed: map[types.Height]V{}, produced: map[H]bool{}},
		sentVotes: map[voteKey]*req{}, sentProps: map[voteKey]*req{}, knownProp: map[voteKey]*V{}, ownProp: map[voteKey]*V{}, curInput: -1}
	x.disk = walworld.NewDisk(walworld.WALDir)
	return x
}

func (x *execution) timeoutFn(step types.Step, round types.Round) time.Duration {
	d := time.Duration(10+int(step)*3+int(round)*20) * time.Millisecond
	due := time.Now().Add(d)
	// keep due times pairwise distinct
	for clash := true; clash; {
		clash = false
		for _, t := range x.timers {
			if t.Equal(due) {
				due = due.Add(time.Microsecond)
				d += time.Microsecond
				clash = true
			}
		}
	}
	x.timers = append(x.timers, due)
	if round > x.curRound {
		x.curRound = round
	}
	return d
}

func (x *execution) start() {
	c := x.c
	walworld.Install(x.disk)
	real, err := walworld.OpenStore()
	if err != nil {
		c.Fail("recovery_open_error", x.where(), "NewTendermintWALStore failed on the crash image: %v", err)
	}
	ctx, cancel := context.WithCancel(context.Background())
	inc := &incarnation{x: x, ctx: ctx, cancel: cancel, real: real, done: make(chan error, 1),
		propCh: make(chan *types.Proposal[V, H, A]), pvCh: make(chan *types.Prevote[H, A]), pcCh: make(chan *types.Precommit[H, A])}
	inc.app = &app{d: x.dur, mode: x.cfg.appMode, calls: map[types.Height]int{}, known: map[H]bool{}}
	inc.sm = tendermint.New[V, H, A](log.NewNopZapLogger(), self, inc.app, x.cfg.vs, x.dur.last+1)
	x.inc = inc
	x.timers = nil
	x.curRound = 0
	voteReq := func(kind int, v *types.Vote[H, A]) *req {
		return &req{kind: kind, desc: fmt.Sprintf("%s(h%d r%d id=%s)", efName[kind][6:], v.Height, v.Round, idStr(v.ID)), h: v.Height, r: v.Round, id: idStr(v.ID), idHash: v.ID}
	}
	bc := p2p.Broadcasters[V, H, A]{
		ProposalBroadcaster: &bcast[*types.Proposal[V, H, A]]{inc: inc, make: func(m *types.Proposal[V, H, A]) *req {
			return &req{kind: efBcastProposal, desc: fmt.Sprintf("proposal(h%d r%d v=%s vr=%d)", m.Height, m.Round, valStr(m.Value), m.ValidRound), h: m.Height, r: m.Round, id: valStr(m.Value), value: m.Value}
		}},
		PrevoteBroadcaster: &bcast[*types.Prevote[H, A]]{inc: inc, make: func(m *types.Prevote[H, A]) *req {
			return voteReq(efBcastPrevote, (*types.Vote[H, A])(m))
		}},
		PrecommitBroadcaster: &bcast[*types.Precommit[H, A]]{inc: inc, make: func(m *types.Precommit[H, A]) *req {
			return voteReq(efBcastPrecommit, (*types.Vote[H, A])(m))
		}},
	}
	ls := p2p.Listeners[V, H, A]{
		ProposalListener:  &lis[*types.Proposal[V, H, A]]{inc.propCh},
		PrevoteListener:   &lis[*types.Prevote[H, A]]{inc.pvCh},
		PrecommitListener: &lis[*types.Precommit[H, A]]{inc.pcCh},
	}
	drv := driver.New[V, H, A](log.NewNopZapLogger(), &seamStore{inc}, inc.sm, &commitSim{inc}, bc, ls, nil, nil, x.timeoutFn)
	go func() { inc.done <- drv.Run(ctx) }()
}

// where: first part of the violation keys: application class / role of the execution. The execution that is
// stopped is "crashed" when it is killed and carries the name of the stop kind otherwise.
func (x *execution) where() string {
	role := x.role
	if role == "crashed" && x.stopKind != stopKill {
		role = stopName[x.stopKind]
	}
	return fmt.Sprintf("%s/%s", appName[x.cfg.appMode], role)
}

// stop ends the current incarnation cleanly from the harness' point of view (not a crash of the model): the
// context is cancelled and whatever the driver is parked at fails. hung: Run did not return on that (the driver
// then is got out of the way by closing its listener channel); the callers on the normal path report it.
func (x *execution) stop() (hung bool) {
	inc := x.inc
	if inc == nil {
		return false
	}
	inc.dead = true
	inc.cancel()
	x.mu.Lock()
	r := x.parked
	x.parked = nil
	x.mu.Unlock()
	if r == nil {
		r, x.inhand = x.inhand, nil
	}
	if r != nil {
		r.release <- verdict{dead: true}
	}
	synctest.Wait()
	select {
	case <-inc.done:
	default:
		if r = x.takeParked(); r != nil {
			// parked at a further seam of a dead process: forceExit lets it fail
			x.mu.Lock()
			x.parked = r
			x.mu.Unlock()
		} else {
			hung = true
		}
		x.forceExit()
		return hung
	}
	synctest.Wait()
	x.disk.Quiet = true
	_ = inc.real.Close()
	x.inc = nil
	return false
}

// stopJudged: stop on the normal path of a run. Run must return when its context is cancelled.
func (x *execution) stopJudged() {
	if x.stop() {
		x.c.Fail("stop_hang", x.where()+"/end_of_execution", "Driver.Run does not return although its context was cancelled while the driver was idle (end of the %s execution)\neffects: %s", x.role, strings.Join(tail(x.effectsLog, 12), " ; "))
	}
}

func (x *execution) takeParked() *req {
	x.mu.Lock()
	defer x.mu.Unlock()
	r := x.parked
	x.parked = nil
	return r
}

// drain lets the driver run until it is idle (blocked in its select) or the kill point is reached.
func (x *execution) drain() {
	c := x.c
	for steps := 0; ; steps++ {
		synctest.Wait()
		r := x.takeParked()
		if r == nil {
			select {
			case err := <-x.inc.done:
				x.inc.done <- err
				c.Fail("driver_exit", x.where()+"/"+fmt.Sprint(x.phase), "Driver.Run returned although the process was not stopped: %v", err)
			default:
			}
			return
		}
		if steps > 400 {
			c.Broken("driver does not become idle")
		}
		x.inhand = r
		x.nEffects++
		x.effectsLog = append(x.effectsLog, fmt.Sprintf("%d:%s %s", x.nEffects, efName[r.kind], r.desc))
		if !x.killed {
			x.effKinds = append(x.effKinds, r.kind)
			x.effInputs = append(x.effInputs, x.curInput)
		}
		if x.killAt == x.nEffects && !x.killed {
			x.kill(r)
			return
		}
		x.before(r)
		// bookkeeping of the effect happens BEFORE the driver goroutine is released: nothing can kill the
		// process between the two, and the driver must never run concurrently with harness code (the
		// application reads the committed height)
		x.after(r)
		x.inhand = nil
		r.release <- verdict{}
	}
}

// before: checks at the moment an effect is about to become visible.
func (x *execution) before(r *req) {
	c := x.c
	switch r.kind {
	case efBcastProposal, efBcastPrevote, efBcastPrecommit, efCommit:
		if x.checkCause {
			x.checkDurableCause(r)
		}
	}
	switch r.kind {
	case efBcastPrevote, efBcastPrecommit:
		k := voteKey{r.kind, r.h, r.r}
		if x.killed {
			if old, ok := x.preVotes[k]; ok && old.id != r.id {
				cls, key := "vote_conflict", efName[r.kind][6:]
				if x.involvesAppValue(old, r) {
					cls = "rederived_value"
					key = efName[r.kind][6:] + "_conflict"
				} else if x.cfg.appMode == appVolatile {
					cls = "volatile_validity"
					key = efName[r.kind][6:] + "_conflict"
				}
				c.Fail(cls, x.where()+"/"+key, "after recovery the validator broadcast %s but before it stopped it had broadcast %s for the same height and round\nstop (%s) at effect %d (%s) while processing input %d\neffects: %s",
					r.desc, old.desc, stopName[x.stopKind], x.killAt, x.killEffect, x.killInput, strings.Join(tail(x.effectsLog, 30), " ; "))
			}
		}
	case efCommit:
		if r.h != x.dur.last+1 {
			c.Fail("commit_height", x.where(), "commit callback for height %d while the last completed commit is %d", r.h, x.dur.last)
		}
	}
}

func (x *execution) involvesAppValue(a, b *req) bool {
	if x.cfg.appMode != appFresh {
		return false
	}
	for _, r := range []*req{a, b} {
		if r.idHash != nil && x.dur.produced[*r.idHash] {
			return true
		}
		if r.value != nil && x.dur.produced[r.value.Hash()] {
			return true
		}
	}
	return false
}

// after: the effect happened (the seam call returns to the driver).
func (x *execution) after(r *req) {
	out := ""
	switch r.kind {
	case efAppend:
		first := true
		for i := len(x.appends) - 1; i >= 0 && x.appends[i].input == x.curInput; i-- {
			first = false
		}
		x.appends = append(x.appends, appendRec{desc: r.desc, h: r.h, input: x.curInput, first: first})
		x.dirty++
		if strings.HasPrefix(r.desc, "start(h") && r.h != x.dur.last+1 {
			// tendermint/process.go:18 hands the driver a POINTER to the machine's height; when the height is
			// decided inside ProcessStart the record is written with the next height's label
			x.c.Probe("start_record_mislabelled")
		}
	case efPrune:
		x.dirty++
	case efFlush:
		x.dirty = 0
	case efBcastProposal:
		k := voteKey{r.kind, r.h, r.r}
		x.sentProps[k] = r
		if _, ok := x.ownProp[voteKey{0, r.h, r.r}]; !ok {
			x.ownProp[voteKey{0, r.h, r.r}] = r.value
		}
		x.knownProp[voteKey{0, r.h, r.r}] = r.value
		if r.r > x.curRound {
			x.curRound = r.r
		}
		out = r.desc
		x.c.Probe("proposer_role")
	case efBcastPrevote, efBcastPrecommit:
		x.sentVotes[voteKey{r.kind, r.h, r.r}] = r
		if r.r > x.curRound {
			x.curRound = r.r
		}
		out = r.desc
	case efCommit:
		x.dur.committed[r.h] = *r.value
		x.dur.last = r.h
		x.curRound = 0
		out = r.desc
		x.c.Probe("commit")
	}
	if out != "" {
		x.outputs = append(x.outputs, out)
		switch x.phase {
		case 1:
			x.recOutputs = append(x.recOutputs, out)
		case 2:
			x.sufOutputs = append(x.sufOutputs, out)
		}
	}
}

func tail(s []string, n int) []string {
	if len(s) > n {
		return s[len(s)-n:]
	}
	return s
}

// checkDurableCause (oracle 2): at the moment something becomes visible to peers, a crash that keeps only
// synced data must already hold every entry appended so far for the heights still being decided, and the
// start record of the height the message belongs to.
func (x *execution) checkDurableCause(r *req) {
	c := x.c
	img := x.disk.SyncedView(walworld.WALDir)
	walworld.Install(walworld.QuietDisk(walworld.BuildMem(walworld.WALDir, img, false)))
	st, err := walworld.OpenStore()
	var got *walworld.MState
	if err == nil {
		ents, lerr := walworld.LoadEntries(st)
		err = lerr
		got = walworld.Observed(ents)
		_ = st.Close()
	}
	walworld.Install(x.disk)
	c.Evals++
	if err != nil {
		c.Fail("recovery_open_error", x.where()+"/synced_image", "synced-only crash image taken before %s does not open: %v", r.desc, err)
	}
	low := x.dur.last + 1
	want := map[types.Height][]string{}
	for _, a := range x.appends {
		if a.h >= low {
			want[a.h] = append(want[a.h], a.desc)
		}
	}
	hs := make([]types.Height, 0, len(want))
	for h := range want {
		hs = append(hs, h)
	}
	sort.Slice(hs, func(i, j int) bool { return hs[i] < hs[j] })
	for _, h := range hs {
		if strings.Join(got.Ents[h], "|") != strings.Join(want[h], "|") {
			c.Fail("visible_before_durable", x.where()+"/"+efName[r.kind], "%s is about to become visible, but a crash now (synced data only) would not hold the inputs that caused it\nheight %d in the image: %v\nappended so far:   %v%s",
				r.desc, h, got.Ents[h], want[h], "\neffects: "+strings.Join(tail(x.effectsLog, 16), " ; "))
		}
	}
	if r.kind != efCommit {
		// The start of the height is a cause of everything the node sends in it. Recovery starts a height when
		// replay meets a start record that it does not skip, i.e. one labelled with the current height or above
		// (ProcessWAL ignores the label itself); so that is what must be durable - not a particular label.
		// (juno labels the record h+1 when the whole height h is decided inside ProcessStart, see the
		// start_record_mislabelled probe.)
		found := false
		for h, l := range got.Ents {
			if h < r.h {
				continue
			}
			for _, e := range l {
				if strings.HasPrefix(e, "start(h") {
					found = true
				}
			}
		}
		if !found {
			c.Fail("visible_before_durable", x.where()+"/"+efName[r.kind]+"/no_start_record", "%s is about to become visible but the synced-only image has no start record that replay would process at height %d\nimage: %s\neffects: %s", r.desc, r.h, got.Canon(), strings.Join(tail(x.effectsLog, 16), " ; "))
		}
	}
}

// kill: the process stops at effect r (r == nil: while idle). stopKill: it dies before the effect (or inside it,
// for a flush); the other kinds: see windDown. Takes the crash image and restarts the validator from it.
func (x *execution) kill(r *req) {
	c, t := x.c, x.c.T
	inc := x.inc
	x.killed = true
	x.killInput = x.curInput
	x.killEffect = "end of inputs"
	x.stopAt = "idle"
	if r != nil {
		x.killEffect = efName[r.kind] + " " + r.desc
		x.stopAt = efName[r.kind]
	}
	x.preEffectN = len(x.effectsLog)
	if r != nil {
		x.preEffectN--
	}
	// a stop kind that does not exist at this effect is a kill
	if x.stopKind == stopListenerFailure && (r == nil || r.kind != efCommit) || x.stopKind == stopWALIOError && (r == nil || r.kind != efFlush) {
		x.stopKind = stopKill
	}
	x.inhand = nil
	var img walworld.Image
	if x.stopKind != stopKill {
		x.windDown(r)
	}
	if x.stopKind == stopKill && !inc.ioNoFire {
		inc.dead = true
		during := r != nil && x.killDuring && r.kind == efFlush
		if during {
			var caps []walworld.Image
			x.disk.AfterOp = func(kind walworld.OpKind, path string, failed bool) {
				caps = append(caps, x.disk.FullView(walworld.WALDir), x.disk.SyncedView(walworld.WALDir))
			}
			r.release <- verdict{during: true}
			inc.cancel()
			<-inc.done
			synctest.Wait()
			x.disk.AfterOp = nil
			if len(caps) > 0 {
				img = caps[t.Draw("during_image", len(caps))]
				c.Probe("crash_inside_flush")
			}
		} else {
			inc.cancel()
			if r != nil {
				r.release <- verdict{dead: true}
			}
			<-inc.done
			synctest.Wait()
		}
	}
	// what the validator had appended and sent when it stopped (the other stop kinds: including what it still
	// did between the stop request and the return of Run)
	x.preAppendN = len(x.appends)
	x.preVotes, x.preProps = map[voteKey]*req{}, map[voteKey]*req{}
	for k, v := range x.sentVotes {
		x.preVotes[k] = v
	}
	for k, v := range x.sentProps {
		x.preProps[k] = v
	}
	if img == nil {
		S, F := x.disk.SyncedView(walworld.WALDir), x.disk.FullView(walworld.WALDir)
		switch t.Draw("image_variant", 3) {
		case 0:
			img = S
		case 1:
			img = F
		default:
			img = mixImage(t.Draw, x.disk, S, F)
		}
	}
	x.disk.Quiet = true
	_ = inc.real.Close()
	x.inc = nil
	if x.stopKind == stopKill {
		c.Fault("crash")
	} else {
		c.Fault("stop." + stopName[x.stopKind])
	}
	// restart on the image
	x.disk = walworld.NewDiskFromImage(walworld.WALDir, img)
	x.phase = 1
	x.recHeight = x.dur.last + 1
	x.start()
	x.drain()
	x.recLoaded, x.recLoadH = x.inc.loaded, x.inc.loadH
}

// windDown: the stop kinds in which the process is not killed but Driver.Run returns by itself and its deferred
// Close of the store runs. The stop request meets the driver parked at effect r (nil: idle in its select):
//   - listener_failure: the commit callback returns false;
//   - graceful_cancel: the driver's context is cancelled. Seam calls that take the context return: a broadcast
//     under a cancelled context is sent or not (the real broadcasters select between ctx.Done and their queue:
//     tape), the commit callback returns false (the real listener selects between ctx.Done and the hand-over;
//     whether the block was persisted all the same: tape). WAL calls take no context and are carried out;
//   - wal_io_error: one disk operation of the flush fails (kind and short write: tape).
//
// Whatever the driver still does until Run returns is carried out and recorded as done (appends may become
// durable through Close, messages that were sent were sent), but not judged. Judged: Run returns; no panic.
func (x *execution) windDown(r *req) {
	c, t := x.c, x.c.T
	inc := x.inc
	x.failedCommit = map[types.Height]bool{}
	switch x.stopKind {
	case stopGracefulCancel:
		inc.cancelled = true
		inc.cancel()
		if r == nil {
			c.Probe("cancel_while_idle")
		} else {
			c.Probe("cancel_at_" + efName[r.kind])
		}
	case stopWALIOError:
		kinds := []walworld.OpKind{walworld.OpWrite, walworld.OpSync, walworld.OpCreate, walworld.OpDirSync}
		k := kinds[t.Draw("io_fault_op", len(kinds))]
		x.disk.ArmFault(k, 1, t.Draw("io_fault_short", 2) == 1)
	}
	first := true
	for steps := 0; ; steps++ {
		if r == nil {
			synctest.Wait()
			exited := false
			select {
			case err := <-inc.done:
				x.runErr = err
				exited = true
			default:
			}
			if exited {
				break
			}
			if r = x.takeParked(); r == nil {
				// every goroutine of the bubble is durably blocked, the driver is at no seam and Run has not returned
				x.forceExit()
				c.Fail("stop_hang", x.where()+"/"+x.stopAt, "Driver.Run does not return after the stop request (%s, the driver was at: %s): the driver is blocked outside every seam\neffects: %s",
					stopName[x.stopKind], x.killEffect, strings.Join(tail(x.effectsLog, 16), " ; "))
			}
			x.nEffects++
			x.effectsLog = append(x.effectsLog, fmt.Sprintf("%d:%s %s (stopping)", x.nEffects, efName[r.kind], r.desc))
		}
		x.inhand = r // should the run end now, the clean-up finds the effect the driver is parked at
		if steps > 400 {
			c.Broken("driver does not come to an end after the stop request")
		}
		v := verdict{}
		switch r.kind {
		case efAppend, efPrune:
			x.after(r)
		case efFlush:
			if first && x.stopKind == stopWALIOError {
				v.ioFault = true
			} else {
				x.after(r)
			}
		case efBcastProposal, efBcastPrevote, efBcastPrecommit:
			sent := true
			if inc.cancelled {
				sent = t.Draw("cancelled_broadcast_sent", 2) == 1
			}
			if sent {
				x.after(r)
				if inc.cancelled {
					c.Probe("cancelled_broadcast_sent")
				}
			}
		case efCommit:
			switch {
			case first && x.stopKind == stopListenerFailure:
				v.fail = true
				x.failedCommit[r.h] = true
			case inc.cancelled:
				v.fail = true
				if t.Draw("cancelled_commit_persisted", 2) == 1 {
					// the block had been handed over and was persisted although the listener gave up waiting
					x.after(r)
					c.Probe("cancelled_commit_persisted")
				} else {
					x.failedCommit[r.h] = true
				}
			default:
				x.after(r)
			}
		}
		x.inhand = nil
		r.release <- v
		r, first = nil, false
	}
	synctest.Wait()
	x.disk.Disarm()
	if inc.ioNoFire {
		// nothing for the fault to hit: the process was killed right after the flush instead
		x.stopKind = stopKill
		c.Probe("io_fault_had_nothing_to_hit")
		return
	}
	if x.stopKind == stopWALIOError {
		c.Probe("flush_io_error_stops_driver")
	}
	// Run returned in a live process: what the validator appended is on the disk it restarts from, unless the
	// disk had a fault in this stop and the store's Close reported an error as well
	x.mustHoldLog = !(x.stopKind == stopWALIOError && inc.closed && inc.closeErr != nil)
	if !inc.closed {
		c.Probe("run_returned_without_close")
	}
	if inc.closed && inc.closeErr == nil && x.dirty > 0 {
		c.Probe("close_with_buffered_records")
	}
	if len(x.failedCommit) > 0 {
		c.Probe("stop_with_incomplete_commit")
	}
}

// forceExit gets a driver that does not return out of the way (the listener channel is closed: listen returns).
func (x *execution) forceExit() {
	inc := x.inc
	inc.dead = true
	inc.cancel()
	closedCh := false
	for i := 0; i < 200; i++ {
		synctest.Wait()
		select {
		case <-inc.done:
			x.disk.Quiet = true
			_ = inc.real.Close()
			x.inc = nil
			return
		default:
		}
		if r := x.takeParked(); r != nil {
			r.release <- verdict{dead: true}
			continue
		}
		if !closedCh {
			close(inc.propCh)
			closedCh = true
			continue
		}
		break
	}
	x.inc = nil
	x.c.Broken("a driver that ignores its stop request cannot be ended by closing its listener channel either")
}

// mixImage: per directory entry a tape-chosen outcome between durable and written state.
func mixImage(draw func(string, int) int, d *walworld.Disk, S, F walworld.Image) walworld.Image {
	names := map[string]bool{}
	for n := range S {
		names[n] = true
	}
	for n := range F {
		names[n] = true
	}
	sorted := make([]string, 0, len(names))
	for n := range names {
		sorted = append(sorted, n)
	}
	sort.Strings(sorted)
	img := walworld.Image{}
	for _, n := range sorted {
		s, inS := S[n]
		f, inF := F[n]
		var opts [][]byte
		var present []bool
		add := func(p bool, b []byte) { present = append(present, p); opts = append(opts, b) }
		add(inS, s)
		if inF && (!inS || string(s) != string(f)) {
			add(true, f)
			sl := int(d.SyncedLen(d.PathJoin(walworld.WALDir, n)))
			if sl < len(f) {
				add(true, f[:sl+draw("mix_cut", len(f)-sl)])
			}
		} else if !inF {
			add(false, nil)
		}
		i := 0
		if len(opts) > 1 {
			i = draw("mix_entry", len(opts))
		}
		if present[i] {
			img[n] = opts[i]
		}
	}
	return img
}

// feed delivers one input to the driver and lets it run until idle.
func (x *execution) feed(i int, in input) {
	if x.inc == nil {
		return
	}
	x.curInput = i
	switch in.kind {
	case inProposal:
		if in.prop.Value != nil {
			x.inc.app.known[in.prop.Value.Hash()] = true // the p2p layer validated and stored the proposal
		}
		x.knownProp[voteKey{0, in.prop.Height, in.prop.Round}] = in.prop.Value
		p := *in.prop
		x.inc.propCh <- &p
	case inPrevote:
		p := *in.pv
		if v := x.ownProp[voteKey{0, p.Height, p.Round}]; in.forOwn && v != nil {
			id := v.Hash()
			p.ID = &id
		}
		x.inc.pvCh <- &p
	case inPrecommit:
		p := *in.pc
		if v := x.ownProp[voteKey{0, p.Height, p.Round}]; in.forOwn && v != nil {
			id := v.Hash()
			p.ID = &id
		}
		x.inc.pcCh <- &p
	case inTimer:
		if len(x.timers) == 0 {
			return
		}
		sort.Slice(x.timers, func(a, b int) bool { return x.timers[a].Before(x.timers[b]) })
		due := x.timers[0]
		x.timers = x.timers[1:]
		if d := time.Until(due); d > 0 {
			x.c.SimNs += int64(d)
			time.Sleep(d)
		}
	}
	x.drain()
}
