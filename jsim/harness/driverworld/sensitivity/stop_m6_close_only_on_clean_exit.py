# (m6) Run closes (= flushes) the store only when it ends without an error
import os
p=os.environ['WT']+'/consensus/driver/driver.go'; s=open(p).read()
old='''		err = errors.Join(err, d.db.Close())'''
assert old in s
s=s.replace(old,'''		if err == nil {
			err = d.db.Close()
		}''')
open(p,'w').write(s)
