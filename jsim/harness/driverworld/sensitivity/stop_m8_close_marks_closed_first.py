# (m8) walstore Close: the store is marked closed before the pending records are flushed (the flush refuses)
import os
p=os.environ['WT']+'/consensus/walstore/wal_store.go'; s=open(p).read()
old='''	flushErr := s.flushLocked()
	s.closed = true'''
assert old in s
s=s.replace(old,'''	s.closed = true
	flushErr := s.flushLocked()''')
open(p,'w').write(s)
