# (m3) listen(): the select that waits for messages has no ctx.Done case
import os
p=os.environ['WT']+'/consensus/driver/driver.go'; s=open(p).read()
old='''			select {
			case <-ctx.Done():
				return nil
			case tm := <-d.timeoutsCh:'''
assert old in s
s=s.replace(old,'''			select {
			case tm := <-d.timeoutsCh:''')
open(p,'w').write(s)
