# (m2, second form) Run does not close the store at all
import os
p=os.environ['WT']+'/consensus/driver/driver.go'; s=open(p).read()
old='''		err = errors.Join(err, d.db.Close())'''
assert old in s
s=s.replace(old,'''		_ = d.db''')
open(p,'w').write(s)
