# (m1) commit(): the prune record is buffered BEFORE the commit callback (the final flush stays after it)
import os
p=os.environ['WT']+'/consensus/driver/driver.go'; s=open(p).read()
old='''	if err := d.db.DeleteWALEntries(commit.Height); err != nil {
		return fmt.Errorf("deleting WAL messages during commit: %w", err)
	}

	return d.db.Flush()
'''
assert old in s
s=s.replace(old,'''	return d.db.Flush()
''')
old2='''	if !d.commitListener.OnCommit(ctx, commit.Height, *commit.Value) {'''
assert old2 in s
s=s.replace(old2,'''	if err := d.db.DeleteWALEntries(commit.Height); err != nil {
		return fmt.Errorf("deleting WAL messages during commit: %w", err)
	}
'''+old2)
open(p,'w').write(s)
