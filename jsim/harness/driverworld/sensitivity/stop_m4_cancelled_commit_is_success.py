# (m4) commit(): an OnCommit that gave up because the context was cancelled counts as success
import os
p=os.environ['WT']+'/consensus/driver/driver.go'; s=open(p).read()
old='''		if err := ctx.Err(); err != nil {
			return err
		}
		return errors.New("commit listener failed")
	}
'''
assert old in s
s=s.replace(old,'''		if ctx.Err() == nil {
			return errors.New("commit listener failed")
		}
	}
''')
open(p,'w').write(s)
