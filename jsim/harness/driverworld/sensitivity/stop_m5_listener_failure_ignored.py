# (m5) commit(): a failed commit callback is logged and otherwise ignored (prune + flush happen all the same)
import os
p=os.environ['WT']+'/consensus/driver/driver.go'; s=open(p).read()
old='''		if err := ctx.Err(); err != nil {
			return err
		}
		return errors.New("commit listener failed")
	}
'''
assert old in s
s=s.replace(old,'''		if err := ctx.Err(); err != nil {
			return err
		}
		d.logger.Debug("commit listener failed")
	}
''')
open(p,'w').write(s)
