#!/bin/bash
# sensitivity of C13's stop kinds through the registered check (both worlds): one scratch worktree of /repo per
# mutation under /tmp (always removed), `JSIM_REPO=<worktree> ./check C13 quick`, expect exit 1.
# usage: [JSIM_NCPU=6] run_stop_mutations.sh [name prefix, default stop_m]
cd "$(dirname "$0")"
export GOFLAGS=-mod=mod GOPROXY=off
for f in ${1:-stop_m}*.py; do
  name=$(basename "$f" .py); wt=/tmp/jr-c13b-$name
  git -C /repo worktree remove --force $wt 2>/dev/null
  git -C /repo worktree add --detach $wt HEAD >/dev/null 2>&1 || { echo "worktree failed"; exit 2; }
  WT=$wt python3 "$f" || { git -C /repo worktree remove --force $wt; exit 2; }
  echo "=== $name: $(git -C $wt diff --stat | tail -1)"
  ( cd /verif && JSIM_REPO=$wt JSIM_NCPU=${JSIM_NCPU:-6} ./check C13 quick > /dev/shm/c13b-$name.log 2>&1; echo "exit=$?" )
  grep -E "^check C13|MACHINERY" /dev/shm/c13b-$name.log | cut -c1-200
  # violation keys (the replay files of a mutated tree are of no further use: removed)
  for r in $(grep -E "^VIOLATION" /dev/shm/c13b-$name.log | sed 's/.*replay=//'); do
    echo "  KEY $(grep -o '"key": "[^"]*"' $r | head -1 | cut -d'"' -f4) [$(grep -o '"harness": "[^"]*"' $r | cut -d'"' -f4)]"; rm -f $r
  done | sort | uniq -c
  git -C /repo worktree remove --force $wt; git -C /repo worktree prune
done
