# (m7) commit(): the prune is issued by a defer, so it also happens when the commit callback failed
import os
p=os.environ['WT']+'/consensus/driver/driver.go'; s=open(p).read()
old='''	if !d.commitListener.OnCommit(ctx, commit.Height, *commit.Value) {'''
assert old in s
s=s.replace(old,'''	defer func() { _ = d.db.DeleteWALEntries(commit.Height) }()
'''+old)
old='''	if err := d.db.DeleteWALEntries(commit.Height); err != nil {
		return fmt.Errorf("deleting WAL messages during commit: %w", err)
	}

	return d.db.Flush()
'''
assert old in s
s=s.replace(old,'''	if err := d.db.DeleteWALEntries(commit.Height); err != nil {
		return fmt.Errorf("deleting WAL messages during commit: %w", err)
	}

	return d.db.Flush()
''')
open(p,'w').write(s)
