# (m2) Run's deferred Close does not flush: the store is closed without writing the pending records
import os
p=os.environ['WT']+'/consensus/walstore/wal_store.go'; s=open(p).read()
old='''	flushErr := s.flushLocked()
	s.closed = true'''
assert old in s
s=s.replace(old,'''	var flushErr error
	clear(s.pendingRecords)
	s.pendingRecords = s.pendingRecords[:0]
	s.closed = true''')
open(p,'w').write(s)
