package driverworld

import (
	"fmt"
	"os"
	"strconv"
	"testing"
	"testing/synctest"
	"time"

	"jsim/sim"
	"jsim/tape"
)

// TestDbg: developer aid (JSIM_DBG=n runs).
func TestDbg(t *testing.T) {
	if os.Getenv("JSIM_DBG") == "" {
		t.Skip()
	}
	n, _ := strconv.Atoi(os.Getenv("JSIM_DBG"))
	synctest.Test(t, func(t *testing.T) {
		for i := 0; i < n; i++ {
			base, _ := strconv.ParseUint(os.Getenv("JSIM_DBG_BASE"), 10, 64)
			seed := tape.Mix(11+base, uint64(i))
			if sd := os.Getenv("JSIM_DBG_SEED"); sd != "" {
				seed, _ = strconv.ParseUint(sd, 10, 64)
			}
			r := sim.Exec(C13, "C13", "quick", seed, sim.Options{PanicIsViolation: true})
			fmt.Printf("seed %d: evals=%d events=%d tape=%d viol=%v mach=%.300q\n   %s\n", i, r.Evals, len(r.Events), r.TapeLen, r.Violation != nil, r.Machinery, r.Events[0])
			if os.Getenv("JSIM_DBG_DET") != "" {
				r2 := sim.ExecTape(C13, "C13", "quick", seed, r.Tape, sim.Options{PanicIsViolation: true})
				if r2.TraceHash != r.TraceHash {
					fmt.Printf("   NONDETERMINISTIC seed %d\n", i)
					for j := 0; j < len(r.Events) || j < len(r2.Events); j++ {
						a, b := "", ""
						if j < len(r.Events) {
							a = r.Events[j]
						}
						if j < len(r2.Events) {
							b = r2.Events[j]
						}
						if a != b {
							fmt.Printf("   first diff at event %d:\n     A: %.1500s\n     B: %.1500s\n", j, a, b)
							break
						}
					}
				}
			}
			if r.Violation != nil {
				fmt.Printf("   KEY %s\n   %s\n", r.Violation.Key, r.Violation.Detail)
			}
			if os.Getenv("JSIM_DBG_V") != "" {
				for _, e := range r.Events {
					fmt.Println("      ", e)
				}
			}
		}
	})
	_ = time.Now
}
