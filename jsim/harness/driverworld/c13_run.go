package driverworld

import (
	"fmt"
	"sort"
	"strings"
	"testing/synctest"

	"github.com/NethermindEth/juno/consensus/types"

	"jsim/harness/walworld"
	"jsim/sim"
)

// ---- reactive input generation (reference run only; crashed runs and twins re-feed the recorded inputs) ----

func (x *execution) genInput(prev []input) input {
	t := x.c.T
	h := x.dur.last + 1
	r := x.curRound
	anyPeer := func() A { return walworld.Addr(1 + t.Draw("peer", nVal-1)) }
	idFor := func(hh types.Height, rr types.Round) (*H, bool) {
		switch t.Draw("vote_id", 8) {
		case 6:
			return nil, false
		case 7:
			o := H{0xbad, uint64(t.Draw("other_id", 3)), 0, 0}
			return &o, false
		}
		if v, ok := x.knownProp[voteKey{0, hh, rr}]; ok && v != nil {
			id := v.Hash()
			return &id, x.ownProp[voteKey{0, hh, rr}] != nil
		}
		return nil, false
	}
	vote := func(kind int, hh types.Height, rr types.Round, from A) input {
		hdr := types.MessageHeader[A]{Height: hh, Round: rr, Sender: from}
		id, own := idFor(hh, rr)
		if kind == inPrevote {
			return input{kind: inPrevote, pv: &types.Prevote[H, A]{MessageHeader: hdr, ID: id}, forOwn: own}
		}
		return input{kind: inPrecommit, pc: &types.Precommit[H, A]{MessageHeader: hdr, ID: id}, forOwn: own}
	}
	// a proposal can only come from the proposer of its round (messages are authenticated); when that is
	// the node under test, or the environment already delivered one, a prevote is sent instead
	proposal := func(hh types.Height, rr types.Round) input {
		_, known := x.knownProp[voteKey{0, hh, rr}]
		if x.cfg.vs.Proposer(hh, rr) == self || known {
			return vote(inPrevote, hh, rr, anyPeer())
		}
		v := V{uint64(hh)<<16 | 4, uint64(rr), uint64(t.Draw("peer_value", 3)), 0}
		if t.Draw("invalid_value", 8) == 7 {
			v[0] |= 0x100
		}
		vr := types.Round(-1)
		if rr > 0 && t.Draw("valid_round?", 4) == 3 {
			vr = types.Round(t.Draw("valid_round", int(rr)))
		}
		return input{kind: inProposal, prop: &types.Proposal[V, H, A]{
			MessageHeader: types.MessageHeader[A]{Height: hh, Round: rr, Sender: x.cfg.vs.Proposer(hh, rr)}, ValidRound: vr, Value: &v}}
	}
	sel := t.Draw("input", 16)
	switch {
	case sel <= 2:
		return proposal(h, r)
	case sel <= 6:
		return vote(inPrevote, h, r, anyPeer())
	case sel <= 10:
		return vote(inPrecommit, h, r, anyPeer())
	case sel <= 12:
		if len(x.timers) > 0 {
			return input{kind: inTimer}
		}
		return vote(inPrevote, h, r, anyPeer())
	case sel == 13: // a later round of this height (f+1 of them make the node skip rounds)
		switch t.Draw("next_round_kind", 3) {
		case 0:
			return proposal(h, r+1)
		case 1:
			return vote(inPrevote, h, r+1, anyPeer())
		default:
			return vote(inPrecommit, h, r+1, anyPeer())
		}
	case sel == 14: // the next height, buffered by the node. Precommits for a future height come from
		// validators 1 and 2 only, so they never form a quorum (TriggerSync needs the block fetcher).
		switch t.Draw("next_height_kind", 3) {
		case 0:
			return proposal(h+1, 0)
		case 1:
			return vote(inPrevote, h+1, 0, anyPeer())
		default:
			return vote(inPrecommit, h+1, 0, walworld.Addr(1+t.Draw("peer12", 2)))
		}
	default: // duplicate of an earlier message
		if len(prev) > 0 {
			d := prev[t.Draw("duplicate_of", len(prev))]
			if d.kind != inTimer {
				return d
			}
		}
		return vote(inPrevote, h, r, anyPeer())
	}
}

// deliverable: a precommit of a height above the node's current one is only delivered when it comes from
// validators 1 or 2 (never a future-height quorum; the block fetcher and message extractor are nil).
func (x *execution) deliverable(in input) bool {
	if in.kind == inPrecommit && in.pc.Height > x.dur.last+1 && in.pc.Sender[0] > 3 {
		return false
	}
	return true
}

func perHeight(descs []string, hs []types.Height, low types.Height) string {
	m := map[types.Height][]string{}
	for i, d := range descs {
		if hs[i] >= low {
			m[hs[i]] = append(m[hs[i]], d)
		}
	}
	keys := make([]types.Height, 0, len(m))
	for h := range m {
		keys = append(keys, h)
	}
	sort.Slice(keys, func(i, j int) bool { return keys[i] < keys[j] })
	var sb strings.Builder
	for _, h := range keys {
		fmt.Fprintf(&sb, "h%d:[%s] ", h, strings.Join(m[h], " | "))
	}
	return sb.String()
}

type twinKey struct{ p, k int }

// drawStop chooses how the process stops at a stop point whose effect has kind ek (-1: after the last effect).
// idle (graceful_cancel only): the context is cancelled while the driver is idle in its select, before the input
// that leads to the effect is delivered, instead of while it is parked at the effect.
func drawStop(c *sim.Ctx, ek int) (kind int, idle bool) {
	const (
		k = stopKill
		l = stopListenerFailure
		g = stopGracefulCancel
		w = stopWALIOError
		i = -1 // graceful_cancel while idle
	)
	menu := [8]int{k, k, k, k, g, g, g, i}
	switch ek {
	case efCommit:
		menu = [8]int{k, k, l, l, l, g, g, i}
	case efFlush:
		menu = [8]int{k, k, k, g, g, i, w, w}
	}
	d := menu[c.T.Draw("stop_kind", 8)]
	if c.Knobs["stop_kinds"] == "0" {
		return stopKill, false // kills only (props knob); the draw is still consumed
	}
	if d == i {
		return stopGracefulCancel, true
	}
	return d, false
}

// C13 is one run: a reference execution without crash, then one crashed execution (and its twin) per
// kill point.
func C13(c *sim.Ctx) {
	t := c.T
	cfg := &config{
		vs:      &valset{stride: 1 + t.Draw("stride", 2), off: t.Draw("proposer_offset", nVal)},
		appMode: []int{appStable, appStable, appStable, appFresh, appFresh, appVolatile}[t.Draw("app_mode", 6)],
		maxH:    3,
	}
	if cfg.appMode == appVolatile && c.Knobs["volatile_class"] == "0" {
		cfg.appMode = appStable // class switched off by props knob; the draw is still consumed
	}
	nIn := 6 + t.Draw("inputs", 26)
	c.Logf("config app=%s stride=%d offset=%d inputs<=%d", appName[cfg.appMode], cfg.vs.stride, cfg.vs.off, nIn)
	defer walworld.Install(nil)

	// ---- reference execution: generates the inputs, counts the effects, checks oracle 2 on real images
	ref := newExecution(c, cfg, "ref")
	ref.checkCause = true
	var live []*execution
	defer func() {
		for _, x := range live {
			x.stop()
		}
		synctest.Wait()
	}()
	live = append(live, ref)
	ref.start()
	ref.drain()
	c.Logf("start: %s", strings.Join(ref.effectsLog, " ; "))
	var inputs []input
	for i := 0; i < nIn && ref.dur.last < cfg.maxH; i++ {
		in := ref.genInput(inputs)
		inputs = append(inputs, in)
		e0 := len(ref.effectsLog)
		ref.feed(i, in)
		c.Logf("in%d %s -> %s", i, in, strings.Join(ref.effectsLog[e0:], " ; "))
	}
	E := ref.nEffects
	refEffects, refKinds, refInputs := ref.effectsLog, ref.effKinds, ref.effInputs
	if ref.dur.last > 0 {
		c.Probe("height_committed")
	}
	if ref.curRound > 0 || ref.dur.last > 0 && len(ref.outputs) > 0 {
		for _, o := range ref.outputs {
			if strings.Contains(o, " r1 ") || strings.Contains(o, " r2 ") {
				c.Probe("round_above_zero")
				break
			}
		}
	}
	ref.stopJudged()
	live = live[:0]

	// ---- kill points: before every effect and after the last one
	points := make([]int, 0, E+1)
	for e := 1; e <= E+1; e++ {
		points = append(points, e)
	}
	maxKills := 40
	if c.Tier == "thorough" {
		maxKills = 120
	}
	if len(points) > maxKills {
		stride := (len(points) + maxKills - 1) / maxKills
		phase := t.Draw("kill_phase", stride)
		var sel []int
		for i := phase; i < len(points); i += stride {
			sel = append(sel, points[i])
		}
		points = sel
		c.Probe("kill_points_sampled")
	}
	twins := map[twinKey]*execution{}
	nontrivial := false
	for _, e := range points {
		cr := newExecution(c, cfg, "crashed")
		cr.killAt = e
		cr.killDuring = t.Draw("kill_inside_flush", 2) == 1
		ek, stopBefore := -1, -1
		if e <= E {
			ek = refKinds[e-1]
		}
		var idle bool
		cr.stopKind, idle = drawStop(c, ek)
		if idle && e <= E && refInputs[e-1] >= 0 {
			stopBefore = refInputs[e-1] // cancel while idle, before this input arrives
		}
		live = append(live, cr)
		cr.start()
		cr.drain()
		for i, in := range inputs {
			if cr.killed {
				break
			}
			if i == stopBefore {
				cr.curInput = i - 1
				cr.kill(nil)
				break
			}
			cr.feed(i, in)
		}
		if !cr.killed {
			cr.curInput = len(inputs) - 1
			cr.nEffects++ // the kill point after the last effect
			cr.kill(nil)
		}
		// same history up to the kill?
		for i := 0; i < e-1 && i < cr.preEffectN && i < len(cr.effectsLog) && i < len(refEffects); i++ {
			if cr.effectsLog[i] != refEffects[i] {
				c.Broken("crashed execution diverges from the reference before the kill: %q vs %q", cr.effectsLog[i], refEffects[i])
			}
		}
		k := cr.killInput
		// ---- oracle 3: resumes at the height after the last completed commit
		// active = replay met, or the node appended, a start record it does not skip (label >= current height)
		resumed := false
		for i, l := range cr.recLoaded {
			if strings.HasPrefix(l, "start(h") && cr.recLoadH[i] >= cr.dur.last+1 {
				resumed = true
			}
		}
		for _, a := range cr.appends[cr.preAppendN:] {
			if strings.HasPrefix(a.desc, "start(h") && a.h >= cr.dur.last+1 {
				resumed = true
			}
		}
		if !resumed {
			c.Fail("resume_height", cr.where(), "after recovery the validator is not active at height %d (last completed commit %d): loaded=%v appended=%v", cr.dur.last+1, cr.dur.last, cr.recLoaded, cr.appends[cr.preAppendN:])
		}
		// ---- which inputs are durable? (the recovered log must be a prefix of what was appended)
		pre := cr.appends[:cr.preAppendN]
		var idxs []int
		for i, a := range pre {
			if a.h >= cr.recHeight {
				idxs = append(idxs, i)
			}
		}
		loadedCanon := perHeight(cr.recLoaded, cr.recLoadH, cr.recHeight)
		n := -1
		for cand := len(idxs); cand >= 0; cand-- {
			var ds []string
			var hs []types.Height
			for _, i := range idxs[:cand] {
				ds = append(ds, pre[i].desc)
				hs = append(hs, pre[i].h)
			}
			if perHeight(ds, hs, cr.recHeight) == loadedCanon {
				n = cand
				break
			}
		}
		if n < 0 {
			var ds []string
			for _, i := range idxs {
				ds = append(ds, pre[i].desc)
			}
			c.Fail("wal_content", cr.where(), "the recovered log (heights >= %d) is not a prefix of what the validator had appended\nloaded:   %s\nappended: %v\nstop (%s) at effect %d (%s)", cr.recHeight, loadedCanon, ds, stopName[cr.stopKind], e, cr.killEffect)
		}
		// ---- a stop in which Run returned by itself (its deferred Close of the store ran; Close flushes what is
		// buffered): the log the validator restarts from holds everything it had appended for the heights whose
		// commit did not complete. In particular the entries of a height whose commit callback failed or was cancelled are
		// intact (no prune record for it has become durable): the validator resumes AT that height from them.
		if cr.stopKind != stopKill && cr.mustHoldLog && n < len(idxs) {
			a := pre[idxs[n]]
			sub := "entries_of_uncommitted_height_gone"
			if !cr.failedCommit[a.h] {
				// An entry that was only buffered (its effects not yet visible to anybody) and is lost by a
				// Close that does not flush is NOT a violation of the statement: it speaks about durably
				// recorded inputs and about inputs whose effects were made visible. Only counted.
				c.Probe("buffered_entry_lost_at_stop_not_judged")
				goto notJudged
			}
			var ds []string
			for _, i := range idxs {
				ds = append(ds, pre[i].desc)
			}
			c.Fail("stop_lost_log", cr.where()+"/"+sub, "Driver.Run returned (%v) in a live process, but the log the validator restarts from (heights >= %d; last completed commit %d) lacks %q, which it had appended\nloaded:   %s\nappended: %v\nstop (%s) at effect %d (%s)\neffects: %s",
				cr.runErr, cr.recHeight, cr.recHeight-1, a.desc, loadedCanon, ds, stopName[cr.stopKind], e, cr.killEffect, strings.Join(tail(cr.effectsLog, 24), " ; "))
		}
	notJudged:
		P := k + 1
		if n < len(idxs) {
			a := pre[idxs[n]]
			if a.first {
				P = a.input
			} else {
				P = a.input + 1
			}
			c.Probe("inputs_lost_by_crash")
		} else {
			appended := false
			for _, a := range pre {
				if a.input == k {
					appended = true
				}
			}
			if !appended {
				P = k
			}
		}
		if P < 0 {
			P = 0
		}
		if P > len(inputs) {
			P = len(inputs)
		}
		if len(cr.recOutputs) > 0 {
			c.Probe("replay_rebroadcast")
		}
		if cr.recHeight > 1 {
			c.Probe("recovered_above_first_height")
		}
		// ---- suffix: the remaining MESSAGES (no clock advance, so that the twin can receive exactly the same)
		var suffix []input
		for i := k + 1; i < len(inputs); i++ {
			if i >= 0 && inputs[i].kind != inTimer {
				suffix = append(suffix, inputs[i])
			}
		}
		cr.phase = 2
		for i, in := range suffix {
			if cr.deliverable(in) {
				cr.feed(1000+i, in)
			}
		}
		cr.stopJudged()
		live = live[:0]
		// ---- oracle 4: equals the uncrashed twin that processed exactly the durable inputs
		tk := twinKey{P, k}
		tw := twins[tk]
		if tw == nil {
			tw = newExecution(c, cfg, "twin")
			live = append(live, tw)
			tw.start()
			tw.drain()
			for i := 0; i < P; i++ {
				tw.feed(i, inputs[i])
			}
			tw.phase = 2
			for i, in := range suffix {
				if tw.deliverable(in) {
					tw.feed(1000+i, in)
				}
			}
			tw.stopJudged()
			live = live[:0]
			twins[tk] = tw
			c.Evals++
		}
		c.Evals++
		diff := ""
		// a fresh application legitimately returns different values in different executions: compare modulo
		// the identity of the node's own values
		abs := func(x *execution, s string) string {
			if cfg.appMode == appFresh {
				return abstractOwn(s, x.dur)
			}
			return s
		}
		for i := 0; i < len(cr.sufOutputs) || i < len(tw.sufOutputs); i++ {
			a, b := "<nothing>", "<nothing>"
			if i < len(cr.sufOutputs) {
				a = cr.sufOutputs[i]
			}
			if i < len(tw.sufOutputs) {
				b = tw.sufOutputs[i]
			}
			if abs(cr, a) != abs(tw, b) {
				diff = fmt.Sprintf("output %d after recovery: crashed validator %s, uncrashed twin %s", i, a, b)
				break
			}
		}
		if diff == "" {
			for h := types.Height(1); h <= cfg.maxH+1; h++ {
				a, aok := cr.dur.committed[h]
				b, bok := tw.dur.committed[h]
				if aok != bok || abs(cr, valStr(&a)) != abs(tw, valStr(&b)) {
					diff = fmt.Sprintf("height %d: crashed validator committed %v (%s), twin %v (%s)", h, aok, valStr(&a), bok, valStr(&b))
					break
				}
			}
		}
		if diff != "" {
			cls := "diverges_from_twin"
			switch cfg.appMode {
			case appFresh:
				// with a deterministic application the same kill point has no divergence (stable class); in
				// this class every divergence goes back to a value that was derived again after the restart
				cls = "rederived_value"
			case appVolatile:
				cls = "volatile_validity"
			}
			c.Fail(cls, cr.where()+"/diverges_from_twin", "%s\nstop (%s) at effect %d (%s) while processing input %d; durable inputs: first %d; recovery outputs: %v\ncrashed suffix outputs: %v\ntwin suffix outputs:    %v",
				diff, stopName[cr.stopKind], e, cr.killEffect, k, P, cr.recOutputs, cr.sufOutputs, tw.sufOutputs)
		}
		c.Logf("%s@%d (%s) in%d -> recovered h%d loaded=%d durable_inputs=%d replay_out=%d suffix_out=%d", stopName[cr.stopKind], e, cr.killEffect, k, cr.recHeight, len(cr.recLoaded), P, len(cr.recOutputs), len(cr.sufOutputs))
		if cr.stopKind != stopKill && len(cr.failedCommit) > 0 && cr.dur.last >= cr.recHeight {
			c.Probe("incomplete_commit_completed_after_restart")
		}
		if len(cr.recLoaded) > 0 {
			nontrivial = true
		}
	}
	c.Nontrivial = nontrivial && E >= 4
	c.Sample = map[string]any{"app": appName[cfg.appMode], "inputs": len(inputs), "effects": E, "kill_points": len(points), "committed_heights": int(ref.dur.last)}
}

// abstractOwn replaces the node's own values and their ids by a token.
func abstractOwn(s string, d *appDurable) string {
	for _, v := range d.producedV {
		vv := v
		id := vv.Hash()
		s = strings.ReplaceAll(s, "v="+valStr(&vv), "v=OWN")
		s = strings.ReplaceAll(s, "id="+idStr(&id), "id=OWN")
		if s == valStr(&vv) {
			s = "OWN"
		}
	}
	return s
}

func involvesProduced(diff string, ds ...*appDurable) bool {
	for _, d := range ds {
		for h := range d.produced {
			hh := h
			if strings.Contains(diff, idStr(&hh)) {
				return true
			}
		}
		for _, v := range d.producedV {
			vv := v
			if strings.Contains(diff, valStr(&vv)) {
				return true
			}
		}
	}
	return false
}

var _ = sim.Options{}
