package drivernet

import (
	"fmt"
	"io"
	"os"
	"strings"
	gosync "sync"

	"github.com/NethermindEth/juno/jsimos"
	"github.com/cockroachdb/pebble/v2/vfs"

	"jsim/harness/walworld"
)

// mountFS gives every validator its OWN simulated crashable disk although walstore reaches the file system
// through two process globals (vfs.Default and the jsimos shim): a path below a mount point is served by the
// disk mounted there. A path outside every mount point is a harness error.
type mountFS struct {
	mu     gosync.Mutex
	mounts map[string]*walworld.Disk // mount point (no trailing slash) -> disk
	any    vfs.FS                    // for the pure path functions
}

func newMountFS() *mountFS {
	return &mountFS{mounts: map[string]*walworld.Disk{}, any: vfs.NewMem()}
}

func (m *mountFS) mount(point string, d *walworld.Disk) {
	m.mu.Lock()
	defer m.mu.Unlock()
	m.mounts[point] = d
}

func (m *mountFS) unmount(point string) {
	m.mu.Lock()
	defer m.mu.Unlock()
	delete(m.mounts, point)
}

func (m *mountFS) at(name string) *walworld.Disk {
	m.mu.Lock()
	defer m.mu.Unlock()
	// mount points are never nested, so at most one matches: the map order cannot matter
	for p, d := range m.mounts {
		if strings.HasPrefix(name, p) && (len(name) == len(p) || name[len(p)] == '/') {
			return d
		}
	}
	panic(fmt.Sprintf("jsim drivernet: path %q is on no simulated disk", name))
}

func (m *mountFS) Create(name string, cat vfs.DiskWriteCategory) (vfs.File, error) {
	return m.at(name).Create(name, cat)
}
func (m *mountFS) Link(oldname, newname string) error { return m.at(oldname).Link(oldname, newname) }
func (m *mountFS) Open(name string, opts ...vfs.OpenOption) (vfs.File, error) {
	return m.at(name).Open(name, opts...)
}
func (m *mountFS) OpenReadWrite(name string, cat vfs.DiskWriteCategory, opts ...vfs.OpenOption) (vfs.File, error) {
	return m.at(name).OpenReadWrite(name, cat, opts...)
}
func (m *mountFS) OpenDir(name string) (vfs.File, error) { return m.at(name).OpenDir(name) }
func (m *mountFS) Remove(name string) error              { return m.at(name).Remove(name) }
func (m *mountFS) RemoveAll(name string) error           { return m.at(name).RemoveAll(name) }
func (m *mountFS) Rename(oldname, newname string) error {
	if m.at(oldname) != m.at(newname) {
		panic("jsim drivernet: rename across simulated disks")
	}
	return m.at(oldname).Rename(oldname, newname)
}
func (m *mountFS) ReuseForWrite(oldname, newname string, cat vfs.DiskWriteCategory) (vfs.File, error) {
	return m.at(oldname).ReuseForWrite(oldname, newname, cat)
}
func (m *mountFS) MkdirAll(dir string, perm os.FileMode) error { return m.at(dir).MkdirAll(dir, perm) }
func (m *mountFS) Lock(name string) (io.Closer, error)         { return m.at(name).Lock(name) }
func (m *mountFS) List(dir string) ([]string, error)           { return m.at(dir).List(dir) }
func (m *mountFS) Stat(name string) (vfs.FileInfo, error)      { return m.at(name).Stat(name) }
func (m *mountFS) PathBase(path string) string                 { return m.any.PathBase(path) }
func (m *mountFS) PathJoin(elem ...string) string              { return m.any.PathJoin(elem...) }
func (m *mountFS) PathDir(path string) string                  { return m.any.PathDir(path) }
func (m *mountFS) GetDiskUsage(path string) (vfs.DiskUsage, error) {
	return m.at(path).GetDiskUsage(path)
}
func (m *mountFS) Unwrap() vfs.FS { return nil }

// TruncateFile: the shim's ftruncate, one atomic operation of the owning disk.
func (m *mountFS) TruncateFile(name string, size int64) error {
	return m.at(name).TruncateFile(name, size)
}

var (
	_ vfs.FS           = (*mountFS)(nil)
	_ jsimos.Truncater = (*mountFS)(nil)
)
