package drivernet

import (
	"fmt"
	"os"
	"sort"
	"strconv"
	"testing"
	"testing/synctest"
	"time"

	"jsim/sim"
	"jsim/tape"
)

// TestDbg: developer aid (JSIM_DBG=n runs; JSIM_DBG_V=1 prints the events; JSIM_DBG_DET=1 replays every run from
// its own tape; JSIM_DBG_SEED / JSIM_DBG_BASE select seeds; JSIM_DBG_Q=1 prints only the summary and violations).
func TestDbg(t *testing.T) {
	if os.Getenv("JSIM_DBG") == "" {
		t.Skip()
	}
	n, _ := strconv.Atoi(os.Getenv("JSIM_DBG"))
	quiet := os.Getenv("JSIM_DBG_Q") != ""
	synctest.Test(t, func(t *testing.T) {
		probes, faults, keys := map[string]int{}, map[string]int{}, map[string]int{}
		nontrivial, inconcl, evals := 0, 0, 0
		var simNs int64
		t0 := time.Now()
		_ = t0
		for i := 0; i < n; i++ {
			base, _ := strconv.ParseUint(os.Getenv("JSIM_DBG_BASE"), 10, 64)
			seed := tape.Mix(11+base, uint64(i))
			if sd := os.Getenv("JSIM_DBG_SEED"); sd != "" {
				seed, _ = strconv.ParseUint(sd, 10, 64)
			}
			r := sim.Exec(C13, "C13", "quick", seed, sim.Options{PanicIsViolation: true})
			for k, v := range r.Probes {
				probes[k] += v
			}
			for k, v := range r.Faults {
				faults[k] += v
			}
			if r.Nontrivial {
				nontrivial++
			}
			inconcl += r.Inconcl
			evals += r.Evals
			simNs += r.SimNs
			if !quiet {
				fmt.Printf("seed %d: evals=%d events=%d tape=%d viol=%v mach=%.300q\n   %s\n   %v\n", seed, r.Evals, len(r.Events), r.TapeLen, r.Violation != nil, r.Machinery, r.Events[0], r.Sample)
			}
			if r.Machinery != "" {
				fmt.Printf("MACHINERY seed %d: %.3000s\n", seed, r.Machinery)
			}
			if os.Getenv("JSIM_DBG_DET") != "" {
				r2 := sim.ExecTape(C13, "C13", "quick", seed, r.Tape, sim.Options{PanicIsViolation: true})
				if r2.TraceHash != r.TraceHash {
					fmt.Printf("   NONDETERMINISTIC seed %d\n", seed)
					for j := 0; j < len(r.Events) || j < len(r2.Events); j++ {
						a, b := "", ""
						if j < len(r.Events) {
							a = r.Events[j]
						}
						if j < len(r2.Events) {
							b = r2.Events[j]
						}
						if a != b {
							fmt.Printf("   first diff at event %d:\n     A: %.1500s\n     B: %.1500s\n", j, a, b)
							break
						}
					}
				}
			}
			if r.Violation != nil {
				keys[r.Violation.Key]++
				if keys[r.Violation.Key] <= 2 {
					fmt.Printf("VIOLATION seed %d KEY %s\n   %s\n   %s\n", seed, r.Violation.Key, r.Events[0], r.Violation.Detail)
				}
			}
			if os.Getenv("JSIM_DBG_V") != "" {
				for _, e := range r.Events {
					fmt.Println("      ", e)
				}
			}
		}
		show := func(name string, m map[string]int) {
			ks := make([]string, 0, len(m))
			for k := range m {
				ks = append(ks, k)
			}
			sort.Strings(ks)
			fmt.Printf("%s:\n", name)
			for _, k := range ks {
				fmt.Printf("   %-50s %d\n", k, m[k])
			}
		}
		fmt.Printf("runs=%d nontrivial=%d inconclusive=%d evals=%d sim=%v\n", n, nontrivial, inconcl, evals, time.Duration(simNs))
		show("probes", probes)
		show("faults", faults)
		show("violation keys", keys)
	})
}
