#!/usr/bin/env python3
"""drivernet (C13, network of real drivers) runs the real walstore on the simulated disks of harness/walworld:
same overlay as walworld/driverworld, own output directory."""
import os, runpy, sys
HERE = os.path.dirname(os.path.abspath(__file__))
os.environ["JSIM_OVERLAY_PKG"] = "drivernet"
sys.argv = [os.path.join(os.path.dirname(HERE), "walworld", "overlay.py")] + sys.argv[1:]
runpy.run_path(sys.argv[0], run_name="__main__")
