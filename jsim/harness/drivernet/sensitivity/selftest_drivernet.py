#!/usr/bin/env python3
"""determinism self-test of the drivernet harness, through /verif/check's own selftest() (check's `selftest`
command only covers the property's primary package)."""
import importlib.machinery, importlib.util, json, os, shutil, sys
os.chdir("/verif")
sys.argv = ["check"]
ld = importlib.machinery.SourceFileLoader("jcheck", "/verif/check")
spec = importlib.util.spec_from_loader("jcheck", ld)
m = importlib.util.module_from_spec(spec)
ld.exec_module(m)
cfg = m.PROPS["C13"]
binpath, _ = m.build("drivernet")
scratch = m.scratch_dir("C13-dn-st")
try:
    st = m.selftest("C13", cfg, binpath, scratch, int(os.environ.get("SEED", "1")), runs=int(os.environ.get("JSIM_ST_RUNS", "32")))
    print("selftest ok:", json.dumps(st))
finally:
    shutil.rmtree(scratch, ignore_errors=True)
