import os,re
p=os.environ['WT']+'/consensus/tendermint/timeout.go'; s=open(p).read()
n=s.count('&actions.WriteWAL[V, H, A]{Entry: (*wal.Timeout)(&timeout)},\n')
assert n==3
s=s.replace('\t\t\t&actions.WriteWAL[V, H, A]{Entry: (*wal.Timeout)(&timeout)},\n','')
s=s.replace('\t"github.com/NethermindEth/juno/consensus/types/wal"\n','')
open(p,'w').write(s)
