import os
p=os.environ['WT']+'/consensus/driver/driver.go'; s=open(p).read()
old='''		if walEntry.GetHeight() < d.stateMachine.Height() {
			continue
		}
'''
assert old in s
s=s.replace(old,'')
open(p,'w').write(s)
