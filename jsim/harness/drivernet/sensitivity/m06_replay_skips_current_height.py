# off by one in replay's skip condition: the entries of the height in progress are skipped as well
import os
p=os.environ['WT']+'/consensus/driver/driver.go'; s=open(p).read()
old='		if walEntry.GetHeight() < d.stateMachine.Height() {\n'
assert old in s
s=s.replace(old,'		if walEntry.GetHeight() <= d.stateMachine.Height() {\n')
open(p,'w').write(s)
