# replay does not re-arm the timeouts it meets: a recovered validator waits forever where it needs one
import os
p=os.environ['WT']+'/consensus/driver/driver.go'; s=open(p).read()
old='''		case *actions.ScheduleTimeout:
			d.scheduleTimeout(ctx, types.Timeout(*action))
'''
assert old in s
s=s.replace(old,'''		case *actions.ScheduleTimeout:
			if !isReplaying {
				d.scheduleTimeout(ctx, types.Timeout(*action))
			}
''')
open(p,'w').write(s)
