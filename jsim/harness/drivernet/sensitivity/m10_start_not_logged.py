# the start of a height is not recorded: replay never starts the height, logged messages are ignored
import os
p=os.environ['WT']+'/consensus/tendermint/process.go'; s=open(p).read()
old='''			&actions.WriteWAL[V, H, A]{Entry: (*wal.Start)(&s.state.height)},
'''
assert old in s
s=s.replace(old,'')
open(p,'w').write(s)
