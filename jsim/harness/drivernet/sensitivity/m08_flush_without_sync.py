# dropped sync: Flush hands the batch to the log writer but does not wait for the fsync
import os
p=os.environ['WT']+'/consensus/walstore/wal_writer.go'; s=open(p).read()
old='''	logicalOffset, err := writer.WriteRecord(encodedBatch, pebblewal.SyncOptions{
		Done: &waitGroup,
		Err:  &syncErr,
	}, nil)
'''
assert old in s
s=s.replace(old,'''	logicalOffset, err := writer.WriteRecord(encodedBatch, pebblewal.SyncOptions{}, nil)
	waitGroup.Done()
''')
open(p,'w').write(s)
