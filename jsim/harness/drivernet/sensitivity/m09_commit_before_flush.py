# the commit action no longer requires the log flush: the decision is handed over before its causes are durable
import os
p=os.environ['WT']+'/consensus/types/actions/actions.go'; s=open(p).read()
old='func (a *Commit[V, H, A]) RequiresWALFlush() bool            { return true }'
assert old in s
s=s.replace(old,'func (a *Commit[V, H, A]) RequiresWALFlush() bool            { return false }')
open(p,'w').write(s)
