import os
p=os.environ['WT']+'/consensus/driver/driver.go'; s=open(p).read()
old='''	if !d.commitListener.OnCommit(ctx, commit.Height, *commit.Value) {
		if err := ctx.Err(); err != nil {
			return err
		}
		return errors.New("commit listener failed")
	}

	if err := d.db.DeleteWALEntries(commit.Height); err != nil {
		return fmt.Errorf("deleting WAL messages during commit: %w", err)
	}

	return d.db.Flush()
'''
assert old in s
s=s.replace(old,'''	if err := d.db.DeleteWALEntries(commit.Height); err != nil {
		return fmt.Errorf("deleting WAL messages during commit: %w", err)
	}
	if err := d.db.Flush(); err != nil {
		return err
	}
	if !d.commitListener.OnCommit(ctx, commit.Height, *commit.Value) {
		if err := ctx.Err(); err != nil {
			return err
		}
		return errors.New("commit listener failed")
	}
	return nil
''')
open(p,'w').write(s)
