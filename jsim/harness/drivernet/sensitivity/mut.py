#!/usr/bin/env python3
"""sensitivity of the drivernet harness ALONE: apply one mutation script to a scratch worktree of /repo, build the
drivernet worker against it, run 6 workers for BUDGET seconds, print the violation keys (known findings apart)."""
import importlib.machinery, importlib.util, json, os, re, shutil, subprocess, sys, time
name, script = sys.argv[1], os.path.abspath(sys.argv[2])
budget = int(os.environ.get("BUDGET", "20"))
wt = "/tmp/jr-dn-" + name
subprocess.run(["git", "-C", "/repo", "worktree", "remove", "--force", wt], capture_output=True)
subprocess.run(["git", "-C", "/repo", "worktree", "add", "--detach", wt, "HEAD"], check=True, capture_output=True)
try:
    subprocess.run([sys.executable, script], env=dict(os.environ, WT=wt), check=True)
    print(subprocess.run(["git", "-C", wt, "diff", "--stat"], capture_output=True, text=True).stdout.strip())
    os.environ["JSIM_REPO"] = wt
    os.chdir("/verif")
    sys.argv = ["check"]
    ld = importlib.machinery.SourceFileLoader("jcheck", "/verif/check")
    spec = importlib.util.spec_from_loader("jcheck", ld)
    m = importlib.util.module_from_spec(spec)
    ld.exec_module(m)
    cfg = dict(m.PROPS["C13"]); cfg["min_ms"] = 1500
    binpath, bs = m.build("drivernet")
    scratch = m.scratch_dir("C13-dn-mut-" + name)
    known = []
    for l in open("/verif/known-findings.jsonl"):
        l = l.strip()
        if l.startswith("{"):
            d = json.loads(l)
            if d.get("property") == "C13" and "key_regex" in d:
                known.append(re.compile(d["key_regex"]))
    try:
        t0 = time.time()
        outs, errs = m.run_workers(binpath, "C13", cfg, "quick", 20260924, "run", scratch, budget, 6, extra_env=({"JSIM_KNOB_cause_check": "0"} if os.environ.get("NOD") else None))
        if errs:
            print("WORKER ERRORS:", "\n".join(errs)[:3000])
        agg = m.aggregate(outs)
        keys = {}
        for v in agg["violations"]:
            k = v["violation"]["key"]
            if any(r.search(k) for r in known):
                continue
            keys.setdefault(k, v)
        print("mutation %s: runs=%d wall=%.0fs machinery=%d new violation keys=%d" % (name, agg["runs"], time.time() - t0, len(agg["machinery"]), len(keys)))
        for k, v in sorted(keys.items()):
            print("  KEY", k)
            print("     ", v["violation"]["detail"].split("\n")[0][:400])
        for x in agg["machinery"][:3]:
            print("  MACHINERY", x[:1500])
    finally:
        shutil.rmtree(scratch, ignore_errors=True)
finally:
    subprocess.run(["git", "-C", "/repo", "worktree", "remove", "--force", wt], capture_output=True)
    subprocess.run(["git", "-C", "/repo", "worktree", "prune"], capture_output=True)
