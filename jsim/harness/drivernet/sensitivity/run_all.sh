#!/bin/bash
# sensitivity of the drivernet harness alone (worktree per mutation under /tmp, always removed)
# usage: [NOD=1] [BUDGET=20] run_all.sh [number prefix]   (NOD=1: monitor D switched off, to see what A/B/C/E catch alone)
# selftest_drivernet.py: determinism self-test of this package through check's selftest() (./check C13 selftest covers only the primary package)
cd "$(dirname "$0")"
for f in m${1:-}*.py; do
  echo "=== $f"
  python3 ./mut.py "$(basename "$f" .py)" "$f" 2>&1 | tail -12
done
