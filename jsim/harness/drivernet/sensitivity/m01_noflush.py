import os
p=os.environ['WT']+'/consensus/types/actions/actions.go'; s=open(p).read()
for k in ['BroadcastProposal[V, H, A]','BroadcastPrevote[H, A]','BroadcastPrecommit[H, A]']:
    old='func (a *%s) RequiresWALFlush() bool'%k
    i=s.index(old); j=s.index('\n',i)
    line=s[i:j]; assert 'return true' in line, line
    s=s[:i]+line.replace('return true','return false')+s[j:]
open(p,'w').write(s)
