# off by one at commit: the log is pruned up to the NEXT height (whose entries are then never recorded)
import os
p=os.environ['WT']+'/consensus/driver/driver.go'; s=open(p).read()
old='	if err := d.db.DeleteWALEntries(commit.Height); err != nil {\n'
assert old in s
s=s.replace(old,'	if err := d.db.DeleteWALEntries(commit.Height + 1); err != nil {\n')
open(p,'w').write(s)
