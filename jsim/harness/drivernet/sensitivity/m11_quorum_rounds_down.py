# C12's territory, seen through the drivers: the quorum is floor(2N/3) instead of ceil (2 of 4, 4 of 7)
import os
p=os.environ['WT']+'/consensus/votecounter/vote_counter.go'; s=open(p).read()
old='''	if r > 0 {
		q++
	}
'''
assert old in s
s=s.replace(old,'''	_ = r
''')
open(p,'w').write(s)
