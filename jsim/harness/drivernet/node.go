// Package drivernet: C13 (with C12's agreement as an extra monitor) in a NETWORK of real drivers.
//
// n in {4, 7} REAL driver.Driver instances - each with the real tendermint state machine, the real vote
// counter, the real walstore on its OWN simulated crashable disk and the driver's real time.AfterFunc timeout
// scheduling under the synctest fake clock - are connected by a transport that the tape owns. Validators crash
// at effect seams and recover from their write-ahead logs while consensus is in progress.
//
// Every effect of every driver (WAL append, WAL flush, each broadcast, commit callback, WAL prune) is a seam
// call that parks until the harness releases it. The harness releases parked effects eagerly, one at a time
// (a validator's effects are internal to it; delaying them is the same as delaying its messages), so at every
// scheduling decision all live drivers are idle in their select and exactly one thing happens next: one message
// is delivered to one validator, or the fake clock advances to the next (pairwise distinct) timer, or a fault.
package drivernet

import (
	"context"
	"errors"
	"fmt"
	"iter"
	"runtime/debug"
	"sort"
	"strings"
	gosync "sync"
	"testing/synctest"
	"time"

	"github.com/NethermindEth/juno/consensus/driver"
	"github.com/NethermindEth/juno/consensus/p2p"
	"github.com/NethermindEth/juno/consensus/tendermint"
	"github.com/NethermindEth/juno/consensus/types"
	"github.com/NethermindEth/juno/consensus/types/actions"
	"github.com/NethermindEth/juno/consensus/types/wal"
	"github.com/NethermindEth/juno/consensus/walstore"
	kvdb "github.com/NethermindEth/juno/db"
	junosync "github.com/NethermindEth/juno/sync"
	"github.com/NethermindEth/juno/utils/log"

	"jsim/harness/walworld"
)

type (
	V = walworld.V
	H = walworld.H
	A = walworld.A
)

const (
	appStable   = iota // Value() is a function of (height, node): an application that persists what it proposed
	appFresh           // a new value on every call, also across restarts (recorded finding #18)
	appVolatile        // stable values, but Valid(v) only knows values announced in THIS process lifetime (#19)
)

var appName = [...]string{"stable", "fresh", "volatile_valid"}

// ---- validator set ------------------------------------------------------------------------------------

type valset struct{ n, stride, off int }

func (vs *valset) TotalVotingPower(types.Height) types.VotingPower { return types.VotingPower(vs.n) }
func (vs *valset) ValidatorVotingPower(_ types.Height, a *A) types.VotingPower {
	if a[0] >= 1 && int(a[0]) <= vs.n && a[1] == 0 && a[2] == 0 && a[3] == 0 {
		return 1
	}
	return 0
}
func (vs *valset) proposerIdx(h types.Height, r types.Round) int {
	return (int(h)*vs.stride + int(r) + vs.off) % vs.n
}
func (vs *valset) Proposer(h types.Height, r types.Round) A {
	return walworld.Addr(vs.proposerIdx(h, r))
}

// quorum as the STATEMENT defines it (at least two thirds of the power), not as the code computes it
func (vs *valset) isQuorum(p int) bool { return 3*p >= 2*vs.n }

// ---- application ----------------------------------------------------------------------------------------

// appDurable is what survives a crash of a validator: its chain (values whose commit callback completed)
// and, in fresh mode, the source of never-repeating values (a clock).
type appDurable struct {
	committed map[types.Height]V
	last      types.Height
	nonce     uint64
	produced  map[H]bool // ids of every value Value() ever returned (attribution of findings)
}

type app struct {
	inc   *incarnation
	d     *appDurable
	mode  int
	node  int
	known map[H]bool // volatile: values announced to this process (volatile_valid mode)
}

const appMark = 0xA99

func (a *app) Value() V {
	if a.inc.isDead() {
		return V{} // a killed process computes nothing that anybody can see; keep the durable state untouched
	}
	h := a.d.last + 1
	var v V
	switch a.mode {
	case appFresh:
		a.d.nonce++
		v = V{uint64(h)<<16 | 2, uint64(a.node), a.d.nonce, appMark}
	default:
		v = V{uint64(h)<<16 | 2, uint64(a.node), 0, appMark}
	}
	a.d.produced[v.Hash()] = true
	a.known[v.Hash()] = true
	return v
}

// fixed predicate: bit 8 of the first limb marks an invalid value
func fixedValid(v V) bool { return v[0]&0x100 == 0 }

func (a *app) Valid(v V) bool {
	if a.mode == appVolatile && !a.known[v.Hash()] {
		return false
	}
	return fixedValid(v)
}

func idStr(h *H) string {
	if h == nil {
		return "nil"
	}
	return fmt.Sprintf("%x.%x.%x", h[0], h[1]^0x5eed, h[2])
}

func valStr(v *V) string {
	if v == nil {
		return "nil"
	}
	return fmt.Sprintf("%x.%x.%x", v[0], v[1], v[2])
}

// ---- seams ----------------------------------------------------------------------------------------------------

const (
	efAppend = iota
	efFlush
	efPrune
	efBcastProposal
	efBcastPrevote
	efBcastPrecommit
	efCommit
	nEffectKinds
)

var efName = [...]string{"wal_append", "wal_flush", "wal_prune", "bcast_proposal", "bcast_prevote", "bcast_precommit", "commit"}

type verdict struct {
	dead   bool // the process is dead: do nothing, fail
	during bool // wal_flush only: perform the flush, but the process dies inside it
	fail   bool // commit only: the listener reports failure (OnCommit returns false)
}

// ways in which a validator process stops
const (
	stopKill            = iota // the process image is gone at once
	stopGracefulCancel         // the driver's context is cancelled (graceful shutdown): Run returns, its deferred Close runs
	stopListenerFailure        // commit effects only: OnCommit returns false, Run returns the error, its deferred Close runs
)

var stopName = [...]string{"kill", "graceful_cancel", "listener_failure"}

type req struct {
	kind    int
	desc    string
	h       types.Height
	r       types.Round
	vr      types.Round
	id      string // vote id / proposal value / committed value
	idHash  *H
	value   *V
	release chan verdict
}

var errDead = errors.New("jsim: process killed")

type timer struct {
	due time.Time
	inc *incarnation
}

// incarnation: one process lifetime of a validator.
type incarnation struct {
	nd     *node
	gen    int
	ctx    context.Context
	cancel context.CancelFunc
	real   walworld.Store
	app    *app
	done   chan error
	propCh chan *types.Proposal[V, H, A]
	pvCh   chan *types.Prevote[H, A]
	pcCh   chan *types.Precommit[H, A]

	cancelled bool  // the harness cancelled ctx as a stop request (graceful shutdown); harness goroutine only
	closed    bool  // the driver itself closed the store (Run returned in a live process)
	closeErr  error // what that Close returned

	mu     gosync.Mutex
	dead   bool
	parked *req
	panicV any
	stack  string
	sync   string // a TriggerSync action the real state machine emitted (see smGuard)

	listening bool // replay is over: the process appended a start record of its own
	nLoaded   int
	loadedNE  bool                      // the recovered log held entries of undecided heights
	walWant   map[types.Height][]string // entries the log must hold: loaded at recovery + appended since
	nEffects  int
	outputs   int // broadcasts + commits released in this incarnation
}

func (inc *incarnation) isDead() bool {
	inc.mu.Lock()
	defer inc.mu.Unlock()
	return inc.dead
}

func (inc *incarnation) setDead() {
	inc.mu.Lock()
	inc.dead = true
	inc.mu.Unlock()
}

func (inc *incarnation) park(r *req) verdict {
	inc.mu.Lock()
	if inc.dead {
		inc.mu.Unlock()
		return verdict{dead: true}
	}
	r.release = make(chan verdict)
	inc.parked = r
	inc.mu.Unlock()
	return <-r.release
}

func (inc *incarnation) takeParked() *req {
	inc.mu.Lock()
	defer inc.mu.Unlock()
	r := inc.parked
	inc.parked = nil
	return r
}

// seamStore wraps the real store.
type seamStore struct{ inc *incarnation }

func (s *seamStore) SetWALEntry(e wal.Entry[V, H, A]) error {
	v := s.inc.park(&req{kind: efAppend, desc: walworld.RenderEntry(e), h: e.GetHeight()})
	if v.dead {
		return errDead
	}
	return s.inc.real.SetWALEntry(e)
}

func (s *seamStore) Flush() error {
	v := s.inc.park(&req{kind: efFlush})
	if v.during {
		_ = s.inc.real.Flush()
		return errDead
	}
	if v.dead {
		return errDead
	}
	return s.inc.real.Flush()
}

func (s *seamStore) DeleteWALEntries(h types.Height) error {
	v := s.inc.park(&req{kind: efPrune, desc: fmt.Sprintf("prune<=%d", h), h: h})
	if v.dead {
		return errDead
	}
	return s.inc.real.DeleteWALEntries(h)
}

func (s *seamStore) LoadAllEntries() iter.Seq2[wal.Entry[V, H, A], error] {
	inner := s.inc.real.LoadAllEntries()
	return func(yield func(wal.Entry[V, H, A], error) bool) {
		for e, err := range inner {
			if !yield(e, err) {
				return
			}
		}
	}
}

// Close: the driver closes the store when Run returns. A dead process (killed, or ended by the harness) closes
// nothing - the harness closes its store quietly after the crash image has been taken. A process that is alive
// when Run returns (graceful shutdown, listener failure) closes the real store: what that makes durable is on
// the disk the validator restarts from.
func (s *seamStore) Close() error {
	if s.inc.isDead() {
		return nil
	}
	s.inc.closed = true
	s.inc.closeErr = s.inc.real.Close()
	return s.inc.closeErr
}

type bcast[M any] struct {
	inc  *incarnation
	make func(M) *req
}

func (b *bcast[M]) Broadcast(_ context.Context, m M) { b.inc.park(b.make(m)) }

type lis[M any] struct{ ch chan M }

func (l *lis[M]) Listen() <-chan M { return l.ch }

type commitSim struct{ inc *incarnation }

func (c *commitSim) OnCommit(_ context.Context, h types.Height, v V) bool {
	vv := v
	verdict := c.inc.park(&req{kind: efCommit, desc: fmt.Sprintf("commit(h%d v=%s)", h, valStr(&vv)), h: h, id: valStr(&vv), value: &vv})
	return !verdict.dead && !verdict.fail
}
func (c *commitSim) Listen() <-chan junosync.CommittedBlock { return nil }

// smGuard forwards every call to the REAL state machine. Its only job: the driver's block fetcher and message
// extractor are nil in this world, and executing a TriggerSync action would dereference them in a goroutine of
// the driver (killing the worker process). The transport never lets a validator see a quorum of precommits for
// a future height, so the real machine never emits the action; if it does all the same (its idea of a quorum is
// smaller than the statement's), the action is taken out and reported as a violation at the next quiescence.
type smGuard struct {
	tendermint.StateMachine[V, H, A]
	inc *incarnation
}

func (g *smGuard) filter(as []actions.Action[V, H, A]) []actions.Action[V, H, A] {
	for i, a := range as {
		if ts, ok := a.(*actions.TriggerSync); ok {
			g.inc.mu.Lock()
			g.inc.sync = fmt.Sprintf("TriggerSync{%d..%d}", ts.Start, ts.End)
			g.inc.mu.Unlock()
			return append(append([]actions.Action[V, H, A]{}, as[:i]...), g.filter(as[i+1:])...)
		}
	}
	return as
}

func (g *smGuard) ProcessStart(r types.Round) []actions.Action[V, H, A] {
	return g.filter(g.StateMachine.ProcessStart(r))
}
func (g *smGuard) ProcessTimeout(t types.Timeout) []actions.Action[V, H, A] {
	return g.filter(g.StateMachine.ProcessTimeout(t))
}
func (g *smGuard) ProcessProposal(p *types.Proposal[V, H, A]) []actions.Action[V, H, A] {
	return g.filter(g.StateMachine.ProcessProposal(p))
}
func (g *smGuard) ProcessPrevote(p *types.Prevote[H, A]) []actions.Action[V, H, A] {
	return g.filter(g.StateMachine.ProcessPrevote(p))
}
func (g *smGuard) ProcessPrecommit(p *types.Precommit[H, A]) []actions.Action[V, H, A] {
	return g.filter(g.StateMachine.ProcessPrecommit(p))
}
func (g *smGuard) ProcessWAL(e wal.Entry[V, H, A]) []actions.Action[V, H, A] {
	return g.filter(g.StateMachine.ProcessWAL(e))
}

// stubDB: the store constructor only asks its database for Path().
type stubDB struct {
	kvdb.KeyValueStore
	path string
}

func (s stubDB) Path() string { return s.path }

// ---- a validator ------------------------------------------------------------------------------------------------

type voteKey struct {
	kind int
	h    types.Height
	r    types.Round
}

type sent struct {
	id   string
	vr   types.Round
	desc string
	gen  int
	app  bool // the value/id comes from this node's own Value()
}

// crash plan of a node: the process dies at the count-th next effect of the wanted kind
type arm struct {
	kind   int // effect kind, -1 = any
	count  int
	after  bool // die after the effect happened (before the driver does anything else)
	during bool // flush only: die inside the flush
	how    int  // stopKill / stopGracefulCancel / stopListenerFailure (the latter at a commit effect, else a kill)
}

type node struct {
	w      *world
	idx    int
	byz    bool
	dbPath string
	walDir string

	disk *walworld.Disk
	dur  *appDurable
	inc  *incarnation
	gens int

	inhand *req // effect taken from the process, not yet released

	// faults
	arm        *arm
	killNext   bool
	killHow    int                       // how the process stops when killNext is set
	stopping   string                    // name of the stop kind while windDown is at work
	expectLog  map[types.Height][]string // after a stop in which Run returned: what the log must hold at the restart
	expectWhy  string
	downSince  int  // scheduler step of the crash
	downFor    int  // restart after this many scheduler steps
	inboxLost  bool // messages addressed to the node while it is down are lost (else: queued)
	crashes    int
	retired    bool // reached the goal height of the run: stopped by the harness (not a crash)
	recovered  bool // at least one recovery
	laggedAtUp bool // at its last restart other validators had already committed its current height

	// monitors (they span all process lifetimes of the validator)
	sentVotes map[voteKey]sent
	sentProps map[voteKey]sent
	decided   map[types.Height]V // value handed to the commit listener (callback invoked)
	// transport bookkeeping
	futPC map[string]map[int]bool // non-nil precommits delivered so far per (h, r, id) -> senders
	got   map[*msg]bool           // messages delivered to the CURRENT process
}

func (nd *node) up() bool { return nd.inc != nil }

// where: first part of the violation keys; while the validator is stopping in one of the ways in which Run
// returns by itself, the stop kind is part of it.
func (nd *node) where() string {
	if nd.stopping != "" {
		return appName[nd.w.appMode] + "/net/" + nd.stopping
	}
	return appName[nd.w.appMode] + "/net"
}

func (nd *node) timeoutFn(inc *incarnation) driver.TimeoutFn {
	return func(step types.Step, round types.Round) time.Duration {
		w := nd.w
		d := time.Duration(30+int(step)*10+int(round)*30) * time.Millisecond
		if inc.isDead() {
			return d
		}
		w.mu.Lock()
		defer w.mu.Unlock()
		due := time.Now().Add(d)
		// due times are pairwise distinct over ALL validators: two timers never fire at one fake instant
		for clash := true; clash; {
			clash = false
			for _, t := range w.timers {
				if t.due.Equal(due) {
					due = due.Add(time.Microsecond)
					d += time.Microsecond
					clash = true
				}
			}
		}
		w.timers = append(w.timers, &timer{due: due, inc: inc})
		return d
	}
}

// start boots a process of the validator on its current disk: opens the real store, builds a fresh state
// machine at the height after the last completed commit and runs the real driver (replay, then listen).
func (nd *node) start() {
	w, c := nd.w, nd.w.c
	real, err := walstore.NewTendermintWALStore[V, H, A](stubDB{path: nd.dbPath})
	if err != nil {
		c.Fail("recovery_open_error", nd.where(), "NewTendermintWALStore failed on the crash image of n%d: %v", nd.idx, err)
	}
	nd.gens++
	ctx, cancel := context.WithCancel(context.Background())
	inc := &incarnation{nd: nd, gen: nd.gens, ctx: ctx, cancel: cancel, real: real, done: make(chan error, 1),
		propCh: make(chan *types.Proposal[V, H, A]), pvCh: make(chan *types.Prevote[H, A]), pcCh: make(chan *types.Precommit[H, A]),
		walWant: map[types.Height][]string{}}
	inc.app = &app{inc: inc, d: nd.dur, mode: w.appMode, node: nd.idx, known: map[H]bool{}}
	// what the log holds now is the baseline of the visible-before-durable check of this process
	ents, err := walworld.LoadEntries(real)
	if err != nil {
		c.Fail("recovery_open_error", nd.where()+"/load", "LoadAllEntries failed on the crash image of n%d: %v", nd.idx, err)
	}
	for _, e := range ents {
		inc.walWant[e.GetHeight()] = append(inc.walWant[e.GetHeight()], walworld.RenderEntry(e))
		if e.GetHeight() > nd.dur.last {
			inc.loadedNE = true
		}
	}
	inc.nLoaded = len(ents)
	if nd.expectLog != nil {
		// the last process stopped with Run returning by itself (its deferred Close of the store ran; Close flushes
		// what is buffered): the log holds everything the validator had appended for the heights whose commit did
		// not complete - in particular the entries of a height whose commit callback failed or was cancelled
		hs := make([]types.Height, 0, len(nd.expectLog))
		for h := range nd.expectLog {
			if h > nd.dur.last {
				hs = append(hs, h)
			}
		}
		sort.Slice(hs, func(i, j int) bool { return hs[i] < hs[j] })
		for _, h := range hs {
			if strings.Join(inc.walWant[h], "|") != strings.Join(nd.expectLog[h], "|") {
				_ = real.Close()
				c.Fail(nd.classOf("stop_lost_log", false), nd.where()+"/"+nd.expectWhy, "Driver.Run of n%d had returned in a live process (%s), but the log the validator restarts from does not hold what it had appended for height %d (last completed commit %d)\nin the log: %v\nappended:   %v\nlast effects of n%d: %s",
					nd.idx, nd.expectWhy, h, nd.dur.last, inc.walWant[h], nd.expectLog[h], nd.idx, strings.Join(tail(w.effLog[nd.idx], 24), " ; "))
			}
		}
		nd.expectLog = nil
	}
	sm := tendermint.New[V, H, A](log.NewNopZapLogger(), walworld.Addr(nd.idx), inc.app, w.vs, nd.dur.last+1)
	nd.inc = inc
	nd.got = map[*msg]bool{}
	voteReq := func(kind int, v *types.Vote[H, A]) *req {
		return &req{kind: kind, desc: fmt.Sprintf("%s(h%d r%d id=%s)", efName[kind][6:], v.Height, v.Round, idStr(v.ID)), h: v.Height, r: v.Round, id: idStr(v.ID), idHash: v.ID}
	}
	bc := p2p.Broadcasters[V, H, A]{
		ProposalBroadcaster: &bcast[*types.Proposal[V, H, A]]{inc: inc, make: func(m *types.Proposal[V, H, A]) *req {
			return &req{kind: efBcastProposal, desc: fmt.Sprintf("proposal(h%d r%d v=%s vr=%d)", m.Height, m.Round, valStr(m.Value), m.ValidRound), h: m.Height, r: m.Round, vr: m.ValidRound, id: valStr(m.Value), value: m.Value}
		}},
		PrevoteBroadcaster: &bcast[*types.Prevote[H, A]]{inc: inc, make: func(m *types.Prevote[H, A]) *req {
			return voteReq(efBcastPrevote, (*types.Vote[H, A])(m))
		}},
		PrecommitBroadcaster: &bcast[*types.Precommit[H, A]]{inc: inc, make: func(m *types.Precommit[H, A]) *req {
			return voteReq(efBcastPrecommit, (*types.Vote[H, A])(m))
		}},
	}
	ls := p2p.Listeners[V, H, A]{
		ProposalListener:  &lis[*types.Proposal[V, H, A]]{inc.propCh},
		PrevoteListener:   &lis[*types.Prevote[H, A]]{inc.pvCh},
		PrecommitListener: &lis[*types.Precommit[H, A]]{inc.pcCh},
	}
	drv := driver.New[V, H, A](log.NewNopZapLogger(), &seamStore{inc}, &smGuard{StateMachine: sm, inc: inc}, &commitSim{inc}, bc, ls, nil, nil, nd.timeoutFn(inc))
	go func() {
		defer func() {
			if r := recover(); r != nil {
				inc.mu.Lock()
				inc.panicV, inc.stack = r, string(debug.Stack())
				inc.mu.Unlock()
				inc.done <- fmt.Errorf("panic: %v", r)
			}
		}()
		inc.done <- drv.Run(ctx)
	}()
}

// endProcess ends the current process of the validator: as a crash (the caller has taken care of the disk
// image) or as a quiet stop by the harness. r is the effect the process is parked at, if any.
func (nd *node) endProcess(r *req, v verdict) (hung bool) {
	inc := nd.inc
	inc.setDead()
	if r == nil {
		r = inc.takeParked()
	}
	if r == nil {
		r = nd.inhand
	}
	nd.inhand = nil
	if !v.during {
		inc.cancel()
	}
	if r != nil {
		r.release <- v
	}
	if v.during {
		inc.cancel()
	}
	hung = nd.awaitExit(inc)
	nd.w.dropTimers(inc)
	return hung
}

// awaitExit waits for Run of a process that is dead (every seam call fails) and whose context is cancelled.
// hung: Run did not return although the driver is at no seam; the driver is then got out of the way by closing
// its listener channel.
func (nd *node) awaitExit(inc *incarnation) (hung bool) {
	closedCh := false
	for i := 0; ; i++ {
		synctest.Wait()
		select {
		case <-inc.done:
			synctest.Wait()
			return hung
		default:
		}
		if r := inc.takeParked(); r != nil {
			r.release <- verdict{dead: true}
			continue
		}
		if closedCh || i > 1000 {
			nd.inc = nil
			nd.w.c.Broken("a driver that ignores its stop request cannot be ended by closing its listener channel either")
		}
		hung = true
		close(inc.propCh)
		closedCh = true
	}
}

// stop: quiet end (end of the run / validator reached the goal height). Not a crash of the model. hung: Run did
// not return although its context was cancelled while the driver was idle.
func (nd *node) stop() (hung bool) {
	if nd.inc == nil {
		return false
	}
	inc := nd.inc
	hung = nd.endProcess(nil, verdict{dead: true})
	nd.disk.Quiet = true
	_ = inc.real.Close()
	nd.inc = nil
	return hung
}

// stopJudged: stop on the normal path of a run. Run must return when its context is cancelled.
func (nd *node) stopJudged(when string) {
	if nd.stop() {
		nd.w.c.Fail("stop_hang", nd.where()+"/"+when, "Driver.Run of n%d does not return although its context was cancelled while the driver was idle (%s)\nlast effects of n%d: %s", nd.idx, when, nd.idx, strings.Join(tail(nd.w.effLog[nd.idx], 12), " ; "))
	}
}

// kill: the process dies now - before the effect r it is parked at (r == nil: while idle), or inside it
// (flush, during). The disk keeps its synced data plus a tape-chosen part of the unsynced data.
func (nd *node) kill(r *req, during bool, why string) {
	w, c, t := nd.w, nd.w.c, nd.w.c.T
	inc := nd.inc
	at := "idle"
	if r != nil {
		at = efName[r.kind] + " " + r.desc
	}
	role := ""
	if w.vs.proposerIdx(nd.dur.last+1, 0) == nd.idx {
		role = " (proposer of round 0 of its height)"
		c.Probe("net.crash_of_a_proposer")
	}
	var img walworld.Image
	if during && r != nil && r.kind == efFlush {
		var caps []walworld.Image
		nd.disk.AfterOp = func(kind walworld.OpKind, path string, failed bool) {
			caps = append(caps, nd.disk.FullView(nd.walDir), nd.disk.SyncedView(nd.walDir))
		}
		nd.endProcess(r, verdict{during: true})
		nd.disk.AfterOp = nil
		if len(caps) > 0 {
			img = caps[t.Draw("during_image", len(caps))]
			c.Probe("net.crash_inside_flush")
			at += " (inside)"
		}
	} else {
		nd.endProcess(r, verdict{dead: true})
	}
	nd.goDown(inc, img, "CRASH", why, at, role)
}

// goDown: the process of the validator is gone (killed, or Run returned). The disk keeps its synced data plus a
// tape-chosen part of the unsynced data (img != nil: the image was taken inside a flush); the machine comes
// back with it later.
func (nd *node) goDown(inc *incarnation, img walworld.Image, what, why, at, role string) {
	w, c, t := nd.w, nd.w.c, nd.w.c.T
	if img == nil {
		S, F := nd.disk.SyncedView(nd.walDir), nd.disk.FullView(nd.walDir)
		switch t.Draw("image_variant", 3) {
		case 0:
			img = S
		case 1:
			img = F
		default:
			img = mixImage(t.Draw, nd.disk, nd.walDir, S, F)
		}
	}
	nd.disk.Quiet = true
	_ = inc.real.Close()
	nd.inc = nil
	nd.arm, nd.killNext = nil, false
	nd.crashes++
	if what == "CRASH" {
		c.Fault("net.crash")
	}
	if nd.crashes == 2 {
		c.Probe("net.same_node_crashed_twice")
	}
	w.crashes++
	// the machine comes back with this disk
	nd.disk = walworld.NewDiskFromImage(nd.walDir, img)
	w.fs.mount(nd.mountPoint(), nd.disk)
	nd.downSince = w.step
	nd.downFor = t.Draw("down_for", 40)
	nd.inboxLost = t.Draw("inbox_lost", 2) == 1
	if nd.inboxLost {
		w.dropFlightsTo(nd.idx)
	}
	down := 0
	for _, o := range w.nodes {
		if !o.byz && !o.retired && !o.up() {
			down++
		}
	}
	if down >= 2 {
		c.Probe("net.two_nodes_down_at_once")
	}
	c.Logf("%s n%d %s at %s%s; image %s; restart after %d steps; inbox %s", what, nd.idx, why, at, role, img, nd.downFor, map[bool]string{true: "lost", false: "queued"}[nd.inboxLost])
}

// windDown: the validator process stops without being killed - Driver.Run returns by itself and its deferred
// Close of the store runs. The stop request meets the driver parked at effect r (nil: idle in its select):
//   - graceful_cancel: the driver's context is cancelled. Seam calls that take the context return: a broadcast
//     under a cancelled context is sent or not (the real broadcasters select between ctx.Done and their queue:
//     tape), the commit callback returns false (whether the block was persisted all the same: tape). WAL calls
//     take no context and are carried out;
//   - listener_failure (r is a commit effect): the commit callback returns false.
//
// What the driver still does until Run returns is carried out and recorded as done (messages that were sent were
// sent and pass the monitors like any other), but the stop itself is judged only for: Run returns, no panic.
func (nd *node) windDown(r *req, how int, why string, logged bool) {
	w, c, t := nd.w, nd.w.c, nd.w.c.T
	inc := nd.inc
	if how == stopListenerFailure && (r == nil || r.kind != efCommit) {
		nd.kill(r, false, why)
		return
	}
	at := "idle"
	if r != nil {
		at = efName[r.kind] + " " + r.desc
	}
	atKind := "idle"
	if r != nil {
		atKind = efName[r.kind]
	}
	role := ""
	if w.vs.proposerIdx(nd.dur.last+1, 0) == nd.idx {
		role = " (proposer of round 0 of its height)"
	}
	name := stopName[how]
	nd.stopping = name
	defer func() { nd.stopping = "" }()
	c.Fault("net.stop." + name)
	c.Probe("net.stop." + name + "_at_" + atKind)
	if how == stopGracefulCancel {
		inc.cancelled = true
		inc.cancel()
	}
	nd.inhand = nil
	failed := map[types.Height]bool{}
	first := true
	for steps := 0; ; steps++ {
		if r == nil {
			synctest.Wait()
			exited := false
			select {
			case err := <-inc.done:
				inc.done <- err
				exited = true
			default:
			}
			if exited {
				break
			}
			if r = inc.takeParked(); r == nil {
				inc.setDead()
				nd.awaitExit(inc)
				w.dropTimers(inc)
				nd.disk.Quiet = true
				_ = inc.real.Close()
				nd.inc = nil
				c.Fail("stop_hang", nd.where()+"/"+atKind, "Driver.Run of n%d does not return after the stop request (%s, the driver was at: %s): the driver is blocked outside every seam\nlast effects of n%d: %s",
					nd.idx, name, at, nd.idx, strings.Join(tail(w.effLog[nd.idx], 16), " ; "))
			}
			logged = false
		}
		nd.inhand = r // should a monitor end the run now, the clean-up finds the effect the driver is parked at
		if !logged {
			inc.nEffects++
			line := efName[r.kind] + " " + r.desc + " (stopping)"
			w.noteEffect(nd, line)
			c.Logf("n%d %s", nd.idx, line)
			if r.kind == efCommit {
				nd.onDecision(r)
			}
			logged = true
		}
		if steps > 400 {
			c.Broken("a driver does not come to an end after its stop request")
		}
		v := verdict{}
		switch r.kind {
		case efAppend, efPrune, efFlush:
			nd.released(r)
		case efBcastProposal, efBcastPrevote, efBcastPrecommit:
			sent := true
			if inc.cancelled {
				sent = t.Draw("cancelled_broadcast_sent", 2) == 1
			}
			if sent {
				nd.beforeVisible(r)
				nd.released(r)
				if inc.cancelled {
					c.Probe("net.cancelled_broadcast_sent")
				}
			}
		case efCommit:
			switch {
			case first && how == stopListenerFailure:
				v.fail = true
				failed[r.h] = true
			case inc.cancelled:
				v.fail = true
				if t.Draw("cancelled_commit_persisted", 2) == 1 {
					// the block had been handed over and was persisted although the listener gave up waiting
					nd.released(r)
					c.Probe("net.cancelled_commit_persisted")
				} else {
					failed[r.h] = true
				}
			default:
				nd.released(r)
			}
		}
		nd.inhand = nil
		r.release <- v
		r, first, logged = nil, false, false
	}
	err := <-inc.done
	synctest.Wait()
	w.dropTimers(inc)
	inc.mu.Lock()
	pv, st := inc.panicV, inc.stack
	inc.mu.Unlock()
	if pv != nil {
		nd.disk.Quiet = true
		_ = inc.real.Close()
		nd.inc = nil
		fn, inRepo := panicSite(st)
		if !inRepo {
			c.Broken("panic in a driver goroutine outside juno's code: %v\n%s", pv, st)
		}
		c.Fail("panic", fn, "driver of n%d panicked while stopping (%s): %v\n%s", nd.idx, name, pv, st)
	}
	if len(failed) > 0 {
		c.Probe("net.stop_with_incomplete_commit")
	}
	if !inc.closed {
		c.Probe("net.run_returned_without_close")
	}
	// the log the validator restarts from holds what it had appended for the undecided heights (checked at the restart)
	// (only the heights whose commit callback failed or was cancelled: everything logged for them was durable
	// before the commit was attempted and must not have been pruned; entries that were merely buffered when
	// the process stopped are outside the statement)
	nd.expectLog = map[types.Height][]string{}
	nd.expectWhy = name
	for h := range failed {
		if h > nd.dur.last {
			nd.expectLog[h] = append([]string(nil), inc.walWant[h]...)
			nd.expectWhy = name + "/uncommitted_height"
		}
	}
	if len(nd.expectLog) == 0 {
		nd.expectLog = nil
	}
	_ = err
	nd.goDown(inc, nil, "STOP ("+name+")", why, at, role)
}

func (nd *node) mountPoint() string { return fmt.Sprintf("/jsim/n%d", nd.idx) }

// restart: the validator is rebuilt from its disk.
func (nd *node) restart() {
	w, c := nd.w, nd.w.c
	c.Evals++
	lag := w.maxLast() > nd.dur.last
	nd.start()
	nd.recovered = true
	nd.laggedAtUp = lag
	c.Logf("RESTART n%d at height %d from a log of %d entries%s", nd.idx, nd.dur.last+1, nd.inc.nLoaded, map[bool]string{true: " (behind the others)", false: ""}[lag])
	c.Probe("net.recovery")
	if nd.inc.loadedNE {
		c.Probe("net.recovered_from_nonempty_log")
		w.recoveredNE = true
	}
	if nd.dur.last > 0 {
		c.Probe("net.recovered_above_first_height")
	}
	if lag {
		c.Probe("net.recovered_behind_the_others")
	}
}

// mixImage: per directory entry a tape-chosen outcome between durable and written state.
func mixImage(draw func(string, int) int, d *walworld.Disk, dir string, S, F walworld.Image) walworld.Image {
	names := map[string]bool{}
	for n := range S {
		names[n] = true
	}
	for n := range F {
		names[n] = true
	}
	sorted := make([]string, 0, len(names))
	for n := range names {
		sorted = append(sorted, n)
	}
	sort.Strings(sorted)
	img := walworld.Image{}
	for _, n := range sorted {
		s, inS := S[n]
		f, inF := F[n]
		var opts [][]byte
		var present []bool
		add := func(p bool, b []byte) { present = append(present, p); opts = append(opts, b) }
		add(inS, s)
		if inF && (!inS || string(s) != string(f)) {
			add(true, f)
			sl := int(d.SyncedLen(d.PathJoin(dir, n)))
			if sl < len(f) {
				add(true, f[:sl+draw("mix_cut", len(f)-sl)])
			}
		} else if !inF {
			add(false, nil)
		}
		i := 0
		if len(opts) > 1 {
			i = draw("mix_entry", len(opts))
		}
		if present[i] {
			img[n] = opts[i]
		}
	}
	return img
}

// ---- monitors at the seams ------------------------------------------------------------------------------------

// classOf maps a violation that is reachable through a recorded finding's mechanism to that finding's class: in
// the fresh class a conflict that involves a value this node's application produced (#18: the own proposal is
// not logged, Value() is called again on replay); in the volatile_valid class, after the first crash, what
// follows from a replayed proposal being judged invalid (#19): a conflicting vote or proposal of the recovered
// validator, and - the validator then being an equivocator - lost progress or agreement. Every other class
// (durability, heights, recovery errors, panics) keeps its own key in every application class.
func (nd *node) classOf(cls string, appValue bool) string {
	switch {
	case nd.w.appMode == appFresh && appValue:
		return "rederived_value"
	case nd.w.appMode == appVolatile && nd.w.crashes > 0:
		switch cls {
		case "vote_conflict", "proposal_conflict", "no_progress", "disagreement":
			return "volatile_validity"
		}
	}
	return cls
}

func tail(s []string, n int) []string {
	if len(s) > n {
		return s[len(s)-n:]
	}
	return s
}

// beforeVisible: monitors at the moment an effect is about to become visible to the outside.
func (nd *node) beforeVisible(r *req) {
	w, c, inc := nd.w, nd.w.c, nd.inc
	switch r.kind {
	case efBcastProposal, efBcastPrevote, efBcastPrecommit, efCommit:
		if w.causeCheck(nd) {
			nd.checkDurableCause(r)
		}
	}
	switch r.kind {
	case efBcastProposal, efBcastPrevote, efBcastPrecommit:
		// (C) a validator only speaks at the height after the last one whose commit completed
		if r.h != nd.dur.last+1 {
			c.Fail(nd.classOf("resume_height", false), nd.where()+"/"+efName[r.kind], "n%d broadcast %s while the last height whose commit completed is %d\nlast effects of n%d: %s",
				nd.idx, r.desc, nd.dur.last, nd.idx, strings.Join(tail(w.effLog[nd.idx], 20), " ; "))
		}
	}
	switch r.kind {
	case efBcastPrevote, efBcastPrecommit:
		// (A) one vote per (height, round, kind) over all process lifetimes
		k := voteKey{r.kind, r.h, r.r}
		own := r.idHash != nil && nd.dur.produced[*r.idHash]
		if old, ok := nd.sentVotes[k]; ok && old.id != r.id {
			how := "across_crash"
			if old.gen == inc.gen {
				how = "same_process"
			}
			c.Fail(nd.classOf("vote_conflict", own || old.app), nd.where()+"/"+efName[r.kind][6:]+"_conflict/"+how,
				"n%d broadcast %s, but it had already broadcast %s for the same height and round (process %d, now process %d)\nlast effects of n%d: %s",
				nd.idx, r.desc, old.desc, old.gen, inc.gen, nd.idx, strings.Join(tail(w.effLog[nd.idx], 30), " ; "))
		}
	case efBcastProposal:
		k := voteKey{r.kind, r.h, r.r}
		own := r.value != nil && nd.dur.produced[r.value.Hash()]
		if w.vs.proposerIdx(r.h, r.r) != nd.idx {
			c.Fail(nd.classOf("proposal_by_non_proposer", false), nd.where(), "n%d proposed at h%d r%d but the proposer is n%d", nd.idx, r.h, r.r, w.vs.proposerIdx(r.h, r.r))
		}
		if old, ok := nd.sentProps[k]; ok && (old.id != r.id || old.vr != r.vr) {
			// stable application: the proposal of a (height, round) is a function of durable inputs. In the fresh
			// class a second, different proposal is the recorded finding #18 (value derived again on replay).
			how := "across_crash"
			if old.gen == inc.gen {
				how = "same_process"
			}
			c.Fail(nd.classOf("proposal_conflict", own || old.app), nd.where()+"/proposal_conflict/"+how,
				"n%d broadcast %s, but it had already broadcast %s for the same height and round (process %d, now process %d)\nlast effects of n%d: %s",
				nd.idx, r.desc, old.desc, old.gen, inc.gen, nd.idx, strings.Join(tail(w.effLog[nd.idx], 30), " ; "))
		}
	}
}

// onDecision: the state machine hands a value to the commit listener. The decision exists from this moment,
// whether or not the process survives the callback.
func (nd *node) onDecision(r *req) {
	w, c := nd.w, nd.w.c
	{
		// (C) the commit listener sees heights in order, each once
		if r.h != nd.dur.last+1 {
			what := "skips"
			if r.h <= nd.dur.last {
				what = "repeats"
			}
			c.Fail(nd.classOf("commit_height", false), nd.where()+"/"+what, "commit callback of n%d for height %d while the last height whose commit completed is %d\nlast effects of n%d: %s",
				nd.idx, r.h, nd.dur.last, nd.idx, strings.Join(tail(w.effLog[nd.idx], 20), " ; "))
		}
		if old, ok := nd.decided[r.h]; ok && old != *r.value {
			c.Fail(nd.classOf("commit_changed", false), nd.where(), "n%d hands %s to its commit listener for height %d, but in an earlier process it had handed over %s", nd.idx, valStr(r.value), r.h, valStr(&old))
		}
		// (B) agreement and validity
		for _, o := range w.nodes {
			if o.byz || o == nd {
				continue
			}
			if ov, ok := o.decided[r.h]; ok && ov != *r.value {
				c.Fail(nd.classOf("disagreement", false), nd.where(), "height %d: n%d decides %s but n%d decided %s", r.h, nd.idx, valStr(r.value), o.idx, valStr(&ov))
			}
		}
		if !fixedValid(*r.value) {
			c.Fail(nd.classOf("commit_invalid_value", false), nd.where(), "n%d decides the invalid value %s at height %d", nd.idx, valStr(r.value), r.h)
		}
		if !w.proposedByProposer(r.h, *r.value) {
			c.Fail(nd.classOf("commit_not_from_proposer", false), nd.where(), "n%d decides %s at height %d, which no round's proposer of that height ever proposed", nd.idx, valStr(r.value), r.h)
		}
		nd.decided[r.h] = *r.value
	}
}

// released: the effect happened (the seam call returns to the driver).
func (nd *node) released(r *req) {
	w, c, inc := nd.w, nd.w.c, nd.inc
	switch r.kind {
	case efAppend:
		inc.walWant[r.h] = append(inc.walWant[r.h], r.desc)
	case efBcastProposal:
		own := r.value != nil && nd.dur.produced[r.value.Hash()]
		k := voteKey{r.kind, r.h, r.r}
		if old, ok := nd.sentProps[k]; ok && old.gen != inc.gen {
			c.Probe("net.replay_rebroadcast")
		}
		nd.sentProps[k] = sent{id: r.id, vr: r.vr, desc: r.desc, gen: inc.gen, app: own}
		c.Probe("net.proposer_role")
		inc.outputs++
		v := *r.value
		w.send(&msg{kind: efBcastProposal, h: r.h, r: r.r, from: nd.idx, val: &v, vr: r.vr, desc: r.desc})
	case efBcastPrevote, efBcastPrecommit:
		own := r.idHash != nil && nd.dur.produced[*r.idHash]
		k := voteKey{r.kind, r.h, r.r}
		if old, ok := nd.sentVotes[k]; ok && old.gen != inc.gen {
			c.Probe("net.replay_rebroadcast")
		}
		nd.sentVotes[k] = sent{id: r.id, desc: r.desc, gen: inc.gen, app: own}
		if r.r > 0 {
			c.Probe("net.round_above_zero")
		}
		inc.outputs++
		var id *H
		if r.idHash != nil {
			x := *r.idHash
			id = &x
		}
		w.send(&msg{kind: r.kind, h: r.h, r: r.r, from: nd.idx, id: id, desc: r.desc})
	case efCommit:
		nd.dur.committed[r.h] = *r.value
		nd.dur.last = r.h
		inc.outputs++
		w.commits++
		c.Probe("net.commit")
		if nd.recovered {
			c.Probe("net.commit_after_recovery")
			if nd.laggedAtUp {
				c.Probe("net.caught_up_from_messages")
			}
		}
		w.releaseHeld(nd)
	}
}

// checkDurableCause (D, visible-before-durable): at the moment something becomes visible to peers, a crash that
// keeps only synced data must already hold every entry this validator's log is supposed to hold for the
// heights still being decided (loaded at recovery + appended since), and a start record that replay would
// process at the message's height.
func (nd *node) checkDurableCause(r *req) {
	w, c, inc := nd.w, nd.w.c, nd.inc
	img := nd.disk.SyncedView(nd.walDir)
	const chk = "/jsim/chk"
	chkDB := chk + "/db"
	w.fs.mount(chk, walworld.QuietDisk(walworld.BuildMem(walstore.DefaultWALDir(chkDB), img, false)))
	st, err := walstore.NewTendermintWALStore[V, H, A](stubDB{path: chkDB})
	var got *walworld.MState
	if err == nil {
		ents, lerr := walworld.LoadEntries(st)
		err = lerr
		got = walworld.Observed(ents)
		_ = st.Close()
	}
	w.fs.unmount(chk)
	c.Evals++
	if err != nil {
		c.Fail("recovery_open_error", nd.where()+"/synced_image", "synced-only crash image of n%d taken before %s does not open: %v", nd.idx, r.desc, err)
	}
	low := nd.dur.last + 1
	hs := make([]types.Height, 0, len(inc.walWant))
	for h := range inc.walWant {
		if h >= low {
			hs = append(hs, h)
		}
	}
	sort.Slice(hs, func(i, j int) bool { return hs[i] < hs[j] })
	for _, h := range hs {
		if strings.Join(got.Ents[h], "|") != strings.Join(inc.walWant[h], "|") {
			c.Fail(nd.classOf("visible_before_durable", false), nd.where()+"/"+efName[r.kind], "%s of n%d is about to become visible, but a crash now (synced data only) would not hold the inputs that caused it\nheight %d in the image: %v\nappended so far:   %v\nlast effects of n%d: %s",
				r.desc, nd.idx, h, got.Ents[h], inc.walWant[h], nd.idx, strings.Join(tail(w.effLog[nd.idx], 16), " ; "))
		}
	}
	if r.kind != efCommit {
		// The start of the height is a cause of everything the node sends in it. Recovery starts a height when
		// replay meets a start record that it does not skip, i.e. one labelled with the current height or above
		// (ProcessWAL ignores the label itself); so that is what must be durable - not a particular label.
		found := false
		for h, l := range got.Ents {
			if h < r.h {
				continue
			}
			for _, e := range l {
				if strings.HasPrefix(e, "start(h") {
					found = true
				}
			}
		}
		if !found {
			c.Fail(nd.classOf("visible_before_durable", false), nd.where()+"/"+efName[r.kind]+"/no_start_record", "%s of n%d is about to become visible but the synced-only image has no start record that replay would process at height %d\nimage: %s\nlast effects of n%d: %s",
				r.desc, nd.idx, r.h, got.Canon(), nd.idx, strings.Join(tail(w.effLog[nd.idx], 16), " ; "))
		}
	}
}
