package drivernet

import (
	"fmt"
	"os"
	"sort"
	"strings"
	gosync "sync"
	"testing/synctest"
	"time"

	"github.com/NethermindEth/juno/consensus/types"
	"github.com/NethermindEth/juno/consensus/walstore"

	"jsim/harness/walworld"
	"jsim/sim"
)

// ---- messages in flight ---------------------------------------------------------------------------------------

type msg struct {
	kind int // efBcastProposal / efBcastPrevote / efBcastPrecommit
	h    types.Height
	r    types.Round
	from int
	id   *H // votes
	val  *V // proposals
	vr   types.Round
	desc string
	seq  int
}

func (m *msg) String() string { return fmt.Sprintf("#%d n%d:%s", m.seq, m.from, m.desc) }

type flight struct {
	m  *msg
	to int
}

type world struct {
	c       *sim.Ctx
	mu      gosync.Mutex // guards timers (the drivers' goroutines register them)
	vs      *valset
	n       int
	appMode int
	class   string
	nodes   []*node
	byz     int // index of the Byzantine validator, -1 = none
	fs      *mountFS
	timers  []*timer
	net     []*flight
	history []*msg
	group   []int // partition group per validator; deliverable iff same group
	maxR    types.Round

	step        int
	commits     int
	crashes     int
	crashBudget int
	stopKinds   bool // stops other than kills are on the menu (props knob stop_kinds != 0)
	lossPct     int
	dupPct      int
	partOn      bool
	recoveredNE bool
	faultsSeen  bool
	effLog      [][]string
	causeEvery  int
	causeCount  int

	inTail bool
	goal   types.Height
	t0     time.Time
}

func (w *world) correct() []*node {
	var out []*node
	for _, nd := range w.nodes {
		if !nd.byz {
			out = append(out, nd)
		}
	}
	return out
}

func (w *world) maxLast() types.Height {
	var m types.Height
	for _, nd := range w.correct() {
		if nd.dur.last > m {
			m = nd.dur.last
		}
	}
	return m
}

func (w *world) dropTimers(inc *incarnation) {
	w.mu.Lock()
	defer w.mu.Unlock()
	keep := w.timers[:0]
	for _, t := range w.timers {
		if t.inc != inc {
			keep = append(keep, t)
		}
	}
	w.timers = keep
}

// causeCheck: the visible-before-durable check opens a real store on a crash image and is the most expensive
// monitor; it runs at every causeEvery-th visible effect (chosen per run, 1 = all).
func (w *world) causeCheck(nd *node) bool {
	if w.c.Knobs["cause_check"] == "0" {
		return false // sensitivity runs: what do the other monitors see on their own?
	}
	w.causeCount++
	return w.causeCount%w.causeEvery == 0
}

// ---- transport ---------------------------------------------------------------------------------------------------

func (w *world) send(m *msg) {
	m.seq = len(w.history)
	w.history = append(w.history, m)
	for _, nd := range w.nodes {
		if nd.idx == m.from || nd.byz {
			continue
		}
		w.enqueue(m, nd)
	}
}

func (w *world) enqueue(m *msg, nd *node) {
	if nd.retired {
		return
	}
	if !nd.up() && nd.inboxLost {
		w.c.Fault("net.msg_lost_receiver_down")
		return
	}
	w.net = append(w.net, &flight{m, nd.idx})
}

func (w *world) dropFlightsTo(idx int) {
	keep := w.net[:0]
	for _, f := range w.net {
		if f.to != idx {
			keep = append(keep, f)
		}
	}
	w.net = keep
}

func pcKey(m *msg) string { return fmt.Sprintf("%d/%d/%s", m.h, m.r, idStr(m.id)) }

// guardHolds: the block fetcher and the message extractor of the driver are nil (sync by TriggerSync is outside
// this world), so a validator must never see a quorum of precommits for a height above its own. The transport
// holds the precommit that would complete one until the validator has reached that height. The count is over
// everything ever delivered to the validator (a superset of what any of its processes knows).
func (w *world) guardHolds(nd *node, m *msg) bool {
	if m.kind != efBcastPrecommit || m.id == nil || m.h <= nd.dur.last+1 {
		return false
	}
	s := nd.futPC[pcKey(m)]
	cnt := len(s)
	if !s[m.from] {
		cnt++
	}
	return w.vs.isQuorum(cnt)
}

// deliverable lists the flights that can be delivered now; flights for heights the receiver has completed are
// discarded on the way (the vote counter refuses them without any effect).
func (w *world) deliverable() []int {
	var out []int
	keep := w.net[:0]
	held := false
	for _, f := range w.net {
		nd := w.nodes[f.to]
		if nd.retired || f.m.h <= nd.dur.last {
			continue
		}
		keep = append(keep, f)
		if !nd.up() || w.group[f.m.from] != w.group[f.to] {
			continue
		}
		if w.guardHolds(nd, f.m) {
			held = true
			continue
		}
		out = append(out, len(keep)-1)
	}
	w.net = keep
	if held {
		w.c.Probe("net.future_precommit_held_back")
	}
	return out
}

func (w *world) removeFlight(i int) {
	w.net = append(w.net[:i], w.net[i+1:]...)
}

func copyID(id *H) *H {
	if id == nil {
		return nil
	}
	x := *id
	return &x
}

// deliver hands one message to the (idle) driver of its receiver.
func (w *world) deliver(f *flight) {
	nd := w.nodes[f.to]
	inc := nd.inc
	m := f.m
	nd.got[m] = true
	hdr := types.MessageHeader[A]{Height: m.h, Round: m.r, Sender: walworld.Addr(m.from)}
	exited := func(err error) {
		inc.done <- err
		w.checkExits()
	}
	switch m.kind {
	case efBcastProposal:
		v := *m.val
		inc.app.known[v.Hash()] = true // the p2p layer validated and stored the proposal
		select {
		case inc.propCh <- &types.Proposal[V, H, A]{MessageHeader: hdr, ValidRound: m.vr, Value: &v}:
		case err := <-inc.done:
			exited(err)
		}
	case efBcastPrevote:
		select {
		case inc.pvCh <- &types.Prevote[H, A]{MessageHeader: hdr, ID: copyID(m.id)}:
		case err := <-inc.done:
			exited(err)
		}
	case efBcastPrecommit:
		if m.id != nil {
			k := pcKey(m)
			if nd.futPC[k] == nil {
				nd.futPC[k] = map[int]bool{}
			}
			nd.futPC[k][m.from] = true
		}
		select {
		case inc.pcCh <- &types.Precommit[H, A]{MessageHeader: hdr, ID: copyID(m.id)}:
		case err := <-inc.done:
			exited(err)
		}
	}
}

func (w *world) releaseHeld(nd *node) {}

// proposedByProposer: some round's proposer of height h sent a proposal carrying v.
func (w *world) proposedByProposer(h types.Height, v V) bool {
	for _, m := range w.history {
		if m.kind == efBcastProposal && m.h == h && *m.val == v && w.vs.proposerIdx(h, m.r) == m.from {
			return true
		}
	}
	return false
}

// ---- the drivers' effects ------------------------------------------------------------------------------------------

func (w *world) noteEffect(nd *node, line string) {
	l := append(w.effLog[nd.idx], line)
	if len(l) > 48 {
		l = l[len(l)-48:]
	}
	w.effLog[nd.idx] = l
}

func (w *world) effect(nd *node, r *req) {
	c, inc := w.c, nd.inc
	nd.inhand = r
	inc.nEffects++
	line := efName[r.kind] + " " + r.desc
	w.noteEffect(nd, line)
	c.Logf("n%d %s", nd.idx, line)
	if r.kind == efAppend {
		if strings.HasPrefix(r.desc, "start(h") {
			inc.listening = true
			if r.h != nd.dur.last+1 {
				// tendermint/process.go:18 hands the driver a POINTER to the machine's height; when the height is
				// decided inside ProcessStart the record is written with the next height's label
				c.Probe("net.start_record_mislabelled")
			}
		}
		if w.inTail && nd.dur.last >= w.goal {
			// the validator has completed the goal height of the run: the harness stops it (not a crash)
			c.Logf("n%d reached the goal height %d: stopped", nd.idx, w.goal)
			nd.stopJudged("goal_height_reached")
			nd.retired = true
			w.dropFlightsTo(nd.idx)
			return
		}
	}
	if r.kind == efCommit {
		nd.onDecision(r)
	}
	if a := nd.arm; a != nil && (a.kind < 0 || a.kind == r.kind) {
		if a.count > 0 {
			a.count--
		} else if a.after {
			nd.arm, nd.killNext, nd.killHow = nil, true, a.how
		} else {
			if !inc.listening {
				c.Probe("net.crash_during_recovery")
			}
			if a.how != stopKill {
				nd.windDown(r, a.how, "before", true)
				return
			}
			nd.kill(r, a.during, "before")
			return
		}
	}
	nd.beforeVisible(r)
	nd.released(r)
	nd.inhand = nil
	r.release <- verdict{}
}

// settle releases the drivers' parked effects one at a time until every live driver is idle in its select.
func (w *world) settle() {
	for i := 0; ; i++ {
		synctest.Wait()
		if i > 50000 {
			w.c.Broken("the drivers do not become idle")
		}
		progressed := false
		for _, nd := range w.nodes {
			if nd.up() && nd.killNext {
				if !nd.inc.listening {
					w.c.Probe("net.crash_during_recovery")
				}
				if nd.killHow == stopGracefulCancel {
					nd.windDown(nd.inc.takeParked(), stopGracefulCancel, "after its previous effect,", false)
				} else {
					nd.kill(nd.inc.takeParked(), false, "after its previous effect,")
				}
				progressed = true
				break
			}
		}
		if progressed {
			continue
		}
		for _, nd := range w.nodes {
			if !nd.up() {
				continue
			}
			if r := nd.inc.takeParked(); r != nil {
				w.effect(nd, r)
				progressed = true
				break
			}
		}
		if !progressed {
			w.checkExits()
			return
		}
	}
}

// checkExits: a live driver whose Run returned (or panicked) although nobody stopped it.
func (w *world) checkExits() {
	for _, nd := range w.nodes {
		if !nd.up() {
			continue
		}
		nd.inc.mu.Lock()
		ts := nd.inc.sync
		nd.inc.mu.Unlock()
		if ts != "" {
			w.c.Fail("sync_without_quorum", nd.where(), "the state machine of n%d (height %d) asked for %s although the transport never delivered it precommits of two thirds of the voting power for any value of a future height\nlast effects of n%d: %s", nd.idx, nd.dur.last+1, ts, nd.idx, strings.Join(tail(w.effLog[nd.idx], 12), " ; "))
		}
		select {
		case err := <-nd.inc.done:
			nd.inc.done <- err
			nd.inc.mu.Lock()
			pv, st := nd.inc.panicV, nd.inc.stack
			nd.inc.mu.Unlock()
			if pv != nil {
				fn, inRepo := panicSite(st)
				if !inRepo {
					w.c.Broken("panic in a driver goroutine outside juno's code: %v\n%s", pv, st)
				}
				w.c.Fail("panic", fn, "driver of n%d panicked: %v\n%s", nd.idx, pv, st)
			}
			w.c.Fail(nd.classOf("driver_exit", false), nd.where(), "Driver.Run of n%d returned although the process was not stopped: %v\nlast effects of n%d: %s", nd.idx, err, nd.idx, strings.Join(tail(w.effLog[nd.idx], 20), " ; "))
		default:
		}
	}
}

// panicSite: innermost non-runtime frame below the panic (same rule as sim.panicSite, which is not exported).
func panicSite(st string) (string, bool) {
	lines := strings.Split(st, "\n")
	seen := false
	for i := 0; i+1 < len(lines); i++ {
		l := lines[i]
		if strings.HasPrefix(l, "panic(") || strings.HasPrefix(l, "runtime.gopanic") {
			seen = true
			continue
		}
		if !seen || strings.HasPrefix(l, "\t") || strings.HasPrefix(l, "goroutine ") || l == "" {
			continue
		}
		loc := strings.TrimSpace(lines[i+1])
		if strings.HasPrefix(l, "runtime.") || strings.Contains(loc, "/src/runtime/") {
			continue
		}
		name := l
		if k := strings.LastIndex(name, "("); k > 0 {
			name = name[:k]
		}
		if strings.HasPrefix(loc, "/repo/") {
			return name, true
		}
		if alt := os.Getenv("JSIM_REPO"); alt != "" && strings.HasPrefix(loc, strings.TrimRight(alt, "/")+"/") {
			return name, true
		}
		return name, false
	}
	return "?", false
}

// ---- events ----------------------------------------------------------------------------------------------------------

// fireNextTimer advances the fake clock to the next due timer of a live process; exactly one fires.
func (w *world) fireNextTimer() bool {
	w.mu.Lock()
	if len(w.timers) == 0 {
		w.mu.Unlock()
		return false
	}
	sort.SliceStable(w.timers, func(a, b int) bool { return w.timers[a].due.Before(w.timers[b].due) })
	tm := w.timers[0]
	w.timers = w.timers[1:]
	w.mu.Unlock()
	if d := time.Until(tm.due); d > 0 {
		time.Sleep(d)
	}
	w.c.Logf("timer of n%d fires", tm.inc.nd.idx)
	w.c.Fault("net.timeout_fired")
	return true
}

func (w *world) deliverOne(dl []int, chaos bool) {
	t, c := w.c.T, w.c
	pick := t.Draw("msg", len(dl))
	i := dl[pick]
	f := w.net[i]
	if chaos && (w.lossPct > 0 || w.dupPct > 0) {
		roll := t.Draw("fate", 100)
		switch {
		case roll < w.lossPct:
			w.removeFlight(i)
			c.Logf("drop %s -> n%d", f.m, f.to)
			c.Fault("net.msg_dropped")
			w.faultsSeen = true
			return
		case roll < w.lossPct+w.dupPct:
			c.Logf("deliver (keeping a duplicate) %s -> n%d", f.m, f.to)
			c.Fault("net.msg_duplicated")
			w.faultsSeen = true
			w.deliver(f)
			return
		}
	}
	w.removeFlight(i)
	if pick != 0 {
		c.Fault("net.msg_reordered")
	}
	c.Logf("deliver %s -> n%d", f.m, f.to)
	w.deliver(f)
}

// armCrash plans (or performs) a crash of a live correct validator.
func (w *world) armCrash() bool {
	t, c := w.c.T, w.c
	var cand []*node
	for _, nd := range w.correct() {
		if nd.up() && !nd.retired && nd.arm == nil && !nd.killNext {
			cand = append(cand, nd)
		}
	}
	if len(cand) == 0 || w.crashBudget == 0 {
		return false
	}
	w.crashBudget--
	nd := cand[t.Draw("crash_node", len(cand))]
	a := &arm{kind: -1}
	switch t.Draw("crash_at", 8) {
	case 0:
		a.count = t.Draw("crash_count", 16)
	case 1:
		a.kind, a.count = efFlush, t.Draw("crash_count", 3)
		a.during = t.Draw("crash_inside_flush", 2) == 1
	case 2:
		a.kind, a.count = efBcastProposal+t.Draw("crash_bcast_kind", 3), t.Draw("crash_count", 2)
	case 3:
		a.kind = efCommit
	case 4:
		a.kind = efPrune
	case 5:
		a.kind, a.count = efAppend, t.Draw("crash_count", 6)
	case 6:
		a.count = t.Draw("crash_count", 4)
	default:
		w.faultsSeen = true
		if w.stopKinds && t.Draw("idle_stop_how", 2) == 1 {
			c.Logf("graceful stop of n%d now (idle)", nd.idx)
			nd.windDown(nil, stopGracefulCancel, "while idle,", false)
			return true
		}
		c.Logf("crash of n%d now (idle)", nd.idx)
		nd.kill(nil, false, "while idle,")
		return true
	}
	if !a.during {
		a.after = t.Draw("crash_after", 2) == 1
	}
	// how the process stops there: killed, or one of the stops in which Run returns and the store is closed
	if w.stopKinds && !a.during {
		switch t.Draw("stop_how", 4) {
		case 2:
			a.how = stopGracefulCancel
		case 3:
			a.how = stopGracefulCancel
			if a.kind == efCommit && !a.after {
				a.how = stopListenerFailure
			}
		}
	}
	nd.arm = a
	w.faultsSeen = true
	kind := "any effect"
	if a.kind >= 0 {
		kind = efName[a.kind]
	}
	c.Logf("crash of n%d planned: %s #%d after=%v inside=%v how=%s", nd.idx, kind, a.count, a.after, a.during, stopName[a.how])
	return true
}

func (w *world) restartDue(force bool) bool {
	t, c := w.c.T, w.c
	did := false
	for _, nd := range w.correct() {
		if nd.up() || nd.retired {
			continue
		}
		if force || w.step-nd.downSince >= nd.downFor {
			nd.restart()
			if !force && w.crashBudget > 0 && t.Draw("crash_again_in_recovery", 4) == 3 {
				w.crashBudget--
				nd.arm = &arm{kind: -1, count: t.Draw("crash_count", 8), after: t.Draw("crash_after", 2) == 1}
				c.Logf("crash of n%d planned during its recovery: effect #%d after=%v", nd.idx, nd.arm.count, nd.arm.after)
			}
			w.settle()
			did = true
		}
	}
	return did
}

func (w *world) partition() {
	t, c := w.c.T, w.c
	if t.Draw("partition?", 3) != 0 {
		healed := true
		for i := range w.group {
			w.group[i] = t.Draw("group", 2)
			if w.group[i] != 0 {
				healed = false
			}
		}
		c.Logf("partition groups=%v", w.group)
		if !healed {
			c.Fault("net.partition")
			w.faultsSeen = true
		}
		return
	}
	w.heal()
}

func (w *world) heal() {
	for i := range w.group {
		if w.group[i] != 0 {
			w.c.Logf("heal")
			break
		}
	}
	for i := range w.group {
		w.group[i] = 0
	}
}

// byzantine: one arbitrary message of the Byzantine validator to an arbitrary subset of the correct ones
// (equivocation = several actions for one (height, round) with different contents and recipients).
func (w *world) byzantine() {
	t, c := w.c.T, w.c
	cs := w.correct()
	base := cs[t.Draw("byz.base", len(cs))].dur.last + 1
	h := base
	switch t.Draw("byz.hoff", 6) {
	case 0:
		if h > 1 {
			h--
		}
	case 1:
		h++
	}
	r := types.Round(t.Draw("byz.round", int(w.maxR)+1))
	alpha := []V{{uint64(h)<<16 | 6, 0xb0, 0, 0}, {uint64(h)<<16 | 6 | 0x100, 0xb1, 0, 0} /* invalid: bit 8 set */, {uint64(h)<<16 | 6, 0xb2, 0, 0}}
	seen := map[V]bool{}
	for _, m := range w.history {
		if m.kind == efBcastProposal && m.h == h && !seen[*m.val] {
			seen[*m.val] = true
			alpha = append(alpha, *m.val)
		}
	}
	m := &msg{h: h, r: r, from: w.byz}
	switch t.Draw("byz.kind", 3) {
	case 0:
		v := alpha[t.Draw("byz.val", len(alpha))]
		m.kind, m.val, m.vr = efBcastProposal, &v, types.Round(t.Draw("byz.vr", int(r)+1))-1
		m.desc = fmt.Sprintf("proposal(h%d r%d v=%s vr=%d)", h, r, valStr(&v), m.vr)
		if !fixedValid(v) {
			c.Fault("net.byzantine_invalid_value")
		}
	case 1:
		m.kind = efBcastPrevote
	default:
		m.kind = efBcastPrecommit
	}
	if m.kind != efBcastProposal {
		if t.Draw("byz.nil", 4) != 0 {
			id := alpha[t.Draw("byz.val", len(alpha))].Hash()
			m.id = &id
		}
		m.desc = fmt.Sprintf("%s(h%d r%d id=%s)", efName[m.kind][6:], h, r, idStr(m.id))
	}
	m.seq = len(w.history)
	w.history = append(w.history, m)
	var to []int
	for _, nd := range cs {
		if t.Draw("byz.to", 3) != 0 {
			w.enqueue(m, nd)
			to = append(to, nd.idx)
		}
	}
	c.Logf("byzantine %s to %v", m, to)
	c.Fault("net.byzantine_msg")
	w.faultsSeen = true
}

// chaos: the phase in which faults happen. Ends after `steps` scheduling decisions or as soon as a correct
// validator has completed height capH.
func (w *world) chaos(steps int, capH types.Height) {
	t := w.c.T
	for w.step = 0; w.step < steps; w.step++ {
		w.settle()
		if w.restartDue(false) {
			continue
		}
		if w.maxLast() >= capH {
			return
		}
		dl := w.deliverable()
		ev := t.Draw("event", 32)
		done := false
		switch {
		case ev >= 18 && ev < 22:
			done = w.fireNextTimer()
		case ev == 22 || ev == 23 || ev == 24:
			done = w.armCrash()
		case ev == 25 && w.partOn:
			w.partition()
			done = true
		case (ev == 26 || ev == 27 || ev == 28) && w.byz >= 0:
			w.byzantine()
			done = true
		}
		if done {
			continue
		}
		if len(dl) > 0 {
			w.deliverOne(dl, true)
			continue
		}
		if w.fireNextTimer() {
			continue
		}
		// nothing can happen: bring back a validator that is down, or give up the phase
		if !w.restartDue(true) {
			w.heal()
			if len(w.deliverable()) == 0 {
				return
			}
		}
	}
}

const (
	tailBudget   = 60 * time.Second // simulated time the judged validators have to complete the goal height
	tailMaxSteps = 40000
)

// needsFetcher: some height in (last, top] of the validator has been decided by a correct validator, but cannot
// be completed from messages alone. It can be completed from messages when it was decided in some round whose
// proposer is a correct validator (then the only proposal of that round the validator can ever hold is the
// decided one) and a quorum of precommits for it exists in the transport's history (all of which reach the
// validator in the tail). Anything else - typically a round of a Byzantine proposer who sent this validator
// another proposal, or nothing - needs the block fetcher, which is a stub here.
func (w *world) needsFetcher(nd *node, top types.Height) bool {
	for h := nd.dur.last + 1; h <= top; h++ {
		var dv *V
		for _, o := range w.correct() {
			if v, ok := o.decided[h]; ok {
				dv = &v
				break
			}
		}
		if dv == nil {
			continue // nobody has decided this height: nothing to fetch
		}
		id := dv.Hash()
		ok := false
		for _, p := range w.history {
			if p.kind != efBcastProposal || p.h != h || *p.val != *dv || p.from == w.byz || w.vs.proposerIdx(h, p.r) != p.from {
				continue
			}
			senders := map[int]bool{}
			for _, q := range w.history {
				if q.kind == efBcastPrecommit && q.h == h && q.r == p.r && q.id != nil && *q.id == id {
					senders[q.from] = true
				}
			}
			if w.vs.isQuorum(len(senders)) {
				ok = true
				break
			}
		}
		if !ok {
			return true
		}
	}
	return false
}

// tail: the fault-free tail. Faults stop, every validator is up, the network is reliable (every message is
// delivered; messages of heights a validator has not completed are sent again, as a gossip layer does), timers
// fire. Bounded liveness (E): every judged correct validator completes the goal height within tailBudget of
// simulated time.
func (w *world) tail(extra int) {
	t, c := w.c.T, w.c
	w.settle()
	w.heal()
	for _, nd := range w.correct() {
		nd.arm, nd.killNext = nil, false
	}
	w.crashBudget, w.lossPct, w.dupPct = 0, 0, 0
	w.restartDue(true)
	w.settle()
	w.inTail = true
	top := w.maxLast()
	w.goal = top + 1 + types.Height(extra)
	judged := map[int]bool{}
	nj := 0
	for _, nd := range w.correct() {
		if !w.needsFetcher(nd, top) {
			judged[nd.idx] = true
			nj++
		} else {
			c.Probe("net.liveness_not_judged_needs_block_fetcher")
			c.Inconclusive++
		}
	}
	c.Logf("TAIL goal height %d; judged %d of %d correct validators", w.goal, nj, len(w.correct()))
	c.Probe("net.tail_reached")
	if !w.vs.isQuorum(nj) {
		// fewer than a quorum can take part in the goal height without the block fetcher: nothing to judge
		c.Probe("net.tail_without_quorum_of_judged_validators")
		return
	}
	// gossip: what a validator's current process has not been handed yet is sent again
	for _, nd := range w.correct() {
		for _, m := range w.history {
			if m.from != nd.idx && m.h > nd.dur.last && !nd.got[m] && !w.inFlight(m, nd.idx) {
				w.enqueue(m, nd)
			}
		}
	}
	start := time.Now()
	for w.step = 0; w.step < tailMaxSteps; w.step++ {
		w.settle()
		done := true
		for _, nd := range w.correct() {
			if judged[nd.idx] && nd.dur.last < w.goal {
				done = false
			}
		}
		if done {
			c.Probe("net.tail_goal_height_committed_by_all_judged")
			// how much of the budget was needed (evidence that the budget is generous)
			switch used := time.Since(start); {
			case used < tailBudget/60:
				c.Probe("net.tail_used_under_1_60th_of_budget")
			case used < tailBudget/10:
				c.Probe("net.tail_used_under_1_10th_of_budget")
			case used < tailBudget/2:
				c.Probe("net.tail_used_under_half_of_budget")
			default:
				c.Probe("net.tail_used_over_half_of_budget")
			}
			return
		}
		if dl := w.deliverable(); len(dl) > 0 {
			if len(dl) > 6 {
				dl = dl[:6]
			}
			w.deliverOne(dl, false)
			continue
		}
		if time.Since(start) > tailBudget {
			break
		}
		if !w.fireNextTimer() {
			break
		}
	}
	if w.step >= tailMaxSteps {
		c.Inconclusive++
		c.Probe("net.tail_step_cap")
		return
	}
	for _, nd := range w.correct() {
		if judged[nd.idx] && nd.dur.last < w.goal && w.needsFetcher(nd, w.goal) {
			// the others decided the goal height in a way this validator cannot follow from messages alone
			// (e.g. a Byzantine proposer gave it another proposal for the deciding round): not judged
			c.Probe("net.liveness_not_judged_needs_block_fetcher")
			c.Inconclusive++
			continue
		}
		if judged[nd.idx] && nd.dur.last < w.goal {
			state := "up"
			if !nd.up() {
				state = "DOWN"
			}
			how := "never_crashed"
			if nd.recovered {
				how = "recovered"
			}
			c.Fail(nd.classOf("no_progress", false), nd.where()+"/"+how,
				"fault-free tail: n%d (%s, %d crashes) is at height %d and has not completed the goal height %d after %v of simulated time with all validators up, a reliable network and firing timers\nlast effects of n%d: %s",
				nd.idx, state, nd.crashes, nd.dur.last+1, w.goal, time.Since(start), nd.idx, strings.Join(tail(w.effLog[nd.idx], 30), " ; "))
		}
	}
	_ = t
}

func (w *world) inFlight(m *msg, to int) bool {
	for _, f := range w.net {
		if f.m == m && f.to == to {
			return true
		}
	}
	return false
}

// ---- one run ---------------------------------------------------------------------------------------------------------

func (w *world) cleanup() {
	for _, nd := range w.nodes {
		if nd.up() {
			nd.stop()
		}
	}
	synctest.Wait()
	walworld.Install(nil)
}

// C13 is one simulated run of the network of drivers.
func C13(c *sim.Ctx) {
	t := c.T
	w := &world{c: c, byz: -1, fs: newMountFS(), t0: time.Now(), stopKinds: c.Knobs["stop_kinds"] != "0"}
	// ---- configuration (one early draw decides the class of the run)
	cls := t.Draw("class", 16)
	w.n = 4
	if t.Draw("seven", 4) == 3 {
		w.n = 7
	}
	w.class = "faults"
	switch {
	case cls <= 1:
		w.class = "fault_free"
	case cls == 12 || cls == 13:
		w.appMode = appFresh
	case cls == 14:
		if c.Knobs["volatile_class"] != "0" {
			w.appMode = appVolatile
		}
	}
	w.vs = &valset{n: w.n, stride: 1 + t.Draw("stride", 2), off: t.Draw("proposer_offset", w.n)}
	w.maxR = types.Round(2 + t.Draw("rounds", 3))
	w.causeEvery = []int{1, 2, 5}[t.Draw("cause_check_every", 3)]
	if w.n == 7 {
		w.causeEvery *= 3
	}
	capH := types.Height(1 + t.Draw("chaos_heights", 3))
	if c.Tier == "thorough" {
		capH += types.Height(t.Draw("more_chaos_heights", 3))
	}
	steps := w.n * w.n * (3 + t.Draw("steps", 12))
	extra := 0
	if w.class == "fault_free" {
		extra = t.Draw("heights", 3)
	} else {
		w.crashBudget = []int{1, 1, 2, 2, 3, 4, 0, 1}[t.Draw("crashes", 8)]
		w.lossPct = []int{0, 0, 5, 15}[t.Draw("loss", 4)]
		w.dupPct = []int{0, 3, 10}[t.Draw("dup", 3)]
		w.partOn = t.Draw("partitions", 3) == 2
		if t.Draw("byzantine", 3) == 2 {
			w.byz = t.Draw("byz_node", w.n)
		}
	}
	c.Logf("config class=%s app=%s n=%d byz=%d stride=%d offset=%d chaos_heights=%d steps=%d crashes<=%d loss=%d%% dup=%d%% partitions=%v cause_check_every=%d",
		w.class, appName[w.appMode], w.n, w.byz, w.vs.stride, w.vs.off, capH, steps, w.crashBudget, w.lossPct, w.dupPct, w.partOn, w.causeEvery)

	walworld.Install(w.fs)
	defer w.cleanup()
	defer func() { c.SimNs += int64(time.Since(w.t0)) }()
	w.group = make([]int, w.n)
	w.effLog = make([][]string, w.n)
	for i := 0; i < w.n; i++ {
		nd := &node{w: w, idx: i, byz: i == w.byz, dbPath: fmt.Sprintf("/jsim/n%d/db", i),
			dur:       &appDurable{committed: map[types.Height]V{}, produced: map[H]bool{}},
			sentVotes: map[voteKey]sent{}, sentProps: map[voteKey]sent{}, decided: map[types.Height]V{},
			futPC: map[string]map[int]bool{}, got: map[*msg]bool{}}
		nd.walDir = walstore.DefaultWALDir(nd.dbPath)
		w.nodes = append(w.nodes, nd)
		if nd.byz {
			continue
		}
		nd.disk = walworld.NewDisk(nd.walDir)
		w.fs.mount(nd.mountPoint(), nd.disk)
	}
	for _, nd := range w.correct() {
		// one at a time: a process runs to its first parked effect before the next one starts, so that everything
		// the drivers' goroutines register with the harness (timers) is registered in one order
		nd.start()
		synctest.Wait()
	}
	if w.class != "fault_free" {
		w.chaos(steps, capH)
	}
	w.tail(extra)
	for _, nd := range w.nodes {
		if nd.up() {
			nd.stopJudged("end_of_run")
		}
	}

	all := true
	for _, nd := range w.correct() {
		if nd.dur.last == 0 {
			all = false
		}
	}
	if all {
		c.Probe("net.height_committed_by_all")
	}
	c.Nontrivial = w.commits > 0 && (w.class == "fault_free" || w.recoveredNE)
	c.Sample = map[string]any{"class": w.class, "app": appName[w.appMode], "n": w.n, "byzantine": w.byz >= 0, "crashes": w.crashes,
		"commits": w.commits, "messages": len(w.history), "goal_height": int(w.goal)}
}
