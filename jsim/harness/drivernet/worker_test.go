package drivernet

import (
	"runtime/debug"
	"testing"

	"jsim/sim"
)

func TestWorker(t *testing.T) {
	debug.SetGCPercent(400)
	sim.WorkerMain(t, map[string]sim.Harness{
		"C13": C13,
	}, map[string]sim.Options{
		"C13": {Bubble: true, PanicIsViolation: true},
	})
}
