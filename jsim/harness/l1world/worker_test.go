package l1world

import (
	"testing"

	"jsim/sim"
)

func TestWorker(t *testing.T) {
	sim.WorkerMain(t, map[string]sim.Harness{
		"C17": C17,
	}, map[string]sim.Options{
		"C17": {Bubble: true},
	})
}
