// Package l1world holds the harness of C17: the real l1.Client writing its L1 head through a real
// blockchain.Blockchain, driven by a scripted Ethereum node (the L1StateProvider seam) inside one
// synctest bubble. Every seam call of the client parks; the scheduler releases one thing per
// quiescence (answer a call, deliver one log, kill the subscription, advance the fake clock,
// mutate the model L1 chain) and evaluates the oracle after every quiescence.
//
// In a fraction of the adapter runs (config.prodFilter) the catch-up scan's FilterStateUpdate is
// answered by the PRODUCTION code: a GethL1StateProvider (built as NewGethL1StateProvider does,
// minus the dialled ethclient) over contract.NewStarknetFilterer over a fake bind.ContractFilterer
// (ethNode). The seam call then parks one layer further down, inside ContractFilterer.FilterLogs,
// and is answered with the canonical LogStateUpdate logs of the range as go-ethereum types.Log
// values (topic / ABI data as the contract emits them); bind.BoundContract.FilterLogs, its
// event.NewSubscription goroutine and channel, contract.FilterLogStateUpdate, UnpackLog and
// stateUpdateFromGethContract all run on the way back to the client.
package l1world

import (
	"context"
	"errors"
	"fmt"
	"math/big"
	"sync"
	"testing/synctest"
	"time"

	"github.com/NethermindEth/juno/blockchain"
	"github.com/NethermindEth/juno/blockchain/networks"
	"github.com/NethermindEth/juno/core"
	"github.com/NethermindEth/juno/core/felt"
	"github.com/NethermindEth/juno/db"
	"github.com/NethermindEth/juno/db/memory"
	"github.com/NethermindEth/juno/l1"
	"github.com/NethermindEth/juno/l1/geth/contract"
	"github.com/NethermindEth/juno/utils/log"

	ethereum "github.com/ethereum/go-ethereum"
	"github.com/ethereum/go-ethereum/common"
	"github.com/ethereum/go-ethereum/core/types"
	"github.com/ethereum/go-ethereum/crypto"
	"github.com/ethereum/go-ethereum/event"

	"jsim/faultdb"
	"jsim/sim"
)

// ---- model of the Ethereum chain ---------------------------------------------------------------

// mlog is one LogStateUpdate of the model L1 chain (canonical or orphaned).
type mlog struct {
	uid      int
	l1       uint64 // Ethereum block number
	idx      int    // position within the Ethereum block
	l2       uint64
	hash     felt.Felt
	root     felt.Felt
	orphaned bool // its block was reorged out

	// what the client of the current run has been told about it
	delivered bool // handed to the client (subscription or filter query)
	seq       int  // sequence number of the (last) delivery
	removed   bool // a removal notice for it has been handed to the client
	rmQueued  bool // a removal notice is queued and not yet handed over
	inFlight  bool // orphaned while still waiting in the subscription queue; goes out, then its removal

	// the same over all client instances of the run (a restarted client starts from nothing, the
	// stored head survives in the database)
	everDelivered bool
	everRemoved   bool
}

func (l *mlog) inD() bool { return l.delivered && !l.removed }

func (l *mlog) String() string {
	return fmt.Sprintf("log#%d(l1=%d.%d l2=%d h=%s)", l.uid, l.l1, l.idx, l.l2, l.hash.ShortString())
}

type mblock struct {
	num  uint64
	logs []*mlog
}

// qev is one pending subscription notification.
type qev struct {
	lg       *mlog
	removed  bool
	spurious bool // removal notice for a log the client never received (geth sends those too)
}

// ---- seam --------------------------------------------------------------------------------------

type req struct {
	id       int
	kind     string // chainid | latest | finalised | filter | watch
	from, to uint64
	ch       chan resp
	t0       time.Time
	timeout  time.Duration // the client's per-call deadline (hard-wired in l1.go)
	finAt    uint64        // model values when the call was made (for stale answers)
	latestAt uint64
	probe    bool // finalised: the catch-up's probe (its value does not drive a head update)
	tickCall bool // finalised: first call of a setL1Head started by a poll tick
	updates  chan<- *l1.StateUpdate
}

type resp struct {
	err  error
	u64  uint64
	logs []*l1.StateUpdate
	sub  l1.Subscription
	id   *big.Int
	// production scan path: the eth_getLogs answer below go-ethereum's binding
	ethLogs []types.Log
}

type subscription struct {
	w     *world
	n     int
	errCh chan error
	live  bool // scheduler side: events may be delivered through it
	once  sync.Once
	// notifications that were on their way when the subscription failed: they reach the sink while
	// the client tears the subscription down (inside Unsubscribe), i.e. after it has picked up the
	// error and before Unsubscribe returns
	late []*l1.StateUpdate

	// adapter mode: the client holds the production forwarder's subscription instead of this
	// object; notifications and the failure enter below the adapter
	gethCh  chan *contract.StarknetLogStateUpdate
	gethErr chan error
}

func (s *subscription) Err() <-chan error { return s.errCh }

func (s *subscription) Unsubscribe() {
	s.once.Do(func() {
		s.w.mu.Lock()
		defer s.w.mu.Unlock()
		s.live = false
		close(s.errCh) // as go-ethereum's event.Subscription does
		if !s.w.closing {
			n := s.pushLate()
			if n > 0 {
				s.w.logf("client: unsubscribe sub#%d (%d late notifications reach the sink)", s.n, n)
			} else {
				s.w.logf("client: unsubscribe sub#%d", s.n)
			}
		}
	})
}

// pushLate puts the late notifications into the sink; called with w.mu held.
func (s *subscription) pushLate() int {
	n := 0
	for _, su := range s.late {
		select {
		case s.w.updates <- su:
			n++
		default:
			panic("l1world: sink full for late notifications")
		}
	}
	s.late = nil
	return n
}

type provider struct{ w *world }

var (
	errScripted = errors.New("scripted L1 failure")
	errSubDied  = errors.New("scripted subscription failure")
)

func (p *provider) park(ctx context.Context, kind string, from, to uint64, timeout time.Duration, updates chan<- *l1.StateUpdate) resp {
	w := p.w
	w.mu.Lock()
	if w.closing {
		w.mu.Unlock()
		err := ctx.Err()
		if err == nil {
			err = errScripted
		}
		return resp{err: err}
	}
	if w.parked != nil {
		w.mu.Unlock()
		panic("l1world: two seam calls parked at once")
	}
	w.nreq++
	r := &req{
		id: w.nreq, kind: kind, from: from, to: to, ch: make(chan resp, 1), t0: time.Now(), timeout: timeout,
		finAt: w.fin, latestAt: w.latest(), updates: updates,
	}
	if kind == "finalised" && w.lastKind == "latest" && w.lastOK {
		r.probe = true
	}
	if kind == "finalised" && !r.probe && w.catchupDone && !(w.lastFail && w.lastKind == "finalised") {
		// first call of a setL1Head started by a poll tick: the client has just taken a tick
		// out of its ticker's one-element buffer
		r.tickCall = true
		w.tickTakenAt = r.t0
	}
	w.parked = r
	w.lastFail = false
	switch kind {
	case "filter":
		w.logf("client: call#%d filter[%d,%d]", r.id, from, to)
	default:
		w.logf("client: call#%d %s", r.id, kind)
	}
	w.mu.Unlock()

	select {
	case x := <-r.ch:
		return x
	case <-ctx.Done():
		w.mu.Lock()
		defer w.mu.Unlock()
		if w.parked == r {
			w.parked = nil
		}
		if !w.closing {
			w.lastKind, w.lastOK = kind, false
			w.lastFail, w.lastFailAt = true, time.Now()
			w.timeouts = append(w.timeouts, kind)
			w.logf("client: call#%d %s abandoned (%v) at +%s", r.id, kind, ctx.Err(), w.rel())
		}
		return resp{err: ctx.Err()}
	}
}

const (
	heightTimeout = 30 * time.Second // l1.go: chainIDCheckTimeout, heightCallTimeout, finalisedHeightTimeout
	filterTimeout = 60 * time.Second // l1.go: filterCallTimeout
)

func (p *provider) ChainID(ctx context.Context) (*big.Int, error) {
	r := p.park(ctx, "chainid", 0, 0, heightTimeout, nil)
	return r.id, r.err
}

func (p *provider) FinalisedHeight(ctx context.Context) (uint64, error) {
	r := p.park(ctx, "finalised", 0, 0, heightTimeout, nil)
	return r.u64, r.err
}

func (p *provider) LatestHeight(ctx context.Context) (uint64, error) {
	r := p.park(ctx, "latest", 0, 0, heightTimeout, nil)
	return r.u64, r.err
}

func (p *provider) WatchStateUpdate(ctx context.Context, ch chan<- *l1.StateUpdate) (l1.Subscription, error) {
	r := p.park(ctx, "watch", 0, 0, 0, ch)
	if r.err != nil {
		return nil, r.err
	}
	return r.sub, nil
}

func (p *provider) FilterStateUpdate(ctx context.Context, from, to uint64) ([]*l1.StateUpdate, error) {
	if p.w.cfg.prodFilter {
		// the production provider; the call parks inside ethNode.FilterLogs
		out, err := p.w.prod.FilterStateUpdate(ctx, from, to)
		p.w.scanReturned(from, to, out, err)
		return out, err
	}
	r := p.park(ctx, "filter", from, to, filterTimeout, nil)
	return r.logs, r.err
}

func (p *provider) Close() {}

// ---- production log-query path: the fake Ethereum node below go-ethereum's contract binding -----

var (
	// the contract the production provider is bound to (node.go: network.CoreContractAddress)
	coreContract = common.Address(networks.Sepolia.CoreContractAddress)
	// topic 0 of `event LogStateUpdate(uint256 globalRoot, int256 blockNumber, uint256 blockHash)`,
	// computed from the Solidity signature, not taken from the binding under test
	logStateUpdateTopic = crypto.Keccak256Hash([]byte("LogStateUpdate(uint256,int256,uint256)"))
)

// ethNode is the bind.ContractFilterer the production StarknetFilterer talks to: eth_getLogs of
// the simulated L1 node. The call parks on the same seam as the stub's FilterStateUpdate, so the
// scheduler answers it, fails it (filter_fail_chunk) or lets it run into the client's deadline.
type ethNode struct{ w *world }

func (n *ethNode) FilterLogs(ctx context.Context, q ethereum.FilterQuery) ([]types.Log, error) {
	// the query go-ethereum's binding must have built for FilterLogStateUpdate(Start, End): a real
	// node answers exactly what is asked, the model answers [from, to] for this contract and event
	ok := q.BlockHash == nil && q.FromBlock != nil && q.FromBlock.IsUint64() && q.ToBlock != nil && q.ToBlock.IsUint64() &&
		len(q.Addresses) == 1 && q.Addresses[0] == coreContract &&
		len(q.Topics) == 1 && len(q.Topics[0]) == 1 && q.Topics[0][0] == logStateUpdateTopic
	if !ok {
		n.w.mu.Lock()
		if n.w.scanBroken == "" {
			n.w.scanBroken = fmt.Sprintf("eth_getLogs query is not the LogStateUpdate query of the core contract over a block range: %+v", q)
		}
		n.w.mu.Unlock()
		return nil, errScripted
	}
	r := n.w.provider().park(ctx, "filter", q.FromBlock.Uint64(), q.ToBlock.Uint64(), filterTimeout, nil)
	return r.ethLogs, r.err
}

func (n *ethNode) SubscribeFilterLogs(context.Context, ethereum.FilterQuery, chan<- types.Log) (ethereum.Subscription, error) {
	// the live subscription stays on the WatchStateUpdate seam (forwardStateUpdates above it)
	n.w.mu.Lock()
	if n.w.scanBroken == "" {
		n.w.scanBroken = "SubscribeFilterLogs called on the fake Ethereum node"
	}
	n.w.mu.Unlock()
	return nil, errScripted
}

func (w *world) provider() *provider { return &provider{w} }

// ethLog is the commit as eth_getLogs returns it: address, topic 0 = event signature hash, data =
// the three non-indexed arguments as 32-byte big-endian words.
func ethLog(lg *mlog) types.Log {
	root, hash := lg.root.Bytes(), lg.hash.Bytes()
	var num [32]byte
	new(big.Int).SetUint64(lg.l2).FillBytes(num[:]) // int256, non-negative
	data := make([]byte, 0, 96)
	data = append(data, root[:]...)
	data = append(data, num[:]...)
	data = append(data, hash[:]...)
	var bh, th common.Hash
	new(big.Int).SetUint64(0xb10c0000 + lg.l1).FillBytes(bh[:])
	new(big.Int).SetUint64(0x7c000000 + uint64(lg.uid)).FillBytes(th[:])
	return types.Log{
		Address: coreContract, Topics: []common.Hash{logStateUpdateTopic}, Data: data,
		BlockNumber: lg.l1, BlockHash: bh, TxHash: th, TxIndex: uint(lg.idx), Index: uint(lg.idx),
	}
}

func sameUpdate(a, b *l1.StateUpdate) bool {
	return a != nil && b != nil && a.L2BlockNumber == b.L2BlockNumber && a.L2BlockHash.Equal(&b.L2BlockHash) &&
		a.StateRoot.Equal(&b.StateRoot) && a.L1RefHeight == b.L1RefHeight && a.Removed == b.Removed
}

// scanReturned runs in the client's goroutine when the production FilterStateUpdate returns. The
// reference set D already holds what the node answered (booked when the call was answered); the
// head oracle judges the consequence of any difference. Here a difference is only written into the
// trace, so that the replay shows where the client's view parted from the node's answer. Nothing
// is logged when the result is the node's answer (always, unless the code under test is broken).
func (w *world) scanReturned(from, to uint64, out []*l1.StateUpdate, err error) {
	w.mu.Lock()
	defer w.mu.Unlock()
	if w.closing || !w.scanAnswered || w.scanFrom != from || w.scanTo != to {
		return
	}
	w.scanAnswered = false
	if err != nil {
		w.logf("client: production FilterStateUpdate[%d,%d] failed although the node answered %d logs", from, to, len(w.scanWant))
		return
	}
	diff := -1
	for i := 0; i < len(out) || i < len(w.scanWant); i++ {
		if i >= len(out) || i >= len(w.scanWant) || !sameUpdate(out[i], w.scanWant[i]) {
			diff = i
			break
		}
	}
	if diff >= 0 {
		w.logf("client: production FilterStateUpdate[%d,%d] handed over %d logs, the node answered %d (first difference at position %d)", from, to, len(out), len(w.scanWant), diff)
	}
}

// ---- world -------------------------------------------------------------------------------------

type config struct {
	faulty      bool
	chunk       uint64
	poll, resub time.Duration
	steps       int
	subKill     bool
	watchFail   bool
	finFail     bool
	latestFail  bool
	filterFail  bool
	chainIDFail bool
	timeouts    bool
	reorgs      bool
	jumps       bool
	spurious    bool // also send removal notices for reorged logs the client never got (as geth does)
	rmReverse   bool // removal notices of one reorg in descending block order
	stale       bool // answer height calls with the value as of the time of the call
	resubmit    bool // a reorged-out commit may re-appear with identical content on the new fork
	restarts    bool // the node may be restarted: a new l1.Client on the same database
	bursts      bool // several notifications (and possibly the subscription error) pile up while the client is busy
	keepQueued  bool // a reorg leaves queued logs of the old fork in the queue, followed by their removals
	adapter     bool // notifications and filter results pass through the production go-ethereum adapter
	dbFail      bool // a write of the L1 head record may fail (database fault): the failing call reports it, nothing is recorded
	prodFilter  bool // adapter runs only: the catch-up scan's log query runs through the production GethL1StateProvider.FilterStateUpdate
	maxBlocks   int
}

type world struct {
	c   *sim.Ctx
	cfg config
	mu  sync.Mutex // guards everything below that the client's goroutine touches through the seam

	start   time.Time
	closing bool

	// the running client instance
	chain    *blockchain.Blockchain
	inst     int
	cancel   context.CancelFunc
	joined   chan struct{}
	done     chan error
	restarts int

	// database under the node: one write of the L1 head record may be made to fail
	fdb           *faultdb.DB
	firedSeen     int
	dbFails       int
	writeFailed   bool // the injected write error fired since the previous quiescent point
	died          bool // ... and the client's Run returned that error (the node stops; it is restarted)
	staleByFault  bool // a head write failed and no head has been recorded since

	// model chain
	blocks  []*mblock // index = Ethereum block number; block 0 has no logs
	all     []*mlog   // every log ever created, by uid
	fin     uint64    // model finalised height (monotone)
	nextL2  uint64    // next Starknet block number on the canonical chain
	baseL2  uint64    // Starknet block number of the first commit
	reorgsN int

	// subscription side
	queue    []qev
	sub      *subscription
	nsubs    int
	instSubs int // subscriptions of the current client instance
	updates  chan<- *l1.StateUpdate
	seq      int

	// client state as seen through the seam
	nreq        int
	parked      *req
	lastKind    string
	lastOK      bool
	lastFail    bool
	lastFailAt  time.Time
	timeouts    []string // kinds of calls abandoned since the last quiescence
	tickStart   time.Time
	ticking     bool
	tickTakenAt time.Time // when the client last took a tick out of its ticker
	bursts      int

	lastBooked        *mlog
	lastBookedRemoved bool

	// production scan path
	prod         *l1.GethL1StateProvider
	scanBroken   string            // the fake Ethereum node was asked something it does not model (machinery)
	scanAnswered bool              // an eth_getLogs answer is on its way up through the production code
	scanFrom     uint64            // its range
	scanTo       uint64            //
	scanWant     []*l1.StateUpdate // what the node answered, in the client's terms
	prodScans    int

	// catch-up bookkeeping
	chunksOK       int
	catchupLogs    int
	catchupDone    bool
	reorgInCatchup bool

	// oracle state
	told        uint64 // F: largest finalised height returned to the client
	toldAny     bool
	expectEq    bool   // a setL1Head has completed since the last quiescence
	expectF     uint64 // the finalised height that setL1Head was given
	expectWhere string
	hooks       []core.L1Head // OnNewL1Head calls since the last quiescence
	prevSet     bool
	prev        core.L1Head
	headsSet    int
	eqChecks    int
	headSubs    int // subscription count at the time of the last head change
}

func (w *world) rel() time.Duration { return time.Since(w.start) }

func (w *world) logf(format string, a ...any) { w.c.Logf(format, a...) }

func (w *world) latest() uint64 { return uint64(len(w.blocks) - 1) }

func feltOf(a, b uint64) felt.Felt {
	var f felt.Felt
	f.SetUint64(a)
	var g felt.Felt
	g.SetUint64(b)
	var sh felt.Felt
	sh.SetUint64(1 << 32)
	f.Mul(&f, &sh)
	f.Add(&f, &g)
	return f
}

// newLog appends a fresh commit to block b, numbering Starknet blocks consecutively.
func (w *world) newLog(b *mblock, copyOf *mlog) *mlog {
	lg := &mlog{uid: len(w.all) + 1, l1: b.num, idx: len(b.logs), l2: w.nextL2}
	if copyOf != nil && copyOf.l2 == w.nextL2 {
		lg.hash, lg.root = copyOf.hash, copyOf.root
	} else {
		lg.hash = feltOf(0xb10c, uint64(lg.uid))
		lg.root = feltOf(0x5007, uint64(lg.uid))
	}
	w.nextL2++
	b.logs = append(b.logs, lg)
	w.all = append(w.all, lg)
	return lg
}

func (w *world) logsDraw(label string) int {
	return [...]int{0, 1, 0, 1, 2, 3, 0, 1}[w.c.T.Draw(label, 8)]
}

// mine appends one canonical block; its logs go to the live subscription, if any.
func (w *world) mine(nlogs int, orphanPool []*mlog) *mblock {
	b := &mblock{num: uint64(len(w.blocks))}
	w.blocks = append(w.blocks, b)
	for i := 0; i < nlogs; i++ {
		var cp *mlog
		if w.cfg.resubmit {
			for _, o := range orphanPool {
				if o.l2 == w.nextL2 {
					cp = o
				}
			}
		}
		lg := w.newLog(b, cp)
		if w.sub != nil && w.sub.live {
			w.queue = append(w.queue, qev{lg: lg})
		}
	}
	return b
}

// finCap is the highest value the model finalised height may take now: never above the tip and,
// because the L1 node is assumed well-behaved, never at or above a block for which it still owes
// the client a removal notice (it does not report a fork finalised before having reported the
// reorg that created it).
func (w *world) finCap() uint64 {
	cap := w.latest()
	for _, e := range w.queue {
		if e.removed && !e.spurious && e.lg.l1 <= cap {
			if e.lg.l1 == 0 {
				return w.fin
			}
			cap = e.lg.l1 - 1
		}
	}
	if cap < w.fin {
		cap = w.fin
	}
	return cap
}

func (w *world) reorg() {
	t := w.c.T
	latest := w.latest()
	span := int(latest - w.fin) // blocks fin+1..latest may go
	depth := 1 + t.Draw("reorg.depth", min(span, 6))
	fork := latest + 1 - uint64(depth) // first replaced block number, > fin
	old := w.blocks[fork:]
	w.blocks = w.blocks[:fork]
	// the Starknet numbering continues from the last commit that stays canonical
	w.nextL2 = w.baseL2
	for _, b := range w.blocks {
		for _, lg := range b.logs {
			w.nextL2 = lg.l2 + 1
		}
	}
	var gone []*mlog
	for _, b := range old {
		for _, lg := range b.logs {
			lg.orphaned = true
			gone = append(gone, lg)
		}
	}
	// logs of the old fork still waiting in the subscription queue are never sent (geth would send
	// them and then their removal; dropping both is the same stream with the pair elided)
	kept := w.queue[:0]
	for _, e := range w.queue {
		if !e.removed && e.lg.orphaned && !e.lg.inFlight {
			if w.cfg.keepQueued {
				// as geth: the log still goes out, its removal follows (queued below)
				e.lg.inFlight = true
			} else {
				continue
			}
		}
		kept = append(kept, e)
	}
	w.queue = kept
	order := gone
	if w.cfg.rmReverse {
		order = nil
		for i := len(gone) - 1; i >= 0; i-- {
			order = append(order, gone[i])
		}
	}
	subLive := w.sub != nil && w.sub.live
	nrm := 0
	for _, lg := range order {
		switch {
		case (lg.delivered || lg.inFlight) && !lg.removed && !lg.rmQueued:
			lg.rmQueued = true
			w.queue = append(w.queue, qev{lg: lg, removed: true})
			nrm++
		case !lg.delivered && w.cfg.spurious && subLive:
			w.queue = append(w.queue, qev{lg: lg, removed: true, spurious: true})
		}
	}
	newLen := depth - 1 + t.Draw("reorg.len", 3) // depth-1 .. depth+1
	if newLen < 1 {
		newLen = 1
	}
	for len(w.blocks)+newLen > w.cfg.maxBlocks+1 && newLen > 1 {
		newLen--
	}
	nnew := 0
	for i := 0; i < newLen; i++ {
		b := w.mine(w.logsDraw("reorg.logs"), gone)
		nnew += len(b.logs)
	}
	w.reorgsN++
	w.c.Fault("l1_reorg")
	if !w.catchupDone && w.nreq > 0 {
		w.reorgInCatchup = true
	}
	w.logf("env: reorg from l1=%d (old tip %d, %d logs orphaned, %d removals owed) new tip %d with %d logs", fork, latest, len(gone), nrm, w.latest(), nnew)
}

// ---- oracle ------------------------------------------------------------------------------------

// modelHead is the element of D with the highest Ethereum block <= F, the last one within that
// block; nil if there is none.
func (w *world) modelHead(F uint64) *mlog {
	var best *mlog
	for _, lg := range w.all {
		if !lg.inD() || lg.l1 > F {
			continue
		}
		if best == nil || lg.l1 > best.l1 || (lg.l1 == best.l1 && lg.seq > best.seq) {
			best = lg
		}
	}
	return best
}

func same(h *core.L1Head, lg *mlog) bool {
	return h.BlockNumber == lg.l2 && h.BlockHash != nil && h.StateRoot != nil &&
		h.BlockHash.Equal(&lg.hash) && h.StateRoot.Equal(&lg.root)
}

func headStr(set bool, h *core.L1Head) string {
	if !set {
		return "unset"
	}
	hs, rs := "nil", "nil"
	if h.BlockHash != nil {
		hs = h.BlockHash.ShortString()
	}
	if h.StateRoot != nil {
		rs = h.StateRoot.ShortString()
	}
	return fmt.Sprintf("l2=%d h=%s r=%s", h.BlockNumber, hs, rs)
}

// observe runs at every quiescence.
func (w *world) observe(feedCh <-chan *core.L1Head) {
	chain, done := w.chain, w.done
	c := w.c
	w.mu.Lock()
	defer w.mu.Unlock()
	w.writeFailed = false
	if n := len(w.fdb.Fired); n > w.firedSeen {
		// the armed write of the L1 head record failed: Blockchain.SetL1Head returned the error
		w.firedSeen = n
		w.writeFailed, w.staleByFault = true, true
		c.Fault("l1head_write_error")
		w.logf("env: the write of the L1 head record failed (injected)")
	}
	w.fdb.Plan.FailWriteAt = 0
	select {
	case err := <-done:
		if !(w.writeFailed && err != nil) {
			c.Broken("l1.Client.Run returned before the run ended: %v", err)
		}
		// the live poll reports a failed head write and the client stops with it: the node goes down
		w.died = true
		w.logf("client: Run returned the write error (instance %d stops)", w.inst)
	default:
	}
	if w.scanBroken != "" {
		c.Broken("production scan path: %s", w.scanBroken)
	}
	for _, k := range w.timeouts {
		c.Fault("call_timeout")
		if k == "finalised" {
			c.Fault("finalised_fail")
		}
	}
	w.timeouts = w.timeouts[:0]

	stored, err := chain.L1Head()
	set := true
	if errors.Is(err, db.ErrKeyNotFound) {
		set = false
	} else if err != nil {
		c.Broken("Blockchain.L1Head: %v", err)
	}

	// what the node announced must be what it recorded
	var fed *core.L1Head
	select {
	case fed = <-feedCh:
	default:
	}
	if len(w.hooks) > 1 {
		c.Broken("more than one head update (%d) between two quiescent points", len(w.hooks))
	}
	for i := range w.hooks {
		h := &w.hooks[i]
		w.headsSet++
		if !set || !(stored.BlockNumber == h.BlockNumber && stored.BlockHash.Equal(h.BlockHash) && stored.StateRoot.Equal(h.StateRoot)) {
			c.Fail("announced_differs", "listener", "OnNewL1Head announced %s but Blockchain.L1Head() is %s", headStr(true, h), headStr(set, &stored))
		}
	}
	if fed != nil && !w.writeFailed {
		// (Blockchain.SetL1Head publishes before it writes: after a failed write the feed carried a head
		// that was not recorded; the statement speaks about the recorded head only)
		if !set || !(stored.BlockNumber == fed.BlockNumber && stored.BlockHash.Equal(fed.BlockHash) && stored.StateRoot.Equal(fed.StateRoot)) {
			c.Fail("announced_differs", "feed", "L1-head feed carried %s but Blockchain.L1Head() is %s", headStr(true, fed), headStr(set, &stored))
		}
	}
	w.hooks = w.hooks[:0]

	changed := set != w.prevSet || (set && !(stored.BlockNumber == w.prev.BlockNumber && stored.BlockHash.Equal(w.prev.BlockHash) && stored.StateRoot.Equal(w.prev.StateRoot)))
	if changed {
		w.logf("obs: stored head %s -> %s (F told %d)", headStr(w.prevSet, &w.prev), headStr(set, &stored), w.told)
	}

	// I3: never back to an older Starknet block, never back to unset
	if w.prevSet && !set {
		c.Fail("l2_regress", "unset", "stored head went from %s to unset", headStr(true, &w.prev))
	}
	if w.prevSet && set && stored.BlockNumber < w.prev.BlockNumber {
		c.Fail("l2_regress", "older_block", "stored head went from %s to %s", headStr(true, &w.prev), headStr(true, &stored))
	}

	// I1 + I2: the stored head is a delivered, not-removed commit at or below F
	if set {
		var inD, inDBelow, wasRemoved, undelivered *mlog
		for _, lg := range w.all {
			if !same(&stored, lg) {
				continue
			}
			in := lg.everDelivered && !lg.everRemoved
			switch {
			case in && w.toldAny && lg.l1 <= w.told:
				inDBelow = lg
			case in:
				inD = lg
			case lg.everDelivered:
				wasRemoved = lg
			default:
				undelivered = lg
			}
		}
		switch {
		case inDBelow != nil:
		case inD != nil:
			c.Fail("above_finalised", "stored_head", "stored head %s is %v, above the largest finalised height told to the client (%d, any=%v)", headStr(true, &stored), inD, w.told, w.toldAny)
		case wasRemoved != nil:
			c.Fail("head_not_in_D", "removed", "stored head %s is %v, which the L1 node reported as removed", headStr(true, &stored), wasRemoved)
		case undelivered != nil:
			c.Fail("head_not_in_D", "undelivered", "stored head %s is %v, which was never delivered to the client", headStr(true, &stored), undelivered)
		default:
			c.Fail("head_not_in_D", "unknown", "stored head %s matches no commit of the model L1 chain", headStr(true, &stored))
		}
	}

	// equality at the points the code defines as up to date: a setL1Head has just completed
	if w.writeFailed {
		w.expectEq = false // that setL1Head did not complete
	}
	if changed && set {
		w.staleByFault = false
	}
	if w.expectEq {
		w.expectEq = false
		w.eqChecks++
		c.Evals++
		want := w.modelHead(w.expectF)
		if w.staleByFault {
			// told apart from every other cause: the last attempt to record a head failed in the database
			w.expectWhere += "_after_failed_head_write"
		}
		switch {
		case want == nil && w.inst > 1:
			// a restarted client that was handed no finalised commit leaves the head it found
		case want == nil && set:
			// covered by I1/I2 above (a stored head always has a witness in D at or below F) unless
			// it was stored earlier; with F monotone and D never losing finalised elements this
			// cannot be reached, keep it as a violation of the equality
			c.Fail("head_differs", w.expectWhere+"_expected_unset", "after setL1Head with finalised=%d no delivered commit lies at or below it, but stored head is %s", w.expectF, headStr(true, &stored))
		case want != nil && !set:
			c.Fail("head_differs", w.expectWhere+"_unset", "after setL1Head with finalised=%d stored head is unset, expected %v", w.expectF, want)
		case want != nil && !same(&stored, want):
			c.Fail("head_differs", w.expectWhere, "after setL1Head with finalised=%d stored head is %s, expected %v", w.expectF, headStr(true, &stored), want)
		}
		// probes
		if want == nil {
			some := false
			for _, lg := range w.all {
				if lg.inD() {
					some = true
				}
			}
			if some {
				c.Probe("finalised_below_all_events")
			}
		} else {
			n := 0
			for _, lg := range w.all {
				if lg.inD() && lg.l1 == want.l1 {
					n++
				}
			}
			if n >= 2 {
				c.Probe("head_is_last_of_several_in_block")
			}
			if want.l1 == w.expectF {
				c.Probe("head_exactly_at_finalised_height")
			}
			if changed {
				for _, lg := range w.all {
					if lg != want && lg.removed && same(&stored, lg) {
						c.Probe("head_content_also_on_removed_fork")
					}
				}
			}
		}
		if w.expectWhere == "catchup" {
			if changed {
				c.Probe("head_from_catchup")
				if w.cfg.chunk == 1 && w.chunksOK >= 2 {
					c.Probe("catchup_chunk1_multi")
				}
				if w.chunksOK >= 2 {
					c.Probe("catchup_multi_chunk")
				}
			}
			if w.reorgInCatchup {
				c.Probe("reorg_during_catchup")
			}
			if w.inst > 1 && w.prevSet {
				c.Probe("catchup_with_existing_head")
				if changed {
					c.Probe("head_moved_by_restart_catchup")
				}
			}
		}
	}
	if changed {
		if w.prevSet {
			c.Probe("head_moved_again")
		}
		if w.instSubs >= 2 && w.catchupDone {
			c.Probe("head_update_after_resubscribe")
		}
		if w.reorgsN > 0 {
			c.Probe("head_update_after_reorg")
		}
		w.prevSet, w.prev = set, stored
	}
}

// ---- scheduler ---------------------------------------------------------------------------------

type option struct {
	name   string
	weight int
	do     func()
}

func (w *world) answerOK(r *req) {
	c := w.c
	w.parked = nil
	w.lastKind, w.lastOK, w.lastFail = r.kind, true, false
	var x resp
	switch r.kind {
	case "chainid":
		x.id = new(big.Int).Set(networks.Sepolia.L1ChainID)
		w.logf("env: answer#%d chainid ok", r.id)
	case "latest":
		x.u64 = w.latest()
		if w.cfg.stale && c.T.Chance("stale", 1, 3) {
			x.u64 = r.latestAt
		}
		w.logf("env: answer#%d latest=%d", r.id, x.u64)
	case "finalised":
		x.u64 = w.fin
		if w.cfg.stale && c.T.Chance("stale", 1, 3) {
			x.u64 = r.finAt
		}
		if x.u64 > w.told || !w.toldAny {
			w.told = x.u64
		}
		w.toldAny = true
		if r.probe {
			w.logf("env: answer#%d finalised=%d (catch-up probe)", r.id, x.u64)
		} else {
			w.expectEq, w.expectF = true, x.u64
			w.expectWhere = "tick"
			if !w.catchupDone {
				w.expectWhere = "catchup"
			}
			w.logf("env: answer#%d finalised=%d", r.id, x.u64)
		}
	case "filter":
		n := 0
		w.scanWant = nil
		for num := r.from; num <= r.to && num <= w.latest(); num++ {
			for _, lg := range w.blocks[num].logs {
				w.seq++
				lg.delivered, lg.everDelivered, lg.seq = true, true, w.seq
				if w.cfg.prodFilter {
					x.ethLogs = append(x.ethLogs, ethLog(lg))
					w.scanWant = append(w.scanWant, &l1.StateUpdate{L2BlockNumber: lg.l2, L2BlockHash: lg.hash, StateRoot: lg.root, L1RefHeight: lg.l1})
				} else {
					x.logs = append(x.logs, w.stateUpdate(lg, false))
				}
				n++
			}
		}
		w.chunksOK++
		w.catchupLogs += n
		if w.cfg.prodFilter {
			w.scanAnswered, w.scanFrom, w.scanTo = true, r.from, r.to
			w.prodScans++
			c.Probe("production_filter_scan")
			if n > 0 {
				c.Probe("production_filter_scan_nonempty")
			}
			if n >= 2 {
				c.Probe("production_filter_scan_several_logs")
			}
			w.logf("env: answer#%d eth_getLogs[%d,%d] -> %d logs (production FilterStateUpdate above)", r.id, r.from, r.to, n)
		} else {
			w.logf("env: answer#%d filter[%d,%d] -> %d logs", r.id, r.from, r.to, n)
		}
	case "watch":
		w.nsubs++
		w.instSubs++
		w.sub = &subscription{w: w, n: w.nsubs, errCh: make(chan error, 1), live: true}
		w.updates = r.updates
		x.sub = w.sub
		if w.cfg.adapter {
			s := w.sub
			s.gethCh = make(chan *contract.StarknetLogStateUpdate, 64) // watchForwarderBuffer
			s.gethErr = make(chan error, 1)
			gethErr := s.gethErr
			gethSub := event.NewSubscription(func(quit <-chan struct{}) error {
				select {
				case err := <-gethErr:
					return err
				case <-quit:
					return nil
				}
			})
			x.sub = l1.JsimForwardStateUpdates(gethSub, s.gethCh, r.updates)
		}
		w.catchupDone = true
		if !w.ticking {
			w.ticking, w.tickStart = true, time.Now()
		}
		w.logf("env: answer#%d watch ok -> sub#%d", r.id, w.nsubs)
	}
	r.ch <- x
}

func (w *world) answerErr(r *req) {
	c := w.c
	w.parked = nil
	w.lastKind, w.lastOK = r.kind, false
	w.lastFail, w.lastFailAt = true, time.Now()
	switch r.kind {
	case "chainid":
		c.Fault("chainid_fail")
	case "latest":
		c.Fault("latest_fail")
	case "finalised":
		c.Fault("finalised_fail")
	case "filter":
		c.Fault("filter_fail_chunk")
		if w.cfg.prodFilter {
			c.Probe("production_filter_scan_error")
		}
		if w.chunksOK >= 1 {
			c.Probe("filter_fail_after_first_chunk")
		}
		if w.catchupLogs > 0 {
			c.Probe("catchup_partial_kept")
		}
	case "watch":
		c.Fault("watch_fail")
	}
	w.logf("env: answer#%d %s error", r.id, r.kind)
	r.ch <- resp{err: errScripted}
}

func (w *world) deliver() { w.handOver("delivers") }

// handOver pushes the first queued notification into the client's sink and books it for the
// reference set D; the same bookkeeping whether the client reads it at once (deliver) or later
// (burst, late).
func (w *world) handOver(verb string) {
	su := w.book(verb)
	if w.cfg.adapter {
		select {
		case w.sub.gethCh <- gethEvent(w.lastBooked, w.lastBookedRemoved):
		default:
			w.c.Broken("geth event channel full")
		}
		return
	}
	select {
	case w.updates <- su:
	default:
		w.c.Broken("update channel full")
	}
}

// gethEvent is the commit as go-ethereum's abigen binding hands it to the adapter.
func gethEvent(lg *mlog, removed bool) *contract.StarknetLogStateUpdate {
	return &contract.StarknetLogStateUpdate{
		GlobalRoot:  lg.root.BigInt(new(big.Int)),
		BlockNumber: new(big.Int).SetUint64(lg.l2),
		BlockHash:   lg.hash.BigInt(new(big.Int)),
		Raw:         types.Log{BlockNumber: lg.l1, Index: uint(lg.idx), Removed: removed},
	}
}

// stateUpdate is a filter-query result for lg: built directly, or in adapter mode by the
// production conversion.
func (w *world) stateUpdate(lg *mlog, removed bool) *l1.StateUpdate {
	if w.cfg.adapter {
		return l1.JsimStateUpdateFromGeth(gethEvent(lg, removed))
	}
	return &l1.StateUpdate{L2BlockNumber: lg.l2, L2BlockHash: lg.hash, StateRoot: lg.root, L1RefHeight: lg.l1, Removed: removed}
}

// book takes the first queued notification off the queue and books it for D.
func (w *world) book(verb string) *l1.StateUpdate {
	c := w.c
	e := w.queue[0]
	w.queue = w.queue[1:]
	lg := e.lg
	su := &l1.StateUpdate{L2BlockNumber: lg.l2, L2BlockHash: lg.hash, StateRoot: lg.root, L1RefHeight: lg.l1, Removed: e.removed}
	w.lastBooked, w.lastBookedRemoved = lg, e.removed
	if e.removed {
		if !e.spurious {
			// is it the commit the client would pick next?
			best := w.modelHead(^uint64(0))
			if best == lg {
				c.Probe("removal_of_candidate_head")
			}
			lg.removed, lg.everRemoved, lg.rmQueued = true, true, false
		} else {
			c.Probe("removal_of_undelivered_log")
		}
		c.Fault("removal_delivered")
		if w.cfg.adapter {
			c.Probe("adapter_removal_through_forwarder")
		}
		w.logf("env: sub#%d %s REMOVED %v", w.sub.n, verb, lg)
	} else {
		w.seq++
		lg.delivered, lg.everDelivered, lg.seq = true, true, w.seq
		w.logf("env: sub#%d %s %v", w.sub.n, verb, lg)
	}
	return su
}

// tickBuffered tells whether the client's ticker holds an unread tick: a tick of the poll grid has
// fired since the client last took one.
func (w *world) tickBuffered() bool {
	if !w.ticking {
		return false
	}
	return time.Since(w.tickStart)/w.cfg.poll > w.tickTakenAt.Sub(w.tickStart)/w.cfg.poll
}

// burst: while the client is inside the FinalisedHeight call of a poll tick (so not in its main
// select), several queued notifications reach its sink; then the call is answered. Back in its
// select the client finds several ready cases and Go picks among them at random; a correct client
// ends in the same state whatever the order (nothing else is ready: no tick is buffered and no time
// passes), so the whole thing is one scheduler step up to the quiescent point where the sink is
// drained again. Nothing is judged and nothing order-dependent is logged in between.
//
// With withErr the subscription fails as well while k notifications are under way. How many of
// them the client reads before it services the error is decided by the tape (j of k), not by Go's
// select: j are pushed with the burst, the error becomes ready once the client has drained them,
// and the other k-j reach the sink while the client tears the subscription down (see
// subscription.late). For a client that keeps its sink across the resubscription this is exactly
// the outcome "select took the error after j notifications" of the all-at-once variant, and it is
// reproducible also for a client that does not. The all-at-once variant (error ready together with
// all k) is kept behind the knob burst_err_random.
func (w *world) burst(withErr bool) {
	c := w.c
	r := w.parked
	k := 2 + c.T.Draw("burst.k", len(w.queue)-1)
	if room := cap(w.updates) - len(w.updates); k > room {
		k = room
	}
	random := withErr && c.Knobs["burst_err_random"] == "1"
	j := k
	if withErr && !random {
		j = c.T.Draw("burst.read", k+1)
	}
	w.bursts++
	c.Fault("burst_while_busy")
	w.logf("env: burst of %d notifications while the client is in call#%d (sub error: %v, read before it: %d)", k, r.id, withErr, j)
	hadRemoval := false
	for i := 0; i < k; i++ {
		hadRemoval = hadRemoval || w.queue[i].removed
	}
	if hadRemoval {
		c.Probe("burst_contained_removal")
	}
	for i := 0; i < j; i++ {
		w.handOver("pushes")
	}
	if random {
		w.killSub(0)
		c.Probe("burst_err_random_order")
	}
	w.answerOK(r)
	// this setL1Head ran before the client read any of the burst: no equality here; the next
	// completed poll is judged against D including the burst
	w.expectEq = false
	w.wait()
	if !withErr {
		c.Probe("burst_no_error")
		return
	}
	c.Probe("burst_then_sub_error")
	if !random {
		if w.phase() != phIdle {
			// only a client that does not return to its select after the poll gets here
			return
		}
		w.killSub(k - j)
		w.wait()
	}
	w.grantResubscription()
}

// wait releases w.mu until the next quiescent point.
func (w *world) wait() {
	w.mu.Unlock()
	synctest.Wait()
	w.mu.Lock()
}

// grantResubscription: after a subscription failure that left notifications in the sink, the
// WatchStateUpdate call is answered at once, so that nothing else (a tick) can become ready
// together with them.
func (w *world) grantResubscription() {
	if s := w.sub; s != nil && len(s.late) > 0 {
		// the client did not tear the failed subscription down: the notifications arrive anyway
		s.pushLate()
	}
	if w.parked != nil && w.parked.kind == "watch" {
		w.answerOK(w.parked)
		w.wait()
		w.c.Probe("burst_resubscribed")
	}
}

// killLate: the subscription fails while the client is idle and `late` queued notifications are
// under way (see subscription.late).
func (w *world) killLate() {
	late := 1 + w.c.T.Draw("late.k", len(w.queue))
	if room := cap(w.updates) - len(w.updates); late > room {
		late = room
	}
	w.c.Probe("sub_error_with_late_notifications")
	w.c.Fault("late_notifications")
	w.killSub(late)
	w.wait()
	w.grantResubscription()
}

func (w *world) killSub(late int) {
	s := w.sub
	for i := 0; i < late; i++ {
		s.late = append(s.late, w.book("hands over late"))
	}
	s.live = false
	// logs in flight are lost with the subscription; removal notices the node owes for logs it
	// had delivered are kept and handed over first thing on the next subscription (the property
	// assumes the node always delivers them)
	kept := w.queue[:0]
	lost := 0
	for _, e := range w.queue {
		if e.removed && !e.spurious && e.lg.delivered {
			kept = append(kept, e)
		} else {
			if e.removed && !e.spurious {
				e.lg.rmQueued = false // its log is dropped undelivered: nothing to take back
			}
			lost++
		}
	}
	w.queue = kept
	if len(kept) > 0 {
		w.c.Probe("removal_carried_over_resubscribe")
	}
	w.c.Fault("sub_error")
	w.logf("env: sub#%d dies (%d queued notifications lost, %d removals carried over)", s.n, lost, len(kept))
	errCh := s.errCh
	if w.cfg.adapter {
		errCh = s.gethErr
	}
	select {
	case errCh <- errSubDied:
	default:
		w.c.Broken("subscription error channel full")
	}
}

func (w *world) sleepLog(what string, d time.Duration) func() {
	return func() {
		w.logf("env: clock +%s (%s)", d, what)
		w.mu.Unlock()
		time.Sleep(d)
		w.mu.Lock()
	}
}

func (w *world) nextTickIn() time.Duration {
	el := time.Since(w.tickStart)
	k := el/w.cfg.poll + 1
	return time.Duration(k)*w.cfg.poll - el
}

// phase of the client as seen through the seam
const (
	phCall  = "call"
	phRetry = "retry"
	phIdle  = "idle"
)

func (w *world) phase() string {
	switch {
	case w.parked != nil:
		return phCall
	case w.lastFail:
		return phRetry
	case w.sub != nil && w.sub.live:
		return phIdle
	}
	w.c.Broken("client is in no known state (no parked call, no retry pending, no live subscription; last call %s ok=%v)", w.lastKind, w.lastOK)
	return ""
}

func (w *world) failEnabled(kind string) bool {
	switch kind {
	case "chainid":
		return w.cfg.chainIDFail
	case "latest":
		return w.cfg.latestFail
	case "finalised":
		return w.cfg.finFail
	case "filter":
		return w.cfg.filterFail
	case "watch":
		return w.cfg.watchFail
	}
	return false
}

func (w *world) locked(f func()) {
	w.mu.Lock()
	defer w.mu.Unlock()
	f()
}

// step performs one scheduler action. Called with w.mu held at a quiescent point.
func (w *world) step() {
	c := w.c
	var opts []option
	add := func(name string, weight int, do func()) { opts = append(opts, option{name, weight, do}) }
	switch w.phase() {
	case phCall:
		r := w.parked
		add("ok", 10, func() { w.answerOK(r) })
		if w.cfg.dbFail && r.kind == "finalised" && !r.probe && w.dbFails < 2 {
			add("ok_then_head_write_fails", 2, func() {
				w.dbFails++
				// the next write into the node's database (only the L1 head record is written in this world) fails
				w.fdb.Plan.FailWriteAt = w.fdb.Writes + 1
				w.logf("env: the next write of the L1 head record will fail")
				w.answerOK(r)
			})
		}
		if w.failEnabled(r.kind) {
			add("fail", 2, func() { w.answerErr(r) })
		}
		if w.cfg.timeouts && r.timeout > 0 {
			d := r.timeout - time.Since(r.t0) + time.Millisecond
			add("timeout", 1, w.sleepLog("let call#"+fmt.Sprint(r.id)+" time out", d))
		}
		if w.cfg.bursts && r.kind == "finalised" && !r.probe && w.catchupDone && w.sub != nil && w.sub.live &&
			len(w.queue) >= 2 && len(w.updates) == 0 && !w.tickBuffered() {
			add("burst", 6, func() { w.burst(false) })
			add("burst_err", 6, func() { w.burst(true) })
		}
	case phRetry:
		d := w.cfg.resub - time.Since(w.lastFailAt)
		if d < 0 {
			d = 0
		}
		add("retry", 10, w.sleepLog("to the retry timer", d))
	case phIdle:
		if len(w.queue) > 0 {
			add("deliver", 10, w.deliver)
			add("tick", 3, w.sleepLog("to the next finalised-height poll", w.nextTickIn()))
		} else {
			add("tick", 8, w.sleepLog("to the next finalised-height poll", w.nextTickIn()))
		}
		if w.cfg.subKill {
			add("kill", 1, func() { w.killSub(0) })
			if w.cfg.bursts && len(w.queue) > 0 {
				add("kill_late", 2, w.killLate)
			}
		}
	}
	if w.cfg.jumps {
		add("jump", 1, func() {
			d := time.Duration(1+c.T.Draw("jump.n", 4))*w.cfg.poll + time.Duration(c.T.Draw("jump.s", 50))*time.Second + 17*time.Millisecond
			c.Fault("clock_jump")
			w.sleepLog("jump", d)()
		})
	}
	if len(w.blocks) <= w.cfg.maxBlocks {
		add("mine", 4, func() {
			b := w.mine(w.logsDraw("mine.logs"), nil)
			w.logf("env: mined l1=%d with %d logs", b.num, len(b.logs))
		})
	}
	if fc := w.finCap(); fc > w.fin {
		add("finalise", 4, func() {
			room := int(fc - w.fin)
			w.fin += uint64(1 + c.T.Draw("fin.by", min(room, 8)))
			w.logf("env: finalised height -> %d", w.fin)
		})
	}
	if w.cfg.reorgs && w.latest() > w.fin && w.reorgsN < 6 {
		add("reorg", 2, w.reorg)
	}
	if w.cfg.restarts && w.restarts < 2 {
		add("restart", 1, func() {
			w.restarts++
			c.Fault("client_restart")
			w.logf("env: node restart (client instance %d stops)", w.inst)
			w.mu.Unlock()
			w.stopClient()
			w.startClient()
			w.mu.Lock()
		})
	}
	total := 0
	for _, o := range opts {
		total += o.weight
	}
	v := c.T.Draw("sched", total)
	for _, o := range opts {
		if v < o.weight {
			o.do()
			return
		}
		v -= o.weight
	}
}

// ---- the run -----------------------------------------------------------------------------------

func drawConfig(c *sim.Ctx) config {
	t := c.T
	var cfg config
	cfg.faulty = t.Chance("faulty", 4, 5)
	cfg.chunk = [...]uint64{1000, 5, 2, 1}[t.Draw("chunk", 4)]
	// pairwise distinct, and distinct from the client's hard-wired 30 s / 60 s call deadlines
	cfg.poll = [...]time.Duration{61 * time.Second, 7 * time.Second, 101 * time.Second}[t.Draw("poll", 3)]
	cfg.resub = [...]time.Duration{10 * time.Second, 3 * time.Second, 45 * time.Second}[t.Draw("resub", 3)]
	cfg.steps = t.Range("steps", 15, 140)
	cfg.maxBlocks = 60
	if cfg.faulty {
		on := func(l string) bool { return t.Chance(l, 2, 3) }
		cfg.subKill = on("f.subkill")
		cfg.watchFail = on("f.watch")
		cfg.finFail = on("f.fin")
		cfg.latestFail = t.Chance("f.latest", 1, 4)
		cfg.filterFail = on("f.filter")
		cfg.chainIDFail = t.Chance("f.chainid", 1, 4)
		cfg.timeouts = t.Chance("f.timeouts", 1, 2)
		cfg.reorgs = on("f.reorg")
		cfg.jumps = t.Chance("f.jumps", 1, 2)
		cfg.spurious = t.Chance("f.spurious", 1, 2)
		cfg.rmReverse = t.Chance("f.rmrev", 1, 2)
		cfg.resubmit = t.Chance("f.resubmit", 1, 2)
		cfg.restarts = t.Chance("f.restarts", 1, 3)
		cfg.bursts = t.Chance("f.bursts", 1, 2)
		cfg.keepQueued = t.Chance("f.keepq", 1, 2)
	}
	if cfg.faulty {
		// its own draw after the older ones (a zero word keeps the database healthy)
		cfg.dbFail = t.Chance("f.dbfail", 1, 4)
	}
	cfg.stale = t.Chance("stale.on", 1, 2)
	cfg.adapter = t.Chance("adapter", 1, 8)
	if cfg.adapter {
		cfg.bursts = false // bursts and late notifications are pushed into the sink directly
		// its own draw, after every other one: a zero word keeps the conversion-only filter path
		cfg.prodFilter = t.Chance("adapter.prodfilter", 2, 3)
	}
	return cfg
}

type listener struct{ w *world }

func (l listener) OnNewL1Head(h *core.L1Head) {
	w := l.w
	w.mu.Lock()
	defer w.mu.Unlock()
	if w.closing {
		return
	}
	cp := core.L1Head{BlockNumber: h.BlockNumber}
	if h.BlockHash != nil {
		x := *h.BlockHash
		cp.BlockHash = &x
	}
	if h.StateRoot != nil {
		x := *h.StateRoot
		cp.StateRoot = &x
	}
	w.hooks = append(w.hooks, cp)
	w.logf("client: OnNewL1Head %s", headStr(true, &cp))
}

func (l listener) OnL1Call(string, time.Duration) {}

// baseL2 is kept on the world so that a reorg of every commit restarts the numbering correctly.
func (w *world) initChain() {
	t := w.c.T
	w.blocks = []*mblock{{num: 0}}
	w.baseL2 = uint64(t.Draw("l2.base", 4))
	w.nextL2 = w.baseL2
	n := t.Draw("init.blocks", 26)
	for i := 0; i < n; i++ {
		w.mine(w.logsDraw("init.logs"), nil)
	}
	w.fin = uint64(t.Draw("init.fin", n+1))
}

// startClient creates a new l1.Client on the run's database and runs it. Must be called without
// w.mu held.
func (w *world) startClient() {
	w.mu.Lock()
	defer w.mu.Unlock()
	w.inst++
	w.closing = false
	for _, lg := range w.all {
		lg.delivered, lg.removed, lg.rmQueued, lg.inFlight, lg.seq = false, false, false, false, 0
	}
	w.queue, w.sub, w.updates, w.instSubs = nil, nil, nil, 0
	w.parked, w.lastKind, w.lastOK, w.lastFail = nil, "", false, false
	w.timeouts, w.hooks = nil, nil
	w.ticking, w.catchupDone, w.reorgInCatchup = false, false, false
	w.chunksOK, w.catchupLogs = 0, 0
	w.expectEq = false
	w.scanAnswered, w.scanWant = false, nil
	cfg := w.cfg
	client := l1.NewClient(&provider{w}, w.chain, log.NewNopZapLogger(),
		l1.WithEventListener(listener{w}),
		l1.WithResubscribeDelay(cfg.resub),
		l1.WithPollFinalisedInterval(cfg.poll),
		l1.WithCatchUpChunkSize(cfg.chunk),
	)
	ctx, cancel := context.WithCancel(context.Background())
	done := make(chan error, 1)
	joined := make(chan struct{})
	w.cancel, w.done, w.joined = cancel, done, joined
	w.logf("env: client instance %d starts", w.inst)
	go func() {
		err := client.Run(ctx)
		done <- err
		close(joined)
	}()
}

// stopClient cancels the running client's context and joins its goroutine. Nothing the client
// does after the cancellation is logged. Must be called without w.mu held.
func (w *world) stopClient() {
	w.mu.Lock()
	w.closing = true
	w.mu.Unlock()
	w.cancel()
	<-w.joined
	synctest.Wait()
}

// C17 is one simulated run.
func C17(c *sim.Ctx) {
	w := &world{c: c, start: time.Now()}
	w.cfg = drawConfig(c)
	w.initChain()
	cfg := w.cfg
	c.Sample = map[string]any{
		"faulty": cfg.faulty, "chunk": cfg.chunk, "poll_s": cfg.poll.Seconds(), "resubscribe_s": cfg.resub.Seconds(),
		"steps": cfg.steps, "init_blocks": w.latest(), "init_finalised": w.fin,
	}
	c.Logf("cfg: faulty=%v chunk=%d poll=%s resub=%s steps=%d kill=%v watchFail=%v finFail=%v latestFail=%v filterFail=%v chainIDFail=%v timeouts=%v reorgs=%v jumps=%v spurious=%v rmReverse=%v stale=%v resubmit=%v restarts=%v bursts=%v keepQueued=%v adapter=%v prodFilter=%v",
		cfg.faulty, cfg.chunk, cfg.poll, cfg.resub, cfg.steps, cfg.subKill, cfg.watchFail, cfg.finFail, cfg.latestFail, cfg.filterFail, cfg.chainIDFail, cfg.timeouts, cfg.reorgs, cfg.jumps, cfg.spurious, cfg.rmReverse, cfg.stale, cfg.resubmit, cfg.restarts, cfg.bursts, cfg.keepQueued, cfg.adapter, cfg.prodFilter)
	nl := 0
	for _, b := range w.blocks {
		nl += len(b.logs)
	}
	c.Logf("init: l1 tip %d, %d commits (l2 %d..), finalised %d", w.latest(), nl, w.baseL2, w.fin)

	if cfg.prodFilter {
		// as NewGethL1StateProvider: contract.NewStarknetFilterer(contract address, backend), with the
		// fake Ethereum node in the place of the dialled ethclient
		filterer, err := contract.NewStarknetFilterer(coreContract, &ethNode{w})
		c.Must(err, "contract.NewStarknetFilterer")
		w.prod = l1.JsimNewGethFilterProvider(filterer, listener{w})
	}
	w.fdb = faultdb.Wrap(memory.New())
	w.chain = blockchain.New(w.fdb, &networks.Sepolia)
	feedSub := w.chain.SubscribeL1Head()
	w.startClient()
	defer func() {
		// every run cancels the client's context and joins its goroutine, also on a violation
		w.stopClient()
		feedSub.Unsubscribe()
		synctest.Wait()
		c.SimNs += int64(time.Since(w.start))
	}()

	observe := func() {
		w.observe(feedSub.Recv())
		if w.died {
			// the node went down with the write error; it is started again on the same database
			w.died = false
			c.Probe("client_stopped_by_head_write_error")
			w.stopClient()
			w.startClient()
			synctest.Wait()
		}
	}
	for i := 0; i < cfg.steps; i++ {
		synctest.Wait()
		observe()
		w.locked(w.step)
	}

	// Fault-free tail: hand over everything queued, raise the finalised height, let one more
	// poll complete, so that every run ends with an equality check of an up-to-date client.
	raise := c.T.Chance("tail.raise", 3, 4)
	stage := 0 // 0 draining, 1 waiting for the final poll to be answered, 2 done
	idleTicks, tailRetries := 0, 0
	for i := 0; i < 400 && stage < 2; i++ {
		synctest.Wait()
		observe()
		w.locked(func() {
			switch w.phase() {
			case phCall:
				r := w.parked
				final := stage == 1 && r.kind == "finalised" && !r.probe
				if final && len(w.queue) > 0 {
					c.Broken("tail: queue not empty at the final poll")
				}
				w.answerOK(r)
				tailRetries = 0
				if final {
					stage = 2
				}
			case phRetry:
				// In the tail every call is answered the moment it is seen, so a retry can only be owed to
				// the last failure from before the tail. A client that keeps abandoning its own calls here
				// (e.g. on a deadline that expired long ago) never gets an answer again.
				tailRetries++
				if tailRetries >= 6 {
					c.Fail("liveness", "provider_call_keeps_failing_in_the_fault_free_tail_although_every_call_is_answered_at_once",
						"%d consecutive retry waits in the fault-free tail: the client's %s call fails again and again although the scripted node answers every call the moment it arrives (last call ok=%v)", tailRetries, w.lastKind, w.lastOK)
				}
				d := w.cfg.resub - time.Since(w.lastFailAt)
				if d < 0 {
					d = 0
				}
				w.sleepLog("tail: to the retry timer", d)()
			case phIdle:
				if len(w.queue) > 0 {
					w.deliver()
					return
				}
				if fc := w.finCap(); raise && fc > w.fin {
					w.fin = fc
					w.logf("env: tail: finalised height -> %d", w.fin)
				}
				if stage == 1 {
					// Bounded liveness, judged only here: no fault is injected any more, the subscription is
					// live, nothing is queued, every call is answered at once - and the fake clock has passed
					// idleTicks poll instants without the client asking for the finalised height. Whatever
					// became final meanwhile is never recorded.
					idleTicks++
					if idleTicks >= 3 {
						c.Fail("liveness", "no_finalised_height_poll_within_3_poll_intervals_in_the_fault_free_tail",
							"the client is subscribed and idle, %d poll instants (interval %s) passed on the fake clock and FinalisedHeight was not called; finalised=%d stored=%s",
							idleTicks, w.cfg.poll, w.fin, func() string { h, err := w.chain.L1Head(); return headStr(err == nil, &h) }())
					}
				}
				stage = 1
				w.sleepLog("tail: to the next finalised-height poll", w.nextTickIn())()
			}
		})
	}
	synctest.Wait()
	observe()
	if stage < 2 {
		c.Inconclusive++
		c.Logf("tail did not complete")
	}
	if w.headsSet > 0 {
		c.Probe("head_stored")
		if w.cfg.adapter {
			c.Probe("adapter_head_stored")
		}
		if w.prodScans > 0 {
			c.Probe("production_filter_scan_head_stored")
		}
	}
	if w.eqChecks >= 2 {
		c.Probe("several_completed_updates")
	}
	nf := 0
	for _, n := range c.Faults {
		nf += n
	}
	c.Nontrivial = w.headsSet > 0 && nf > 0
	c.Logf("end: heads_set=%d eq_checks=%d subs=%d reorgs=%d instances=%d at +%s", w.headsSet, w.eqChecks, w.nsubs, w.reorgsN, w.inst, w.rel())
}
