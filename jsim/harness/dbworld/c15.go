// Package dbworld is the "db world" of DESIGN.md §3 C15: the real db/memory, db/pebble (v1) and
// db/pebblev2 backends — the Pebble ones on in-memory Pebble file systems — and a sorted-map
// reference model execute the same tape-generated history of storage-interface calls in lock-step.
package dbworld

import (
	"errors"
	"fmt"
	"sort"
	"strings"

	"github.com/NethermindEth/juno/db"

	"jsim/sim"
	"jsim/tape"
)

var errCb = errors.New("jsim: callback failed on purpose")

// ---- results of one API call -------------------------------------------------------------------

type res struct {
	b   bool
	v   []byte
	e   string // "" | notfound | cb | err
	n   int
	pan string // panic text, "" if none
}

const (
	cB      = 1 << iota // compare the bool
	cV                  // compare the bytes (nil == empty)
	cE                  // compare the error class
	cN                  // compare the int
	cAnyErr             // only "some error was returned"
)

func errClass(err error) string {
	switch {
	case err == nil:
		return ""
	case errors.Is(err, db.ErrKeyNotFound):
		return "notfound"
	case errors.Is(err, errCb):
		return "cb"
	}
	return "err"
}

func safe(f func() res) (r res) {
	defer func() {
		if p := recover(); p != nil {
			r = res{pan: "panic: " + fmt.Sprint(p)}
		}
	}()
	return f()
}

func run3(f func(b int) res) (out [nB]res) {
	for b := 0; b < nB; b++ {
		bb := b
		out[b] = safe(func() res { return f(bb) })
	}
	return
}

func (r res) String() string {
	if r.pan != "" {
		return "{" + r.pan + "}"
	}
	return fmt.Sprintf("{b=%v v=%x(nil=%v) err=%q n=%d}", r.b, r.v, r.v == nil, r.e, r.n)
}

func diff(mask int, want, g res) string {
	if (g.pan != "") != (want.pan != "") {
		if g.pan != "" {
			return "unexpected " + g.pan
		}
		return "expected a panic, got none"
	}
	if want.pan != "" {
		return ""
	}
	if mask&cAnyErr != 0 && g.e == "" {
		return "expected an error, got nil"
	}
	if mask&cE != 0 && g.e != want.e {
		return fmt.Sprintf("error class %q, want %q", g.e, want.e)
	}
	if mask&cB != 0 && g.b != want.b {
		return fmt.Sprintf("flag %v, want %v", g.b, want.b)
	}
	if mask&cV != 0 && !eqVal(g.v, want.v) {
		return fmt.Sprintf("bytes %x, want %x", g.v, want.v)
	}
	if mask&cN != 0 && g.n != want.n {
		return fmt.Sprintf("int %d, want %d", g.n, want.n)
	}
	return ""
}

// ---- objects held by clients -------------------------------------------------------------------

type objKind uint8

const (
	kBatch objKind = iota
	kIBatch
	kBuf
	kSnap
	kIter
)

func (k objKind) String() string {
	return [...]string{"batch", "ibatch", "bufbatch", "snap", "iter"}[k]
}

type bufEnt struct {
	del bool
	v   []byte
}

type obj struct {
	id, owner int
	kind      objKind
	created   int
	parent    *obj
	children  []*obj
	dead      bool
	variant   string

	// model side
	ops           []mOp             // batches: buffered writes in order
	buf           map[string]bufEnt // BufferBatch: pending updates
	sizeUndefined bool              // a DeleteRange was buffered (Size is then not comparable)
	nPut          int
	racy          bool // a later DB commit put a key into a range this open batch had already deleted
	commitsAtNew  int
	snap          map[string][]byte
	it            *mIter
	viewFrom      int    // step at which the view this object reads was fixed
	viewOverlay   []mOp  // indexed-batch iterators: the batch contents at creation
	src           string // iterators: db | snap | ibatch
	prefix        string
	withUB        bool
	nilBound      bool // withUpperBound=true and the prefix has no upper bound (empty / all 0xff)

	// real side
	rb  [nB]db.Batch
	rib [nB]db.IndexedBatch
	rbf [nB]*db.BufferBatch
	rs  [nB]db.Snapshot
	ri  [nB]db.Iterator
}

func (o *obj) name() string { return fmt.Sprintf("%s%d", o.kind, o.id) }

func (o *obj) batch(b int) db.Batch {
	if o.kind == kIBatch {
		return o.rib[b]
	}
	return o.rb[b]
}

// ---- the run -----------------------------------------------------------------------------------

type H struct {
	c *sim.Ctx
	t *tape.Tape
	e *env

	m        map[string][]byte // the model's database
	alphabet []string          // keys that are written
	readKeys []string          // alphabet + a few keys in between (reads, seeks, range bounds)
	prefixes []string
	step     int
	nClients int
	objs     []*obj
	nextID   int
	valCtr   int
	commits  int
	reads    int
	lin      linHist
	midOpen  bool // true while the env is between close and open (run abort => discard env)
	closed   bool // closed-store phase ran: env must be discarded

	fSnapHas, fNilBound, fBatchDelRange, fReopen, fUAC, fEmptyKey, fNoUB, fHelpers, fBuf, fFailCb, fInvRange bool
}

var universe = []string{
	"a", "ab", "b", "a\xff", "\xff", "\xff\xff", "a\xff\xff", "a\x00", "\x00", "b\xff",
	"a\xff\x00", "\xfe\xff", "\xff\x00", "\xff\xff\xff",
}

var betweenKeys = []string{"a\xfe", "c", "\xff\xfe", "\xff\xff\xff\xff", "B"}

func kb(k string) []byte { return []byte(k) } // empty string -> empty non-nil slice

func pfx(p string) []byte {
	if p == "" {
		return nil // pebble v2 + -race dislikes an empty non-nil bound (see db/testutil.go)
	}
	return []byte(p)
}

// C15 is the harness entry point: one run = one history.
func C15(c *sim.Ctx) {
	h := &H{c: c, t: c.T, m: map[string][]byte{}}
	h.setupEnv()
	defer h.cleanup()
	h.configure()
	nSteps := h.t.Range("steps", 4, 60)
	for h.step = 1; h.step <= nSteps; h.step++ {
		h.doStep(h.t.Draw("client", h.nClients))
	}
	h.finish()
}

func (h *H) setupEnv() {
	if genv != nil && genv.runs >= envMaxRuns {
		genv.discard()
		genv = nil
	}
	if genv == nil {
		e, err := newEnv()
		h.c.Must(err, "open backends")
		genv = e
	}
	genv.runs++
	h.e = genv
	if err := h.e.reset(); err != nil {
		genv.discard()
		genv = nil
		h.c.Broken("clearing the pebble stores before the run: %v", err)
	}
}

// cleanup runs on every exit path (also when an oracle ended the run): it closes whatever is still
// open so that the reused Pebble stores carry nothing into the next run. It must never panic.
func (h *H) cleanup() {
	trouble := h.midOpen || h.closed
	closeAll := func(kind objKind) {
		for _, o := range h.objs {
			if o.dead || o.kind != kind {
				continue
			}
			o.dead = true
			for b := 0; b < nB; b++ {
				r := safe(func() res {
					var err error
					switch o.kind {
					case kIter:
						if o.ri[b] != nil {
							err = o.ri[b].Close()
						}
					case kSnap:
						if o.rs[b] != nil {
							err = o.rs[b].Close()
						}
					case kBatch, kIBatch:
						if o.batch(b) != nil {
							err = o.batch(b).Close()
						}
					case kBuf:
						if o.rbf[b] != nil {
							err = o.rbf[b].Close()
						}
					}
					return res{e: errClass(err)}
				})
				if r.pan != "" {
					trouble = true
				}
			}
		}
	}
	closeAll(kIter)
	closeAll(kSnap)
	closeAll(kIBatch)
	closeAll(kBatch)
	closeAll(kBuf)
	if trouble && genv != nil {
		genv.discard()
		genv = nil
	}
}

func (h *H) configure() {
	t := h.t
	h.nClients = 1 + t.Draw("clients", 4)
	mask := t.U64("keymask")
	h.fSnapHas = t.Chance("f_snapshot_has", 1, 4)
	h.fNilBound = t.Chance("f_nil_upper_bound", 1, 4)
	h.fBatchDelRange = t.Chance("f_batch_delete_range", 1, 2)
	h.fReopen = t.Chance("f_reopen", 1, 4)
	h.fUAC = t.Chance("f_use_after_close", 1, 4)
	h.fEmptyKey = t.Chance("f_empty_key", 1, 16)
	h.fNoUB = t.Chance("f_no_upper_bound", 1, 2)
	h.fHelpers = t.Chance("f_helpers", 2, 3)
	h.fBuf = t.Chance("f_bufferbatch", 1, 3)
	h.fFailCb = t.Chance("f_failing_callbacks", 1, 2)
	h.fInvRange = t.Chance("f_inverted_ranges", 1, 3)
	for i, k := range universe {
		if mask&(1<<uint(i)) != 0 {
			h.alphabet = append(h.alphabet, k)
		}
	}
	for i := 0; len(h.alphabet) < 3; i++ {
		if !contains(h.alphabet, universe[i]) {
			h.alphabet = append(h.alphabet, universe[i])
		}
	}
	if h.fEmptyKey {
		// Pebble v2.1.6 itself panics ("unreachable" in colblk.PrefixBytesBuilder.Finish, background
		// flush goroutine, not recoverable) when it flushes a memtable whose only point key is the
		// empty key, e.g. during WAL replay on reopen. The empty key is not part of juno's documented
		// interface, so such runs never reopen and their stores are thrown away afterwards.
		h.alphabet = append(h.alphabet, "")
		h.fReopen = false
		h.closed = true
	}
	h.readKeys = append([]string(nil), h.alphabet...)
	for _, k := range betweenKeys {
		h.readKeys = append(h.readKeys, k)
	}
	h.prefixes = append([]string{""}, universe...)
	h.prefixes = append(h.prefixes, "c")
	var on []string
	for _, f := range []struct {
		n string
		v bool
	}{{"snapshot_has", h.fSnapHas}, {"nil_upper_bound", h.fNilBound}, {"batch_delete_range", h.fBatchDelRange}, {"reopen", h.fReopen},
		{"use_after_close", h.fUAC}, {"empty_key", h.fEmptyKey}, {"no_upper_bound", h.fNoUB}, {"helpers", h.fHelpers},
		{"bufferbatch", h.fBuf}, {"failing_callbacks", h.fFailCb}, {"inverted_ranges", h.fInvRange}} {
		if f.v {
			on = append(on, f.n)
		}
	}
	h.c.Logf("config clients=%d keys=%s features=%s", h.nClients, hexList(h.alphabet), strings.Join(on, ","))
	h.c.Sample = map[string]any{"clients": h.nClients, "keys_hex": hexList(h.alphabet), "features": on}
}

func contains(l []string, s string) bool {
	for _, x := range l {
		if x == s {
			return true
		}
	}
	return false
}

func hexList(l []string) string {
	p := make([]string, len(l))
	for i, k := range l {
		p[i] = fmt.Sprintf("%x", k)
		if k == "" {
			p[i] = "<empty>"
		}
	}
	return "[" + strings.Join(p, " ") + "]"
}

// ---- draws -------------------------------------------------------------------------------------

func (h *H) wkey() string { return h.alphabet[h.t.Draw("key", len(h.alphabet))] }

// rkey: a key for point reads (empty key only when it is part of the alphabet).
func (h *H) rkey() string { return h.readKeys[h.t.Draw("rkey", len(h.readKeys))] }

// bound: a key for Seek / DeleteRange bounds; the empty bound is always allowed there.
func (h *H) bound(label string) string {
	i := h.t.Draw(label, len(h.readKeys)+1)
	if i == len(h.readKeys) {
		return ""
	}
	return h.readKeys[i]
}

func (h *H) val(allowNil bool) []byte {
	h.valCtr++
	switch h.t.Draw("valkind", 8) {
	case 5:
		return []byte{}
	case 6:
		if allowNil {
			return nil
		}
		return []byte{}
	case 7:
		return []byte(fmt.Sprintf("long%03d%s", h.valCtr, strings.Repeat("x", 40)))
	}
	return []byte(fmt.Sprintf("v%d", h.valCtr))
}

func (h *H) rangeBounds() (string, string) {
	s, e := h.bound("range_start"), h.bound("range_end")
	if s > e && !h.fInvRange {
		s, e = e, s
	}
	return s, e
}

// ---- oracle plumbing ---------------------------------------------------------------------------

// expect compares the three real results with the model's; all diverging backends are named in
// the violation key.
func (h *H) expect(class, op string, mask int, want res, got [nB]res, what string) {
	var bad, why []string
	for b := 0; b < nB; b++ {
		if d := diff(mask, want, got[b]); d != "" {
			bad = append(bad, bName[b])
			why = append(why, fmt.Sprintf("%s: %s (got %s)", bName[b], d, got[b]))
		}
	}
	if len(bad) > 0 {
		h.c.Fail(class, vkey(class, bad, op), "step %d: %s: model expects %s; %s", h.step, what, want, strings.Join(why, "; "))
	}
}

// vkey: the violation key names the diverging backends and the call; the classes that are defined
// by an input shape (see classFor) are keyed by the backends only, so that one root cause is one key.
func vkey(class string, bad []string, op string) string {
	switch class {
	case "batch_delrange_after_db_write", "iterator_nil_upper_bound", "snapshot_has_missing_key":
		return strings.Join(bad, "+")
	}
	return strings.Join(bad, "+") + ":" + op
}

// outside records behaviour outside the documented contract: never a violation, only a probe that
// says whether the backends agreed there.
func (h *H) outside(name string, got [nB]res) {
	same := true
	for b := 1; b < nB; b++ {
		if got[b].b != got[0].b || got[b].e != got[0].e || (got[b].pan != "") != (got[0].pan != "") || !eqVal(got[b].v, got[0].v) || got[b].n != got[0].n {
			same = false
		}
	}
	if same {
		h.c.Probe("outside_contract_" + name + "_agree")
	} else {
		h.c.Probe("outside_contract_" + name + "_diverge")
	}
}

func (h *H) errOnly(class, op string, f func(b int) error, what string) {
	got := run3(func(b int) res { return res{e: errClass(f(b))} })
	h.expect(class, op, cE, res{}, got, what)
}

// checkState reads every key of the run's alphabet from every backend's DB (keys outside the
// alphabet are never written; the full scans at reopen and at the end would show a stray one).
func (h *H) checkState(class, op string, only ...string) {
	var bad, why []string
	for b := 0; b < nB; b++ {
		d := h.e.dbs[b]
		r := safe(func() res {
			var v []byte
			cb := func(x []byte) error { v = append(v[:0], x...); return nil }
			keys := h.alphabet
			if len(only) > 0 {
				keys = only // single-key direct writes: the other keys are covered by the next full check
			}
			for _, k := range keys {
				wv, wok := h.m[k]
				v = v[:0]
				err := d.Get(kb(k), cb)
				we := "notfound"
				if wok {
					we = ""
				}
				if dd := diff(cE|cV, res{e: we, v: wv}, res{v: v, e: errClass(err)}); dd != "" {
					return res{e: fmt.Sprintf("key %x: %s", k, dd)}
				}
			}
			return res{}
		})
		if r.pan != "" || r.e != "" {
			bad = append(bad, bName[b])
			why = append(why, fmt.Sprintf("%s: %s%s", bName[b], r.e, r.pan))
		}
	}
	if len(bad) > 0 {
		h.c.Fail(class, vkey(class, bad, op), "step %d: database contents after %s differ from the model %s: %s", h.step, op, h.dump(), strings.Join(why, "; "))
	}
}

func (h *H) dump() string {
	var p []string
	for _, e := range sortedKV(h.m) {
		p = append(p, fmt.Sprintf("%x=%x", e.k, e.v))
	}
	return "{" + strings.Join(p, " ") + "}"
}

// commit applies a committed transaction to the model and does the bookkeeping.
func (h *H) commit(client int, from int, ops []mOp, by *obj, comment string) {
	for _, op := range ops {
		if op.kind == opPut {
			for _, o := range h.objs {
				if o == by || o.dead || (o.kind != kBatch && o.kind != kIBatch) {
					continue
				}
				for _, bo := range o.ops {
					if bo.kind == opDelRange && op.k >= bo.k && op.k < bo.e {
						o.racy = true
					}
				}
			}
		}
		if op.kind == opDelRange {
			for _, o := range h.objs {
				if !o.dead && o.kind == kIter {
					for _, e := range o.it.list {
						if e.k >= op.k && e.k < op.e {
							h.c.Probe("delete_range_over_live_iterator")
							break
						}
					}
				}
			}
		}
		applyOp(h.m, op)
	}
	h.commits++
	h.lin.txn(client, from, h.step, ops, comment)
}

func classFor(o *obj, base string) string {
	for p := o; p != nil; p = p.parent {
		if p.racy {
			return "batch_delrange_after_db_write"
		}
	}
	if o.kind == kIter && o.nilBound {
		return "iterator_nil_upper_bound"
	}
	return base
}

// ---- steps -------------------------------------------------------------------------------------

type choice struct {
	w int
	f func()
}

func (h *H) pick(label string, menu []choice) {
	total := 0
	for _, m := range menu {
		total += m.w
	}
	x := h.t.Draw(label, total)
	for _, m := range menu {
		if x < m.w {
			m.f()
			return
		}
		x -= m.w
	}
}

func (h *H) live(client int) []*obj {
	var l []*obj
	for _, o := range h.objs {
		if !o.dead && o.owner == client {
			l = append(l, o)
		}
	}
	return l
}

func (h *H) doStep(cl int) {
	mine := h.live(cl)
	nLive := 0
	for _, o := range h.objs {
		if !o.dead {
			nLive++
		}
	}
	menu := []choice{
		{10, func() { h.dbPut(cl) }},
		{6, func() { h.dbGet(cl) }},
		{3, func() { h.dbHas(cl) }},
		{4, func() { h.dbDelete(cl) }},
		{3, func() { h.dbDeleteRange(cl) }},
	}
	if len(mine) > 0 {
		menu = append(menu, choice{34, func() { h.objOp(cl, mine[h.t.Draw("obj", len(mine))]) }})
	}
	if nLive < 10 {
		menu = append(menu,
			choice{3, func() { h.newBatch(cl, kBatch) }},
			choice{4, func() { h.newBatch(cl, kIBatch) }},
			choice{4, func() { h.newSnap(cl) }},
			choice{5, func() { h.newIter(cl, nil) }})
		if h.fBuf {
			menu = append(menu, choice{2, func() { h.newBatch(cl, kBuf) }})
		}
	}
	if h.fHelpers {
		menu = append(menu, choice{5, func() { h.helper(cl) }})
	}
	if h.fReopen {
		menu = append(menu, choice{1, func() { h.reopen(cl) }})
	}
	if h.fUAC {
		var dead []*obj
		for _, o := range h.objs {
			if o.dead && o.owner == cl && (o.kind == kIter || o.kind == kBatch || o.kind == kIBatch) {
				dead = append(dead, o)
			}
		}
		if len(dead) > 0 {
			menu = append(menu, choice{3, func() { h.useAfterClose(cl, dead[h.t.Draw("deadobj", len(dead))]) }})
		}
	}
	h.pick("action", menu)
}

func (h *H) dbPut(cl int) {
	k, v := h.wkey(), h.val(true)
	h.c.Logf("%d c%d db.Put(%x,%x nil=%v)", h.step, cl, k, v, v == nil)
	h.errOnly("db_write", "db.Put", func(b int) error { return h.e.dbs[b].Put(kb(k), v) }, fmt.Sprintf("db.Put(%x)", k))
	if _, ok := h.m[k]; ok {
		h.noteOverwrite(k)
	}
	h.commit(cl, h.step, []mOp{{kind: opPut, k: k, v: v}}, nil, "db.Put")
	h.checkState("db_write", "db.Put", k)
}

func (h *H) noteOverwrite(k string) {
	for _, o := range h.objs {
		if !o.dead && o.kind == kSnap {
			if _, ok := o.snap[k]; ok {
				h.c.Probe("overwrite_under_open_snapshot")
				return
			}
		}
	}
}

func (h *H) dbGet(cl int) {
	k := h.rkey()
	failing := h.fFailCb && h.t.Chance("get_cb_fails", 1, 6)
	wv, wok := h.m[k]
	want := res{v: wv}
	switch {
	case !wok:
		want = res{e: "notfound"}
	case failing:
		want = res{e: "cb"}
		h.c.Fault("failing_get_callback")
	}
	h.c.Logf("%d c%d db.Get(%x) failing_cb=%v -> %s", h.step, cl, k, failing, want)
	got := run3(func(b int) res {
		var v []byte
		err := h.e.dbs[b].Get(kb(k), func(x []byte) error {
			if failing {
				return errCb
			}
			v = append([]byte{}, x...)
			return nil
		})
		return res{v: v, e: errClass(err)}
	})
	h.expect("db_read", "db.Get", cE|cV, want, got, fmt.Sprintf("db.Get(%x)", k))
	h.noteNil(got)
	if !failing {
		h.lin.get(cl, h.step, h.step, nil, k, wok, wv, "db.Get")
	}
	h.reads++
}

// noteNil: nil-versus-empty is not part of the documented contract; record whether backends differ.
func (h *H) noteNil(got [nB]res) {
	for b := 1; b < nB; b++ {
		if got[b].e == "" && got[0].e == "" && len(got[b].v) == 0 && len(got[0].v) == 0 && (got[b].v == nil) != (got[0].v == nil) {
			h.c.Probe("outside_contract_nil_vs_empty_value_diverge")
			return
		}
	}
}

func (h *H) dbHas(cl int) {
	k := h.rkey()
	_, wok := h.m[k]
	h.c.Logf("%d c%d db.Has(%x) -> %v", h.step, cl, k, wok)
	got := run3(func(b int) res {
		ok, err := h.e.dbs[b].Has(kb(k))
		return res{b: ok, e: errClass(err)}
	})
	h.expect("db_read", "db.Has", cE|cB, res{b: wok}, got, fmt.Sprintf("db.Has(%x)", k))
	h.reads++
}

func (h *H) dbDelete(cl int) {
	k := h.wkey()
	h.c.Logf("%d c%d db.Delete(%x)", h.step, cl, k)
	h.errOnly("db_write", "db.Delete", func(b int) error { return h.e.dbs[b].Delete(kb(k)) }, fmt.Sprintf("db.Delete(%x)", k))
	h.commit(cl, h.step, []mOp{{kind: opDel, k: k}}, nil, "db.Delete")
	h.checkState("db_write", "db.Delete", k)
}

func (h *H) dbDeleteRange(cl int) {
	s, e := h.rangeBounds()
	h.c.Logf("%d c%d db.DeleteRange(%x,%x)", h.step, cl, s, e)
	if s >= e {
		h.c.Probe("delete_range_empty_or_inverted")
	}
	h.errOnly("db_write", "db.DeleteRange", func(b int) error { return h.e.dbs[b].DeleteRange(kb(s), kb(e)) }, fmt.Sprintf("db.DeleteRange(%x,%x)", s, e))
	h.commit(cl, h.step, []mOp{{kind: opDelRange, k: s, e: e}}, nil, "db.DeleteRange")
	h.checkState("db_delete_range", "db.DeleteRange")
}

// ---- object creation ---------------------------------------------------------------------------

func (h *H) add(o *obj) *obj {
	h.nextID++
	o.id = h.nextID
	o.created = h.step
	o.commitsAtNew = h.commits
	h.objs = append(h.objs, o)
	if o.parent != nil {
		o.parent.children = append(o.parent.children, o)
	}
	return o
}

func (h *H) newBatch(cl int, kind objKind) {
	o := &obj{owner: cl, kind: kind}
	variant := h.t.Draw("batch_variant", 3)
	got := run3(func(b int) res {
		d := h.e.dbs[b]
		switch kind {
		case kBatch:
			if variant == 1 {
				o.variant = "NewBatchWithSize"
				o.rb[b] = d.NewBatchWithSize(64)
			} else {
				o.variant = "NewBatch"
				o.rb[b] = d.NewBatch()
			}
		case kIBatch:
			switch variant {
			case 1:
				o.variant = "NewIndexedBatchWithSize"
				o.rib[b] = d.NewIndexedBatchWithSize(64)
			case 2:
				o.variant = "SyncBatch(NewIndexedBatch)"
				o.rib[b] = db.NewSyncBatch(d.NewIndexedBatch())
			default:
				o.variant = "NewIndexedBatch"
				o.rib[b] = d.NewIndexedBatch()
			}
		case kBuf:
			o.variant = "BufferBatch(NewIndexedBatch)"
			o.rbf[b] = db.NewBufferBatch(d.NewIndexedBatch())
		}
		return res{}
	})
	if kind == kBuf {
		o.buf = map[string]bufEnt{}
	}
	h.add(o)
	h.c.Logf("%d c%d %s = db.%s()", h.step, cl, o.name(), o.variant)
	h.expect("object_creation", "db."+o.variant, 0, res{}, got, "creating "+o.name())
	if strings.HasPrefix(o.variant, "SyncBatch") {
		h.c.Probe("syncbatch_used")
	}
}

func (h *H) newSnap(cl int) {
	o := h.add(&obj{owner: cl, kind: kSnap, snap: cloneMap(h.m)})
	o.viewFrom = h.step
	h.c.Logf("%d c%d %s = db.NewSnapshot() of %s", h.step, cl, o.name(), h.dump())
	got := run3(func(b int) res { o.rs[b] = h.e.dbs[b].NewSnapshot(); return res{} })
	h.expect("object_creation", "db.NewSnapshot", 0, res{}, got, "creating "+o.name())
}

// newIter creates an iterator on the DB (src nil), on a snapshot or on an indexed batch.
func (h *H) newIter(cl int, src *obj) {
	p := h.prefixes[h.t.Draw("prefix", len(h.prefixes))]
	withUB := true
	if h.fNoUB {
		withUB = h.t.Draw("with_upper_bound", 2) == 0
	}
	_, hasUB := upperBoundOf(p)
	if !hasUB && withUB && !h.fNilBound {
		withUB = false // same documented meaning for an empty / all-0xff prefix
	}
	o := &obj{owner: cl, kind: kIter, parent: src, prefix: p, withUB: withUB, nilBound: withUB && !hasUB}
	var view map[string][]byte
	switch {
	case src == nil:
		o.src, view, o.viewFrom = "db", h.m, h.step
	case src.kind == kSnap:
		o.src, view, o.viewFrom = "snap", src.snap, src.viewFrom
	default:
		o.src, o.viewFrom = "ibatch", h.step
		o.viewOverlay = append([]mOp(nil), src.ops...)
		view = overlayMap(h.m, src.ops)
	}
	o.it = newMIter(view, p, withUB)
	h.add(o)
	on := "db"
	if src != nil {
		on = src.name()
	}
	h.c.Logf("%d c%d %s = %s.NewIterator(%x,%v) over %d keys beyond=%v", h.step, cl, o.name(), on, p, withUB, len(o.it.list), o.it.beyond)
	got := run3(func(b int) res {
		var err error
		switch {
		case src == nil:
			o.ri[b], err = h.e.dbs[b].NewIterator(pfx(p), withUB)
		case src.kind == kSnap:
			o.ri[b], err = src.rs[b].NewIterator(pfx(p), withUB)
		default:
			o.ri[b], err = src.rib[b].NewIterator(pfx(p), withUB)
		}
		return res{e: errClass(err)}
	})
	h.expect(classFor(o, "iterator"), o.src+".NewIterator", cE, res{}, got, "creating "+o.name())
	if o.nilBound {
		h.c.Probe("iterator_prefix_without_upper_bound")
	}
	if !withUB && p != "" {
		h.c.Probe("iterator_no_upper_bound_nonempty_prefix")
	}
	if strings.HasSuffix(p, "\xff") && hasUB {
		h.c.Probe("iterator_prefix_0xff_terminated")
	}
}

// ---- operations on objects ---------------------------------------------------------------------

func (h *H) objOp(cl int, o *obj) {
	switch o.kind {
	case kBatch, kIBatch:
		menu := []choice{
			{6, func() { h.batchPut(cl, o) }},
			{3, func() { h.batchDelete(cl, o) }},
			{3, func() { h.batchWrite(cl, o) }},
			{1, func() { h.batchSize(cl, o) }},
			{1, func() { h.batchClose(cl, o) }},
		}
		if h.fBatchDelRange {
			menu = append(menu, choice{2, func() { h.batchDeleteRange(cl, o) }})
		}
		if o.kind == kIBatch {
			menu = append(menu,
				choice{4, func() { h.ibatchGet(cl, o) }},
				choice{2, func() { h.ibatchHas(cl, o) }},
				choice{2, func() { h.newIter(cl, o) }})
		}
		h.pick("batch_op", menu)
	case kBuf:
		h.pick("buf_op", []choice{
			{5, func() { h.bufPut(cl, o) }},
			{4, func() { h.bufGet(cl, o) }},
			{2, func() { h.bufDelete(cl, o) }},
			{2, func() { h.bufWrite(cl, o) }},
			{1, func() { h.bufFlush(cl, o) }},
			{1, func() { h.bufClose(cl, o) }},
		})
	case kSnap:
		menu := []choice{
			{5, func() { h.snapGet(cl, o) }},
			{3, func() { h.newIter(cl, o) }},
			{1, func() { h.closeObj(cl, o, "snapshot.Close") }},
		}
		if h.fSnapHas {
			menu = append(menu, choice{3, func() { h.snapHas(cl, o) }})
		}
		h.pick("snap_op", menu)
	case kIter:
		h.pick("iter_op", []choice{
			{5, func() { h.iterMove(cl, o, "Next", "") }},
			{4, func() { h.iterMove(cl, o, "Prev", "") }},
			{3, func() { h.iterMove(cl, o, "Seek", h.bound("seek_key")) }},
			{2, func() { h.iterMove(cl, o, "First", "") }},
			{2, func() { h.iterScan(cl, o) }},
			{1, func() { h.iterValid(cl, o) }},
			{2, func() { h.iterRead(cl, o) }},
			{1, func() { h.closeObj(cl, o, "iterator.Close") }},
		})
	}
}

func (h *H) batchPut(cl int, o *obj) {
	k, v := h.wkey(), h.val(true)
	h.c.Logf("%d c%d %s.Put(%x,%x nil=%v)", h.step, cl, o.name(), k, v, v == nil)
	h.errOnly("batch_buffer", "batch.Put", func(b int) error { return o.batch(b).Put(kb(k), v) }, o.name()+".Put")
	for _, op := range o.ops {
		if op.k == k && op.kind != opDelRange {
			h.c.Probe("batch_later_op_on_same_key")
			break
		}
	}
	o.ops = append(o.ops, mOp{kind: opPut, k: k, v: v})
	o.nPut++
}

func (h *H) batchDelete(cl int, o *obj) {
	k := h.wkey()
	h.c.Logf("%d c%d %s.Delete(%x)", h.step, cl, o.name(), k)
	h.errOnly("batch_buffer", "batch.Delete", func(b int) error { return o.batch(b).Delete(kb(k)) }, o.name()+".Delete")
	for _, op := range o.ops {
		if op.k == k && op.kind == opPut {
			h.c.Probe("batch_later_op_on_same_key")
			break
		}
	}
	o.ops = append(o.ops, mOp{kind: opDel, k: k})
}

func (h *H) batchDeleteRange(cl int, o *obj) {
	s, e := h.rangeBounds()
	h.c.Logf("%d c%d %s.DeleteRange(%x,%x)", h.step, cl, o.name(), s, e)
	h.errOnly("batch_buffer", "batch.DeleteRange", func(b int) error { return o.batch(b).DeleteRange(kb(s), kb(e)) }, o.name()+".DeleteRange")
	o.ops = append(o.ops, mOp{kind: opDelRange, k: s, e: e})
	o.sizeUndefined = true
	h.c.Probe("batch_delete_range")
}

func (h *H) batchSize(cl int, o *obj) {
	got := run3(func(b int) res { return res{n: o.batch(b).Size()} })
	h.c.Logf("%d c%d %s.Size()", h.step, cl, o.name())
	if o.sizeUndefined {
		h.outside("size_after_delete_range", got)
		return
	}
	// pinned by the suite: 0 when empty, > 0 after a Put of a non-empty pair; all backends equal
	want := got[0]
	h.expect("batch_size", "batch.Size", cN, want, got, o.name()+".Size() (backends must agree)")
	var bad []string
	for b := 0; b < nB; b++ {
		if (len(o.ops) == 0 && got[b].n != 0) || (o.nPut > 0 && got[b].n <= 0 && !h.fEmptyKey) {
			bad = append(bad, bName[b])
		}
	}
	if len(bad) > 0 {
		h.c.Fail("batch_size", strings.Join(bad, "+")+":batch.Size:pinned", "step %d: %s.Size() = %v with %d buffered ops (%d puts)", h.step, o.name(), got, len(o.ops), o.nPut)
	}
}

func (h *H) closeChildren(cl int, o *obj) {
	for _, ch := range o.children {
		if !ch.dead {
			h.closeObj(cl, ch, "iterator.Close")
		}
	}
}

func (h *H) batchWrite(cl int, o *obj) {
	h.closeChildren(cl, o)
	h.c.Logf("%d c%d %s.Write() %d ops", h.step, cl, o.name(), len(o.ops))
	class := classFor(o, "batch_write")
	got := run3(func(b int) res { return res{e: errClass(o.batch(b).Write())} })
	h.expect(class, "batch.Write", cE, res{}, got, o.name()+".Write()")
	o.dead = true
	if h.commits > o.commitsAtNew {
		h.c.Probe("batch_write_after_interleaved_commit")
	}
	h.commit(cl, o.created, o.ops, o, o.name()+".Write")
	h.checkState(class, "batch.Write")
}

func (h *H) batchClose(cl int, o *obj) {
	h.closeChildren(cl, o)
	h.c.Logf("%d c%d %s.Close() discarding %d ops", h.step, cl, o.name(), len(o.ops))
	got := run3(func(b int) res { return res{e: errClass(o.batch(b).Close())} })
	h.expect("batch_close", "batch.Close", cE, res{}, got, o.name()+".Close()")
	o.dead = true
	if len(o.ops) > 0 {
		h.c.Probe("batch_discarded_with_ops")
	}
	h.checkState("batch_close", "batch.Close")
}

func (h *H) ibatchGet(cl int, o *obj) {
	k := h.rkey()
	wv, wok := overlayGet(h.m, o.ops, k)
	want := res{v: wv}
	if !wok {
		want = res{e: "notfound"}
	}
	h.c.Logf("%d c%d %s.Get(%x) -> %s", h.step, cl, o.name(), k, want)
	got := run3(func(b int) res {
		var v []byte
		err := o.rib[b].Get(kb(k), func(x []byte) error { v = append([]byte{}, x...); return nil })
		return res{v: v, e: errClass(err)}
	})
	h.expect(classFor(o, "indexed_batch_read"), "ibatch.Get", cE|cV, want, got, fmt.Sprintf("%s.Get(%x)", o.name(), k))
	h.noteIBatchRead(o, k)
	h.lin.get(cl, h.step, h.step, o.ops, k, wok, wv, o.name()+".Get")
	h.reads++
}

func (h *H) noteIBatchRead(o *obj, k string) {
	touched := false
	for _, op := range o.ops {
		if (op.kind != opDelRange && op.k == k) || (op.kind == opDelRange && k >= op.k && k < op.e) {
			touched = true
		}
	}
	if touched {
		h.c.Probe("indexed_batch_read_own_write")
	} else if h.commits > o.commitsAtNew {
		h.c.Probe("indexed_batch_read_through_to_later_db_state")
	}
}

func (h *H) ibatchHas(cl int, o *obj) {
	k := h.rkey()
	_, wok := overlayGet(h.m, o.ops, k)
	h.c.Logf("%d c%d %s.Has(%x) -> %v", h.step, cl, o.name(), k, wok)
	got := run3(func(b int) res {
		ok, err := o.rib[b].Has(kb(k))
		return res{b: ok, e: errClass(err)}
	})
	h.expect(classFor(o, "indexed_batch_read"), "ibatch.Has", cE|cB, res{b: wok}, got, fmt.Sprintf("%s.Has(%x)", o.name(), k))
	h.noteIBatchRead(o, k)
	h.reads++
}

// ---- BufferBatch -------------------------------------------------------------------------------

func (h *H) bufPut(cl int, o *obj) {
	k, v := h.wkey(), h.val(false) // a nil value means "delete" inside BufferBatch: not generated
	h.c.Logf("%d c%d %s.Put(%x,%x)", h.step, cl, o.name(), k, v)
	h.errOnly("bufferbatch", "bufferbatch.Put", func(b int) error { return o.rbf[b].Put(kb(k), v) }, o.name()+".Put")
	o.buf[k] = bufEnt{v: v}
}

func (h *H) bufDelete(cl int, o *obj) {
	k := h.wkey()
	h.c.Logf("%d c%d %s.Delete(%x)", h.step, cl, o.name(), k)
	h.errOnly("bufferbatch", "bufferbatch.Delete", func(b int) error { return o.rbf[b].Delete(kb(k)) }, o.name()+".Delete")
	o.buf[k] = bufEnt{del: true}
}

func (h *H) bufGet(cl int, o *obj) {
	k := h.rkey()
	var wv []byte
	var wok bool
	if e, ok := o.buf[k]; ok {
		wv, wok = e.v, !e.del
	} else {
		wv, wok = overlayGet(h.m, o.ops, k)
	}
	want := res{v: wv}
	if !wok {
		want = res{e: "notfound"}
	}
	h.c.Logf("%d c%d %s.Get(%x) -> %s", h.step, cl, o.name(), k, want)
	got := run3(func(b int) res {
		var v []byte
		err := o.rbf[b].Get(kb(k), func(x []byte) error { v = append([]byte{}, x...); return nil })
		return res{v: v, e: errClass(err)}
	})
	h.expect("bufferbatch", "bufferbatch.Get", cE|cV, want, got, fmt.Sprintf("%s.Get(%x)", o.name(), k))
	h.c.Probe("bufferbatch_read")
	h.reads++
}

func (h *H) bufFlushModel(o *obj) {
	keys := make([]string, 0, len(o.buf))
	for k := range o.buf {
		keys = append(keys, k)
	}
	sort.Strings(keys)
	for _, k := range keys {
		if e := o.buf[k]; e.del {
			o.ops = append(o.ops, mOp{kind: opDel, k: k})
		} else {
			o.ops = append(o.ops, mOp{kind: opPut, k: k, v: e.v})
		}
	}
}

func (h *H) bufFlush(cl int, o *obj) {
	h.c.Logf("%d c%d %s.Flush()", h.step, cl, o.name())
	h.errOnly("bufferbatch", "bufferbatch.Flush", func(b int) error { return o.rbf[b].Flush() }, o.name()+".Flush")
	h.bufFlushModel(o)
	h.checkState("bufferbatch", "bufferbatch.Flush") // nothing reaches the DB before Write
}

func (h *H) bufWrite(cl int, o *obj) {
	h.c.Logf("%d c%d %s.Write()", h.step, cl, o.name())
	h.errOnly("bufferbatch", "bufferbatch.Write", func(b int) error { return o.rbf[b].Write() }, o.name()+".Write")
	h.bufFlushModel(o)
	o.dead = true
	h.commit(cl, o.created, o.ops, o, o.name()+".Write")
	h.checkState("bufferbatch", "bufferbatch.Write")
}

func (h *H) bufClose(cl int, o *obj) {
	h.c.Logf("%d c%d %s.Close()", h.step, cl, o.name())
	h.errOnly("bufferbatch", "bufferbatch.Close", func(b int) error { return o.rbf[b].Close() }, o.name()+".Close")
	o.dead = true
	h.checkState("bufferbatch", "bufferbatch.Close")
}

// ---- snapshots ---------------------------------------------------------------------------------

func (h *H) noteSnapRead(o *obj, k string) {
	lv, lok := h.m[k]
	sv, sok := o.snap[k]
	if lok != sok || !eqVal(lv, sv) {
		h.c.Probe("snapshot_read_after_overwrite")
	}
}

func (h *H) snapGet(cl int, o *obj) {
	k := h.rkey()
	wv, wok := o.snap[k]
	want := res{v: wv}
	if !wok {
		want = res{e: "notfound"}
	}
	h.c.Logf("%d c%d %s.Get(%x) -> %s", h.step, cl, o.name(), k, want)
	got := run3(func(b int) res {
		var v []byte
		err := o.rs[b].Get(kb(k), func(x []byte) error { v = append([]byte{}, x...); return nil })
		return res{v: v, e: errClass(err)}
	})
	h.expect("snapshot_read", "snapshot.Get", cE|cV, want, got, fmt.Sprintf("%s.Get(%x) (snapshot taken at step %d)", o.name(), k, o.created))
	h.noteSnapRead(o, k)
	h.lin.get(cl, o.viewFrom, h.step, nil, k, wok, wv, o.name()+".Get")
	h.reads++
}

func (h *H) snapHas(cl int, o *obj) {
	k := h.rkey()
	_, wok := o.snap[k]
	h.c.Logf("%d c%d %s.Has(%x) -> %v", h.step, cl, o.name(), k, wok)
	got := run3(func(b int) res {
		ok, err := o.rs[b].Has(kb(k))
		return res{b: ok, e: errClass(err)}
	})
	class, op := "snapshot_read", "snapshot.Has"
	if !wok {
		// KeyValueReader.Has: "Checks if a key exists in the data store" — a missing key is the
		// answer false, not a failure (db.Has, batch.Has and the memory snapshot all do that).
		class, op = "snapshot_has_missing_key", "snapshot.Has(missing)"
		h.c.Probe("snapshot_has_on_missing_key")
	}
	h.expect(class, op, cE|cB, res{b: wok}, got, fmt.Sprintf("%s.Has(%x)", o.name(), k))
	h.noteSnapRead(o, k)
	h.reads++
}

func (h *H) closeObj(cl int, o *obj, op string) {
	h.closeChildren(cl, o)
	h.c.Logf("%d c%d %s.Close()", h.step, cl, o.name())
	got := run3(func(b int) res {
		if o.kind == kSnap {
			return res{e: errClass(o.rs[b].Close())}
		}
		return res{e: errClass(o.ri[b].Close())}
	})
	h.expect("close", op, cE, res{}, got, o.name()+".Close()")
	o.dead = true
}

// ---- iterators ---------------------------------------------------------------------------------

func (h *H) iterMove(cl int, o *obj, op, key string) {
	before := o.it.st
	var want, inC bool
	switch op {
	case "First":
		want, inC = o.it.first()
	case "Seek":
		want, inC = o.it.seek(key)
	case "Next":
		want, inC = o.it.next()
	case "Prev":
		want, inC = o.it.prev()
	}
	arg := ""
	if op == "Seek" {
		arg = fmt.Sprintf("%x", key)
	}
	h.c.Logf("%d c%d %s.%s(%s) from %s -> %v in_contract=%v now %s", h.step, cl, o.name(), op, arg, before, want, inC, o.it.st)
	got := run3(func(b int) res {
		it := o.ri[b]
		switch op {
		case "First":
			return res{b: it.First()}
		case "Seek":
			return res{b: it.Seek(kb(key))}
		case "Next":
			return res{b: it.Next()}
		}
		return res{b: it.Prev()}
	})
	if !inC {
		switch {
		case before == stTainted:
			h.outside("iterator_move_while_undefined", got)
		case o.it.beyond && (op == "First" || op == "Seek" || op == "Next"):
			h.outside("no_upper_bound_beyond_prefix", got)
		default:
			h.outside("pushed_invalid_iterator_then_turned_back", got)
		}
		return
	}
	h.expect(classFor(o, "iterator"), fmt.Sprintf("%s.iter.%s", o.src, op), cB, res{b: want}, got,
		fmt.Sprintf("%s.%s(%s) from state %s; iterator (prefix %x, withUpperBound=%v, on %s, created at step %d) covers %s", o.name(), op, arg, before, o.prefix, o.withUB, o.src, o.created, listKeys(o.it.list)))
	switch {
	case op == "Prev" && before == stAfterEnd && want:
		h.c.Probe("iterator_prev_after_running_off_the_end")
	case op == "Next" && before == stBeforeFirst && want:
		h.c.Probe("iterator_next_after_prev_at_first")
	case (op == "Next" || op == "Prev") && before == stFresh:
		h.c.Probe("iterator_next_or_prev_on_fresh")
	case op == "Seek" && !want:
		h.c.Probe("iterator_seek_past_end")
	case op == "Next" && !want && before == stAt && o.withUB && o.prefix != "" && !o.nilBound:
		h.c.Probe("iterator_upper_bound_hit")
	}
	if want {
		h.iterReadCur(cl, o)
	}
}

func listKeys(l []kv) string {
	p := make([]string, len(l))
	for i, e := range l {
		p[i] = fmt.Sprintf("%x", e.k)
	}
	return "[" + strings.Join(p, " ") + "]"
}

// iterReadCur checks Key/Value/UncopiedValue at a valid position.
func (h *H) iterReadCur(cl int, o *obj) {
	cur, _ := o.it.cur()
	got := run3(func(b int) res {
		it := o.ri[b]
		k := it.Key()
		v, err := it.Value()
		u, err2 := it.UncopiedValue()
		if err == nil && err2 != nil {
			err = err2
		}
		if err == nil && !eqVal(u, v) {
			err = errors.New("UncopiedValue differs from Value")
		}
		return res{b: it.Valid(), v: append(append([]byte{}, k...), append([]byte{0}, v...)...), e: errClass(err)}
	})
	want := res{b: true, v: append(append([]byte{}, cur.k...), append([]byte{0}, cur.v...)...)}
	h.expect(classFor(o, "iterator"), o.src+".iter.KeyValue", cB|cE|cV, want, got,
		fmt.Sprintf("%s Key/Value at position %d of %s (want key %x value %x; bytes shown as key 00 value)", o.name(), o.it.pos, listKeys(o.it.list), cur.k, cur.v))
	if lv, ok := h.m[cur.k]; !ok || !eqVal(lv, cur.v) {
		h.c.Probe("iterator_read_of_entry_changed_since_creation")
	}
	h.lin.get(cl, o.viewFrom, h.step, o.viewOverlay, cur.k, true, cur.v, o.name()+".Key/Value")
	h.reads++
}

func (h *H) iterRead(cl int, o *obj) {
	if _, ok := o.it.cur(); ok {
		h.c.Logf("%d c%d %s.Key/Value at %d", h.step, cl, o.name(), o.it.pos)
		h.iterReadCur(cl, o)
		return
	}
	h.c.Logf("%d c%d %s.Key/Value on invalid iterator (outside contract)", h.step, cl, o.name())
	got := run3(func(b int) res {
		k := o.ri[b].Key()
		_, err := o.ri[b].Value()
		return res{v: k, e: errClass(err)}
	})
	h.outside("key_value_on_invalid_iterator", got)
}

func (h *H) iterValid(cl int, o *obj) {
	want, inC := o.it.valid()
	h.c.Logf("%d c%d %s.Valid() -> %v in_contract=%v", h.step, cl, o.name(), want, inC)
	got := run3(func(b int) res { return res{b: o.ri[b].Valid()} })
	if !inC {
		h.outside("valid_while_undefined", got)
		return
	}
	h.expect(classFor(o, "iterator"), o.src+".iter.Valid", cB, res{b: want}, got, fmt.Sprintf("%s.Valid() in state %s", o.name(), o.it.st))
}

// iterScan: a client walks several positions in one go (each call still a separate API call).
func (h *H) iterScan(cl int, o *obj) {
	n := 1 + h.t.Draw("scan_len", 6)
	dir := "Next"
	if h.t.Draw("scan_dir", 2) == 1 {
		dir = "Prev"
	}
	if h.t.Draw("scan_from", 3) == 1 {
		h.iterMove(cl, o, "First", "")
	}
	for i := 0; i < n && o.it.st != stTainted; i++ {
		h.iterMove(cl, o, dir, "")
	}
}

// ---- helpers Update / Write --------------------------------------------------------------------

type scriptItem struct {
	kind string // put del delrange get has
	k, e string
	v    []byte
	want res
}

func (h *H) helper(cl int) {
	update := h.t.Draw("helper_kind", 2) == 0
	n := h.t.Draw("script_len", 5)
	fail := h.fFailCb && h.t.Chance("callback_fails", 1, 3)
	failAt := h.t.Draw("fail_at", n+1)
	var script []scriptItem
	var ops []mOp
	for i := 0; i < n; i++ {
		menu := 7
		if h.fBatchDelRange {
			menu = 8
		}
		x := h.t.Draw("script_op", menu)
		if !update && x >= 4 && x <= 6 {
			x = 0
		}
		var it scriptItem
		switch {
		case x <= 2:
			it = scriptItem{kind: "put", k: h.wkey(), v: h.val(true)}
		case x == 3:
			it = scriptItem{kind: "del", k: h.wkey()}
		case x <= 5:
			it = scriptItem{kind: "get", k: h.rkey()}
		case x == 6:
			it = scriptItem{kind: "has", k: h.rkey()}
		default:
			s, e := h.rangeBounds()
			it = scriptItem{kind: "delrange", k: s, e: e}
		}
		if fail && i >= failAt {
			script = append(script, it) // never executed; keeps the tape aligned
			continue
		}
		switch it.kind {
		case "put":
			ops = append(ops, mOp{kind: opPut, k: it.k, v: it.v})
		case "del":
			ops = append(ops, mOp{kind: opDel, k: it.k})
		case "delrange":
			ops = append(ops, mOp{kind: opDelRange, k: it.k, e: it.e})
		case "get":
			v, ok := overlayGet(h.m, ops, it.k)
			it.want = res{v: v}
			if !ok {
				it.want = res{e: "notfound"}
			}
		case "has":
			_, ok := overlayGet(h.m, ops, it.k)
			it.want = res{b: ok}
		}
		script = append(script, it)
	}
	name := "db.Write"
	if update {
		name = "db.Update"
	}
	var desc []string
	for i, it := range script {
		if fail && i >= failAt {
			break
		}
		desc = append(desc, fmt.Sprintf("%s(%x,%x%x)->%s", it.kind, it.k, it.e, it.v, it.want))
	}
	h.c.Logf("%d c%d %s callback fails=%v after %d ops: %s", h.step, cl, name, fail, len(desc), strings.Join(desc, " "))
	type outcome struct {
		reads []res
		r     res
	}
	var outs [nB]outcome
	for b := 0; b < nB; b++ {
		bb := b
		outs[b].r = safe(func() res {
			body := func(w db.Batch, r db.KeyValueReader) error {
				for i, it := range script {
					if fail && i >= failAt {
						return errCb
					}
					var err error
					switch it.kind {
					case "put":
						err = w.Put(kb(it.k), it.v)
					case "del":
						err = w.Delete(kb(it.k))
					case "delrange":
						err = w.DeleteRange(kb(it.k), kb(it.e))
					case "get":
						var v []byte
						e2 := r.Get(kb(it.k), func(x []byte) error { v = append([]byte{}, x...); return nil })
						outs[bb].reads = append(outs[bb].reads, res{v: v, e: errClass(e2)})
					case "has":
						ok, e2 := r.Has(kb(it.k))
						outs[bb].reads = append(outs[bb].reads, res{b: ok, e: errClass(e2)})
					}
					if err != nil {
						return fmt.Errorf("buffered write failed: %w", err)
					}
				}
				if fail {
					return errCb
				}
				return nil
			}
			var err error
			if update {
				err = h.e.dbs[bb].Update(func(ib db.IndexedBatch) error { return body(ib, ib) })
			} else {
				err = h.e.dbs[bb].Write(func(w db.Batch) error { return body(w, nil) })
			}
			return res{e: errClass(err)}
		})
	}
	// reads inside the callback: read-your-writes over the live DB
	ri := 0
	for i, it := range script {
		if fail && i >= failAt {
			break
		}
		if it.kind != "get" && it.kind != "has" {
			continue
		}
		var got [nB]res
		for b := 0; b < nB; b++ {
			if ri < len(outs[b].reads) {
				got[b] = outs[b].reads[ri]
			} else {
				got[b] = res{pan: "read not executed"}
			}
		}
		mask := cE | cV
		if it.kind == "has" {
			mask = cE | cB
		}
		h.expect("helper_read", name+"."+it.kind, mask, it.want, got, fmt.Sprintf("%s inside %s callback: %s(%x)", it.kind, name, it.kind, it.k))
		ri++
		h.reads++
	}
	var rs [nB]res
	for b := range outs {
		rs[b] = outs[b].r
	}
	if fail {
		h.c.Fault("failing_callback")
		h.expect("helper_failing_callback", name+".return", cE, res{e: "cb"}, rs, name+" must return the callback's error")
		if len(ops) > 0 {
			h.c.Probe("failing_callback_after_buffered_writes")
		}
		h.checkState("helper_failing_callback", name+".state")
		return
	}
	h.expect("helper_commit", name+".return", cE, res{}, rs, name+" with a succeeding callback")
	h.commit(cl, h.step, ops, nil, name)
	h.checkState("helper_commit", name+".state")
}

// ---- reopen ------------------------------------------------------------------------------------

func (h *H) closeEverything(cl int) {
	for _, kind := range []objKind{kIter, kSnap, kIBatch, kBatch, kBuf} {
		for _, o := range h.objs {
			if o.dead || o.kind != kind {
				continue
			}
			switch kind {
			case kIter, kSnap:
				h.closeObj(cl, o, o.kind.String()+".Close")
			case kIBatch, kBatch:
				h.batchClose(cl, o)
			case kBuf:
				h.bufClose(cl, o)
			}
		}
	}
}

func (h *H) reopen(cl int) {
	dirty := h.t.Draw("reopen_dirty", 2) == 1
	// The crash image keeps exactly the synced data. (Keeping a share of the unsynced data as well
	// would add nothing on correct code — every acknowledged commit is synced and nothing is in
	// flight — and would make the outcome depend on Pebble's WAL flusher goroutine on code that
	// commits without Sync.)
	const pct = 0
	var seed uint64
	// a restart ends every client's open objects; unwritten batches are lost on all backends alike
	h.closeEverything(cl)
	h.c.Logf("%d c%d REOPEN dirty=%v unsynced_pct=%d with committed state %s", h.step, cl, dirty, pct, h.dump())
	h.midOpen = true
	h.c.Must(h.e.reopen(dirty, pct, seed), "reopen")
	h.midOpen = false
	h.c.Evals++
	if dirty {
		h.c.Fault("dirty_restart")
		h.checkState("durability_dirty_restart", "reopen.state")
		h.fullScan("durability_dirty_restart", "reopen.scan")
	} else {
		h.c.Fault("clean_reopen")
		h.checkState("durability_clean_reopen", "reopen.state")
		h.fullScan("durability_clean_reopen", "reopen.scan")
	}
	if len(h.m) > 0 {
		h.c.Probe("reopen_with_data")
	}
}

// fullScan walks every backend with a fresh unbounded iterator, forwards and backwards.
func (h *H) fullScan(class, op string) {
	want := sortedKV(h.m)
	var bad, why []string
	for b := 0; b < nB; b++ {
		d := h.e.dbs[b]
		r := safe(func() res {
			it, err := d.NewIterator(nil, false)
			if err != nil {
				return res{e: "err", pan: "NewIterator: " + err.Error()}
			}
			defer it.Close()
			var sb strings.Builder
			for ok := it.First(); ok; ok = it.Next() {
				v, err := it.Value()
				if err != nil {
					return res{pan: "Value: " + err.Error()}
				}
				fmt.Fprintf(&sb, "%x=%x ", it.Key(), v)
			}
			sb.WriteString("| ")
			for ok := it.Prev(); ok; ok = it.Prev() {
				fmt.Fprintf(&sb, "%x ", it.Key())
			}
			return res{v: []byte(sb.String())}
		})
		var sb strings.Builder
		for _, e := range want {
			fmt.Fprintf(&sb, "%x=%x ", e.k, e.v)
		}
		sb.WriteString("| ")
		for i := len(want) - 1; i >= 0; i-- {
			fmt.Fprintf(&sb, "%x ", want[i].k)
		}
		if r.pan != "" || string(r.v) != sb.String() {
			bad = append(bad, bName[b])
			why = append(why, fmt.Sprintf("%s: scan gave %q %s, want %q", bName[b], r.v, r.pan, sb.String()))
		}
	}
	if len(bad) > 0 {
		h.c.Fail(class, strings.Join(bad, "+")+":"+op, "step %d: %s", h.step, strings.Join(why, "; "))
	}
}

// ---- use after Write/Close (pinned by db.TestKeyValueStoreSuite) ---------------------------------

func (h *H) useAfterClose(cl int, o *obj) {
	if o.kind == kIter {
		ops := []string{"Valid", "First", "Prev", "Next", "Key", "Seek", "Value", "UncopiedValue", "Close"}
		op := ops[h.t.Draw("uac_iter_op", len(ops))]
		h.c.Logf("%d c%d closed %s.%s()", h.step, cl, o.name(), op)
		got := run3(func(b int) res {
			it := o.ri[b]
			var err error
			switch op {
			case "Valid":
				it.Valid()
			case "First":
				it.First()
			case "Prev":
				it.Prev()
			case "Next":
				it.Next()
			case "Key":
				it.Key()
			case "Seek":
				it.Seek([]byte("key"))
			case "Value":
				_, err = it.Value()
			case "UncopiedValue":
				_, err = it.UncopiedValue()
			case "Close":
				err = it.Close()
			}
			return res{e: errClass(err)}
		})
		want, mask := res{pan: "expected"}, 0
		if op == "Value" || op == "UncopiedValue" || op == "Close" {
			want, mask = res{}, cAnyErr
		}
		h.expect("use_after_close", "iter."+op+".after_close", mask, want, got, "closed iterator "+o.name()+"."+op)
		h.c.Probe("iterator_use_after_close")
		return
	}
	ops := []string{"Put", "Delete", "DeleteRange", "Write", "Close"}
	if o.kind == kIBatch {
		ops = append(ops, "Get")
	}
	op := ops[h.t.Draw("uac_batch_op", len(ops))]
	h.c.Logf("%d c%d finished %s.%s()", h.step, cl, o.name(), op)
	got := run3(func(b int) res {
		var err error
		bt := o.batch(b)
		switch op {
		case "Put":
			err = bt.Put([]byte("key"), []byte("value"))
		case "Delete":
			err = bt.Delete([]byte("key"))
		case "DeleteRange":
			err = bt.DeleteRange([]byte("key"), []byte("key2"))
		case "Write":
			err = bt.Write()
		case "Close":
			err = bt.Close()
		case "Get":
			err = o.rib[b].Get([]byte("key"), func([]byte) error { return nil })
		}
		return res{e: errClass(err)}
	})
	h.expect("use_after_close", "batch."+op+".after_write_or_close", cAnyErr, res{}, got, "finished batch "+o.name()+"."+op)
	h.c.Probe("batch_use_after_write_or_close")
	h.checkState("use_after_close", "batch."+op+".after_write_or_close.state")
}

// ---- end of run --------------------------------------------------------------------------------

func (h *H) finish() {
	h.step++
	h.closeEverything(0)
	h.fullScan("final_state", "final.scan")
	h.checkState("final_state", "final.state")
	if h.commits > 0 && h.reads > 0 {
		h.c.Nontrivial = true
	}
	if h.fReopen && h.fUAC && h.t.Chance("closed_store_phase", 1, 4) {
		h.closedStore()
	}
	if h.nClients >= 2 && h.lin.overlap {
		switch r, detail := h.lin.check(); r {
		case "ok":
			h.c.Probe("porcupine_linearizable")
		case "illegal":
			h.c.Fail("linearizability", "logical_history", "porcupine: the logical history (snapshot/iterator reads and batch commits as interval operations) is not linearizable w.r.t. the map model:\n%s", detail)
		default:
			h.c.Inconclusive++
		}
		h.c.Evals++
	}
}

// closedStore: after Close every DB call must fail (pinned by the suite's OperationsAfterClose).
func (h *H) closedStore() {
	h.closed = true
	h.c.Logf("%d CLOSE all stores, then call them", h.step)
	got := run3(func(b int) res { return res{e: errClass(h.e.dbs[b].Close())} })
	h.expect("close", "db.Close", cE, res{}, got, "db.Close()")
	type call struct {
		name string
		f    func(d db.KeyValueStore) error
	}
	calls := []call{
		{"Get", func(d db.KeyValueStore) error { return d.Get([]byte("key"), func([]byte) error { return nil }) }},
		{"Has", func(d db.KeyValueStore) error { _, err := d.Has([]byte("key")); return err }},
		{"Put", func(d db.KeyValueStore) error { return d.Put([]byte("key2"), []byte("v")) }},
		{"Delete", func(d db.KeyValueStore) error { return d.Delete([]byte("key")) }},
		{"DeleteRange", func(d db.KeyValueStore) error { return d.DeleteRange([]byte("key"), []byte("key2")) }},
		{"NewIterator", func(d db.KeyValueStore) error { _, err := d.NewIterator(nil, false); return err }},
		{"NewBatch.Write", func(d db.KeyValueStore) error {
			b := d.NewBatch()
			_ = b.Put([]byte("batchkey"), []byte("batchval"))
			return b.Write()
		}},
		{"NewIndexedBatch.Write", func(d db.KeyValueStore) error {
			b := d.NewIndexedBatch()
			_ = b.Put([]byte("batchkey"), []byte("batchval"))
			return b.Write()
		}},
	}
	for _, cl := range calls {
		got := run3(func(b int) res { return res{e: errClass(cl.f(h.e.dbs[b]))} })
		h.expect("use_after_close", "db."+cl.name+".after_close", cAnyErr, res{}, got, "closed db."+cl.name)
	}
	got = run3(func(b int) res { h.e.dbs[b].NewSnapshot(); return res{} })
	h.expect("use_after_close", "db.NewSnapshot.after_close", 0, res{pan: "expected"}, got, "closed db.NewSnapshot must panic")
	h.c.Probe("closed_store_phase")
}
