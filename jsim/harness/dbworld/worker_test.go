package dbworld

import (
	"fmt"
	"os"
	"strconv"
	"testing"

	"jsim/sim"
)

func TestWorker(t *testing.T) {
	sim.WorkerMain(t, map[string]sim.Harness{
		"C15": C15,
	}, map[string]sim.Options{
		"C15": {},
	})
}

// TestDebugSeed re-executes one seed twice and prints trace and verdict (debugging aid, not used by
// /verif/check): JSIM_DEBUG_SEED=<seed> go test -run TestDebugSeed ./harness/dbworld
func TestDebugSeed(t *testing.T) {
	s := os.Getenv("JSIM_DEBUG_SEED")
	if s == "" {
		t.Skip("JSIM_DEBUG_SEED not set")
	}
	seed, err := strconv.ParseUint(s, 10, 64)
	if err != nil {
		t.Fatal(err)
	}
	for rep := 0; rep < 2; rep++ {
		r := sim.Exec(C15, "C15", "quick", seed, sim.Options{})
		fmt.Printf("--- rep %d hash %x machinery=%q\n", rep, r.TraceHash, r.Machinery)
		for _, e := range r.Events {
			fmt.Println("   ", e)
		}
		if r.Violation != nil {
			fmt.Printf("VIOLATION %s: %s\n", r.Violation.Key, r.Violation.Detail)
		}
	}
}
