package dbworld

import (
	"bytes"
	"sort"
	"strings"
)

// The reference model of C15: a map, written from the comments of db/database.go, db/batch.go,
// db/iterator.go, db/snapshot.go and the behaviour pinned by db.TestKeyValueStoreSuite. It shares no
// code with any backend.

type kv struct {
	k string
	v []byte
}

type opKind uint8

const (
	opPut opKind = iota
	opDel
	opDelRange
)

// mOp is one buffered write. DeleteRange removes start <= k < end (a range with start >= end is
// empty: pinned by the suite's DeleteRange/BatchDeleteRange subtests).
type mOp struct {
	kind opKind
	k, e string
	v    []byte
}

func applyOp(m map[string][]byte, op mOp) {
	switch op.kind {
	case opPut:
		m[op.k] = append([]byte{}, op.v...)
	case opDel:
		delete(m, op.k)
	case opDelRange:
		for k := range m { // deletion set is order independent
			if k >= op.k && k < op.e {
				delete(m, k)
			}
		}
	}
}

func cloneMap(m map[string][]byte) map[string][]byte {
	c := make(map[string][]byte, len(m))
	for k, v := range m {
		c[k] = v
	}
	return c
}

func sortedKV(m map[string][]byte) []kv {
	out := make([]kv, 0, len(m))
	for k, v := range m {
		out = append(out, kv{k, v})
	}
	sort.Slice(out, func(i, j int) bool { return out[i].k < out[j].k })
	return out
}

// overlayGet reads key k through buffered ops over base (read-your-writes of an indexed batch).
func overlayGet(base map[string][]byte, ops []mOp, k string) ([]byte, bool) {
	v, ok := base[k]
	for _, op := range ops {
		switch op.kind {
		case opPut:
			if op.k == k {
				v, ok = op.v, true
			}
		case opDel:
			if op.k == k {
				v, ok = nil, false
			}
		case opDelRange:
			if k >= op.k && k < op.e {
				v, ok = nil, false
			}
		}
	}
	return v, ok
}

func overlayMap(base map[string][]byte, ops []mOp) map[string][]byte {
	m := cloneMap(base)
	for _, op := range ops {
		applyOp(m, op)
	}
	return m
}

// upperBoundOf is the exclusive end of the keys carrying prefix p; ok=false when there is none
// (empty or all-0xff prefix). Written independently of db/dbutils.UpperBound.
func upperBoundOf(p string) (string, bool) {
	b := []byte(p)
	for len(b) > 0 && b[len(b)-1] == 0xff {
		b = b[:len(b)-1]
	}
	if len(b) == 0 {
		return "", false
	}
	c := append([]byte{}, b...)
	c[len(c)-1]++
	return string(c), true
}

// ---- iterator model --------------------------------------------------------------------------

type iterState uint8

const (
	stFresh          iterState = iota // never positioned
	stAt                              // valid, at list[pos]
	stAfterEnd                        // Next or Seek ran off the end (returned false)
	stAfterEndPushed                  // Next called again while exhausted
	stBeforeFirst                     // Prev at the first key returned false
	stTainted                         // left the documented contract; nothing is compared until First/Seek
)

func (s iterState) String() string {
	return [...]string{"fresh", "at", "afterEnd", "afterEndPushed", "beforeFirst", "tainted"}[s]
}

// mIter is the documented iterator contract over the keys carrying the prefix at creation time.
// In the withUpperBound=false form the backends are only comparable while the position stays
// among the keys that carry the prefix; `beyond` says that keys exist after them, in which case
// running off the end of `list` leaves the contract (Pebble goes on, memory stops).
type mIter struct {
	list   []kv
	beyond bool
	pos    int
	st     iterState
}

func newMIter(view map[string][]byte, prefix string, withUB bool) *mIter {
	it := &mIter{}
	for _, e := range sortedKV(view) {
		if strings.HasPrefix(e.k, prefix) {
			it.list = append(it.list, e)
		} else if !withUB && e.k > prefix {
			it.beyond = true
		}
	}
	return it
}

// runOff handles "position moves past the last prefixed key".
func (it *mIter) runOff() (want, inContract bool) {
	if it.beyond {
		it.st = stTainted
		return false, false
	}
	it.st = stAfterEnd
	return false, true
}

func (it *mIter) first() (bool, bool) {
	if len(it.list) == 0 {
		return it.runOff()
	}
	it.pos, it.st = 0, stAt
	return true, true
}

func (it *mIter) seek(k string) (bool, bool) {
	j := sort.Search(len(it.list), func(i int) bool { return it.list[i].k >= k })
	if j >= len(it.list) {
		return it.runOff()
	}
	it.pos, it.st = j, stAt
	return true, true
}

func (it *mIter) next() (bool, bool) {
	switch it.st {
	case stFresh:
		return it.first()
	case stAt:
		if it.pos+1 < len(it.list) {
			it.pos++
			return true, true
		}
		return it.runOff()
	case stAfterEnd, stAfterEndPushed:
		// "Once invalid, the iterator remains invalid."
		it.st = stAfterEndPushed
		return false, true
	case stBeforeFirst:
		if len(it.list) == 0 {
			return false, true
		}
		it.pos, it.st = 0, stAt
		return true, true
	}
	return false, false
}

func (it *mIter) prev() (bool, bool) {
	switch it.st {
	case stFresh:
		return it.first()
	case stAt:
		if it.pos > 0 {
			it.pos--
			return true, true
		}
		it.st = stBeforeFirst
		return false, true
	case stAfterEnd:
		if len(it.list) == 0 {
			return false, true
		}
		it.pos, it.st = len(it.list)-1, stAt
		return true, true
	case stAfterEndPushed, stBeforeFirst:
		// pushing an invalid iterator further and turning back is not documented
		it.st = stTainted
		return false, false
	}
	return false, false
}

func (it *mIter) valid() (bool, bool) {
	if it.st == stTainted {
		return false, false
	}
	return it.st == stAt, true
}

func (it *mIter) cur() (kv, bool) {
	if it.st == stAt {
		return it.list[it.pos], true
	}
	return kv{}, false
}

func eqVal(a, b []byte) bool { return bytes.Equal(a, b) } // nil and empty are the same value
