package dbworld

import (
	"fmt"
	"math/rand/v2"

	"github.com/NethermindEth/juno/db"
	"github.com/NethermindEth/juno/db/memory"
	pebblev1w "github.com/NethermindEth/juno/db/pebble"
	pebblev2w "github.com/NethermindEth/juno/db/pebblev2"
	pebblev1 "github.com/cockroachdb/pebble"
	vfs1 "github.com/cockroachdb/pebble/vfs"
	pebblev2 "github.com/cockroachdb/pebble/v2"
	vfs2 "github.com/cockroachdb/pebble/v2/vfs"
)

const (
	bMem = iota
	bV1
	bV2
	nB
)

var bName = [nB]string{"memory", "pebble", "pebblev2"}

// Paths live only inside the in-memory file systems; they must not exist on the real one
// (pebblev2.New peeks at the real FS to decide about a v1->v2 format upgrade).
const (
	pathV1 = "/jsim-c15-not-on-disk/v1"
	pathV2 = "/jsim-c15-not-on-disk/v2"
)

type nopLogger struct{}

func (nopLogger) Infof(string, ...interface{})  {}
func (nopLogger) Errorf(string, ...interface{}) {}
func (nopLogger) Fatalf(f string, a ...interface{}) {
	panic(fmt.Sprintf("pebble fatal: "+f, a...))
}

// env holds the real backends of this process. The Pebble instances are reused across runs
// (opening costs 1-4 ms, a run 0.3 ms) and are emptied through the raw Pebble handle — not through
// the wrapper under test — before every run; after envMaxRuns runs, after a run that ended in the
// middle of a reopen, and after any cleanup trouble they are thrown away and opened afresh on new
// file systems. A replay in a fresh process therefore sees the same empty stores.
type env struct {
	dbs  [nB]db.KeyValueStore
	fs1  *vfs1.MemFS // strict: unsynced data is dropped by ResetToSyncedState
	fs2  *vfs2.MemFS // crashable: CrashClone keeps synced data (+ a chosen share of the rest)
	runs int
}

const envMaxRuns = 120

var genv *env

// one block cache per Pebble major version for the whole process: allocating the default 8 MB
// cache is half of the cost of an Open
var (
	cacheV1 = pebblev1.NewCache(1 << 20)
	cacheV2 = pebblev2.NewCache(1 << 20)
)

func openV1(fs *vfs1.MemFS) (db.KeyValueStore, error) {
	return pebblev1w.New(pathV1, func(o *pebblev1.Options) error {
		o.FS = fs
		o.Cache = cacheV1
		o.DisableAutomaticCompactions = true
		o.Logger = nopLogger{}
		return nil
	})
}

func openV2(fs *vfs2.MemFS) (db.KeyValueStore, error) {
	return pebblev2w.New(pathV2, func(o *pebblev2.Options) error {
		o.FS = fs
		o.Cache = cacheV2
		o.DisableAutomaticCompactions = true
		o.Logger = nopLogger{}
		return nil
	})
}

// syncDirs creates the store directory and syncs it and its ancestors, so that a crash image keeps
// the directory itself (a never-synced parent directory entry is legitimately lost in a crash).
func syncDirs(mkdirAll func(string) error, openDir func(string) (interface{ Sync() error }, error), path string) error {
	if err := mkdirAll(path); err != nil {
		return err
	}
	for _, d := range []string{path, "/jsim-c15-not-on-disk", "/"} {
		f, err := openDir(d)
		if err != nil {
			return err
		}
		if err := f.Sync(); err != nil {
			return err
		}
	}
	return nil
}

func newEnv() (*env, error) {
	e := &env{fs1: vfs1.NewStrictMem(), fs2: vfs2.NewCrashableMem()}
	var err error
	if err = syncDirs(func(p string) error { return e.fs1.MkdirAll(p, 0o755) },
		func(p string) (interface{ Sync() error }, error) { return e.fs1.OpenDir(p) }, pathV1); err != nil {
		return nil, err
	}
	if err = syncDirs(func(p string) error { return e.fs2.MkdirAll(p, 0o755) },
		func(p string) (interface{ Sync() error }, error) { return e.fs2.OpenDir(p) }, pathV2); err != nil {
		return nil, err
	}
	if e.dbs[bV1], err = openV1(e.fs1); err != nil {
		return nil, fmt.Errorf("open pebble v1 on MemFS: %w", err)
	}
	if e.dbs[bV2], err = openV2(e.fs2); err != nil {
		return nil, fmt.Errorf("open pebble v2 on MemFS: %w", err)
	}
	return e, nil
}

func (e *env) discard() {
	for _, b := range []int{bV1, bV2} {
		if e.dbs[b] != nil {
			func() {
				defer func() { _ = recover() }()
				_ = e.dbs[b].Close()
			}()
		}
	}
}

// reset empties the Pebble stores through the raw handles and verifies that they are empty.
func (e *env) reset() error {
	e.dbs[bMem] = memory.New()
	p1, ok1 := e.dbs[bV1].Impl().(*pebblev1.DB)
	p2, ok2 := e.dbs[bV2].Impl().(*pebblev2.DB)
	if !ok1 || !ok2 {
		return fmt.Errorf("Impl() did not return the raw pebble handles")
	}
	// delete key by key (point tombstones): range tombstones piling up in the memtable would slow
	// every later read of the reused store
	var keys [][]byte
	it, err := p1.NewIter(nil)
	if err != nil {
		return err
	}
	for ok := it.First(); ok; ok = it.Next() {
		keys = append(keys, append([]byte{}, it.Key()...))
	}
	if err := it.Close(); err != nil {
		return err
	}
	if len(keys) > 0 {
		b := p1.NewBatch()
		for _, k := range keys {
			_ = b.Delete(k, nil)
		}
		if err := b.Commit(pebblev1.Sync); err != nil {
			return err
		}
	}
	keys = keys[:0]
	itb, err := p2.NewIter(nil)
	if err != nil {
		return err
	}
	for ok := itb.First(); ok; ok = itb.Next() {
		keys = append(keys, append([]byte{}, itb.Key()...))
	}
	if err := itb.Close(); err != nil {
		return err
	}
	if len(keys) > 0 {
		b := p2.NewBatch()
		for _, k := range keys {
			_ = b.Delete(k, nil)
		}
		if err := b.Commit(pebblev2.Sync); err != nil {
			return err
		}
	}
	// Whatever earlier runs left in the WAL (also through a wrapper that committed without Sync)
	// is made durable now, so that a crash image taken in this run depends on this run only.
	if err := p1.LogData([]byte("jsim-run-boundary"), pebblev1.Sync); err != nil {
		return err
	}
	if err := p2.LogData([]byte("jsim-run-boundary"), pebblev2.Sync); err != nil {
		return err
	}
	it1, err := p1.NewIter(nil)
	if err != nil {
		return err
	}
	nonEmpty := it1.First()
	if err := it1.Close(); err != nil {
		return err
	}
	it2, err := p2.NewIter(nil)
	if err != nil {
		return err
	}
	nonEmpty = it2.First() || nonEmpty
	if err := it2.Close(); err != nil {
		return err
	}
	if nonEmpty {
		return fmt.Errorf("pebble store not empty after clear")
	}
	return nil
}

// reopen closes and reopens both Pebble stores. dirty: the process "dies" — only what the file
// system holds as synced (v2: plus unsyncedPct % of the rest, chosen by a tape-seeded RNG) survives.
func (e *env) reopen(dirty bool, unsyncedPct int, rngSeed uint64) error {
	if dirty {
		clone := e.fs2.CrashClone(vfs2.CrashCloneCfg{UnsyncedDataPercent: unsyncedPct, RNG: rand.New(rand.NewPCG(rngSeed, 0x6a73696d))})
		_ = e.dbs[bV2].Close() // writes of the dying process go to the old file system only
		e.fs2 = clone
		e.fs1.SetIgnoreSyncs(true)
		_ = e.dbs[bV1].Close()
		e.fs1.ResetToSyncedState()
		e.fs1.SetIgnoreSyncs(false)
	} else {
		if err := e.dbs[bV1].Close(); err != nil {
			return fmt.Errorf("clean close v1: %w", err)
		}
		if err := e.dbs[bV2].Close(); err != nil {
			return fmt.Errorf("clean close v2: %w", err)
		}
	}
	var err error
	if e.dbs[bV1], err = openV1(e.fs1); err != nil {
		return fmt.Errorf("reopen v1: %w", err)
	}
	if e.dbs[bV2], err = openV2(e.fs2); err != nil {
		return fmt.Errorf("reopen v2: %w", err)
	}
	return nil
}
