package dbworld

import (
	"fmt"
	"sort"
	"strings"
	"time"

	"github.com/anishathalye/porcupine"
)

// Linearizability view of a run. Every API call of the single-threaded simulation is atomic, so
// the lock-step oracle already fixes the exact result of each call. The history handed to
// porcupine is the LOGICAL one: an operation on a long-lived object spans the interval in which
// its linearisation point may lie —
//   - a read through a snapshot / an open iterator: [creation of the view, the read];
//   - a batch (all buffered writes as one transaction): [creation of the batch, Write];
//   - direct DB calls, helpers and indexed-batch reads: the step itself.
// Stamps are event sequence numbers (step s occupies [2s, 2s+1]). The outputs are the values the
// real backends returned. The sequential specification is the map model.

type linIn struct {
	kind    string // "txn" | "get"
	ops     []mOp  // txn: writes applied atomically; get: overlay the read goes through (indexed batch)
	k       string
	comment string
}

type linOut struct {
	found bool
	v     string
}

func linState(m map[string][]byte) string {
	var sb strings.Builder
	for _, e := range sortedKV(m) {
		fmt.Fprintf(&sb, "%x=%x;", e.k, e.v)
	}
	return sb.String()
}

func linParse(s string) map[string][]byte {
	m := map[string][]byte{}
	for _, f := range strings.Split(s, ";") {
		if f == "" {
			continue
		}
		kvp := strings.SplitN(f, "=", 2)
		var k, v []byte
		fmt.Sscanf(kvp[0], "%x", &k)
		if kvp[1] != "" {
			fmt.Sscanf(kvp[1], "%x", &v)
		}
		m[string(k)] = v
	}
	return m
}

var linModel = porcupine.Model{
	Init: func() interface{} { return "" },
	Step: func(state, input, output interface{}) (bool, interface{}) {
		st := state.(string)
		in := input.(linIn)
		switch in.kind {
		case "txn":
			m := linParse(st)
			for _, op := range in.ops {
				applyOp(m, op)
			}
			return true, linState(m)
		case "get":
			out := output.(linOut)
			v, ok := overlayGet(linParse(st), in.ops, in.k)
			if ok != out.found {
				return false, st
			}
			if ok && string(v) != out.v {
				return false, st
			}
			return true, st
		}
		return false, st
	},
	DescribeOperation: func(input, output interface{}) string {
		in := input.(linIn)
		if in.kind == "txn" {
			return fmt.Sprintf("txn(%d ops) %s", len(in.ops), in.comment)
		}
		out := output.(linOut)
		return fmt.Sprintf("get(%x)->%v,%x %s", in.k, out.found, out.v, in.comment)
	},
}

type linHist struct {
	ops      []porcupine.Operation
	overlap  bool // some windowed operation spans a commit of another client
	commits  []linCommit
	disabled bool
}

type linCommit struct{ step, client int }

func stamp(step int) (int64, int64) { return int64(2 * step), int64(2*step + 1) }

func (l *linHist) txn(client, from, to int, ops []mOp, comment string) {
	if l.disabled {
		return
	}
	c, _ := stamp(from)
	_, r := stamp(to)
	cp := append([]mOp(nil), ops...)
	l.ops = append(l.ops, porcupine.Operation{ClientId: client, Input: linIn{kind: "txn", ops: cp, comment: comment}, Call: c, Output: linOut{}, Return: r})
	l.noteWindow(client, from, to)
	l.commits = append(l.commits, linCommit{to, client})
}

func (l *linHist) get(client, from, to int, overlay []mOp, k string, found bool, v []byte, comment string) {
	if l.disabled {
		return
	}
	c, _ := stamp(from)
	_, r := stamp(to)
	cp := append([]mOp(nil), overlay...)
	l.ops = append(l.ops, porcupine.Operation{ClientId: client, Input: linIn{kind: "get", ops: cp, k: k, comment: comment}, Call: c, Output: linOut{found, string(v)}, Return: r})
	l.noteWindow(client, from, to)
}

func (l *linHist) noteWindow(client, from, to int) {
	if l.overlap || from == to {
		return
	}
	for _, cm := range l.commits {
		if cm.client != client && cm.step > from && cm.step < to {
			l.overlap = true
			return
		}
	}
}

// check returns "ok", "illegal" or "unknown".
func (l *linHist) check() (string, string) {
	ops := append([]porcupine.Operation(nil), l.ops...)
	sort.SliceStable(ops, func(i, j int) bool { return ops[i].Call < ops[j].Call })
	res, info := porcupine.CheckOperationsVerbose(linModel, ops, 500*time.Millisecond)
	switch res {
	case porcupine.Ok:
		return "ok", ""
	case porcupine.Illegal:
		_ = info
		var sb strings.Builder
		for _, o := range ops {
			fmt.Fprintf(&sb, "[%d,%d] c%d %s\n", o.Call, o.Return, o.ClientId, linModel.DescribeOperation(o.Input, o.Output))
		}
		return "illegal", sb.String()
	}
	return "unknown", ""
}
