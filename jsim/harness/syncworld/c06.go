package syncworld

import (
	"fmt"
	"sort"
	"strings"

	"github.com/NethermindEth/juno/core"
	"github.com/NethermindEth/juno/core/felt"
	jsync "github.com/NethermindEth/juno/sync"

	"jsim/chaingen"
	"jsim/sim"
)

// observeChain runs at every quiescence. It compares the node's head with the model of what the
// node holds, attributes a change to the one commit released in the previous step (a store or a
// revert) and evaluates I1-I5.
func (w *world) observeChain() {
	c := w.c
	w.checkRunGoroutine()
	w.mu.Lock()
	w.onReorg = w.onReorg[:0]
	w.mu.Unlock()

	height, hash := w.nodeHead()
	prev := len(w.local) - 1
	released := w.commitReleased
	w.commitReleased = false

	var storedNow *chaingen.Block
	var wantReorg []*chaingen.Block
	switch {
	case height == prev:
		if prev >= 0 && !hash.Equal(w.localTip().B.Hash) {
			if !released {
				c.Broken("head hash changed without a commit being released")
			}
			c.Fail("head_replaced", "same_height", "head at height %d changed from %s to %s in one commit", height, short(w.localTip().B.Hash), short(hash))
		}
	case height == prev+1:
		if !released {
			c.Broken("head advanced without a commit being released")
		}
		storedNow = w.checkStored(uint64(height))
		wantReorg = w.revertRun
		w.revertRun = nil
		w.local = append(w.local, stored{b: storedNow, step: w.step - 1, fetched: w.firstDelivery(storedNow)})
		w.storesN++
		w.logf("obs: node stored block %d %s", height, short(storedNow.B.Hash))
		if len(wantReorg) > 0 {
			c.Probe("store_after_revert")
		}
		if w.fg != nil {
			w.fg.onStore(storedNow)
		}
	case height == prev-1:
		if !released {
			c.Broken("head went back without a commit being released")
		}
		x := w.local[prev]
		w.local = w.local[:prev]
		if height >= 0 && !hash.Equal(w.local[height].b.B.Hash) {
			c.Fail("revert_wrong_head", "head_after_revert", "after reverting block %d the head is %s, expected %s", prev, short(hash), short(w.local[height].b.B.Hash))
		}
		w.revertRun = append(w.revertRun, x.b)
		w.lastGone[x.b] = w.step - 1
		w.revertsN++
		w.logf("obs: node reverted block %d %s", prev, short(x.b.B.Hash))
		if height < 0 {
			c.Probe("revert_to_empty_chain")
		}
		if !w.noSyncOracle {
			w.checkRevertJustified(x)
		}
		if w.fg != nil {
			w.fg.onRevert(x)
		}
	default:
		c.Fail("head_jump", "height", "node height went from %d to %d across one commit", prev, height)
	}

	// I4: new-head notifications = successful stores, in order, once each
	var gotHead *core.Block
	select {
	case gotHead = <-w.heads.Recv():
	default:
	}
	switch {
	case storedNow != nil && gotHead == nil:
		c.Fail("newhead_notification", "missing", "block %d %s was stored but no new-head notification was sent", storedNow.B.Number, short(storedNow.B.Hash))
	case storedNow != nil && !gotHead.Hash.Equal(storedNow.B.Hash):
		c.Fail("newhead_notification", "wrong_block", "block %d %s was stored but the new-head notification carries block %d %s", storedNow.B.Number, short(storedNow.B.Hash), gotHead.Number, short(gotHead.Hash))
	case storedNow == nil && gotHead != nil:
		key := "unexpected"
		if int(gotHead.Number) == len(w.local) {
			key = "before_store"
		}
		c.Fail("newhead_notification", key, "new-head notification for block %d %s without a successful store of it (node head is %d)", gotHead.Number, short(gotHead.Hash), height)
	}

	// I4 for every further subscriber: each one that was subscribed before this commit is told the
	// same (subscriptions come and go while the node runs; a subscription must not disturb another)
	for i, es := range w.extraSubs {
		var got *core.Block
		select {
		case got = <-es.sub.Recv():
		default:
		}
		switch {
		case storedNow != nil && got == nil:
			c.Fail("newhead_notification", "missing_for_another_subscriber", "block %d %s was stored and announced to the first subscriber, but subscriber #%d (subscribed at step %d, %d subscriptions came and went since) was not told", storedNow.B.Number, short(storedNow.B.Hash), es.id, es.since, w.subEvents-es.eventsAtStart)
		case storedNow != nil && !got.Hash.Equal(storedNow.B.Hash):
			c.Fail("newhead_notification", "wrong_block_for_another_subscriber", "block %d %s was stored but subscriber #%d was told block %d %s", storedNow.B.Number, short(storedNow.B.Hash), es.id, got.Number, short(got.Hash))
		case storedNow == nil && got != nil:
			c.Fail("newhead_notification", "unexpected_for_another_subscriber", "subscriber #%d was told block %d %s without a successful store", es.id, got.Number, short(got.Hash))
		}
		if storedNow != nil && i == 0 {
			c.Probe("newhead_checked_for_several_subscribers")
		}
	}
	if w.subChurn {
		switch v := c.T.Draw("subs.churn.op", 6); {
		case v == 1 && len(w.extraSubs) < 3:
			w.subSeq++
			w.subEvents++
			w.extraSubs = append(w.extraSubs, &extraSub{id: w.subSeq, sub: w.syn.SubscribeNewHeads(), since: w.step, eventsAtStart: w.subEvents})
			w.logf("env: subscriber #%d subscribes to new heads", w.subSeq)
		case v == 2 && len(w.extraSubs) > 0:
			j := c.T.Draw("subs.churn.which", len(w.extraSubs))
			es := w.extraSubs[j]
			es.sub.Unsubscribe()
			w.extraSubs = append(w.extraSubs[:j:j], w.extraSubs[j+1:]...)
			w.subEvents++
			w.logf("env: subscriber #%d unsubscribes", es.id)
			c.Probe("subscriber_left_while_others_stay")
		}
	}

	// I5: a reorg notification delimits exactly the run of reverts since the previous store and
	// comes with (not after) the new head that follows
	var gotReorg *jsync.ReorgBlockRange
	select {
	case gotReorg = <-w.reorgCh.Recv():
	default:
	}
	switch {
	case len(wantReorg) > 0 && gotReorg == nil:
		c.Fail("reorg_notification", "missing", "blocks %s were reverted and block %d stored on top, but no reorg notification was sent", blockList(wantReorg), storedNow.B.Number)
	case len(wantReorg) > 0:
		first, last := wantReorg[0], wantReorg[len(wantReorg)-1] // first reverted = highest
		ok := gotReorg.StartBlockNum == last.B.Number && gotReorg.EndBlockNum == first.B.Number &&
			gotReorg.StartBlockHash != nil && gotReorg.EndBlockHash != nil &&
			gotReorg.StartBlockHash.Equal(last.B.Hash) && gotReorg.EndBlockHash.Equal(first.B.Hash)
		if !ok {
			c.Fail("reorg_notification", "wrong_range", "reverted run is %s but the reorg notification says start=%d %s end=%d %s",
				blockList(wantReorg), gotReorg.StartBlockNum, short(gotReorg.StartBlockHash), gotReorg.EndBlockNum, short(gotReorg.EndBlockHash))
		}
		c.Probe("reorg_notification_checked")
		if len(wantReorg) >= 2 {
			c.Probe("reorg_notification_multi_block")
		}
	case gotReorg != nil:
		c.Fail("reorg_notification", "unexpected", "reorg notification start=%d end=%d without a store that follows reverts (pending reverted run: %s)",
			gotReorg.StartBlockNum, gotReorg.EndBlockNum, blockList(w.revertRun))
	}
	if w.spun {
		c.Fail("livelock", "node_spins_without_park_point", "a node goroutine performed more than %d database reads in one scheduler step without reaching a DataSource call, a commit or a timer", readBudget)
	}
}

func blockList(bs []*chaingen.Block) string {
	s := "["
	for i, b := range bs {
		if i > 0 {
			s += " "
		}
		s += fmt.Sprintf("%d:%s", b.B.Number, short(b.B.Hash))
	}
	return s + "]"
}

// checkStored: I1 + I2 for the block the node has just made its head.
func (w *world) checkStored(n uint64) *chaingen.Block {
	c := w.c
	blk, err := w.bc.BlockByNumber(n)
	if err != nil {
		c.Fail("stored_block_unreadable", "BlockByNumber", "head block %d cannot be read back: %v", n, err)
	}
	su, err := w.bc.StateUpdateByNumber(n)
	if err != nil {
		c.Fail("stored_block_unreadable", "StateUpdateByNumber", "state update of head block %d cannot be read back: %v", n, err)
	}
	c.Evals++
	lastKind := func(h *felt.Felt) string {
		kind := ""
		for _, t := range w.tampered {
			if t.n == n && (h == nil || t.hash.Equal(h)) {
				kind = t.kind
			}
		}
		return kind
	}
	m := w.byHash[*blk.Hash]
	if m == nil {
		key := "hash_unknown_to_source"
		if k := lastKind(nil); k != "" {
			key += ":after_corrupt_" + k
		}
		c.Fail("stored_unverified_block", key, "node stored block %d with hash %s which the source never held in any chain version", n, blk.Hash.String())
	}
	wb, gb := canon(m.B), canon(blk)
	ws, gs := canon(m.SU), canon(su)
	if wb != gb || ws != gs {
		key := "content_differs_from_source_block"
		if k := lastKind(m.B.Hash); k != "" {
			key = "tampered_block_stored:" + k
		}
		d := ""
		if wb != gb {
			d = "block " + firstDiff(wb, gb)
		} else {
			d = "state update " + firstDiff(ws, gs)
		}
		c.Fail("stored_unverified_block", key, "node stored block %d %s whose content differs from the source's block with that hash: %s", n, short(blk.Hash), d)
	}
	if m.B.Number != n {
		c.Fail("stored_not_extending_head", "number", "block stored at height %d has number %d", n, m.B.Number)
	}
	want := &felt.Zero
	if t := w.localTip(); t != nil {
		want = t.B.Hash
	}
	if !m.B.ParentHash.Equal(want) {
		c.Fail("stored_not_extending_head", "parent", "block %d %s stored on head %s but its parent is %s", n, short(m.B.Hash), short(want), short(m.B.ParentHash))
	}
	if !w.cur.has(m) {
		c.Probe("stored_block_of_superseded_version")
	}
	return m
}

// firstDelivery is the step of the earliest delivery of block m to the node since the node last
// lost it.
func (w *world) firstDelivery(m *chaingen.Block) int {
	for _, d := range w.deliveries {
		if d.blk == m && d.step >= w.lastGone[m] {
			return d.step
		}
	}
	return w.step - 1
}

// checkRevertJustified: I3. A revert of X is in order when the source's chain no longer contains X
// (at the time the revert is committed), or when the node was told so: a response taken from a chain
// version that does not contain X (a stale or flapping latest header, a block of another fork, a
// block of the chain as it was before a reorg) was delivered to it after X itself was. Because the
// pipeline fetches ahead of the store, "after X was stored" is counted from the delivery of X, not
// from its commit: a conflicting successor that arrives between the two is newer information than X.
// A revert that only an OLDER response explains (the node preferred what it was told first over
// what it was told last, although the source still has X) is reported under its own key.
func (w *world) checkRevertJustified(x stored) {
	c := w.c
	if !w.cur.has(x.b) {
		c.Probe("revert_of_block_source_dropped")
		return
	}
	for _, d := range w.deliveries {
		if d.step > x.fetched && !d.ver.has(x.b) {
			c.Probe("revert_excused_by_response")
			return
		}
	}
	n := int(x.b.B.Number)
	key := "no_contradicting_response"
	older := ""
	for _, d := range w.deliveries {
		if d.step > x.fetched {
			if d.kind == "block" && int(d.n) == n && strings.HasPrefix(d.note, "corrupt:") && (strings.HasPrefix(d.note, "corrupt:hash") || strings.HasSuffix(d.note, "_rehash")) {
				// a copy of X with a different header hash was served after X: the only place where
				// the node compares a served block with its own without verifying it first is revertTask
				key = "contradicted_only_by_corrupt_block:" + strings.TrimPrefix(d.note, "corrupt:")
			}
			continue
		}
		if strings.HasPrefix(key, "contradicted_only_by_corrupt_block") {
			continue
		}
		// the typical cause: the successor of X's height was fetched (in parallel, ahead of X) from a
		// chain version that has another block at X's height; its parent does not match X
		if (d.kind == "block" && d.blk != nil && n < len(d.ver.chain) && d.ver.chain[n] != x.b) || (d.kind == "latest" && d.note != "" && !d.ver.has(x.b)) {
			note := d.note
			if note == "" {
				note = "truthful_when_sent"
			}
			if strings.HasPrefix(older, "successor:") && !(d.kind == "block" && int(d.n) == n+1) {
				continue
			}
			older = note
			if d.kind == "block" && int(d.n) == n+1 {
				older = "successor:" + note
			}
		}
	}
	if older != "" && !strings.HasPrefix(key, "contradicted_only_by_corrupt_block") {
		key = "contradicted_only_by_older_response:" + strings.TrimPrefix(older, "successor:")
	}
	c.Fail("unjustified_revert", key, "node reverted block %d %s (delivered to it at step %d, stored at step %d) although the source's current chain v%d contains it and no response delivered after it came from a chain version without it",
		n, short(x.b.B.Hash), x.fetched, x.step, w.cur.id)
}

func (w *world) c06Options(ps []*req) []option {
	var opts []option
	for _, r := range ps {
		ro := w.requestOptions(r)
		if len(ro) == 0 {
			continue
		}
		gw := 10
		if r.kind == "commit" {
			gw = 12
		}
		if r.cancelled() {
			gw = 20
		}
		opts = append(opts, option{r.key, gw, func() { w.choose("variant", ro) }})
	}
	if (w.cfg.ticks && (w.fg == nil || w.fg.canTick())) || len(opts) == 0 {
		opts = append(opts, option{"tick", 2, func() { w.sleep("to the next latest-header poll", w.nextLatestTick()) }})
	}
	return append(opts, w.envOptions()...)
}

// fairStep releases the oldest parked request truthfully (FIFO by the step at which it was first
// seen, ties by key); with nothing parked it advances the clock to the next poll tick.
func (w *world) fairStep(ps []*req) {
	if len(ps) == 0 {
		w.sleep("tail: to the next latest-header poll", w.nextLatestTick())
		return
	}
	sort.SliceStable(ps, func(i, j int) bool { return ps[i].born < ps[j].born })
	r := ps[0]
	switch {
	case r.kind == "commit":
		w.releaseCommit(r)
	case r.cancelled():
		w.answerCtxErr(r)
	case r.kind == "block":
		w.answerBlock(r, "ok")
	case r.kind == "latest":
		w.answerLatest(r, "ok")
	default:
		w.tailOther(r)
	}
}

// tailOther answers request kinds of the pre-confirmed side in the tail (C20 installs the real one).
func (w *world) tailOther(r *req) {
	if w.fg != nil {
		w.fg.tailAnswer(r)
		return
	}
	w.logf("answer %s: error (endpoint not served)", r.key)
	w.release(r, resp{err: errInjected})
}

// tail: the script stops injecting faults and changing the chain, the scheduler becomes fair; the
// node's chain must equal the source's within B steps.
func (w *world) tail() {
	c := w.c
	common := 0
	for common < len(w.local) && common < len(w.cur.chain) && w.local[common].b == w.cur.chain[common] {
		common++
	}
	depth, gap := len(w.local)-common, len(w.cur.chain)-common
	bound := 40 * (depth + gap + 4)
	if w.fg != nil {
		bound *= w.fg.stepFactor() // one DataSource call is several scheduler steps on the HTTP seam
	}
	w.logf("tail: node has %d blocks, source v%d has %d, common prefix %d: depth %d gap %d, bound %d steps", len(w.local), w.cur.id, len(w.cur.chain), common, depth, gap, bound)
	if depth > 0 {
		c.Probe("tail_starts_diverged")
	}
	for i := 0; ; i++ {
		ps := w.settle()
		w.observeChain()
		if w.converged() {
			w.logf("tail: converged after %d steps", i)
			c.Probe("converged_in_tail")
			if w.fg != nil {
				// (not after shutdown: commits still parked then - a revert walk in flight - are released by it)
				w.fg.checkClasses(w.local, "converged")
			}
			return
		}
		if i >= bound {
			key := "behind"
			switch {
			case len(w.local) > 0 && !w.cur.has(w.localTip()):
				key = "on_abandoned_fork"
			case len(w.local) > len(w.cur.chain):
				key = "ahead"
			}
			if len(w.cur.chain) == 1 {
				key += ":source_tip_at_height_0"
			}
			c.Fail("liveness", key, "fault-free tail: after %d fair steps the node holds %d blocks (tip %s) while the stable source chain v%d has %d (tip %s)",
				i, len(w.local), tipStr(w.localTip()), w.cur.id, len(w.cur.chain), tipStr(w.cur.tip()))
		}
		w.fairStep(ps)
		w.step++
	}
}

func tipStr(b *chaingen.Block) string {
	if b == nil {
		return "none"
	}
	return fmt.Sprintf("%d:%s", b.B.Number, short(b.B.Hash))
}

func (w *world) logConfig() {
	cfg := w.cfg
	w.c.Logf("cfg: gomaxprocs=%d newstate=%v init=%d presync=%d steps=%d faulty=%v errs=%v corrupt=%v otherfork=%v stalever=%v stalelatest=%v flap=%v growth=%v reorgs=%v ticks=%v preconf=%v interval=%s gen=%+v",
		cfg.gomaxprocs, cfg.newState, cfg.initLen, cfg.presync, cfg.steps, cfg.faulty, cfg.errs, cfg.corrupt, cfg.otherFork, cfg.staleVer, cfg.staleLat, cfg.flap, cfg.growth, cfg.reorgs, cfg.ticks, cfg.preconf, cfg.interval, w.drv.opts)
	if cfg.feeder {
		w.c.Logf("cfg: feeder class %+v", cfg.fc)
	}
}

func (w *world) finish() {
	c := w.c
	cfg := w.cfg
	if w.storesN > 0 {
		c.Probe("block_stored_by_sync")
	}
	if w.revertsN > 0 {
		c.Probe("revert_observed")
	}
	if w.maxParkedBlock >= 2 {
		c.Probe("concurrent_block_requests")
	}
	if len(w.tampered) > 0 {
		c.Probe("corrupt_block_rejected")
	}
	nf := 0
	for _, n := range c.Faults {
		nf += n
	}
	c.Nontrivial = w.storesN > 0 && nf > 0
	c.Sample = map[string]any{
		"gomaxprocs": cfg.gomaxprocs, "new_state_backend": cfg.newState, "initial_source_blocks": cfg.initLen, "presynced": cfg.presync,
		"steps": cfg.steps, "faulty": cfg.faulty, "source_versions": len(w.versions), "source_reorgs": w.reorgsN,
		"stores": w.storesN, "reverts": w.revertsN, "corrupt_blocks_served": len(w.tampered), "final_height": len(w.local) - 1,
	}
	if w.fg != nil {
		w.fg.finish()
	}
	c.Logf("end: stores=%d reverts=%d versions=%d reorgs=%d corrupt=%d height=%d at +%s", w.storesN, w.revertsN, len(w.versions), w.reorgsN, len(w.tampered), len(w.local)-1, w.rel())
}

// C06 is one simulated run.
// extraSub is one more new-head subscriber that comes and goes while the node runs.
type extraSub struct {
	id            int
	sub           jsync.NewHeadSubscription
	since         int
	eventsAtStart int
}

func C06(c *sim.Ctx) {
	cfg := drawConfig(c, false)
	w := newWorld(c, cfg)
	w.subChurn = c.T.Draw("subs.churn", 3) == 2
	w.logConfig()
	func() {
		defer w.shutdown()
		w.startNode()
		for w.step = 1; w.step <= cfg.steps; w.step++ {
			ps := w.settle()
			w.observeChain()
			w.choose("sched", w.c06Options(ps))
		}
		w.tail()
	}()
	w.mu.Lock()
	p, st := w.runPanic, w.runStack
	w.mu.Unlock()
	if p != "" {
		c.Fail("panic", "sync_goroutine:"+panicSite(p+"\n"+st), "Synchronizer.Run panicked: %s\n%s", p, st)
	}
	w.finish()
}
