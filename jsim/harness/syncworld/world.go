// Package syncworld holds the harnesses of C06 and C20: the real sync.Synchronizer (its fetcher and
// verifier streams, the store/revert tasks, the latest-header poll loop and, for C20, the real
// preconfirmed.Poller and ChainStorage) on a real blockchain.Blockchain over the repository's memory
// database wrapped by faultdb, inside one synctest bubble. The feeder gateway is simulated: every
// DataSource call parks, every database commit parks, and a scheduler loop releases exactly one
// thing per quiescence (answer one request truthfully / with an error / from a stale or foreign chain
// version / with a corrupted block, release one commit, advance the fake clock, grow or reorg the
// source chain), evaluating the oracle after every quiescence.
package syncworld

import (
	"context"
	"errors"
	"fmt"
	"runtime"
	"runtime/debug"
	"sort"
	"strings"
	stdsync "sync"
	"sync/atomic"
	"testing/synctest"
	"time"

	"github.com/NethermindEth/juno/blockchain"
	"github.com/NethermindEth/juno/blockchain/networks"
	"github.com/NethermindEth/juno/core"
	"github.com/NethermindEth/juno/core/felt"
	"github.com/NethermindEth/juno/db"
	"github.com/NethermindEth/juno/db/memory"
	_ "github.com/NethermindEth/juno/encoder/registry"
	"github.com/NethermindEth/juno/starknet"
	jsync "github.com/NethermindEth/juno/sync"
	"github.com/NethermindEth/juno/utils/log"

	"jsim/chaingen"
	"jsim/faultdb"
	"jsim/sim"
)

var (
	errInjected = errors.New("scripted feeder failure")
	errNotFound = errors.New("feeder: block not found")
)

// ---- seam --------------------------------------------------------------------------------------

// req is one parked call: a DataSource request of the node or a database commit.
type req struct {
	kind  string // block | latest | commit | pclatest | pcnum | class
	n     uint64 // block number (block, pcnum), commit index (commit)
	ident string // pre-confirmed block identifier hint
	txc   uint64 // pre-confirmed known-transaction-count hint
	hash  felt.Felt
	poll  bool // latest: issued with the run context (the poll loop) rather than a stream context
	occ   int
	base  string // content-derived part of the key
	key   string // base#occurrence, assigned by the scheduler when it first sees the request
	ctx   context.Context
	ch    chan resp
	born  int       // scheduler step at which the request was first seen parked
	verAt *version  // source chain version when the call was made
	gs    *gorState // feeder class: what the calling goroutine has been doing (feeder.go)
}

type resp struct {
	err   error
	p     payload
	hdr   *core.Header
	upd   starknet.PreConfirmedUpdate
	num   uint64
	class core.ClassDefinition
	// feeder class: the HTTP answer (feeder.go); answers made of the fields above are translated in release
	status int
	body   []byte
}

func (r *req) cancelled() bool { return r.ctx != nil && r.ctx.Err() != nil }

func (w *world) park(ctx context.Context, r *req) resp {
	w.mu.Lock()
	if w.closing {
		w.mu.Unlock()
		err := context.Canceled
		if ctx != nil && ctx.Err() != nil {
			err = ctx.Err()
		}
		return resp{err: err}
	}
	r.ctx = ctx
	r.ch = make(chan resp, 1)
	r.verAt = w.cur
	r.base = fmt.Sprintf("%s/%06d/%s/%04d/%s", r.kind, r.n, r.ident, r.txc, r.hash.String())
	if r.poll {
		r.base += "/poll"
	}
	w.parked = append(w.parked, r)
	w.mu.Unlock()
	return <-r.ch
}

type source struct{ w *world }

func (s source) BlockByNumber(ctx context.Context, n uint64) (jsync.CommittedBlock, error) {
	x := s.w.park(ctx, &req{kind: "block", n: n})
	if x.err != nil {
		return jsync.CommittedBlock{}, x.err
	}
	return jsync.CommittedBlock{Block: x.p.b, StateUpdate: x.p.su, NewClasses: x.p.classes, Persisted: make(chan error, 1)}, nil
}

func (s source) BlockHeaderLatest(ctx context.Context) (*core.Header, error) {
	x := s.w.park(ctx, &req{kind: "latest", poll: ctx == s.w.runCtx})
	return x.hdr, x.err
}

func (s source) PreConfirmedBlockByNumber(ctx context.Context, n uint64, ident string, txc uint64) (starknet.PreConfirmedUpdate, error) {
	x := s.w.park(ctx, &req{kind: "pcnum", n: n, ident: ident, txc: txc})
	return x.upd, x.err
}

func (s source) PreConfirmedBlockLatest(ctx context.Context, ident string, txc uint64) (starknet.PreConfirmedUpdate, uint64, error) {
	x := s.w.park(ctx, &req{kind: "pclatest", ident: ident, txc: txc})
	return x.upd, x.num, x.err
}

// Class: the poller fetches the definitions of the classes a pre-confirmed block declares one by
// one, in the iteration order of a Go map, i.e. in an order the tape does not control. Only the
// first call of such a burst parks (under a key without the class hash); the scheduler's answer
// lets the whole burst through or fails it. A burst ends with the next pre-confirmed block answer.
func (s source) Class(ctx context.Context, h *felt.Felt) (core.ClassDefinition, error) {
	w := s.w
	w.mu.Lock()
	open := w.classBurst
	w.mu.Unlock()
	if !open {
		if x := w.park(ctx, &req{kind: "class"}); x.err != nil {
			return nil, x.err
		}
	}
	w.mu.Lock()
	def := w.classDefs[*h]
	w.mu.Unlock()
	if def == nil {
		return nil, errNotFound
	}
	return def, nil
}

// guardDB is the repository's memory database with a per-step read budget: a node goroutine that
// spins through database reads without ever reaching a park point (a DataSource call, a commit, a
// timer) would keep the scheduler waiting for quiescence forever. When one scheduler step performs
// more than readBudget point reads, every further read fails until the scheduler has regained
// control, which it reports. (Seen with a planted mutation: revertTask loops without a seam call
// while RevertHead keeps failing.)
type guardDB struct {
	*memory.Database
	on   atomic.Bool
	n    atomic.Int64
	trip atomic.Bool
}

const readBudget = 200000

var errSpin = errors.New("jsim: read budget of one scheduler step exhausted (node spins without reaching a park point)")

func (g *guardDB) over() bool {
	if !g.on.Load() {
		return false
	}
	if g.trip.Load() || g.n.Add(1) > readBudget {
		g.trip.Store(true)
		return true
	}
	return false
}

func (g *guardDB) Has(key []byte) (bool, error) {
	if g.over() {
		return false, errSpin
	}
	return g.Database.Has(key)
}

func (g *guardDB) Get(key []byte, cb func([]byte) error) error {
	if g.over() {
		return errSpin
	}
	return g.Database.Get(key, cb)
}

// ---- world -------------------------------------------------------------------------------------

type config struct {
	gomaxprocs int
	newState   bool
	initLen    int // source chain length at the start
	presync    int // blocks the node already holds (a prefix of the source chain)
	maxChain   int
	maxReorgs  int
	steps      int
	faulty     bool
	errs       bool // injected request errors
	corrupt    bool // corrupted blocks
	otherFork  bool // valid blocks of another chain version
	staleVer   bool // block answers computed from the chain version at the time of the call
	staleLat   bool // BlockHeaderLatest answers an older header of the current chain
	flap       bool // BlockHeaderLatest answers from a previous fork (flapping source)
	growth     bool
	reorgs     bool
	ticks      bool

	// C20
	preconf  bool
	interval time.Duration

	// C06 feeder class: the real feeder client stack over a simulated HTTP transport (feeder.go)
	feeder bool
	fc     feederCfg
}

type stored struct {
	b       *chaingen.Block
	step    int // scheduler step at which its store commit was released (0: before the run)
	fetched int // step of the earliest delivery of this block to the node since it last lost it (0: before the run)
}

type delivery struct {
	step int
	ver  *version
	kind string // block | latest
	n    uint64
	note string          // "" truthful | stale | otherfork | flap | corrupt:<kind>
	blk  *chaingen.Block // block responses: the (valid) block that was served; nil for corrupted ones
}

type tamperRec struct {
	hash felt.Felt // hash of the valid block it was derived from
	n    uint64
	kind string
}

type world struct {
	c   *sim.Ctx
	cfg config
	mu  stdsync.Mutex // guards parked/occ/closing/listener records, which the node's goroutines touch

	start    time.Time
	runStart time.Time
	step     int
	closing  bool

	// source model
	drv      *chainDriver
	versions []*version
	cur      *version
	byHash   map[felt.Felt]*chaingen.Block
	reorgsN  int

	// node
	mem     *guardDB
	fdb     *faultdb.DB
	bc      *blockchain.Blockchain
	syn     *jsync.Synchronizer
	sched   bool // commits park
	runCtx  context.Context
	cancel  context.CancelFunc
	joined  chan struct{}
	runDone bool
	heads   jsync.NewHeadSubscription
	// further new-head subscribers (C06, class subChurn)
	subChurn  bool
	extraSubs []*extraSub
	subSeq    int
	subEvents int
	reorgCh jsync.ReorgSubscription

	runPanic string
	runStack string

	// seam
	parked []*req
	occ    map[string]int
	nSeen  map[*req]bool

	// listener records (since the last quiescence)
	onReorg []uint64

	// model of the node's chain and oracle state
	local          []stored
	lastGone       map[*chaingen.Block]int // step at which the node last reverted the block
	revertRun      []*chaingen.Block       // blocks reverted since the last store, in revert order
	commitReleased bool
	deliveries     []delivery
	tampered       []tamperRec
	storesN        int
	revertsN       int
	maxParkedBlock int

	spun       bool                               // the read budget of the last step was exhausted
	classBurst bool                               // a burst of Class calls has been let through
	classDefs  map[felt.Felt]core.ClassDefinition // what Class serves (C20)

	// C20: the committed side only carries the head around; C06's revert-justification and liveness
	// oracles are not evaluated there
	noSyncOracle bool

	fg *gateway // feeder class only
}

func (w *world) rel() time.Duration { return time.Since(w.start) }

// debugOut makes the development test print every trace line (never set by the check driver).
var debugOut bool

func (w *world) logf(format string, a ...any) {
	w.c.Logf("s%03d "+format, append([]any{w.step}, a...)...)
	if debugOut {
		fmt.Printf("s%03d "+format+"\n", append([]any{w.step}, a...)...)
	}
}

func drawConfig(c *sim.Ctx, preconf bool) config {
	t := c.T
	var cfg config
	cfg.gomaxprocs = runtime.GOMAXPROCS(0)
	cfg.preconf = preconf
	if !preconf {
		cfg.feeder = t.Chance("feeder", 1, 3)
		switch c.Knobs["feeder"] { // development aid (JSIM_KNOB_feeder): force the class; never set by the props file
		case "1":
			cfg.feeder = true
		case "0":
			cfg.feeder = false
		}
	}
	cfg.newState = t.Draw("newstate", 2) == 1
	cfg.faulty = t.Chance("faulty", 3, 4)
	cfg.initLen = 1 + t.Draw("init.len", 12)
	switch t.Draw("presync.k", 3) {
	case 0:
		cfg.presync = 0
	case 1:
		cfg.presync = cfg.initLen
	default:
		cfg.presync = t.Draw("presync", cfg.initLen+1)
	}
	cfg.maxChain = 24
	cfg.steps = t.Range("steps", 40, 400)
	cfg.growth = t.Chance("growth", 4, 5)
	cfg.reorgs = t.Chance("reorgs", 3, 4)
	cfg.maxReorgs = 3
	cfg.ticks = t.Chance("ticks", 2, 3)
	if cfg.faulty {
		on := func(l string) bool { return t.Chance(l, 1, 2) }
		cfg.errs = on("f.errs")
		cfg.corrupt = on("f.corrupt")
		cfg.otherFork = on("f.otherfork")
		cfg.staleVer = on("f.stalever")
		cfg.staleLat = on("f.stalelatest")
		cfg.flap = t.Chance("f.flap", 1, 4)
	}
	if cfg.feeder {
		cfg.fc = drawFeederCfg(t, &cfg)
	}
	return cfg
}

func newWorld(c *sim.Ctx, cfg config) *world {
	w := &world{c: c, cfg: cfg, start: time.Now(), byHash: map[felt.Felt]*chaingen.Block{}, lastGone: map[*chaingen.Block]int{}, occ: map[string]int{}, nSeen: map[*req]bool{}}
	w.drv = newChainDriver(c)
	if cfg.feeder {
		w.fg = newGateway(w)
		w.drv.post = w.fg.onBlockGenerated
	}
	var chain []*chaingen.Block
	var parent *chaingen.Block
	for i := 0; i < cfg.initLen; i++ {
		b := w.drv.next(parent)
		w.byHash[*b.B.Hash] = b
		chain = append(chain, b)
		parent = b
	}
	w.cur = &version{id: 1, chain: chain}
	w.versions = []*version{w.cur}

	w.mem = &guardDB{Database: memory.New()}
	w.fdb = faultdb.Wrap(w.mem)
	w.fdb.Plan.BeforeCommit = func(k int) {
		if w.sched {
			w.park(nil, &req{kind: "commit", n: uint64(k)})
		}
	}
	w.bc = blockchain.New(w.fdb, &networks.Sepolia, blockchain.WithNewState(cfg.newState))
	for i := 0; i < cfg.presync; i++ {
		m := chain[i]
		p := cleanPayload(m)
		comm, err := w.bc.SanityCheckNewHeight(p.b, p.su, p.classes)
		if err != nil {
			c.Fail("valid_block_rejected", "presync_sanity", "valid block %d (v%s) rejected by SanityCheckNewHeight: %v", m.B.Number, m.Version, err)
		}
		if err := w.bc.Store(p.b, comm, p.su, p.classes); err != nil {
			c.Fail("valid_block_rejected", "presync_store", "valid block %d (v%s) rejected by Store: %v", m.B.Number, m.Version, err)
		}
		w.local = append(w.local, stored{b: m})
	}
	return w
}

// startNode creates the real Synchronizer and runs it.
func (w *world) startNode() {
	w.sched = true
	w.mem.on.Store(true)
	var src jsync.DataSource = source{w}
	if w.fg != nil {
		src = w.fg.dataSource()
	}
	w.syn = jsync.New(w.bc, src, log.NewNopZapLogger(), w.cfg.interval, false, w.fdb)
	w.syn.WithListener(&jsync.SelectiveListener{OnReorgCb: func(n uint64) {
		w.mu.Lock()
		defer w.mu.Unlock()
		if !w.closing {
			w.onReorg = append(w.onReorg, n)
		}
	}})
	w.heads = w.syn.SubscribeNewHeads()
	w.reorgCh = w.syn.SubscribeReorg()
	w.runCtx, w.cancel = context.WithCancel(context.Background())
	w.joined = make(chan struct{})
	w.runStart = time.Now()
	go func() {
		defer close(w.joined)
		defer func() {
			if r := recover(); r != nil {
				w.mu.Lock()
				w.runPanic = fmt.Sprintf("%v", r)
				w.runStack = string(debug.Stack())
				w.mu.Unlock()
			}
		}()
		_ = w.syn.Run(w.runCtx)
		w.mu.Lock()
		w.runDone = true
		w.mu.Unlock()
	}()
}

// shutdown cancels the run context, releases everything parked and joins all goroutines of the run.
func (w *world) shutdown() {
	w.mu.Lock()
	w.closing = true
	w.mu.Unlock()
	w.mem.on.Store(false)
	if w.fg != nil {
		defer w.fg.uninstall()
	}
	if w.cancel == nil {
		return
	}
	w.cancel()
	for {
		synctest.Wait()
		w.mu.Lock()
		ps := w.parked
		w.parked = nil
		w.mu.Unlock()
		if len(ps) == 0 {
			break
		}
		for _, r := range ps {
			err := context.Canceled
			if r.kind == "commit" {
				err = nil
			}
			r.ch <- resp{err: err}
		}
	}
	<-w.joined
	w.heads.Unsubscribe()
	for _, es := range w.extraSubs {
		es.sub.Unsubscribe()
	}
	w.extraSubs = nil
	w.reorgCh.Unsubscribe()
	synctest.Wait()
	w.c.SimNs += int64(time.Since(w.start))
}

// panicSite extracts the innermost repository frame of a recorded stack.
func panicSite(st string) string {
	lines := strings.Split(st, "\n")
	for i := 0; i+1 < len(lines); i++ {
		loc := strings.TrimSpace(lines[i+1])
		if strings.HasPrefix(loc, "/repo/") && !strings.HasPrefix(lines[i], "\t") {
			name := lines[i]
			if k := strings.LastIndex(name, "("); k > 0 {
				name = name[:k]
			}
			return name
		}
	}
	return "?"
}

func (w *world) checkRunGoroutine() {
	w.mu.Lock()
	p, st, done := w.runPanic, w.runStack, w.runDone
	w.mu.Unlock()
	if p != "" {
		site := panicSite(p + "\n" + st)
		w.c.Fail("panic", "sync_goroutine:"+site, "Synchronizer.Run panicked: %s\n%s", p, st)
	}
	if done {
		w.c.Broken("Synchronizer.Run returned before its context was cancelled")
	}
}

// ---- source chain ------------------------------------------------------------------------------

func (w *world) newVersion(chain []*chaingen.Block) {
	v := &version{id: len(w.versions) + 1, chain: chain}
	w.versions = append(w.versions, v)
	w.cur = v
}

func (w *world) grow() {
	k := 1 + w.c.T.Draw("grow.n", 3)
	chain := append([]*chaingen.Block(nil), w.cur.chain...)
	for i := 0; i < k && len(chain) < w.cfg.maxChain; i++ {
		b := w.drv.next(chain[len(chain)-1])
		w.byHash[*b.B.Hash] = b
		chain = append(chain, b)
	}
	w.newVersion(chain)
	w.logf("env: source grows to %d blocks (v%d, tip %s)", len(chain), w.cur.id, short(w.cur.tip().B.Hash))
}

func (w *world) reorg() {
	t := w.c.T
	n := len(w.cur.chain)
	var depth int
	switch t.Draw("reorg.k", 3) {
	case 0:
		depth = 1 + t.Draw("reorg.depth", min(n, 2))
	case 1:
		depth = 1 + t.Draw("reorg.depth", min(n, 6))
	default:
		depth = 1 + t.Draw("reorg.depth", n)
	}
	keep := n - depth
	newLen := depth - 1 + t.Draw("reorg.len", 3)
	if newLen < 1 {
		newLen = 1
	}
	for keep+newLen > w.cfg.maxChain && newLen > 1 {
		newLen--
	}
	chain := append([]*chaingen.Block(nil), w.cur.chain[:keep]...)
	var parent *chaingen.Block
	if keep > 0 {
		parent = chain[keep-1]
	}
	w.drv.newFork()
	w.drv.rewindTo(parent)
	for i := 0; i < newLen; i++ {
		b := w.drv.next(parent)
		w.byHash[*b.B.Hash] = b
		chain = append(chain, b)
		parent = b
	}
	c := w.c
	for _, r := range w.parked {
		switch r.kind {
		case "block":
			c.Probe("reorg_while_fetch_parked")
		case "commit":
			c.Probe("reorg_while_commit_parked")
		}
	}
	if keep < len(w.local) {
		c.Probe("reorg_below_local_head")
	}
	if keep == 0 {
		c.Probe("reorg_replaces_genesis")
	}
	w.reorgsN++
	c.Fault("source_reorg")
	w.newVersion(chain)
	w.logf("env: source reorg depth %d: keeps %d, new length %d (v%d, tip %s)", depth, keep, len(chain), w.cur.id, short(w.cur.tip().B.Hash))
}

// ---- answers -----------------------------------------------------------------------------------

func (w *world) release(r *req, x resp) {
	if w.fg != nil && r.kind != "commit" {
		x = w.fg.wire(r, x)
	}
	w.mu.Lock()
	for i, p := range w.parked {
		if p == r {
			w.parked = append(w.parked[:i], w.parked[i+1:]...)
			break
		}
	}
	w.mu.Unlock()
	delete(w.nSeen, r)
	r.ch <- x
}

func (w *world) deliver(kind string, n uint64, ver *version, note string) {
	d := delivery{step: w.step, ver: ver, kind: kind, n: n, note: note}
	if kind == "block" && !strings.HasPrefix(note, "corrupt") {
		d.blk = ver.chain[n]
	}
	w.deliveries = append(w.deliveries, d)
}

func (w *world) answerCtxErr(r *req) {
	w.logf("answer %s: context error", r.key)
	w.release(r, resp{err: r.ctx.Err()})
}

func (w *world) answerErr(r *req) {
	w.c.Fault(r.kind + "_error")
	w.logf("answer %s: injected error", r.key)
	w.release(r, resp{err: errInjected})
}

// otherForkAt returns the chain versions that hold, at height n, a block different from the current
// chain's (or a block where the current chain has none that is not an extension of it).
func (w *world) otherForkAt(n uint64) []*version {
	var out []*version
	seen := map[*chaingen.Block]bool{}
	for _, v := range w.versions {
		if v == w.cur || int(n) >= len(v.chain) {
			continue
		}
		b := v.chain[n]
		if w.cur.has(b) || seen[b] {
			continue
		}
		seen[b] = true
		out = append(out, v)
	}
	return out
}

func (w *world) answerBlock(r *req, mode string) {
	c := w.c
	switch mode {
	case "ok":
		if int(r.n) >= len(w.cur.chain) {
			w.logf("answer %s: not found (source tip %d, v%d)", r.key, len(w.cur.chain)-1, w.cur.id)
			w.release(r, resp{err: errNotFound})
			return
		}
		m := w.cur.chain[r.n]
		w.deliver("block", r.n, w.cur, "")
		w.logf("answer %s: block %s of v%d", r.key, short(m.B.Hash), w.cur.id)
		w.release(r, resp{p: cleanPayload(m)})
	case "stalever":
		v := r.verAt
		m := v.chain[r.n]
		c.Fault("stale_version_block")
		w.deliver("block", r.n, v, "stale")
		w.logf("answer %s: block %s of v%d (the chain at the time of the call; current v%d)", r.key, short(m.B.Hash), v.id, w.cur.id)
		w.release(r, resp{p: cleanPayload(m)})
	case "otherfork":
		vs := w.otherForkAt(r.n)
		v := vs[c.T.Draw("otherfork.v", len(vs))]
		m := v.chain[r.n]
		c.Fault("other_fork_block")
		w.deliver("block", r.n, v, "otherfork")
		w.logf("answer %s: block %s of another fork (v%d; current v%d)", r.key, short(m.B.Hash), v.id, w.cur.id)
		w.release(r, resp{p: cleanPayload(m)})
	case "corrupt":
		m := w.cur.chain[r.n]
		ks := w.tamperKinds(m)
		kind := ks[c.T.Draw("tamper.kind", len(ks))]
		p := w.tamper(m, kind)
		c.Fault("corrupt_block")
		c.Fault("corrupt_" + kind)
		w.tampered = append(w.tampered, tamperRec{hash: *m.B.Hash, n: r.n, kind: kind})
		w.deliver("block", r.n, w.cur, "corrupt:"+kind)
		w.logf("answer %s: block %s of v%d CORRUPTED (%s)", r.key, short(m.B.Hash), w.cur.id, kind)
		w.release(r, resp{p: p})
	}
}

func (w *world) answerLatest(r *req, mode string) {
	c := w.c
	switch mode {
	case "ok":
		m := w.cur.tip()
		w.deliver("latest", m.B.Number, w.cur, "")
		w.logf("answer %s: latest %d %s (v%d)", r.key, m.B.Number, short(m.B.Hash), w.cur.id)
		w.release(r, resp{hdr: Clone(m.B.Header)})
	case "stale":
		k := c.T.Draw("stale.height", len(w.cur.chain)-1)
		m := w.cur.chain[k]
		c.Fault("stale_latest")
		w.deliver("latest", m.B.Number, &version{id: w.cur.id, chain: w.cur.chain[:k+1]}, "stale")
		w.logf("answer %s: STALE latest %d %s (v%d tip is %d)", r.key, m.B.Number, short(m.B.Hash), w.cur.id, len(w.cur.chain)-1)
		w.release(r, resp{hdr: Clone(m.B.Header)})
	case "flap":
		vs := w.flapVersions()
		v := vs[c.T.Draw("flap.v", len(vs))]
		m := v.tip()
		c.Fault("flapping_latest")
		w.deliver("latest", m.B.Number, v, "flap")
		w.logf("answer %s: FLAPPING latest %d %s of v%d (current v%d)", r.key, m.B.Number, short(m.B.Hash), v.id, w.cur.id)
		w.release(r, resp{hdr: Clone(m.B.Header)})
	}
}

// flapVersions: previous versions whose tip is not on the current chain.
func (w *world) flapVersions() []*version {
	var out []*version
	for _, v := range w.versions {
		if v != w.cur && !w.cur.has(v.tip()) {
			out = append(out, v)
		}
	}
	return out
}

func (w *world) releaseCommit(r *req) {
	w.commitReleased = true
	w.logf("release %s", r.key)
	w.release(r, resp{})
}

// ---- scheduler ---------------------------------------------------------------------------------

type option struct {
	name   string
	weight int
	do     func()
}

func (w *world) choose(label string, opts []option) {
	total := 0
	for _, o := range opts {
		total += o.weight
	}
	if total == 0 {
		w.c.Broken("scheduler has nothing to do (no parked request, no timer, no environment event)")
	}
	v := w.c.T.Draw(label, total)
	for _, o := range opts {
		if v < o.weight {
			o.do()
			return
		}
		v -= o.weight
	}
}

// settle waits for quiescence and returns the parked requests ordered by their content-derived
// key. Requests that are already cancelled when the scheduler first sees them are handed their
// context error at once, silently: whether such a call was made at all depends on a race inside
// the node (a fetcher picking up its next height vs. the verifier cancelling the stream context in
// the same step), and both outcomes leave the node in the same state. A request that was seen
// alive at an earlier quiescence stays parked when its context is cancelled later; what happens to
// it is a scheduler choice. Newly seen requests are numbered and noted in the trace in key order,
// never in arrival order.
func (w *world) settle() []*req {
	for {
		synctest.Wait()
		w.mu.Lock()
		var gone []*req
		kept := w.parked[:0]
		for _, r := range w.parked {
			if !w.nSeen[r] && r.cancelled() {
				gone = append(gone, r)
			} else {
				kept = append(kept, r)
			}
		}
		w.parked = kept
		w.mu.Unlock()
		if len(gone) == 0 {
			break
		}
		for _, r := range gone {
			r.ch <- resp{err: r.ctx.Err()}
		}
	}
	w.mem.n.Store(0)
	if w.mem.trip.Swap(false) {
		w.spun = true
	}
	w.mu.Lock()
	ps := append([]*req(nil), w.parked...)
	w.mu.Unlock()
	sort.SliceStable(ps, func(i, j int) bool {
		if ps[i].base != ps[j].base {
			return ps[i].base < ps[j].base
		}
		return ps[i].occ < ps[j].occ
	})
	// unseen requests have occ 0 and sort before the seen ones of the same base; number them
	for _, r := range ps {
		if !w.nSeen[r] {
			w.occ[r.base]++
			r.occ = w.occ[r.base]
			r.key = fmt.Sprintf("%s#%05d", r.base, r.occ)
		}
	}
	sort.SliceStable(ps, func(i, j int) bool { return ps[i].key < ps[j].key })
	nb := 0
	for _, r := range ps {
		if r.kind == "block" {
			nb++
		}
		if !w.nSeen[r] {
			w.nSeen[r] = true
			r.born = w.step
			w.logf("parked %s", r.key)
		}
	}
	if nb > w.maxParkedBlock {
		w.maxParkedBlock = nb
	}
	return ps
}

func (w *world) nextLatestTick() time.Duration {
	el := time.Since(w.runStart)
	return time.Minute - el%time.Minute
}

func (w *world) sleep(what string, d time.Duration) {
	if w.fg != nil {
		w.fg.advance(what, d)
		return
	}
	w.logf("env: clock +%s (%s)", d, what)
	time.Sleep(d)
}

// requestOptions lists what the script may do with one parked request of the committed-chain side.
func (w *world) requestOptions(r *req) []option {
	cfg := w.cfg
	var opts []option
	add := func(name string, weight int, do func()) { opts = append(opts, option{name, weight, do}) }
	if w.fg != nil && r.kind != "commit" {
		return w.fg.requestOptions(r)
	}
	switch r.kind {
	case "commit":
		add("commit", 12, func() { w.releaseCommit(r) })
	case "block":
		if r.cancelled() {
			add("ctxerr", 20, func() { w.answerCtxErr(r) })
			add("ok", 3, func() { w.answerBlock(r, "ok") })
			return opts
		}
		add("ok", 12, func() { w.answerBlock(r, "ok") })
		if cfg.errs {
			add("err", 2, func() { w.answerErr(r) })
		}
		if cfg.corrupt && int(r.n) < len(w.cur.chain) {
			add("corrupt", 2, func() { w.answerBlock(r, "corrupt") })
		}
		if cfg.otherFork && len(w.otherForkAt(r.n)) > 0 {
			add("otherfork", 2, func() { w.answerBlock(r, "otherfork") })
		}
		if cfg.staleVer && r.verAt != w.cur && int(r.n) < len(r.verAt.chain) && !w.cur.has(r.verAt.chain[r.n]) {
			add("stalever", 3, func() { w.answerBlock(r, "stalever") })
		}
	case "latest":
		if r.cancelled() {
			add("ctxerr", 20, func() { w.answerCtxErr(r) })
			add("ok", 3, func() { w.answerLatest(r, "ok") })
			return opts
		}
		add("ok", 12, func() { w.answerLatest(r, "ok") })
		if cfg.errs {
			add("err", 2, func() { w.answerErr(r) })
		}
		if cfg.staleLat && len(w.cur.chain) > 1 {
			add("stale", 3, func() { w.answerLatest(r, "stale") })
		}
		if cfg.flap && len(w.flapVersions()) > 0 {
			add("flap", 2, func() { w.answerLatest(r, "flap") })
		}
	}
	return opts
}

func (w *world) envOptions() []option {
	cfg := w.cfg
	var opts []option
	if cfg.growth && len(w.cur.chain) < cfg.maxChain {
		opts = append(opts, option{"grow", 3, w.grow})
	}
	if cfg.reorgs && w.reorgsN < cfg.maxReorgs {
		opts = append(opts, option{"reorg", 2, w.reorg})
	}
	if w.fg != nil {
		opts = append(opts, w.fg.clockOptions()...)
	}
	return opts
}

// ---- reading the node --------------------------------------------------------------------------

// nodeHead returns the node's height (-1: empty chain) and head hash.
func (w *world) nodeHead() (int, *felt.Felt) {
	h, err := w.bc.Height()
	if err != nil {
		if errors.Is(err, db.ErrKeyNotFound) {
			return -1, nil
		}
		w.c.Broken("Blockchain.Height: %v", err)
	}
	hdr, err := w.bc.BlockHeaderByNumber(h)
	if err != nil {
		w.c.Broken("Blockchain.BlockHeaderByNumber(%d): %v", h, err)
	}
	return int(h), hdr.Hash
}

func (w *world) localTip() *chaingen.Block {
	if len(w.local) == 0 {
		return nil
	}
	return w.local[len(w.local)-1].b
}

func (w *world) converged() bool {
	if len(w.local) != len(w.cur.chain) {
		return false
	}
	for i, s := range w.local {
		if s.b != w.cur.chain[i] {
			return false
		}
	}
	return true
}
