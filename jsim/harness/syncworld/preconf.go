package syncworld

import (
	"fmt"
	"math/big"
	"sort"

	"github.com/NethermindEth/juno/adapters/sn2core"
	"github.com/NethermindEth/juno/core"
	"github.com/NethermindEth/juno/core/felt"
	"github.com/NethermindEth/juno/starknet"

	"jsim/refstate"
	"jsim/tape"
)

// ---- model of the sequencer's pre-confirmed rounds ---------------------------------------------

// pcTx is one pre-confirmed transaction as the feeder serves it (wire format), with its receipt
// and its own state diff.
type pcTx struct {
	tx   starknet.Transaction
	rc   *starknet.TransactionReceipt
	sd   *starknet.StateDiff
	hash felt.Felt
	diff *core.StateDiff // sd adapted (model side)

	// the round the transaction belongs to (a transaction belongs to exactly one round of one slot)
	round string
	slot  uint64
}

// pcRound is one round of one slot: an identifier and an append-only transaction list.
type pcRound struct {
	ident string
	num   uint64
	txs   []*pcTx
	ts    uint64
	ver   string
	seq   *felt.Felt
	mode  starknet.L1DAMode
	price uint64
}

type pcModel struct {
	t       *tape.Tape
	addrs   []felt.Felt
	slots   []felt.Felt
	rounds  map[uint64]*pcRound
	classes map[felt.Felt]core.ClassDefinition // definitions of the classes declared by pre-confirmed txs
	casm    map[felt.Felt]felt.Felt
	classTx map[felt.Felt]*pcTx // the transaction that declares a class (each class is declared by exactly one)
	nIdent  int
	nTx     uint64
	nClass  uint64
	allTx   []*pcTx

	// feeder class of C20 (c20feeder.go): makes a generated class one that a gateway can transport (the
	// adapter recomputes ProgramHash and AbiHash from what is on the wire); nil elsewhere
	realise func(*core.SierraClass)
}

func newPcModel(t *tape.Tape, addrs, slots []felt.Felt) *pcModel {
	return &pcModel{t: t, addrs: addrs, slots: slots, rounds: map[uint64]*pcRound{}, classes: map[felt.Felt]core.ClassDefinition{}, casm: map[felt.Felt]felt.Felt{}, classTx: map[felt.Felt]*pcTx{}}
}

func fu(u uint64) *felt.Felt { return felt.NewFromUint64[felt.Felt](u) }

var pcPrime, _ = new(big.Int).SetString("800000000000011000000000000000000000000000000000000000000000001", 16)

func (m *pcModel) newClass() (felt.Felt, felt.Felt) {
	m.nClass++
	id := 0x900000 + m.nClass
	c := &core.SierraClass{
		Abi:             fmt.Sprintf(`[{"pc":%d}]`, id),
		AbiHash:         fu(0xab9000 + id),
		ProgramHash:     fu(0x9e9000 + id),
		Program:         []felt.Felt{*fu(1), *fu(6), *fu(0), *fu(id)},
		SemanticVersion: "0.1.0",
		EntryPoints: core.SierraEntryPointsByType{
			Constructor: []core.SierraEntryPoint{},
			External:    []core.SierraEntryPoint{{Index: 0, Selector: fu(0x5e1 + id)}},
			L1Handler:   []core.SierraEntryPoint{},
		},
		Compiled: &core.CasmClass{
			Bytecode:        []felt.Felt{*fu(0x480680017fff8000), *fu(id), *fu(0x208b7fff7fff7ffe)},
			PythonicHints:   []byte(`[]`),
			Hints:           []byte(`[]`),
			CompilerVersion: "2.1.0",
			Prime:           pcPrime,
			External:        []core.CasmEntryPoint{{Offset: 0, Builtins: []string{"range_check"}, Selector: fu(0x5e1 + id)}},
			L1Handler:       []core.CasmEntryPoint{},
			Constructor:     []core.CasmEntryPoint{},
		},
	}
	if m.realise != nil {
		m.realise(c)
	}
	h, err := c.Hash()
	if err != nil {
		panic(err)
	}
	casm := *fu(0xca5e0000 + id)
	m.classes[h] = c
	m.casm[h] = casm
	return h, casm
}

// overlay is a tolerant abstract state: a refstate plus the set of "ghost" contracts, i.e. contracts
// touched by a diff entry that presupposes an existence the state does not have (possible only when
// a pre-confirmed block is read over a base other than the one it was generated for). Ghosts are
// not compared.
type overlay struct {
	st     *refstate.State
	ghost  map[felt.Felt]bool
	casm   map[felt.Felt]felt.Felt // sierra classes declared by the overlaid diffs
	amb    map[felt.Felt]bool      // addresses whose overlaid diffs are mutually inconsistent
}

func (o *overlay) skip(a felt.Felt) bool { return o.ghost[a] || o.amb[a] }

func newOverlay(base *refstate.State) *overlay {
	return &overlay{st: base.Clone(), ghost: map[felt.Felt]bool{}, casm: map[felt.Felt]felt.Felt{}, amb: map[felt.Felt]bool{}}
}

func (o *overlay) contract(a felt.Felt) *refstate.Contract {
	c := o.st.Contracts[a]
	if c == nil {
		c = &refstate.Contract{Storage: map[felt.Felt]felt.Felt{}}
		o.st.Contracts[a] = c
		o.ghost[a] = true
	}
	return c
}

// apply overlays one state diff (the semantics of a Starknet state diff: a deployment creates the
// contract with empty storage and nonce zero, everything else overwrites).
func (o *overlay) apply(d *core.StateDiff) {
	for a, ch := range d.DeployedContracts {
		if o.st.Contracts[a] != nil {
			// A deployment at an address that already exists cannot occur in a consistent chain. It does
			// occur in a view that mixes slots of different sequencer rounds (the poller keeps older
			// slots while the sequencer has replaced them), and what "overlaying" means then is not
			// defined by the protocol; such addresses are not compared.
			o.amb[a] = true
		}
		o.st.Contracts[a] = &refstate.Contract{ClassHash: *ch, Storage: map[felt.Felt]felt.Felt{}}
		delete(o.ghost, a)
	}
	for a, ch := range d.ReplacedClasses {
		o.contract(a).ClassHash = *ch
	}
	for a, n := range d.Nonces {
		o.contract(a).Nonce = *n
	}
	for a, kv := range d.StorageDiffs {
		c := o.contract(a)
		for k, v := range kv {
			if v.IsZero() {
				delete(c.Storage, k)
			} else {
				c.Storage[k] = *v
			}
		}
	}
	for h, casm := range d.DeclaredV1Classes {
		o.casm[h] = *casm
	}
}

// genTx generates one transaction whose state diff is consistent with the overlay state st (which
// it advances).
func (m *pcModel) genTx(st *overlay) *pcTx {
	t := m.t
	m.nTx++
	h := *fu(0x7c000000 + m.nTx)
	sender := m.addrs[t.Draw("pc.sender", len(m.addrs))]
	cd := []felt.Felt{*fu(uint64(t.Draw("pc.cd", 100)))}
	sig := []felt.Felt{}
	x := &pcTx{hash: h}
	x.tx = starknet.Transaction{
		Hash: &h, Version: fu(1), Type: starknet.TxnInvoke, SenderAddress: &sender, MaxFee: fu(uint64(1 + t.Draw("pc.fee", 50))),
		Signature: &sig, CallData: &cd, Nonce: fu(m.nTx),
	}
	x.rc = &starknet.TransactionReceipt{
		ActualFee: fu(uint64(t.Draw("pc.afee", 50))), ExecutionStatus: starknet.Succeeded, TransactionHash: &h,
		Events: []*starknet.Event{}, L2ToL1Message: []*starknet.L2ToL1Message{},
	}
	if t.Draw("pc.reverted", 5) == 4 {
		// a reverted transaction still changes the state (nonce, fee): its state diff stays as generated
		x.rc.ExecutionStatus = starknet.Reverted
		x.rc.RevertError = "reverted: scripted"
	}
	if t.Draw("pc.ev", 3) == 0 {
		from := m.addrs[0]
		x.rc.Events = append(x.rc.Events, &starknet.Event{From: &from, Keys: []felt.Felt{*fu(0xa)}, Data: []felt.Felt{*fu(m.nTx)}})
	}
	sd := &starknet.StateDiff{
		StorageDiffs: map[string][]struct {
			Key   *felt.Felt `json:"key"`
			Value *felt.Felt `json:"value"`
		}{},
		Nonces: map[string]*felt.Felt{},
	}
	var existing []felt.Felt
	for _, a := range refstate.SortedFelts(st.st.Contracts) {
		if !st.st.Contracts[a].System && !st.skip(a) {
			existing = append(existing, a)
		}
	}
	nAct := 1 + t.Draw("pc.nact", 3)
	for i := 0; i < nAct; i++ {
		switch act := t.Draw("pc.act", 8); {
		case act == 0: // declare a Sierra class
			ch, casm := m.newClass()
			m.classTx[ch] = x
			sd.DeclaredClasses = append(sd.DeclaredClasses, struct {
				ClassHash         *felt.Felt `json:"class_hash"`
				CompiledClassHash *felt.Felt `json:"compiled_class_hash"`
			}{&ch, &casm})
		case act == 1: // deploy a contract at a free address
			var free []felt.Felt
			for _, a := range m.addrs {
				if st.st.Contracts[a] == nil && !deployedIn(sd, &a) {
					free = append(free, a)
				}
			}
			if len(free) == 0 {
				continue
			}
			a := free[t.Draw("pc.deploy", len(free))]
			ch := *fu(0xdeaf0000 + uint64(t.Draw("pc.cls", 4)))
			sd.DeployedContracts = append(sd.DeployedContracts, struct {
				Address   *felt.Felt `json:"address"`
				ClassHash *felt.Felt `json:"class_hash"`
			}{&a, &ch})
		case act == 2 && len(existing) > 0: // replace a class
			a := existing[t.Draw("pc.repl", len(existing))]
			ch := *fu(0xbeaf0000 + uint64(t.Draw("pc.cls", 4)))
			dup := false
			for _, r := range sd.ReplacedClasses {
				dup = dup || r.Address.Equal(&a)
			}
			if !dup {
				sd.ReplacedClasses = append(sd.ReplacedClasses, struct {
					Address   *felt.Felt `json:"address"`
					ClassHash *felt.Felt `json:"class_hash"`
				}{&a, &ch})
			}
		case act == 3 && len(existing) > 0: // nonce
			a := existing[t.Draw("pc.nonce", len(existing))]
			cur := st.st.Contracts[a].Nonce
			var n felt.Felt
			n.Add(&cur, fu(uint64(1+t.Draw("pc.ninc", 3))))
			sd.Nonces[a.String()] = &n
		case len(existing) > 0: // storage write
			a := existing[t.Draw("pc.saddr", len(existing))]
			k := m.slots[t.Draw("pc.slot", len(m.slots))]
			v := *fu(uint64(t.Draw("pc.val", 10))) // 0 = reset
			key := a.String()
			rows := sd.StorageDiffs[key]
			found := false
			for j := range rows {
				if rows[j].Key.Equal(&k) {
					rows[j].Value = &v
					found = true
				}
			}
			if !found {
				rows = append(rows, struct {
					Key   *felt.Felt `json:"key"`
					Value *felt.Felt `json:"value"`
				}{&k, &v})
			}
			sd.StorageDiffs[key] = rows
		}
	}
	x.sd = sd
	d, err := sn2core.AdaptStateDiff(sd)
	if err != nil {
		panic(err)
	}
	x.diff = &d
	st.apply(x.diff)
	m.allTx = append(m.allTx, x)
	return x
}

func deployedIn(sd *starknet.StateDiff, a *felt.Felt) bool {
	for _, d := range sd.DeployedContracts {
		if d.Address.Equal(a) {
			return true
		}
	}
	return false
}

// newRound opens a fresh round for slot num with n transactions generated over state st.
func (m *pcModel) newRound(num uint64, ver string, st *overlay, n int) *pcRound {
	m.nIdent++
	r := &pcRound{
		ident: fmt.Sprintf("0x%x", 0xb10c0000+m.nIdent), num: num, ver: ver, ts: 1_800_000_000 + uint64(m.nIdent),
		seq: fu(0x5e9), mode: starknet.L1DAMode(m.t.Draw("pc.da", 2)), price: uint64(10 + m.t.Draw("pc.price", 5)),
	}
	for i := 0; i < n; i++ {
		m.extend(r, st)
	}
	m.rounds[num] = r
	return r
}

// extend appends one freshly generated transaction to round r (rounds are append-only).
func (m *pcModel) extend(r *pcRound, st *overlay) *pcTx {
	x := m.genTx(st)
	x.round, x.slot = r.ident, r.num
	r.txs = append(r.txs, x)
	return x
}

func (r *pcRound) full() starknet.PreConfirmedBlock { return r.prefix(len(r.txs)) }

// prefix is the full-block response as of the time the round had k transactions.
func (r *pcRound) prefix(k int) starknet.PreConfirmedBlock {
	b := starknet.PreConfirmedBlock{
		BlockIdentifier: r.ident, Status: "PRE_CONFIRMED", Timestamp: r.ts, Version: r.ver, SequencerAddress: r.seq,
		L1GasPrice:     &starknet.GasPrice{PriceInWei: fu(r.price), PriceInFri: fu(r.price + 1)},
		L2GasPrice:     &starknet.GasPrice{PriceInWei: fu(r.price + 2), PriceInFri: fu(r.price + 3)},
		L1DataGasPrice: &starknet.GasPrice{PriceInWei: fu(r.price + 4), PriceInFri: fu(r.price + 5)},
		L1DAMode:       r.mode,
		Transactions:   []starknet.Transaction{}, Receipts: []*starknet.TransactionReceipt{}, TransactionStateDiffs: []*starknet.StateDiff{},
	}
	for _, x := range r.txs[:k] {
		b.Transactions = append(b.Transactions, x.tx)
		b.Receipts = append(b.Receipts, x.rc)
		b.TransactionStateDiffs = append(b.TransactionStateDiffs, x.sd)
	}
	return b
}

func (r *pcRound) delta(from int) starknet.PreConfirmedDeltaUpdate {
	d := starknet.PreConfirmedDeltaUpdate{BlockIdentifier: r.ident}
	for _, x := range r.txs[from:] {
		d.Transactions = append(d.Transactions, x.tx)
		d.Receipts = append(d.Receipts, x.rc)
		d.TransactionStateDiffs = append(d.TransactionStateDiffs, x.sd)
	}
	return d
}

// answer computes the feeder's response for (round, identifier hint, known transaction count).
func (r *pcRound) answer(ident string, txc uint64) (starknet.PreConfirmedUpdate, string) {
	if ident == r.ident {
		switch {
		case int(txc) == len(r.txs):
			return starknet.PreConfirmedNoChange{}, "no-change"
		case int(txc) < len(r.txs):
			return r.delta(int(txc)), fmt.Sprintf("delta +%d", len(r.txs)-int(txc))
		}
	}
	return r.full(), fmt.Sprintf("full block %s with %d txs", r.ident, len(r.txs))
}

func (m *pcModel) sortedNums() []uint64 {
	ns := make([]uint64, 0, len(m.rounds))
	for n := range m.rounds {
		ns = append(ns, n)
	}
	sort.Slice(ns, func(i, j int) bool { return ns[i] < ns[j] })
	return ns
}

func (m *pcModel) latest() *pcRound {
	ns := m.sortedNums()
	if len(ns) == 0 {
		return nil
	}
	return m.rounds[ns[len(ns)-1]]
}

// stateBelow builds the generation state for slot num: base overlaid with the current rounds of
// all lower slots.
func (m *pcModel) stateBelow(base *refstate.State, num uint64) *overlay {
	st := newOverlay(base)
	for _, n := range m.sortedNums() {
		if n >= num {
			break
		}
		for _, x := range m.rounds[n].txs {
			st.apply(x.diff)
		}
	}
	return st
}

func (m *pcModel) stateThrough(base *refstate.State, num uint64) *overlay {
	st := m.stateBelow(base, num)
	if r := m.rounds[num]; r != nil {
		for _, x := range r.txs {
			st.apply(x.diff)
		}
	}
	return st
}
