package syncworld

import (
	"encoding/json"
	"fmt"
	"os"
	"runtime"
	"strconv"
	"testing"
	"testing/synctest"

	"jsim/sim"
)

// TestDev replays a tape ({"tape":[...],"seed":n} in $DEV_TAPE) or runs seed $DEV_SEED once and
// prints the full trace (development aid; skipped by the check driver).
func TestDev(t *testing.T) {
	prop := os.Getenv("DEV_PROP")
	if prop == "" {
		t.Skip()
	}
	if g, _ := strconv.Atoi(os.Getenv("DEV_GMP")); g > 0 {
		runtime.GOMAXPROCS(g)
	}
	h := map[string]sim.Harness{"C06": C06, "C20": C20}[prop]
	opt := sim.Options{Bubble: true, PanicIsViolation: true}
	debugOut = true
	synctest.Test(t, func(t *testing.T) {
		var r sim.RunResult
		if f := os.Getenv("DEV_TAPE"); f != "" {
			var x struct {
				Tape []uint64 `json:"tape"`
				Seed uint64   `json:"seed"`
			}
			b, err := os.ReadFile(f)
			if err == nil {
				err = json.Unmarshal(b, &x)
			}
			if err != nil {
				t.Fatal(err)
			}
			r = sim.ExecTape(h, prop, "quick", x.Seed, x.Tape, opt)
		} else {
			s, _ := strconv.ParseUint(os.Getenv("DEV_SEED"), 10, 64)
			if os.Getenv("DEV_TWICE") != "" {
				debugOut = false
				r = sim.Exec(h, prop, "quick", s, opt)
				var r2 sim.RunResult
				nrep, _ := strconv.Atoi(os.Getenv("DEV_TWICE"))
				for k := 0; k < nrep; k++ {
					r2 = sim.ExecTape(h, prop, "quick", s, r.Tape, opt)
					if r2.TraceHash != r.TraceHash {
						fmt.Printf("differs at repetition %d\n", k)
						break
					}
				}
				fmt.Printf("hash1=%x hash2=%x events %d %d\n", r.TraceHash, r2.TraceHash, len(r.Events), len(r2.Events))
				for i := range r.Events {
					if i >= len(r2.Events) || r.Events[i] != r2.Events[i] {
						lo := max(0, i-15)
						for j := lo; j <= i+3 && j < len(r.Events); j++ {
							fmt.Printf("A %s\n", r.Events[j])
						}
						for j := lo; j <= i+3 && j < len(r2.Events); j++ {
							fmt.Printf("B %s\n", r2.Events[j])
						}
						break
					}
				}
				return
			}
			r = sim.Exec(h, prop, "quick", s, opt)
		}
		fmt.Printf("hash=%x violation=%+v machinery=%s\n", r.TraceHash, r.Violation, r.Machinery)
	})
}
