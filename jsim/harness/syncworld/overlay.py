#!/usr/bin/env python3
"""Generates the `go build -overlay` file that gives the atomic operations of sync/preconfirmed yield points.

  python3 overlay.py <out.json>            (cwd /verif/jsim; repository root = $JSIM_REPO or /repo)

* harness/syncworld/yieldgen (a stdlib-only Go program: go/parser + a text splice at token offsets, line
  numbers are preserved) reads every non-test file of <root>/sync/preconfirmed from the CURRENT tree and writes,
  for each file that performs an atomic Load/Store/Swap/CompareAndSwap/Add/And/Or, a copy in which the
  innermost list-level statement around the call is preceded by `simYield("<file>:<line>")` and, where the
  control flow allows, followed by `simYield("<file>:<line>+")`;
* one file is added virtually to the package, <root>/sync/preconfirmed/zz_jsim_yield.go, declaring
  `var SimYield func(site string)` and the nil-tolerant `simYield`.
With the hook nil (always, except inside the cooperative sub-class of the C20 direct-drive class) the package
behaves as before; C06 never sets it. Nothing under the repository root is written.

The generated files live in /verif/build/ov/syncworld-<sha1(root)[:10]>/. The driver uses ONE overlay JSON
path per package for every repository root, so two checks that run at the same time against different roots
(a sensitivity run next to a run on /repo) would overwrite each other's file between generation and build.
Therefore the JSON is merged, under a lock: entries that belong to other roots and still point at existing
files are kept (an overlay entry for a path outside the build is ignored by the go command).

Fails loudly (exit 1) if the package is missing, does not parse, or already declares the hook names.
"""
import fcntl, hashlib, json, os, subprocess, sys

HERE = os.path.dirname(os.path.abspath(__file__))
PKG = os.path.basename(HERE)
REL = os.path.join("sync", "preconfirmed")


def die(msg):
    sys.stderr.write("overlay.py: " + msg + "\n")
    sys.exit(1)


def main():
    if len(sys.argv) != 2:
        die("usage: overlay.py <out.json>")
    root = os.environ.get("JSIM_REPO", "/repo").rstrip("/")
    tag = hashlib.sha1(root.encode()).hexdigest()[:10]
    verif = os.path.dirname(os.path.dirname(os.path.dirname(HERE)))
    ovroot = os.path.join(verif, "build", "ov")
    outdir = os.path.join(ovroot, "%s-%s" % (PKG, tag))
    os.makedirs(outdir, exist_ok=True)
    pdir = os.path.join(root, REL)
    if not os.path.isfile(os.path.join(pdir, "chain_storage.go")):
        die("no %s/chain_storage.go under %s" % (REL, root))
    env = dict(os.environ)
    env["GOFLAGS"] = "-mod=mod"
    env["GOPROXY"] = "off"
    r = subprocess.run(["go", "run", "./harness/%s/yieldgen" % PKG, "-dir", pdir, "-out", outdir],
                       cwd=os.path.dirname(os.path.dirname(HERE)), env=env, capture_output=True, text=True)
    if r.returncode != 0:
        die("yieldgen failed:\n" + r.stdout + r.stderr)
    try:
        res = json.loads(r.stdout)
    except ValueError:
        die("yieldgen printed no JSON:\n" + r.stdout + r.stderr)
    mine = res["replace"]
    if os.path.join(pdir, "zz_jsim_yield.go") not in mine:
        die("yieldgen did not produce the hook file")
    if not any(s["File"] == "chain_storage.go" for s in res["sites"]):
        # not an error: a change may have replaced the atomics by something else; the harness then counts
        # the cooperative reader actions as inconclusive (no yield point fired)
        sys.stderr.write("overlay.py: warning: no atomic operation found in %s/chain_storage.go\n" % REL)
    with open(os.path.join(outdir, "sites.json"), "w") as f:
        json.dump(res, f, indent=1, sort_keys=True)

    out = sys.argv[1]
    os.makedirs(os.path.dirname(os.path.abspath(out)), exist_ok=True)
    with open(os.path.join(ovroot, ".%s-overlay.lock" % PKG), "w") as lock:
        fcntl.flock(lock, fcntl.LOCK_EX)
        replace = {}
        try:
            old = json.load(open(out)).get("Replace", {})
        except (OSError, ValueError, AttributeError):
            old = {}
        for k, v in old.items():
            if k.startswith(pdir + os.sep):
                continue  # this root's entries are regenerated below
            if os.path.isdir(os.path.dirname(k)) and os.path.isfile(v) and v.startswith(ovroot + os.sep):
                replace[k] = v
        replace.update(mine)
        tmp = "%s.tmp-%d" % (out, os.getpid())
        with open(tmp, "w") as f:
            json.dump({"Replace": replace}, f, indent=1, sort_keys=True)
        os.replace(tmp, out)


if __name__ == "__main__":
    main()
