package syncworld

// The "feeder class" of C20's synchronizer-driven runs. The Synchronizer - and with it the real
// preconfirmed.Poller - gets the REAL data source stack of feeder.go
//
//	sync.NewFeederGatewayDataSource(bc, starknetdata/feeder.New(clients/feeder.NewClient(...)))
//
// over the simulated gateway (an in-memory http.RoundTripper that parks every request on the scheduler). What
// this file adds to the C06 plumbing is the pre-confirmed half: the endpoint get_preconfirmed_block (explicit
// block number and "latest", query parameters blockIdentifier / knownTransactionCount), answered from the
// model of the sequencer's rounds of preconf.go, rendered to the wire format by feedergen.PreConfirmedTree and
// decoded by the real client (starknet.DecodePreConfirmedUpdate + Validate); the definitions of the classes
// pre-confirmed transactions declare on the class endpoints; and the faults that exist on this seam:
//
//   - HTTP 500 / 503 / 429, connection error, a request held past the client timeout (retry and backoff run on
//     the bubble's fake clock), truncated / garbled body;
//   - well-formed answers that are not the truthful one: a by-number request answered with the round of another
//     slot, a "latest" full block labelled with another block number, a stale "latest" (a lower slot with its
//     number), a delta carrying another round identifier than the one asked for, a delta / no-change that
//     claims the asked round although the slot has moved to another round, a delta computed against another
//     knownTransactionCount than the one sent (overlapping or skipping transactions);
//   - well-formed JSON of the wrong shape (missing members, null members, mistyped block_number).
//
// The poller goroutine is a plain goroutine of the node: a panic there cannot be contained. Every answer that
// is not the truthful one is therefore first put through the same real code on the scheduler's goroutine
// (preflightPc); a panic there is reported under panic:preconfirmed_answer_processing:<site> and the answer
// is not sent.
//
// All oracles of c20.go are evaluated unchanged. What a view may hold under these faults is whatever the
// poller made of the answers; the statement judges the view against itself (contiguity, alignment,
// immutability, overlay of the view's own state diffs, lookups of the view's own items), not against the
// sequencer, so no relaxation is needed - with one exception that is no relaxation of the statement: a
// gateway that serves the same transactions twice puts one hash into a view more than once, and a lookup of
// that hash is then satisfied by ANY item of the view with that hash (dupItems).

import (
	"context"
	"encoding/json"
	"fmt"
	"net/http"
	"net/url"
	"reflect"
	"runtime/debug"
	"strconv"
	"strings"

	"github.com/NethermindEth/juno/adapters/sn2core"
	"github.com/NethermindEth/juno/clients/feeder"
	"github.com/NethermindEth/juno/core"
	"github.com/NethermindEth/juno/core/crypto"
	"github.com/NethermindEth/juno/core/felt"
	"github.com/NethermindEth/juno/core/pending"
	"github.com/NethermindEth/juno/starknet"
	adaptfeeder "github.com/NethermindEth/juno/starknetdata/feeder"
	jsync "github.com/NethermindEth/juno/sync"
	"github.com/NethermindEth/juno/sync/preconfirmed"

	"jsim/feedergen"
	"jsim/refstate"
	"jsim/sim"
)

type pcFeederCfg struct {
	garble      bool // truncated / garbled bodies of pre-confirmed answers
	wrongSlot   bool // by-number answered with another slot's round; latest labelled with another number
	staleLatest bool // latest answered with a lower slot
	wrongRound  bool // round identifier of the answer does not fit the request
	wrongDelta  bool // delta computed against another knownTransactionCount
	shape       bool // well-formed JSON of the wrong shape
}

type pcFeeder struct {
	p       *pcWorld
	cfg     pcFeederCfg
	nSynced int
	nWire   map[string]int
}

// drawC20Feeder decides whether a synchronizer-driven run belongs to the feeder class (1 in 3).
func drawC20Feeder(c *sim.Ctx, cfg *config) {
	t := c.T
	cfg.feeder = t.Chance("c20.feeder", 1, 3)
	switch c.Knobs["c20_feeder"] { // development aid (JSIM_KNOB_c20_feeder), never set by the props file
	case "1":
		cfg.feeder = true
	case "0":
		cfg.feeder = false
	}
	if !cfg.feeder {
		return
	}
	var fc feederCfg
	fc.timeouts = []string{"5s,", "2s,", "20s,"}[t.Draw("fg.timeouts", 3)] // one fixed value: see drawFeederCfg
	fc.maxRetries = []int{10, 2, 0}[t.Draw("fg.retries", 3)]
	if cfg.faulty {
		fc.timeoutF = t.Chance("fg.f.timeout", 1, 2)
	}
	// the committed side keeps serving valid blocks only (C06's subject); HTTP errors (cfg.errs) and held
	// requests hit both sides
	cfg.fc = fc
	// one DataSource call is several scheduler steps on the HTTP seam
	cfg.steps = cfg.steps * 3 / 2
}

// initFeeder runs before the first round of the sequencer model is generated.
func (p *pcWorld) initFeeder() {
	w := p.w
	t := w.c.T
	pf := &pcFeeder{p: p, nWire: map[string]int{}}
	if w.cfg.faulty {
		on := func(l string) bool { return t.Chance(l, 1, 2) }
		pf.cfg.garble = on("pcf.garble")
		pf.cfg.wrongSlot = on("pcf.wrongslot")
		pf.cfg.staleLatest = on("pcf.stalelatest")
		pf.cfg.wrongRound = on("pcf.wronground")
		pf.cfg.wrongDelta = on("pcf.wrongdelta")
		pf.cfg.shape = t.Chance("pcf.shape", 1, 4)
		if w.c.Knobs["c20_noshape"] == "1" { // development aid, never set by the props file
			pf.cfg.shape = false
		}
	}
	p.pf = pf
	// a class a gateway can transport: the adapter recomputes both hashes from what is on the wire
	p.m.realise = func(c *core.SierraClass) {
		ph := crypto.PoseidonArray(c.Program)
		ah := crypto.StarknetKeccak([]byte(c.Abi))
		c.ProgramHash, c.AbiHash = &ph, &ah
	}
	w.c.Logf("cfg: C20 feeder class %+v", pf.cfg)
}

// syncClasses makes the definitions of the classes pre-confirmed transactions declare available on the class
// endpoints (after checking that they survive the wire).
func (pf *pcFeeder) syncClasses() {
	p := pf.p
	w := p.w
	c := w.c
	if len(p.m.classes) == pf.nSynced {
		return
	}
	g := w.fg
	for _, h := range refstate.SortedFelts(p.m.classes) {
		w.mu.Lock()
		have := g.classes[h] != nil
		w.mu.Unlock()
		if have {
			continue
		}
		def := p.m.classes[h]
		rd, err := feedergen.RoundTripClass(def)
		if err != nil {
			c.Fail("feeder_preconfirmed_roundtrip", "class:error", "pre-confirmed class %s does not survive core -> feeder JSON -> sn2core: %v", h.String(), err)
		}
		if dp := diffPath(reflect.ValueOf(def), reflect.ValueOf(rd), "class"); dp != "" {
			c.Fail("feeder_preconfirmed_roundtrip", dp, "pre-confirmed class %s: sn2core adaptation of its feeder JSON differs at %s: %s", h.String(), dp, firstDiff(canon(def), canon(rd)))
		}
		if sc, ok := rd.(*core.SierraClass); ok {
			if hh, err := sc.Hash(); err != nil || !hh.Equal(&h) {
				c.Broken("realised pre-confirmed Sierra class does not hash to its key")
			}
		}
		w.mu.Lock()
		g.classes[h] = def
		w.mu.Unlock()
	}
	pf.nSynced = len(p.m.classes)
}

func (pf *pcFeeder) finish() {
	c := pf.p.w.c
	c.Probe("c20_feeder_class_run")
	if c.Probes["view_from_poller_storage"] > 0 {
		c.Probe("view_from_poller_storage_filled_over_the_wire")
	}
	if m, ok := c.Sample.(map[string]any); ok {
		fc := pf.p.w.cfg.fc
		m["feeder_client"] = map[string]any{"timeouts": fc.timeouts, "max_retries": fc.maxRetries, "wire_answers": pf.nWire}
	}
}

// ---- the request on the wire ---------------------------------------------------------------------------

// classifyPc runs on the node's goroutines (gateway.RoundTrip): get_preconfirmed_block?blockNumber=<n|latest>
// &blockIdentifier=<id>&knownTransactionCount=<k>.
func classifyPc(q url.Values, r *req, ep string) {
	txc, err := strconv.ParseUint(q.Get("knownTransactionCount"), 10, 64)
	if err != nil {
		r.kind, r.ident = "other", r.ident+":"+ep
		return
	}
	ident := q.Get("blockIdentifier")
	switch bn := q.Get("blockNumber"); bn {
	case "latest":
		r.kind = "pclatest"
	default:
		n, err := strconv.ParseUint(bn, 10, 64)
		if err != nil {
			r.kind, r.ident = "other", r.ident+":"+ep
			return
		}
		r.kind, r.n = "pcnum", n
	}
	r.ident, r.txc = ident, txc
}

// wirePc translates a pre-confirmed answer made of values (c20.go: answerPc) into the HTTP answer, and checks
// that the rendering is faithful: the real decoder must give back the same update.
func (g *gateway) wirePc(r *req, x resp) resp {
	num := uint64(0)
	if r.kind == "pclatest" {
		num = x.num
	}
	return resp{status: http.StatusOK, body: g.renderPc(x.upd, num, true)}
}

func (g *gateway) renderPc(upd starknet.PreConfirmedUpdate, num uint64, check bool) []byte {
	c := g.w.c
	t, err := feedergen.PreConfirmedTree(upd, num)
	c.Must(err, "render pre-confirmed update")
	body := feedergen.Encode(t)
	if !check {
		return body
	}
	back, num2, err := feedergen.DecodePreConfirmed(body)
	kind := pcKind(upd)
	if err != nil {
		c.Fail("feeder_preconfirmed_roundtrip", kind+":error", "a %s answer of get_preconfirmed_block does not survive wire JSON -> clients/feeder decoding: %v", kind, err)
	}
	if dp := diffPath(reflect.ValueOf(upd), reflect.ValueOf(back), kind); dp != "" {
		c.Fail("feeder_preconfirmed_roundtrip", dp, "a %s answer of get_preconfirmed_block decodes to something else at %s: %s", kind, dp, firstDiff(canon(upd), canon(back)))
	}
	if num2 != num {
		c.Fail("feeder_preconfirmed_roundtrip", kind+":block_number", "block_number %d of a %s answer decodes to %d", num, kind, num2)
	}
	c.Evals++
	c.Probe("pc_wire_roundtrip_checked")
	return body
}

func pcKind(upd starknet.PreConfirmedUpdate) string {
	switch upd.(type) {
	case starknet.PreConfirmedNoChange:
		return "no_change"
	case starknet.PreConfirmedDeltaUpdate:
		return "delta"
	case starknet.PreConfirmedBlock:
		return "full_block"
	}
	return fmt.Sprintf("%T", upd)
}

// ---- what a truthful gateway would answer ------------------------------------------------------------------

// truth computes, without draws, the truthful answer to r (ok=false: the slot is not served, HTTP 400).
func (pf *pcFeeder) truth(r *req) (rd *pcRound, upd starknet.PreConfirmedUpdate, num uint64, what string, ok bool) {
	m := pf.p.m
	switch r.kind {
	case "pclatest":
		rd = m.latest()
		if rd == nil {
			return nil, nil, 0, "", false
		}
		upd, what = rd.answer(r.ident, r.txc)
		return rd, upd, rd.num, what, true
	case "pcnum":
		rd = m.rounds[r.n]
		if rd == nil {
			return nil, nil, 0, "", false
		}
		upd, what = rd.answer(r.ident, r.txc)
		return rd, upd, 0, what, true
	}
	return nil, nil, 0, "", false
}

// ---- scheduler options of one parked pre-confirmed request -------------------------------------------------------

func (p *pcWorld) pcFeederOptions(r *req) []option {
	w := p.w
	g := w.fg
	pf := p.pf
	if r.kind == "class" || r.kind == "casm" {
		// a burst of class requests (the poller's declared-class fetch or the committed side's
		// fetchUnknownClasses): feeder.go decides it
		return g.requestOptions(r)
	}
	var opts []option
	add := func(name string, weight int, do func()) { opts = append(opts, option{name, weight, do}) }
	truthful := func() {
		pf.nWire["truthful"]++
		p.answerPc(r, "ok")
	}
	if r.cancelled() {
		add("ctxerr", 20, func() { w.answerCtxErr(r) })
		add("ok", 3, truthful)
		return opts
	}
	add("ok", 12, truthful)
	if w.cfg.errs {
		add("http500", 1, func() { g.answerStatus(r, http.StatusInternalServerError) })
		add("http503", 1, func() { g.answerStatus(r, http.StatusServiceUnavailable) })
		add("http429", 1, func() { g.answerStatus(r, http.StatusTooManyRequests) })
		add("connerr", 1, func() { g.answerConnErr(r) })
	}
	if !w.cfg.faulty {
		return opts
	}
	m := p.m
	rd, upd, _, _, served := pf.truth(r)
	if pf.cfg.garble && served {
		add("truncated", 1, func() { pf.answerBroken(r, "truncated") })
		add("garbled", 1, func() { pf.answerBroken(r, "garbled") })
	}
	if pf.cfg.wrongSlot {
		switch r.kind {
		case "pcnum":
			var others []uint64
			for _, n := range m.sortedNums() {
				if n != r.n {
					others = append(others, n)
				}
			}
			if len(others) > 0 {
				add("otherslot", 2, func() {
					o := m.rounds[others[w.c.T.Draw("pcf.otherslot", len(others))]]
					u, what := o.answer(r.ident, r.txc)
					pf.answerWrong(r, u, 0, "answer_for_another_slot", fmt.Sprintf("slot %d asked, the answer is slot %d's: %s", r.n, o.num, what))
				})
			}
		case "pclatest":
			if _, full := upd.(starknet.PreConfirmedBlock); full && served {
				add("wrongnum", 2, func() {
					d := []int{1, 2, -1}[w.c.T.Draw("pcf.wrongnum", 3)]
					num := int(rd.num) + d
					if num < 1 {
						num = int(rd.num) + 1
					}
					pf.answerWrong(r, upd, uint64(num), "latest_with_wrong_block_number", fmt.Sprintf("full block %s of slot %d labelled block_number %d", rd.ident, rd.num, num))
				})
			}
		}
	}
	if pf.cfg.staleLatest && r.kind == "pclatest" && served {
		var lower []uint64
		for _, n := range m.sortedNums() {
			if n < rd.num {
				lower = append(lower, n)
			}
		}
		if len(lower) > 0 {
			add("stalelatest", 2, func() {
				o := m.rounds[lower[w.c.T.Draw("pcf.stalelatest", len(lower))]]
				u, what := o.answer(r.ident, r.txc)
				pf.answerWrong(r, u, o.num, "stale_latest", fmt.Sprintf("latest is slot %d, the answer is slot %d: %s", rd.num, o.num, what))
			})
		}
	}
	if pf.cfg.wrongRound && served {
		if d, isDelta := upd.(starknet.PreConfirmedDeltaUpdate); isDelta {
			add("otherround", 2, func() {
				d.BlockIdentifier = "0xbad1d"
				pf.answerWrong(r, d, pf.latestNum(r, rd), "delta_with_another_round_identifier", fmt.Sprintf("delta of round %s labelled %s", rd.ident, d.BlockIdentifier))
			})
		}
		if r.ident != rd.ident && r.ident != feeder.PreConfirmedBlankIdentifier {
			if int(r.txc) < len(rd.txs) {
				add("claimsround", 2, func() {
					d := rd.delta(int(r.txc))
					d.BlockIdentifier = r.ident
					pf.answerWrong(r, d, pf.latestNum(r, rd), "delta_claiming_the_asked_round", fmt.Sprintf("slot %d is at round %s, the answer is its transactions from %d on labelled with the asked round %s", rd.num, rd.ident, r.txc, r.ident))
				})
			}
			add("nochange", 1, func() {
				pf.answerWrong(r, starknet.PreConfirmedNoChange{}, 0, "no_change_for_another_round", fmt.Sprintf("slot %d is at round %s, the answer to round %s is no-change", rd.num, rd.ident, r.ident))
			})
		}
	}
	if pf.cfg.wrongDelta && served && r.ident == rd.ident {
		var froms []int
		for k := 0; k < len(rd.txs); k++ {
			if k != int(r.txc) {
				froms = append(froms, k)
			}
		}
		if len(froms) > 0 {
			add("wrongdelta", 2, func() {
				k := froms[w.c.T.Draw("pcf.wrongdelta", len(froms))]
				kind := "delta_skipping_transactions"
				if k < int(r.txc) {
					kind = "delta_overlapping_known_transactions"
				}
				pf.answerWrong(r, rd.delta(k), pf.latestNum(r, rd), kind, fmt.Sprintf("knownTransactionCount %d sent, the delta of round %s starts at transaction %d (of %d)", r.txc, rd.ident, k, len(rd.txs)))
			})
		}
	}
	if pf.cfg.shape && served {
		add("shape", 1, func() { pf.answerShape(r, rd) })
	}
	return opts
}

// latestNum: the block_number member of an answer about round rd (0 = not sent: by-number answers).
func (pf *pcFeeder) latestNum(r *req, rd *pcRound) uint64 {
	if r.kind == "pclatest" {
		return rd.num
	}
	return 0
}

// answerWrong sends a well-formed, valid answer that is not the truthful one.
func (pf *pcFeeder) answerWrong(r *req, upd starknet.PreConfirmedUpdate, num uint64, kind, what string) {
	w := pf.p.w
	g := w.fg
	if r.kind != "pclatest" {
		num = 0
	}
	body := g.renderPc(upd, num, true)
	w.c.Fault("pc_wire_wrong_answer")
	w.c.Fault("pc_wire_" + kind)
	pf.nWire[kind]++
	w.logf("answer %s: WRONG ANSWER (%s): %s", r.key, kind, what)
	pf.preflightPc(r, body, kind)
	w.release(r, resp{status: http.StatusOK, body: body})
}

func (pf *pcFeeder) truthBody(r *req) []byte {
	_, upd, num, _, ok := pf.truth(r)
	if !ok {
		return nil
	}
	return pf.p.w.fg.renderPc(upd, num, false)
}

func (pf *pcFeeder) answerBroken(r *req, mode string) {
	w := pf.p.w
	body := pf.truthBody(r)
	switch mode {
	case "truncated":
		cut := w.c.T.Draw("truncate.at", len(body))
		body = body[:cut]
		w.c.Fault("pc_wire_truncated_body")
		w.logf("answer %s: body truncated to %d bytes", r.key, cut)
	case "garbled":
		at := w.c.T.Draw("garble.at", len(body))
		body = append([]byte(nil), body...)
		body[at] = 0 // a raw control character is illegal everywhere in JSON text
		w.c.Fault("pc_wire_garbled_body")
		w.logf("answer %s: body garbled at byte %d", r.key, at)
	}
	pf.nWire[mode]++
	pf.preflightPc(r, body, mode)
	w.release(r, resp{status: http.StatusOK, body: body})
}

// answerShape: well-formed JSON that is not the object the endpoint promises.
func (pf *pcFeeder) answerShape(r *req, rd *pcRound) {
	w := pf.p.w
	c := w.c
	full := func() map[string]any {
		t, err := feedergen.PreConfirmedTree(rd.full(), pf.latestNum(r, rd))
		c.Must(err, "render pre-confirmed block")
		return t
	}
	first := func(t map[string]any, list string) map[string]any {
		l, _ := t[list].([]any)
		if len(l) == 0 {
			return nil
		}
		m, _ := l[0].(map[string]any)
		return m
	}
	var t any
	what := ""
	variants := 7
	if len(rd.txs) > 0 {
		variants = 16
	}
	switch c.T.Draw("shape.pc", variants) {
	case 0:
		t, what = map[string]any{}, "empty_object"
	case 1:
		t, what = map[string]any{"changed": true}, "changed_only"
	case 2:
		m := full()
		m["block_number"] = "0x10"
		t, what = m, "block_number_as_string"
	case 3:
		m := full()
		m["block_number"] = json.Number("-1")
		t, what = m, "block_number_negative"
	case 4:
		m := full()
		m["block_number"] = json.Number("18446744073709551616")
		t, what = m, "block_number_overflow"
	case 5:
		m := full()
		m["l1_gas_price"] = map[string]any{}
		m["l2_gas_price"] = map[string]any{}
		m["l1_data_gas_price"] = map[string]any{}
		t, what = m, "gas_prices_empty_objects"
	case 6:
		m := full()
		m["transactions"], m["transaction_receipts"], m["transaction_state_diffs"] = nil, nil, nil
		t, what = m, "lists_null"
	case 7:
		m := full()
		delete(first(m, "transactions"), "calldata")
		t, what = m, "transaction_without_calldata"
	case 8:
		m := full()
		delete(first(m, "transactions"), "signature")
		t, what = m, "transaction_without_signature"
	case 9:
		m := full()
		first(m, "transaction_state_diffs")["declared_classes"] = []any{map[string]any{"class_hash": nil, "compiled_class_hash": nil}}
		t, what = m, "declared_class_without_hash"
	case 10:
		m := full()
		l := m["transaction_receipts"].([]any)
		l[0] = map[string]any{}
		t, what = m, "receipt_empty_object"
	case 11:
		m := full()
		tx := first(m, "transactions")
		delete(tx, "transaction_hash")
		delete(tx, "type")
		t, what = m, "transaction_without_hash_and_type"
	case 13:
		m := full()
		l := m["transaction_receipts"].([]any)
		m["transaction_receipts"] = l[:len(l)-1]
		t, what = m, "fewer_receipts_than_transactions"
	case 14:
		m := full()
		l := m["transaction_state_diffs"].([]any)
		m["transaction_state_diffs"] = l[:len(l)-1]
		t, what = m, "fewer_state_diffs_than_transactions"
	case 15:
		m := full()
		m["transaction_receipts"].([]any)[0] = nil
		m["transaction_state_diffs"].([]any)[0] = nil
		t, what = m, "receipt_and_state_diff_null"
	default:
		m := full()
		sd := first(m, "transaction_state_diffs")
		sd["storage_diffs"] = map[string]any{"0x1": []any{map[string]any{"key": nil, "value": nil}}}
		sd["nonces"] = map[string]any{"0x1": nil}
		sd["deployed_contracts"] = []any{map[string]any{"address": nil, "class_hash": nil}}
		t, what = m, "state_diff_with_null_members"
	}
	body := feedergen.Encode(t)
	c.Fault("pc_wire_wrong_shape_json")
	c.Fault("pc_wire_wrong_shape_" + what)
	pf.nWire["wrong_shape"]++
	w.logf("answer %s: well-formed JSON of the wrong shape (%s)", r.key, what)
	pf.preflightPc(r, body, "wrong_shape_"+what)
	w.release(r, resp{status: http.StatusOK, body: body})
}

// ---- pre-flight ------------------------------------------------------------------------------------------

// instantPcRT answers at once (no park): the body under test for get_preconfirmed_block, truthful class definitions.
type instantPcRT struct {
	g    *gateway
	body []byte
}

func (t *instantPcRT) RoundTrip(hr *http.Request) (*http.Response, error) {
	q := hr.URL.Query()
	ep := hr.URL.Path[strings.LastIndexByte(hr.URL.Path, '/')+1:]
	code, body := http.StatusBadRequest, []byte(`{"code":"StarknetErrorCode.UNDECLARED_CLASS","message":"not declared"}`)
	switch ep {
	case "get_preconfirmed_block":
		code, body = http.StatusOK, t.body
	case "get_class_by_hash", "get_compiled_class_by_class_hash":
		kind := "class"
		if ep != "get_class_by_hash" {
			kind = "casm"
		}
		if h, err := felt.FromString[felt.Felt](q.Get("classHash")); err == nil {
			if b := pureClassBody(kind, t.g.classes[h]); b != nil {
				code, body = http.StatusOK, b
			}
		}
	}
	return httpResponse(hr, code, body), nil
}

// preflightPc puts a body that is not the truthful one through the code the poller goroutine is going to run
// on it, on the scheduler's goroutine: a second real feeder client over a transport that answers at once, the
// real starknetdata/feeder adapter and feederGatewayDataSource (PreConfirmedBlockLatest / ByNumber: decoding,
// discrimination, validation, the latest-number guard); then, for an update the client accepts, what
// Poller.backfill / Poller.apply do with it: the definitions of the classes its state diffs declare are
// fetched through the same data source (Poller.fetchDeclaredClasses; in the order of the update, stopping at
// the first error as the poller does) and the update is applied to a ChainStorage - a fresh one for a full
// block (bootstrap = the same adapter call as extend / replaceSlot), the merge into the node's present tip
// entry for a delta of the tip's round. A panic there is the panic the node's poller goroutine would die of.
// Last, the entry that results is looked at the way readers do (TransactionByHash / ReceiptByHash through a
// view made of it): an answer that the poller stores without trouble but that makes every reader's lookup
// panic is reported as panic:preconfirmed_answer_processing:view_lookup:<site>.
func (pf *pcFeeder) preflightPc(r *req, body []byte, what string) {
	w := pf.p.w
	g := w.fg
	u, _ := url.Parse(gwURL)
	cl := feeder.NewClient(u, feeder.WithHTTPClient(&http.Client{Transport: &instantPcRT{g: g, body: body}}), feeder.WithMaxRetries(0))
	ds := jsync.NewFeederGatewayDataSource(w.bc, adaptfeeder.New(cl))
	var tip *pending.PreConfirmed
	if ch, err := w.syn.PreConfirmedChain(); err == nil && ch.Length() > 0 {
		tip = ch.Head()
	}
	ident := r.ident
	if ident == feeder.PreConfirmedBlankIdentifier {
		ident = ""
	}
	var pv any
	var stack string
	stage := ""
	var entry *pending.PreConfirmed
	func() {
		defer func() {
			if pv = recover(); pv != nil {
				stack = string(debug.Stack())
			}
		}()
		ctx := context.Background()
		var upd starknet.PreConfirmedUpdate
		var err error
		num := r.n
		if r.kind == "pclatest" {
			upd, num, err = ds.PreConfirmedBlockLatest(ctx, ident, r.txc)
		} else {
			upd, err = ds.PreConfirmedBlockByNumber(ctx, r.n, ident, r.txc)
		}
		if err != nil {
			return
		}
		var diffs []*starknet.StateDiff
		switch x := upd.(type) {
		case starknet.PreConfirmedBlock:
			diffs = x.TransactionStateDiffs
		case starknet.PreConfirmedDeltaUpdate:
			diffs = x.TransactionStateDiffs
		}
		classesOK := true
	fetch:
		for _, sd := range diffs {
			for _, h := range sd.OldDeclaredContracts {
				if _, err := ds.Class(ctx, h); err != nil {
					classesOK = false
					break fetch
				}
			}
			for i := range sd.DeclaredClasses {
				if _, err := ds.Class(ctx, sd.DeclaredClasses[i].ClassHash); err != nil {
					classesOK = false
					break fetch
				}
			}
		}
		_ = classesOK // (the tick's own apply does not fetch classes: the update is applied either way)
		switch x := upd.(type) {
		case starknet.PreConfirmedBlock:
			if num == 0 {
				num = 1
			}
			if e, err := preconfirmed.NewChainStorage().ApplyUpdate(x, num, 0, num, nil); err == nil {
				entry = e
			}
		case starknet.PreConfirmedDeltaUpdate:
			if tip != nil {
				if e, err := sn2core.AdaptPreConfirmedWithDelta(tip, &x); err == nil {
					entry = &e
				}
			}
		}
		// the entry the poller would publish, as readers use it: hash lookups walk its transactions and receipts
		if entry != nil {
			stage = "view_lookup:"
			ch, err := preconfirmed.NewChain(entry)
			if err != nil {
				return
			}
			for _, tx := range entry.Block.Transactions {
				if h := tx.Hash(); h != nil {
					_, _ = ch.TransactionByHash(h)
					_, _, _ = ch.ReceiptByHash(h)
				}
			}
			_, _ = ch.TransactionByHash(fu(0x123456789))
			_, _, _ = ch.ReceiptByHash(fu(0x123456789))
		}
	}()
	w.c.Evals++
	w.c.Probe("pc_wire_answer_preflighted")
	if pv != nil {
		who := "the pre-confirmed poller's code"
		if stage != "" {
			who = "a reader's hash lookup through a view holding the entry the poller would store"
		}
		w.c.Fail("panic", "preconfirmed_answer_processing:"+stage+junoSite(stack),
			"the answer to %s (%s) makes %s panic: %v\n%s", r.key, what, who, pv, stack)
	}
}

// ---- views that hold one transaction hash more than once ---------------------------------------------------

type dupItem struct {
	tx  core.Transaction
	rc  *core.TransactionReceipt
	num uint64
}

type dupSet map[felt.Felt][]dupItem

// dupItems lists, for every transaction hash that occurs more than once in a view, the items that carry it.
// nil when every hash occurs once (always, unless a gateway served the same transactions twice).
func dupItems(entries []*pending.PreConfirmed) dupSet {
	cnt := map[felt.Felt]int{}
	rep := false
	for _, e := range entries {
		for _, tx := range e.Block.Transactions {
			h := *tx.Hash()
			cnt[h]++
			rep = rep || cnt[h] > 1
		}
	}
	if !rep {
		return nil
	}
	out := dupSet{}
	for _, e := range entries {
		for i, tx := range e.Block.Transactions {
			if h := *tx.Hash(); cnt[h] > 1 {
				out[h] = append(out[h], dupItem{tx: tx, rc: e.Block.Receipts[i], num: e.Block.Number})
			}
		}
	}
	return out
}

func (d dupSet) hasTx(h *felt.Felt, got core.Transaction) bool {
	for _, it := range d[*h] {
		if it.tx == got {
			return true
		}
	}
	return false
}

func (d dupSet) hasReceipt(h *felt.Felt, rc *core.TransactionReceipt, num uint64) bool {
	for _, it := range d[*h] {
		if it.rc == rc && it.num == num {
			return true
		}
	}
	return false
}
