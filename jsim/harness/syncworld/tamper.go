package syncworld

import (
	"github.com/NethermindEth/juno/core"
	"github.com/NethermindEth/juno/core/felt"

	"jsim/chaingen"
	"jsim/refstate"
)

func bump(f *felt.Felt) *felt.Felt {
	var x felt.Felt
	if f != nil {
		x.Add(f, &felt.One)
	} else {
		x = felt.One
	}
	return &x
}

// payload is what a BlockByNumber response carries.
type payload struct {
	b       *core.Block
	su      *core.StateUpdate
	classes map[felt.Felt]core.ClassDefinition
}

func cleanPayload(m *chaingen.Block) payload {
	return payload{b: CloneBlock(m.B), su: CloneStateUpdate(m.SU), classes: m.Classes}
}

// tamperKinds lists the single-field corruptions applicable to block m. Every one of them changes a
// field that the block hash, a transaction hash, a class hash or the state commitment of the
// protocol versions generated here (>= 0.13.2) commits to, so a verifying node must reject the
// result. Kinds ending in "_rehash" recompute the block hash after the change, so that only the
// state-root check at store time can reject them.
func (w *world) tamperKinds(m *chaingen.Block) []string {
	ks := []string{"hash", "hash_header_only", "parent", "timestamp", "sequencer", "txcount", "eventcount", "l1gas",
		"state_root", "state_root_rehash", "old_root", "diff"}
	for _, a := range refstate.SortedFelts(m.Post.Contracts) {
		if !m.Post.Contracts[a].System {
			ks = append(ks, "diff_rehash")
			break
		}
	}
	for _, tx := range m.B.Transactions {
		if _, legacy := tx.(*core.DeployTransaction); !legacy {
			ks = append(ks, "tx_field")
			break
		}
	}
	if len(m.B.Receipts) > 0 {
		ks = append(ks, "receipt_fee")
		for _, r := range m.B.Receipts {
			if len(r.Events) > 0 {
				ks = append(ks, "event_data")
				break
			}
		}
	}
	for _, h := range refstate.SortedFelts(m.Classes) {
		if _, ok := m.Classes[h].(*core.SierraClass); ok {
			ks = append(ks, "sierra_class")
			break
		}
	}
	return ks
}

func (w *world) rehash(p *payload) {
	h, _, err := core.BlockHash(p.b, p.su.StateDiff, w.drv.g.Net, nil, core.DeprecatedTrieBackend)
	w.c.Must(err, "recompute block hash of a tampered block")
	p.b.Hash = &h
	p.su.BlockHash = &h
}

// tamper returns a deep copy of m with exactly one committed field changed.
func (w *world) tamper(m *chaingen.Block, kind string) payload {
	p := cleanPayload(m)
	switch kind {
	case "hash":
		h := bump(p.b.Hash)
		p.b.Hash, p.su.BlockHash = h, h
	case "hash_header_only":
		p.b.Hash = bump(p.b.Hash)
	case "parent":
		p.b.ParentHash = bump(p.b.ParentHash)
	case "timestamp":
		p.b.Timestamp++
	case "sequencer":
		p.b.SequencerAddress = bump(p.b.SequencerAddress)
	case "txcount":
		p.b.TransactionCount++
	case "eventcount":
		p.b.EventCount++
	case "l1gas":
		p.b.L1GasPriceETH = bump(p.b.L1GasPriceETH)
	case "state_root", "state_root_rehash":
		r := bump(p.b.GlobalStateRoot)
		p.b.GlobalStateRoot, p.su.NewRoot = r, r
		if kind == "state_root_rehash" {
			w.rehash(&p)
		}
	case "old_root":
		p.su.OldRoot = bump(p.su.OldRoot)
	case "diff":
		d := p.su.StateDiff
		done := false
		for _, a := range refstate.SortedFelts(d.StorageDiffs) {
			for _, k := range refstate.SortedFelts(d.StorageDiffs[a]) {
				d.StorageDiffs[a][k] = bump(d.StorageDiffs[a][k])
				done = true
				break
			}
			if done {
				break
			}
		}
		if !done {
			for _, a := range refstate.SortedFelts(d.Nonces) {
				d.Nonces[a] = bump(d.Nonces[a])
				done = true
				break
			}
		}
		if !done {
			a := w.drv.g.Addrs[0]
			d.StorageDiffs[a] = map[felt.Felt]*felt.Felt{w.drv.g.Slots[1]: felt.NewFromUint64[felt.Felt](7)}
		}
	case "diff_rehash":
		d := p.su.StateDiff
		for _, a := range refstate.SortedFelts(m.Post.Contracts) {
			ct := m.Post.Contracts[a]
			if ct.System {
				continue
			}
			k := w.drv.g.Slots[1]
			cur := ct.Storage[k]
			nv := bump(&cur)
			if nv.IsZero() {
				nv = felt.NewFromUint64[felt.Felt](5)
			}
			if d.StorageDiffs[a] == nil {
				d.StorageDiffs[a] = map[felt.Felt]*felt.Felt{}
			}
			d.StorageDiffs[a][k] = nv
			break
		}
		w.rehash(&p)
	case "tx_field":
		for _, tx := range p.b.Transactions {
			switch t := tx.(type) {
			case *core.InvokeTransaction:
				t.CallData = append(append([]felt.Felt(nil), t.CallData...), felt.One)
			case *core.DeclareTransaction:
				t.SenderAddress = bump(t.SenderAddress)
			case *core.DeployAccountTransaction:
				t.ContractAddressSalt = bump(t.ContractAddressSalt)
			case *core.L1HandlerTransaction:
				t.CallData = append(append([]felt.Felt(nil), t.CallData...), felt.One)
			default:
				continue
			}
			break
		}
	case "receipt_fee":
		p.b.Receipts[0].Fee = bump(p.b.Receipts[0].Fee)
	case "event_data":
		for _, r := range p.b.Receipts {
			if len(r.Events) > 0 {
				ev := r.Events[0]
				ev.Data = append(append([]felt.Felt(nil), ev.Data...), felt.One)
				break
			}
		}
	case "sierra_class":
		cl := make(map[felt.Felt]core.ClassDefinition, len(m.Classes))
		done := false
		for _, h := range refstate.SortedFelts(m.Classes) {
			def := m.Classes[h]
			if sc, ok := def.(*core.SierraClass); ok && !done {
				cp := Clone(sc)
				cp.ProgramHash = bump(cp.ProgramHash)
				def = cp
				done = true
			}
			cl[h] = def
		}
		p.classes = cl
	default:
		w.c.Broken("unknown tamper kind %q", kind)
	}
	return p
}
